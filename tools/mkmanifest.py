#!/usr/bin/env python3
"""Regenerates /verif/MANIFEST.json from the table below (kept in one place so the manifest stays valid)."""
import json, os
V = os.path.dirname(os.path.dirname(os.path.abspath(__file__)))
props = [json.loads(l) for l in open(os.path.join(V, 'properties.jsonl'))]
BASE_OFF = ("cd /repo && env -u BCTPY_VERIF /venv/bin/python -m pytest -ra -q -p no:cacheprovider --timeout=900 "
            "--continue-on-collection-errors --junitxml=/tmp/bctpy_baseline_off.junit.xml")
NOTE = ("Trusted: Lean 4.33.0 kernel (thorough tier re-checks the .olean files with leanchecker); per-theorem axioms audited on every run "
        "(subset of propext, Classical.choice, Quot.sound; no sorry/admit/native_decide/bv_decide/axiom - grep on every run); the hand-written "
        "Lean model is tied to /repo's working tree only by the correspondence run of this check (differential testing on generated inputs "
        "with recorded random draws) and by the independent Python predicates evaluated on the real outputs; NumPy/SciPy semantics; "
        "floating point is outside the theorems (exact inputs or stated tolerance).")
# property id -> (technique, level text, design ref)   -- only properties whose check exists
CLAIMED = json.load(open(os.path.join(V, 'tools', 'claimed.json')))
cd = os.path.join(V, 'tools', 'claimed.d')
if os.path.isdir(cd):
    for f in sorted(os.listdir(cd)):
        if f.endswith('.json'):
            CLAIMED.update(json.load(open(os.path.join(cd, f))))
EXCL = set(filter(None, os.environ.get('MANIFEST_EXCLUDE', '').split(',')))
for x in EXCL:
    CLAIMED.pop(x, None)
checks, na = [], []
for p in props:
    pid = p['id']
    if pid in CLAIMED:
        c = CLAIMED[pid]
        checks.append({
            'property_id': pid,
            'quick_cmd': './check %s --tier quick' % pid,
            'thorough_cmd': './check %s --tier thorough' % pid,
            'evidence_file': 'evidence/%s.json' % pid,
            'replay_cmd_template': './check %s --replay {path}' % pid,
            'engine': 'lean4+correspondence',
            'level_claimed': {'category': 'proof', 'text': c['text'], 'design_ref': 'DESIGN.md Part II, section II.' + pid},
            'level_note': c.get('note', NOTE),
            'technique': c['technique'],
        })
    else:
        na.append({'property_id': pid, 'reason': 'no check is registered for this property in this commit: its model/theorems are not built yet (work in progress, not a claim that proof cannot apply)'})
m = {
    'version': 1,
    'setup_cmd': 'cd lean && lake build',
    'hooks': {'guard': 'BCTPY_VERIF', 'enable': 'no hook exists in /repo: no source line reads the variable, which is reserved (the harness sets BCTPY_VERIF=1 before importing bct from the current working tree of /repo); all /repo commits of this work are unguarded fix: commits',
              'baseline_off_cmd': BASE_OFF, 'source_commits': json.load(open(os.path.join(V, 'tools', 'hook_commits.json'))), 'add_only': True},
    'engines': [{'name': 'lean4+correspondence', 'path': 'lean/ , harness/', 'serves_properties': sorted(CLAIMED),
                 'kind_free_text': 'Lean 4 theorems about hand-written executable models + generated IR obligations; correspondence harness drives the models and the real bct on the same inputs'}],
    'checks': checks,
    'notes': 'See DESIGN.md (Part I architecture and trusted base, Part II one section per property, Part III findings and seeded changes). known_findings.json + known_findings.d/ list recorded defects (open) and repaired ones (fixed). Every property is decided at level proof, but the theorems are about models: each claim text lists, under NOT PROVED / predicate only, the clauses that are not theorems and rest on the correspondence or on independent predicates (floating-point evaluation of log / sqrt / LAPACK results, modularity_louvain_dir beyond its first level (open defect D6), option variants and a few routines without a model - listed per property). The model is tied to the current source twice: by the correspondence on generated inputs and by generated obligations over IRs extracted from the source on every run (translate/*.py); source pins among the latter carry no semantics and are labelled as such (notes/TGEN.md).',
    'not_applicable': na,
}
json.dump(m, open(os.path.join(V, 'MANIFEST.json'), 'w'), indent=1)
print('claimed', len(checks), 'not claimed', len(na))
