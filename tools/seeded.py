#!/usr/bin/env python3
"""Seeded-breakage bookkeeping.

  tools/seeded.py import <dir-with-patch.diff,demo.py,meta.json> <id>   copy into /verif/seeded/<id>/
  tools/seeded.py verify <id> [--scratch]                             confirm the change is a valid seed:
        demo passes on the clean tree, fails with the patch (both in a scratch worktree outside /repo and /verif)
  tools/seeded.py run <id> [--in-repo] [--tier quick]                  run the property's check against the change:
        default: on a scratch worktree of /repo with the patch applied (BCT_REPO override; safe while other
        work uses /repo); --in-repo: `git -C /repo apply`, run, `git -C /repo checkout -- .` straight afterwards.
  tools/seeded.py table                                               markdown table of all seeds and outcomes
"""
import sys, os, json, subprocess, shutil, tempfile, re
V = os.path.dirname(os.path.dirname(os.path.abspath(__file__)))
S = os.environ.get('SEEDED_DIR') or os.path.join(V, 'seeded')


def sh(cmd, cwd=None, timeout=3000, env=None):
    p = subprocess.run(cmd, shell=True, cwd=cwd, capture_output=True, text=True, timeout=timeout, env=env)
    return p.returncode, p.stdout + p.stderr


def worktree():
    d = tempfile.mkdtemp(prefix='bctseed_', dir='/tmp')
    os.rmdir(d)
    rc, out = sh('git -C /repo worktree add -q --detach %s HEAD' % d)
    assert rc == 0, out
    return d


def drop(d):
    sh('git -C /repo worktree remove --force %s' % d)
    shutil.rmtree(d, ignore_errors=True)


def cmd_import(src, sid):
    d = os.path.join(S, sid); os.makedirs(d, exist_ok=True)
    for f in ('patch.diff', 'demo.py', 'equiv.py', 'meta.json'):
        if os.path.exists(os.path.join(src, f)):
            shutil.copy(os.path.join(src, f), os.path.join(d, f))
    print('imported', sid)


def cmd_verify(sid):
    d = os.path.join(S, sid); w = worktree()
    try:
        env = dict(os.environ, PYTHONPATH=w)
        rc0, out0 = sh('timeout 600 /venv/bin/python %s/demo.py' % d, cwd=w, env=env)
        rca, outa = sh('git apply %s/patch.diff' % d, cwd=w)
        rc1, out1 = sh('timeout 600 /venv/bin/python %s/demo.py' % d, cwd=w, env=env)
        res = {'demo_clean_rc': rc0, 'apply_rc': rca, 'demo_patched_rc': rc1, 'demo_patched_tail': out1[-400:]}
        ok = rc0 == 0 and rca == 0 and rc1 != 0
        res['valid_seed'] = ok
        json.dump(res, open(os.path.join(d, 'verify.json'), 'w'), indent=1)
        print(sid, 'valid' if ok else 'INVALID', res if not ok else '')
    finally:
        drop(w)


def head(repo):
    return sh('git -C %s rev-parse --short HEAD' % repo)[1].strip()


def cmd_run(sid, in_repo=False, tier='quick', props=None, seeds=('0',)):
    """results per check and per VERIF_SEED; the first replay file a VIOLATION line cites is copied to seeded/<id>/replay_<check>.json"""
    d = os.path.join(S, sid)
    meta = json.load(open(os.path.join(d, 'meta.json')))
    props = props or ([meta['property']] if 'property' in meta else list(meta['properties']))
    results = {}

    def one(p, env):
        per = {}
        for sd in seeds:
            rc, out = sh('timeout 3000 ./check %s --tier %s' % (p, tier), cwd=V, env=dict(env, VERIF_SEED=sd))
            lines = [l for l in out.split('\n') if l.startswith(('VIOLATION', 'KNOWN-FINDING', p))]
            per[sd] = {'rc': rc, 'lines': [l for l in lines if not l.startswith('KNOWN-FINDING')][:12]}
            for l in lines:
                m = re.match(r'VIOLATION property=\S+ replay=(\S+)', l)
                if m and os.path.exists(m.group(1)):
                    dst = os.path.join(d, 'replay_%s.json' % p)
                    if not os.path.exists(dst) or sd == seeds[0]:
                        shutil.copy(m.group(1), dst)
                    if os.path.dirname(m.group(1)) == os.path.join(V, 'replays'):
                        os.remove(m.group(1))
        results[p] = {'rc': max(x['rc'] for x in per.values()) if all(x['rc'] in (0, 1) for x in per.values()) else 2,
                      'caught_on_seeds': [sd for sd in seeds if per[sd]['rc'] == 1], 'lines': per[seeds[0]]['lines'], 'by_seed': per}
    if in_repo:
        rc, out = sh('git -C /repo status --porcelain')
        assert out.strip() == '', '/repo not clean: ' + out
        rc, out = sh('git -C /repo apply %s/patch.diff' % d); assert rc == 0, out
        try:
            for p in props:
                one(p, dict(os.environ, BCT_EVIDENCE='/tmp/bct_seed_evidence'))
        finally:
            sh('git -C /repo checkout -- .')
            sh('git -C %s checkout -- lean/BctVerif/Gen' % V)
    else:
        w = worktree()
        try:
            rc, out = sh('git apply %s/patch.diff' % d, cwd=w); assert rc == 0, out
            # private copy of the lake project: checks regenerate lean/BctVerif/Gen/*.lean from the (patched) source
            lean = w + '_lean'
            sh('rm -rf %s && cp -r %s %s' % (lean, os.path.join(V, 'lean'), lean))
            env = dict(os.environ, BCT_REPO=w, BCT_LEAN=lean, BCT_EVIDENCE='/tmp/bct_seed_evidence_' + sid)
            for p in props:
                one(p, env)
        finally:
            drop(w); shutil.rmtree(w + '_lean', ignore_errors=True); shutil.rmtree('/tmp/bct_seed_evidence_' + sid, ignore_errors=True)
    caught = any(r['rc'] == 1 for r in results.values())
    json.dump({'mode': 'in-repo' if in_repo else 'scratch-worktree', 'tier': tier, 'caught': caught, 'seeds': list(seeds),
               'verif_head': head(V), 'repo_head': head('/repo'), 'checks': results},
              open(os.path.join(d, 'result_%s.json' % tier), 'w'), indent=1)
    print(sid, 'CAUGHT' if caught else 'MISSED', {p: r['caught_on_seeds'] for p, r in results.items()})
    for p, r in results.items():
        for l in r['lines'][:4]:
            print('   ', l[:200])


def cmd_table():
    print('| seed | property | what it breaks | needs | caught by (quick) |')
    print('|---|---|---|---|---|')
    for sid in sorted(os.listdir(S)):
        d = os.path.join(S, sid)
        if not os.path.exists(os.path.join(d, 'meta.json')):
            continue
        m = json.load(open(os.path.join(d, 'meta.json')))
        r = {}
        for t in ('quick', 'thorough'):
            f = os.path.join(d, 'result_%s.json' % t)
            if os.path.exists(f):
                r[t] = json.load(open(f))
        def how(x):
            vl = [l for l in x['lines'] if l.startswith('VIOLATION')]
            if x['rc'] != 1:
                return None
            if vl and all('no-failing-input-found' in l for l in vl):
                return 'broken obligation/correspondence only (no-failing-input-found)'
            preds = sorted({w.split('=', 1)[1] for l in vl for w in l.split() if w.startswith('predicate=')})
            return 'failing input: ' + ', '.join(preds[:4])
        c = '; '.join('%s: %s' % (t, ', '.join('%s (%s)' % (p, how(x)) for p, x in v['checks'].items() if x['rc'] == 1) or 'MISSED') for t, v in r.items()) or 'not run'
        cl = lambda z: str(z).replace('|', '/').replace('\n', ' ')
        print('| %s | %s | %s | %s | %s |' % (sid, m.get('property'), cl(m.get('clause'))[:110], cl(m.get('needs'))[:110], c))


if __name__ == '__main__':
    a = sys.argv[1:]
    if a[0] == 'import':
        cmd_import(a[1], a[2])
    elif a[0] == 'verify':
        cmd_verify(a[1])
    elif a[0] == 'run':
        tier = a[a.index('--tier') + 1] if '--tier' in a else 'quick'
        props = a[a.index('--props') + 1].split(',') if '--props' in a else None
        seeds = tuple(a[a.index('--seeds') + 1].split(',')) if '--seeds' in a else ('0',)
        cmd_run(a[1], '--in-repo' in a, tier, props, seeds)
    elif a[0] == 'table':
        cmd_table()
