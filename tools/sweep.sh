#!/bin/sh
# sweep VERIF_SEED $1..$2 over all registered checks (quick tier); prints one line per non-zero exit
cd "$(dirname "$0")/.." || exit 2
( cd lean && lake build >/dev/null 2>&1 )
for seed in $(seq $1 $2); do
  for id in $(python3 -c "import json;print(' '.join(c['property_id'] for c in json.load(open('MANIFEST.json'))['checks']))"); do
    out=$(VERIF_SEED=$seed timeout 1200 ./check $id 2>&1); rc=$?
    [ $rc -ne 0 ] && { echo "FAIL seed=$seed $id rc=$rc"; echo "$out" | grep '^VIOLATION\|failure\|Error' | head -4; }
  done
  echo "seed $seed done"
done
