#!/usr/bin/env python3
"""Assembles /verif/DESIGN.md from notes/, known findings and seeded records."""
import json, os, subprocess, glob
V = os.path.dirname(os.path.dirname(os.path.abspath(__file__)))
import re


def demote(text, pid):
    """uniform headings in Part II: the note's first heading becomes '### II.Cxx …', every other heading one level below it"""
    lines = text.split('\n'); first = True; fence = False; res = []
    for ln in lines:
        if ln.startswith('```'):
            fence = not fence
        m = None if fence else re.match(r'^(#+)\s+(.*)$', ln)
        if m and first:
            res.append('### II.%s — %s' % (pid, re.sub(r'^%s\s*[—-]\s*' % pid, '', m.group(2)))); first = False
        elif m:
            res.append('#' * min(6, max(4, len(m.group(1)) + 2 if len(m.group(1)) < 3 else len(m.group(1)) + 1)) + ' ' + m.group(2))
        else:
            res.append(ln)
    return '\n'.join(res)


out = [open(os.path.join(V, 'notes', '00_asbuilt.md')).read(), '\n---\n\n## Part II — per-property design as built\n']
for f in sorted(glob.glob(os.path.join(V, 'notes', 'C[0-9][0-9].md'))):
    out.append('\n' + demote(open(f).read().rstrip(), os.path.basename(f)[:3]) + '\n')
out.append('\n---\n\n## Part III — findings and seeded changes\n\n### III.1 Genuine defects repaired in /repo (`fix:` commits)\n')
k = json.load(open(os.path.join(V, 'known_findings.json')))
for e in k.get('fixed', []):
    out.append('* ' + e)
out.append('\n### III.2 Open known findings (printed as KNOWN-FINDING, exit 0; anything else is a VIOLATION)\n')
opens = list(k.get('open', []))
for f in sorted(glob.glob(os.path.join(V, 'known_findings.d', '*.json'))):
    opens += json.load(open(f)).get('open', [])
for e in opens:
    out.append('* **%s** (%s, `%s`, predicate `%s`, condition `%s`): %s' % (e['id'], e['property'], e['function'], e.get('predicate'), json.dumps(e.get('condition')), e['what']))
extra = os.path.join(V, 'notes', '01_open_findings_why.md')
if os.path.exists(extra):
    out.append('\n' + open(extra).read())
out.append('\n### III.3 Seeded changes (written by independent sub-agents from the property text only) and which checks catch them\n')
out.append(subprocess.run(['python3', os.path.join(V, 'tools', 'seeded.py'), 'table'], capture_output=True, text=True).stdout)
extra = os.path.join(V, 'notes', '02_seeded_notes.md')
if os.path.exists(extra):
    out.append('\n' + open(extra).read())
for f in sorted(glob.glob(os.path.join(V, 'notes', 'AUDIT_*.md'))):
    pass
out.append('\n---\n\n## Part IV — round-0 design document (written before the code; kept for reference)\n\n')
out.append(open(os.path.join(V, 'notes', 'design_round0.md')).read())
open(os.path.join(V, 'DESIGN.md'), 'w').write('\n'.join(out))
print('DESIGN.md', sum(len(x) for x in out), 'chars')
