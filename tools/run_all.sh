#!/bin/sh
# run every registered check once (tier $1, default quick) with VERIF_SEED=$2 (default 0); prints one line per check
cd "$(dirname "$0")/.." || exit 2
tier=${1:-quick}; seed=${2:-0}
for id in $(python3 -c "import json;print(' '.join(c['property_id'] for c in json.load(open('MANIFEST.json'))['checks']))"); do
  s=$(date +%s)
  out=$(VERIF_SEED=$seed ./check $id --tier $tier 2>&1); rc=$?
  echo "$id rc=$rc $(( $(date +%s) - s ))s | $(echo "$out" | grep -c '^VIOLATION') violations | $(echo "$out" | tail -1)"
  [ $rc -ne 0 ] && echo "$out" | grep '^VIOLATION\|failure' | head -5
done
