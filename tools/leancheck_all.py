#!/venv/bin/python
"""Set-up step: run leanchecker (the toolchain's independent re-checker of compiled .olean files) on every module of the lake
project, one module per process, and record the hash of each accepted .olean in lean/.lake/leanchecked.json. The checks consult
that cache and re-check only modules whose compiled file changed (e.g. a regenerated Gen module)."""
import sys, os, glob
sys.path.insert(0, os.path.join(os.path.dirname(os.path.dirname(os.path.abspath(__file__))), 'harness'))
import common
mods = []
for f in sorted(glob.glob(os.path.join(common.LEAN, 'BctVerif', '**', '*.lean'), recursive=True)):
    mods.append(os.path.relpath(f, common.LEAN)[:-5].replace(os.sep, '.'))
bad, ran = common.leancheck_modules(mods, jobs=int(os.environ.get('LEANCHECK_JOBS', '6')))
print('leanchecker: %d modules, %d run now, %d rejected' % (len(mods), ran, len(bad)))
for m, log in bad:
    print('REJECTED', m, log[-400:])
sys.exit(1 if bad else 0)
