#!/bin/bash
# import round-4 seeds of property $1 from /tmp/seed_$1/_seed/{1,2} as $1-7, $1-8; verify; run (seeds 0,1); remove the worktree
cd "$(dirname "$0")/.."
P=$1
for k in 1 2; do
  id=$P-$((k+6))
  [ -f /tmp/seed_$P/_seed/$k/patch.diff ] || { echo "$id: no patch"; continue; }
  python3 tools/seeded.py import /tmp/seed_$P/_seed/$k $id >/dev/null
  python3 tools/seeded.py verify $id 2>&1 | tail -1
  python3 tools/seeded.py run $id --seeds 0,1 ${2:+--props $2} 2>&1 | head -4
done
