#!/bin/bash
# Re-run every seeded change against the checks that are recorded as catching it (plus its own property's check),
# on scratch worktrees of /repo HEAD; VERIF_SEED 0 and 1; $1 = parallel jobs (default 4)
cd "$(dirname "$0")/.."
J=${1:-4}
for d in seeded/C*/; do
  id=$(basename $d)
  props=$(python3 - "$d" <<'PY'
import json,sys,os
d=sys.argv[1]; m=json.load(open(d+'/meta.json')); ps=[m['property']]
f=d+'/result_quick.json'
if os.path.exists(f):
    for p in json.load(open(f))['checks']:
        if p not in ps: ps.append(p)
print(','.join(ps))
PY
)
  echo "$id $props"
done | xargs -P $J -L 1 sh -c 'python3 tools/seeded.py run $0 --props $1 --seeds 0,1 2>&1 | head -1'
