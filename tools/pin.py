#!/venv/bin/python
"""Record the statements of every property theorem: tools/pin.py C01 C02 ... (or `all`). Writes lean/pins/<id>.json =
{theorem: sha1(normalised statement)}. Run only after reviewing the theorem statements; checks treat any later change as a break."""
import sys, os, json, hashlib
sys.path.insert(0, os.path.join(os.path.dirname(os.path.dirname(os.path.abspath(__file__))), 'harness'))
import common
PROPS = {'C01': ['BctVerif.Props.C01', 'BctVerif.Props.C01Kernel', 'BctVerif.Props.C01RandBin']}
ids = sys.argv[1:]
if 'gen' in ids or ids == ['all']:
    import glob
    gp = {}
    for f in sorted(glob.glob(os.path.join(common.LEAN, 'BctVerif', 'Gen', '*.lean'))):
        m = 'BctVerif.Gen.' + os.path.basename(f)[:-5]
        gp[m] = common.closure_hashes([m], common.theorems_in(m), 'pin_' + os.path.basename(f)[:-5])
        assert gp[m], ('no closure for', m)
    os.makedirs(os.path.join(common.LEAN, 'pins'), exist_ok=True)
    json.dump(gp, open(common.gen_pins_file(), 'w'), indent=1, sort_keys=True)
    print('GEN', len(gp), 'modules,', sum(len(v) for v in gp.values()), 'definitions')
    ids = [i for i in ids if i != 'gen']
if ids == ['all']:
    ids = ['C%02d' % i for i in range(1, 21)]
os.makedirs(os.path.join(common.LEAN, 'pins'), exist_ok=True)
for pid in ids:
    mods = PROPS.get(pid, ['BctVerif.Props.' + pid])
    thms = []
    for m in mods:
        thms += common.theorems_in(m)
    common.axioms_audit(mods, thms)
    st = common.axioms_audit.statements
    miss = [t for t in thms if t not in st]
    assert not miss, ('no statement printed for', miss[:5])
    d = {t: hashlib.sha1(st[t].encode()).hexdigest() for t in thms}
    assert common.axioms_audit.defhashes, 'no definition hashes printed'
    d['__defs__'] = dict(common.axioms_audit.defhashes)
    d['__types__'] = {t: common.axioms_audit.thmhashes[t] for t in thms}
    json.dump(d, open(common.pins_file(pid), 'w'), indent=1, sort_keys=True)
    print(pid, len(thms), 'statements pinned,', len(d['__defs__']), 'definitions')
