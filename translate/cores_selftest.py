"""Self-test of translate/cores.py's name resolution: alias / shadow / monkey-patch mutants of a scratch copy of /repo's `bct`
package must each be reported (a `problems` entry naming the routine and the name), the unmodified copy must not.

usage:  python translate/cores_selftest.py [--lake <private lean dir>]

Without --lake only the extractor is exercised (a few seconds, no Lean).  With --lake the generated files of every mutant
are written into the given *private* lake copy (never /verif/lean) and `lake build` of the family's Gen module must fail;
the Gen files are regenerated from the unmodified copy at the end.  /repo is never written.
"""
import os
import re
import shutil
import subprocess
import sys
import tempfile

HERE = os.path.dirname(os.path.abspath(__file__))
sys.path.insert(0, os.path.join(os.path.dirname(HERE), 'harness'))
sys.path.insert(0, '/verif/harness')
sys.path.insert(0, HERE)
import common  # noqa: E402
import cores   # noqa: E402

SRC = common.REPO

# (id, family, relative file, old text, new text, substrings expected in some `problems` entry — [] = caught by Lean only)
M = [
    ('A01 audit-3 alias: second, renaming import of strengths_dir as strengths_und', 'peel', 'bct/algorithms/core.py',
     'from .degree import strengths_und_sign\n', 'from .degree import strengths_und_sign\nfrom .degree import strengths_dir as strengths_und\n',
     ['score_wu', 'strengths_und', 'binds the name strengths_und 2 times']),
    ('A02 renaming import replaces the original', 'peel', 'bct/algorithms/core.py',
     'from .degree import degrees_dir, degrees_und, strengths_dir, strengths_und\n',
     'from .degree import degrees_dir, degrees_und, strengths_dir, strengths_dir as strengths_und\n',
     ['score_wu', 'renaming import']),
    ('A03 module-level rebinding by assignment', 'peel', 'bct/algorithms/core.py',
     'from .degree import strengths_und_sign\n', 'from .degree import strengths_und_sign\nstrengths_und = strengths_dir\n',
     ['score_wu', 'binds the name strengths_und 2 times']),
    ('A04 second def of the helper name later in the using module', 'peel', 'bct/algorithms/core.py',
     'def clique_communities(A, cq_thr):', 'def degrees_und(CIJ):\n    return np.sum(CIJ, axis=1)\n\n\ndef clique_communities(A, cq_thr):',
     ['kcore_bu', 'binds the name degrees_und 2 times']),
    ('A05 function-local rebinding', 'peel', 'bct/algorithms/core.py',
     '    CIJscore = CIJ.copy()\n', '    strengths_und = strengths_dir\n    CIJscore = CIJ.copy()\n',
     ['score_wu', 'the name strengths_und is bound inside score_wu']),
    ('A06 parameter of the helper name', 'peel', 'bct/algorithms/core.py',
     'def score_wu(CIJ, s):', 'def score_wu(CIJ, s, strengths_und=strengths_dir):',
     ['score_wu', 'the name strengths_und is bound inside score_wu']),
    ('A07 same name imported from another module', 'peel', 'bct/algorithms/core.py',
     'from .degree import degrees_dir, degrees_und, strengths_dir, strengths_und\n',
     'from .degree import degrees_dir, degrees_und, strengths_dir\nfrom .clustering import get_components as _gc\nfrom .distance import strengths_und\n',
     ['score_wu', 'strengths_und']),
    ('A08 helper defined twice in its defining module', 'peel', 'bct/algorithms/degree.py',
     'def strengths_und_sign(W):', 'def strengths_und(CIJ):\n    return np.sum(CIJ, axis=1)\n\n\ndef strengths_und_sign(W):',
     ['strengths_und', '2 times']),
    ('A09 primitive aliased: invert imported as binarize', 'peel', 'bct/algorithms/degree.py',
     'from bct.utils import binarize\n', 'from bct.utils import invert as binarize\n',
     ['degrees_und', 'binarize', 'renaming import']),
    ('A10 numpy attribute store in the same module', 'floyd', 'bct/algorithms/distance.py',
     'import numpy as np\n', 'import numpy as np\nnp.min = np.max\n',
     ['distance_wei_floyd', 'stores into an attribute of the numpy module', 'np.min = np.max']),
    ('A11 np is another module', 'floyd', 'bct/algorithms/distance.py',
     'import numpy as np\n', 'import numpy.ma as np\n',
     ['distance_wei_floyd', 'the name np resolves to `module numpy.ma`']),
    ('A12 numpy attribute store in an unrelated module of the package', 'util', 'bct/nbs.py',
     'import numpy as np\n', 'import numpy as np\nnp.abs = np.negative\n',
     ['normalize', 'stores into an attribute of the numpy module', 'bct/nbs.py']),
    ('A13 builtin shadowed by a numpy function', 'peel', 'bct/algorithms/centrality.py',
     'import numpy as np\n', 'import numpy as np\nfrom numpy import sum as max\n',
     ['kcoreness_centrality_bd', 'max', 'renaming import']),
    ('A14 builtin shadowed without renaming', 'peel', 'bct/algorithms/centrality.py',
     'import numpy as np\n', 'import numpy as np\nfrom numpy import max\n',
     ['kcoreness_centrality_bd', 'the name max resolves to `external numpy:max`']),
    ('A15 local import rebinding np inside the routine', 'dijk', 'bct/algorithms/distance.py',
     '    n = len(G)\n    D = np.zeros((n, n))  # distance matrix\n', '    import numpy.ma as np\n    n = len(G)\n    D = np.zeros((n, n))  # distance matrix\n',
     ['distance_wei', 'the name np is bound inside distance_wei']),
    ('A16 global statement in another function rebinding the helper', 'peel', 'bct/algorithms/core.py',
     'def clique_communities(A, cq_thr):', 'def _swap():\n    global degrees_und\n    degrees_und = degrees_dir\n\n\ndef clique_communities(A, cq_thr):',
     ['kcore_bu', 'binds the name degrees_und 2 times', 'global']),
    ('A17 primitive ambiguous through the package star imports', 'comp', 'bct/utils/visualization.py',
     'import numpy as np\n', 'import numpy as np\n\n\ndef binarize(W, copy=True):\n    return W\n',
     ['binarize', 'different definitions']),
    ('A18 get_rng rebound after its def', 'util', 'bct/utils/miscellaneous_utilities.py',
     'def cuberoot(x):', 'get_rng = lambda seed=None: np.random.RandomState(0)\n\n\ndef cuberoot(x):',
     ['pick_four_unique_nodes_quickly', 'binds the name get_rng 2 times']),
    ('A19 coreness callee aliased', 'peel', 'bct/algorithms/centrality.py',
     'from .core import kcore_bd, kcore_bu\n', 'from .core import kcore_bd, kcore_bd as kcore_bu\n',
     ['kcoreness_centrality_bu', 'kcore_bu', 'renaming import']),
    ('A20 exception class aliased', 'comp', 'bct/algorithms/clustering.py',
     'from bct.utils import cuberoot, BCTParamError, dummyvar, binarize, get_rng\n',
     'from bct.utils import cuberoot, dummyvar, binarize, get_rng\nBCTParamError = ValueError\n',
     ['get_components', 'BCTParamError', 'not understood']),
    ('A21 extracted routine itself rebound by a later import', 'comp', 'bct/algorithms/clustering.py',
     'def number_of_components(A):', 'from .core import score_wu as get_components\n\n\ndef number_of_components(A):',
     ['get_components', '2 times']),
    ('A22 builtin len rebound at module level (betweenness routines)', 'betw', 'bct/algorithms/centrality.py',
     'from .distance import reachdist\n', 'from .distance import reachdist\nlen = lambda x: 2\n',
     ['betweenness_bin', 'edge_betweenness_bin', 'len']),
    ('A23 np.dot replaced by a module-level store', 'betw', 'bct/algorithms/centrality.py',
     'from .distance import reachdist\n', 'from .distance import reachdist\nnp.dot = np.multiply\n',
     ['betweenness_bin', 'stores into an attribute of the numpy module']),
    ('A24 range is a parameter default of edge_betweenness_bin', 'betw', 'bct/algorithms/centrality.py',
     'def edge_betweenness_bin(G):', 'def edge_betweenness_bin(G, range=reversed):',
     ['edge_betweenness_bin']),
    ('A25 betweenness_bin rebound by a later def', 'betw', 'bct/algorithms/centrality.py',
     'def module_degree_zscore(W, ci, flag=0):', 'def betweenness_bin(G):\n    return G\n\n\ndef module_degree_zscore(W, ci, flag=0):',
     ['betweenness_bin', '2 times']),
    ('A26 cuberoot aliased in clustering.py', 'clust', 'bct/algorithms/clustering.py',
     'from bct.utils import cuberoot, BCTParamError, dummyvar, binarize, get_rng\n',
     'from bct.utils import BCTParamError, dummyvar, binarize, get_rng\nfrom bct.utils import invert as cuberoot\n',
     ['clustering_coef_wd', 'cuberoot', 'renaming import']),
    ('A27 cuberoot rebound inside transitivity_wu', 'clust', 'bct/algorithms/clustering.py',
     '    K = np.sum(np.logical_not(W == 0), axis=1)\n    ws = cuberoot(W)\n    cyc3 = np.diag(np.dot(ws, np.dot(ws, ws)))\n    return',
     '    cuberoot = np.sqrt\n    K = np.sum(np.logical_not(W == 0), axis=1)\n    ws = cuberoot(W)\n    cyc3 = np.diag(np.dot(ws, np.dot(ws, ws)))\n    return',
     ['transitivity_wu', 'cuberoot']),
    ('A28 binarize aliased in efficiency.py', 'eff', 'bct/algorithms/efficiency.py',
     'from bct.utils import cuberoot, BCTParamError, binarize, invert\n', 'from bct.utils import cuberoot, BCTParamError, invert\nfrom bct.utils import invert as binarize\n',
     ['efficiency_bin', 'binarize', 'renaming import']),
    ('A29 binarize rebound inside the (not extracted) local branch of efficiency_bin', 'eff', 'bct/algorithms/efficiency.py',
     '        E = np.zeros((n,))  # local efficiency\n', '        E = np.zeros((n,))  # local efficiency\n        binarize = None\n',
     ['efficiency_bin', 'binarize', 'bound inside efficiency_bin']),
    ('A30 np.mean replaced by a module-level store (charpath)', 'char', 'bct/algorithms/distance.py',
     'import numpy as np\n', 'import numpy as np\nnp.mean = np.median\n',
     ['charpath', 'stores into an attribute of the numpy module']),
    ('A31 linalg of pagerank_centrality imported from numpy', 'walks', 'bct/algorithms/centrality.py',
     '    from scipy import linalg\n\n    N = len(A)\n', '    from numpy import linalg\n\n    N = len(A)\n', []),
    ('A32 len rebound in distance.py (mean_first_passage_time)', 'walks', 'bct/algorithms/distance.py',
     'import numpy as np\n', 'import numpy as np\nlen = max\n', ['mean_first_passage_time', 'len']),
    # resolution is fine, the definition is not the recognised one: no `problems` entry, the Lean obligation of the primitive fails
    ('L01 body of get_rng changed (a generator passed as seed is re-seeded)', 'util', 'bct/utils/miscellaneous_utilities.py',
     '    elif isinstance(seed, np.random.RandomState):\n        return seed\n', '    elif isinstance(seed, np.random.RandomState):\n        return np.random.RandomState(0)\n',
     []),
    ('L02 body of binarize changed (seen through degrees_und)', 'peel', 'bct/utils/other.py',
     '    W[W != 0] = 1\n', '    W[W > 0] = 1\n', []),
    ('L03 body of binarize changed (seen through get_components)', 'comp', 'bct/utils/other.py',
     '    W[W != 0] = 1\n', '    W[W > 0] = 1\n', []),
    ('L05 body of binarize changed (seen through efficiency_bin)', 'eff', 'bct/utils/other.py',
     '    W[W != 0] = 1\n', '    W[W > 0] = 1\n', []),
    ('S01 betweenness_wei: the `S` mask of the next batch dropped (the repaired defect put back)', 'betw', 'bct/algorithms/centrality.py',
     'V, = np.where(np.logical_and(D == np.min(D[S]), S))', 'V, = np.where(D == np.min(D[S]))', []),
    ('S02 distance_wei_floyd: the zero mask of the `inv` branch dropped (the repaired defect put back)', 'floyd', 'bct/algorithms/distance.py',
     '                SPL[adjacency == 0] = np.inf\n', '', []),
    ('L04 body of cuberoot changed (seen through the weighted clustering routines)', 'clust', 'bct/utils/miscellaneous_utilities.py',
     '    return np.sign(x) * np.abs(x)**(1 / 3)\n', '    return np.abs(x)**(1 / 3)\n', []),
    ('L06 body of cuberoot changed (seen through the local branches of efficiency_wei)', 'eff', 'bct/utils/miscellaneous_utilities.py',
     '    return np.sign(x) * np.abs(x)**(1 / 3)\n', '    return np.abs(x)**(1 / 3)\n', []),
    ("S03 efficiency_wei, branch local in (True, 'local'): the lengths are not cube-rooted (the statement of the other branch)", 'eff',
     'bct/algorithms/efficiency.py', 'e = distance_inv_wei(cuberoot(Gl)[np.ix_(V, V)])', 'e = distance_inv_wei(Gl[np.ix_(V, V)])', []),
    ("S04 efficiency_wei, branch local == 'original': the inverse distances are not cube-rooted", 'eff',
     'bct/algorithms/efficiency.py', 'se = cuberoot(e) + cuberoot(e.T)', 'se = e + e.T', []),
    ("A33 efficiency_wei, branch local in (True, 'local'): the neighbourhood from the out-links only", 'eff',
     'bct/algorithms/efficiency.py', "    elif local in (True, 'local'):\n        E = np.zeros((n,))\n        for u in range(n):\n            V, = np.where(np.logical_or(Gw[u, :], Gw[:, u].T))",
     "    elif local in (True, 'local'):\n        E = np.zeros((n,))\n        for u in range(n):\n            V, = np.where(Gw[u, :])", ['efficiency_wei', 'V, = np.where(np.logical_or']),
]


def ren(func, *pairs):
    """text -> text: simultaneous whole-word replacements inside the top-level function `func`"""
    def f(t):
        a = t.index('\ndef %s(' % func) + 1
        m = re.search(r'\n(def |class |@)', t[a:])
        b = a + m.start() if m else len(t)
        d = dict(pairs)
        return t[:a] + re.sub(r'\b(%s)\b' % '|'.join(re.escape(k) for k in d), lambda mm: d[mm.group(1)], t[a:b]) + t[b:]
    return f


def rep(old, new):
    def f(t):
        assert old in t, old
        return t.replace(old, new, 1)
    return f


def seq(*fs):
    def f(t):
        for g in fs:
            t = g(t)
        return t
    return f


# renamings of function-local variables: (id, family, relative file, text -> text, True = must still pass / False = must fail)
R = [
    ('R01 two locals of betweenness_bin exchanged consistently (NPd <-> NSPd)', 'betw', 'bct/algorithms/centrality.py',
     ren('betweenness_bin', ('NPd', 'NSPd'), ('NSPd', 'NPd')), True),
    ('R02 hops -> nhops in distance_wei_floyd, with a `pass` and a bare string in the loop', 'floyd', 'bct/algorithms/distance.py',
     seq(ren('distance_wei_floyd', ('hops', 'nhops')), rep('        i2k_k2j = ', "        pass\n        'string used as a comment'\n        i2k_k2j = ")), True),
    ('R03 every local of clustering_coef_bd renamed', 'clust', 'bct/algorithms/clustering.py',
     ren('clustering_coef_bd', ('S', 'sym'), ('K', 'degs'), ('cyc3', 'ntri'), ('CYC3', 'possible'), ('C', 'coef')), True),
    ('R04 one use of NPd renamed only (a free name appears)', 'betw', 'bct/algorithms/centrality.py',
     rep('        NSPd = NPd * (L == 0)\n', '        NSPd = walks * (L == 0)\n'), False),
    ('R05 local renamed to the name of the numpy module (NPd -> np)', 'betw', 'bct/algorithms/centrality.py',
     ren('betweenness_bin', ('NPd', 'np')), False),
    ('R06 two locals merged (NPd -> NSPd)', 'betw', 'bct/algorithms/centrality.py', ren('betweenness_bin', ('NPd', 'NSPd')), False),
    ('R07 local merged with the parameter (NPd -> G)', 'betw', 'bct/algorithms/centrality.py', ren('betweenness_bin', ('NPd', 'G')), False),
    ('R08 capture: local csizes renamed, the canonical name now denotes a module-level list', 'comp', 'bct/algorithms/clustering.py',
     seq(rep('    _, csizes = get_components(A)\n', '    _, sizes = get_components(A)\n'),
         rep('def number_of_components(A):', 'csizes = [1]\n\n\ndef number_of_components(A):')), False),
    ('R09 renaming combined with a real change (hops -> nhops, `<` for `>` in the update)', 'floyd', 'bct/algorithms/distance.py',
     seq(ren('distance_wei_floyd', ('hops', 'nhops')), rep('        path = SPL > i2k_k2j\n', '        path = SPL < i2k_k2j\n')), False),
    ('R10 switch -> other_edge in makerandCIJdegreesfixed', 'synth', 'bct/algorithms/reference.py',
     ren('makerandCIJdegreesfixed', ('switch', 'other_edge'), ('t', 'tmp')), True),
    ('R11 renaming combined with a real change in makerandCIJdegreesfixed (`switch <= i`)', 'synth', 'bct/algorithms/reference.py',
     seq(ren('makerandCIJdegreesfixed', ('switch', 'other_edge')), rep('if other_edge < i:', 'if other_edge <= i:')), False),
    ('R12 loop variable renamed in one loop only (`w` of the second phase of betweenness_wei)', 'betw', 'bct/algorithms/centrality.py',
     lambda t: (lambda a, b: t[:a] + re.sub(r'\bw\b', 'node', t[a:b]) + t[b:])(
         t.index('for w in Q[:n - 1]:', t.index('def betweenness_wei(')), t.index('return BC', t.index('def betweenness_wei('))), True),
    ('R13 inner loop variable renamed to the name of the enclosing loop (`for v in V: … for v in W:` in edge_betweenness_bin)', 'betw',
     'bct/algorithms/centrality.py',
     lambda t: (lambda a, b: t[:a] + re.sub(r'\bw\b', 'v', t[a:b]) + t[b:])(
         t.index('for w in W:', t.index('def edge_betweenness_bin(')), t.index('V, = np.where(np.any(Gu[V, :], axis=0))', t.index('def edge_betweenness_bin('))), False),
    ('R14 second loop of makerandCIJdegreesfixed renamed except one read, which now sees the last value of the first loop', 'synth',
     'bct/algorithms/reference.py',
     lambda t: (lambda a, b: t[:a] + re.sub(r'\bi\b', 'e', t[a:b]).replace('if CIJ[edges[0, e], edges[1, e]]:', 'if CIJ[edges[0, i], edges[1, e]]:') + t[b:])(
         t.index('for i in range(k):', t.index('def makerandCIJdegreesfixed(')), t.index('CIJ -= np.eye(n)', t.index('def makerandCIJdegreesfixed('))), False),
    ('R15 pinned routine: loop variable renamed in one loop only (`u` of the aggregation loop of modularity_finetune_und)', 'pinmod',
     'bct/algorithms/modularity.py',
     lambda t: (lambda a, b: t[:a] + re.sub(r'\bu\b', 'mod_a', t[a:b]) + t[b:])(
         t.index('for u in range(m):', t.index('def modularity_finetune_und(')), t.index('def modularity_finetune_und_sign(')), True),
    ('R17 efficiency_wei: locals of the nested function and of the branches renamed', 'eff', 'bct/algorithms/efficiency.py',
     ren('efficiency_wei', ('sw', 'wsym'), ('numer', 'top'), ('minD', 'dmin'), ('Gl', 'lengths')), True),
    ('R18 efficiency_wei: a real change (`+` for `-` in the denominator) next to a renamed local', 'eff', 'bct/algorithms/efficiency.py',
     seq(ren('efficiency_wei', ('sw', 'wsym')), rep('            se = e+e.T\n         \n            numer = np.sum(np.outer(wsym.T, wsym) * se) / 2\n            if numer != 0:\n                # symmetrized adjacency vector\n                sa = A[u, V] + A[V, u].T\n                denom = np.sum(sa)**2 - np.sum(sa * sa)',
                                                   '            se = e+e.T\n         \n            numer = np.sum(np.outer(wsym.T, wsym) * se) / 2\n            if numer != 0:\n                # symmetrized adjacency vector\n                sa = A[u, V] + A[V, u].T\n                denom = np.sum(sa)**2 + np.sum(sa * sa)')), False),
    ('R16 pinned routine: a real change (`>` for `>=`) next to a renamed local', 'pinrew', 'bct/algorithms/reference.py',
     seq(ren('randmio_und', ('eff', 'effective')), rep('while att <= max_attempts:', 'while att < max_attempts:')), False),
]


def copy_pkg(dst):
    shutil.copytree(os.path.join(SRC, 'bct'), os.path.join(dst, 'bct'), ignore=shutil.ignore_patterns('__pycache__'))


def run(root, fam, lean_dir):
    common.REPO = root
    try:
        return cores.generate(lean_dir=lean_dir, families=[fam])
    finally:
        common.REPO = SRC


def lake_fails(lean_dir, module):
    p = subprocess.run(['lake', 'build', module], cwd=lean_dir, capture_output=True, text=True, timeout=1800)
    errs = re.findall(r'error: \S+\.lean:\d+:\d+: (\S+?):', p.stdout + p.stderr)
    return p.returncode != 0, errs


def main():
    lake = sys.argv[sys.argv.index('--lake') + 1] if '--lake' in sys.argv else None
    if lake and os.path.realpath(lake).startswith(os.path.realpath(os.path.join(common.VERIF, 'lean'))):
        sys.exit('--lake must name a private copy, not /verif/lean')
    tmp = tempfile.mkdtemp(prefix='cores_selftest_')
    bad = 0
    try:
        gen = lake or os.path.join(tmp, 'lean')
        base = os.path.join(tmp, 'base'); os.makedirs(base); copy_pkg(base)
        common.REPO = base
        r0 = cores.generate(lean_dir=gen)
        common.REPO = SRC
        ok = not r0['problems']
        print('%-4s unmodified copy: problems=%s' % ('ok' if ok else 'FAIL', r0['problems']))
        bad += not ok
        for mid, fam, relf, old, new, expect in M:
            root = os.path.join(tmp, 'm'); shutil.rmtree(root, ignore_errors=True); os.makedirs(root); copy_pkg(root)
            p = os.path.join(root, relf)
            s = open(p).read()
            if s.count(old) < 1:
                print('FAIL %s: pattern not found in %s' % (mid, relf)); bad += 1; continue
            open(p, 'w').write(s.replace(old, new, 1))
            r = run(root, fam, gen)
            probs = r['problems']
            if expect:
                hit = [x for x in probs if all(e in x for e in expect[:1])] and all(any(e in x for x in probs) for e in expect)
                status = 'ok' if hit else 'FAIL'
            else:
                status = 'ok' if not probs else 'FAIL'
            extra = ''
            if lake:
                failed, errs = lake_fails(lake, r['modules'][0])
                extra = ' | lake build %s: %s %s' % (r['modules'][0], 'fails' if failed else 'PASSES', sorted(set(errs))[:3])
                if not failed:
                    status = 'FAIL'
            bad += status != 'ok'
            print('%-4s %s\n       reported: %s%s' % (status, mid, (probs[0][:230] if probs else '(none; Lean obligation of the primitive)'), extra))
        for mid, fam, relf, fn_, must_pass in R:
            root = os.path.join(tmp, 'm'); shutil.rmtree(root, ignore_errors=True); os.makedirs(root); copy_pkg(root)
            p = os.path.join(root, relf)
            t0 = open(p).read(); t1 = fn_(t0)
            if t1 == t0:
                print('FAIL %s: the edit changed nothing' % mid); bad += 1; continue
            open(p, 'w').write(t1)
            r = run(root, fam, gen)
            probs = r['problems']
            status = 'ok'
            extra = ''
            if must_pass and probs:
                status = 'FAIL'
            if lake:
                failed, errs = lake_fails(lake, r['modules'][0])
                extra = ' | lake build %s: %s %s' % (r['modules'][0], 'fails' if failed else 'passes', sorted(set(errs))[:3])
                if failed == must_pass:
                    status = 'FAIL'
            elif not must_pass and not probs:
                extra = ' | (no problem reported; the Lean obligation decides — run with --lake)'
            bad += status != 'ok'
            print('%-4s %s [%s]\n       reported: %s%s' % (status, mid, 'must pass' if must_pass else 'must fail', probs[0][:230] if probs else '(none)', extra))
        if lake:
            common.REPO = SRC
            cores.generate(lean_dir=lake)
    finally:
        common.REPO = SRC
        shutil.rmtree(tmp, ignore_errors=True)
    print('%d mutants, %d renamings, %d failures' % (len(M), len(R), bad))
    sys.exit(1 if bad else 0)


if __name__ == '__main__':
    main()
