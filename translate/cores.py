"""AST -> core update steps of further routines (T-gen, second tie for C03/C12, C15, C16, C17/C06).

Run on every check run (`generate()`), it re-reads /repo's *current* source (path from common.REPO) and re-emits

  family 'floyd'  bct/algorithms/distance.py   distance_wei_floyd: transform dispatch, initialisation of hops/Pmat, the body of
                                               `for k in range(n)`, the epilogue, the returned names
                  -> lean/BctVerif/Gen/CoresFloyd.lean     (IR: Model/CoreIRFloyd.lean, links: Props/CoresFloyd.lean)
  family 'peel'   bct/algorithms/core.py       kcore_bu, kcore_bd, score_wu: every statement (degree call, peel condition,
                  bct/algorithms/degree.py     stop test, zeroing of rows/columns, bookkeeping, size expression, returns);
                  bct/algorithms/centrality.py degrees_und, degrees_dir, strengths_und: every statement;
                                               kcoreness_centrality_bu/_bd: symmetrisation, loop bound, membership expression
                  -> lean/BctVerif/Gen/CoresPeel.lean      (IR: Model/CoreIRPeel.lean, links: Props/CoresPeel.lean)
  family 'util'   bct/utils/other.py           threshold_absolute, binarize, normalize, invert, logtransform (guard)
                  bct/utils/miscellaneous_utilities.py   teachers_round, cuberoot, pick_four_unique_nodes_quickly
                  -> lean/BctVerif/Gen/CoresUtil.lean      (IR: Model/CoreIRUtil.lean, links: Props/CoresUtil.lean)
  family 'comp'   bct/algorithms/clustering.py get_components: every statement (guard, binarize, fill_diagonal, edge_map
                                               comprehension, the merge loop over union_sets, comps / comp_sizes comprehensions, return)
                  -> lean/BctVerif/Gen/CoresComp.lean      (IR: Model/CoreIRComp.lean, links: Props/CoresComp.lean)
  family 'dijk'   bct/algorithms/distance.py   distance_wei: only the body of `for v in V:` (the relaxation block) and the loop headers
                  -> lean/BctVerif/Gen/CoresDijk.lean      (IR: Model/CoreIRDijk.lean, links: Props/CoresDijk.lean)

as *data* (one IR value per routine) together with one obligation per routine (`… Ok ir = true := by first | decide | fail "…"`)
and the link theorem instantiated at the extracted value.

This file only knows *where* to look and how to map Python syntax to IR constructors (the tables below are the trusted
part).  What the routines are expected to contain lives in Lean (`ref…` / `…Ok` in Model/CoreIR*.lean); what a program
that passes computes is proved in Props/Cores*.lean.  Conservative by construction: every statement of an extracted
function body must be recognised; anything else (unknown statement, unknown expression shape, extra statement) is listed
under `problems` with routine and source line *and* sets `recognised := false`, which makes the routine's obligation
unprovable.  Nothing is skipped silently.
"""
import ast
import json
import os
import sys

try:
    import common
except ImportError:  # stand-alone use
    sys.path.insert(0, os.path.join(os.path.dirname(os.path.dirname(os.path.abspath(__file__))), 'harness'))
    import common


class Unrec(Exception):
    """an expression / statement shape outside the mapping tables"""

    def __init__(self, node, msg):
        Exception.__init__(self, msg)
        self.node = node
        self.msg = msg


def q(s):
    """Lean string literal"""
    return json.dumps(str(s), ensure_ascii=True)


def src_of(node, limit=70):
    try:
        s = ast.unparse(node)
    except Exception:  # noqa
        s = type(node).__name__
    s = ' '.join(s.split())
    return s[:limit]


def is_np(node, attr):
    return (isinstance(node, ast.Attribute) and node.attr == attr and isinstance(node.value, ast.Name)
            and node.value.id == 'np')


def np_call(node, attr, nargs=None):
    """np.<attr>(...) -> list of positional args, or None"""
    if isinstance(node, ast.Call) and is_np(node.func, attr) and (nargs is None or len(node.args) == nargs):
        return node.args
    return None


def const_nat(node):
    """non-negative integer literal, or a float literal with an integral value (0.0) -> int, else None"""
    if isinstance(node, ast.Constant) and type(node.value) in (int, float) and node.value >= 0 and node.value == int(node.value):
        return int(node.value)
    return None


def body_wo_doc(fn):
    b = list(fn.body)
    if b and isinstance(b[0], ast.Expr) and isinstance(b[0].value, ast.Constant) and isinstance(b[0].value.value, str):
        b = b[1:]
    return b


def lst(xs):
    return '[' + ', '.join(xs) + ']'


def lines_of(nodes):
    ls = [getattr(x, 'lineno', 0) for x in nodes] + [getattr(x, 'end_lineno', 0) or 0 for x in nodes]
    ls = [x for x in ls if x]
    return (min(ls), max(ls)) if ls else (0, 0)


class Routine:
    """extraction result of one routine"""

    def __init__(self, name, file):
        self.name = name
        self.file = file
        self.line = 0
        self.problems = []
        self.parts = {}        # part name -> (first line, last line)
        self.fields = {}       # IR fields, already in Lean syntax

    def bad(self, node, msg):
        self.problems.append('%s: %s:%s: %s' % (self.name, os.path.basename(self.file), getattr(node, 'lineno', '?'), msg))


class Fns(dict):
    """{name: the FunctionDef that is in force at the end of the module}; .rebound = {name: line} for names that the
    module binds again at top level in any other way (assignment, import, class, second def) — the routine that callers
    get would then not be the one extracted"""
    rebound = {}


def parse_functions(path):
    """-> (Fns, error or None)"""
    try:
        tree = ast.parse(open(path).read())
    except (OSError, SyntaxError) as e:
        return Fns(), '%s: %s' % (type(e).__name__, e)
    fns = Fns()
    fns.rebound = {}
    for st in tree.body:
        names = []
        if isinstance(st, (ast.FunctionDef, ast.AsyncFunctionDef, ast.ClassDef)):
            names = [st.name]
        elif isinstance(st, (ast.Import, ast.ImportFrom)):
            names = [(a.asname or a.name).split('.')[0] for a in st.names]
        else:
            # any other top-level statement (assignment, if / try / with / for blocks with arbitrary contents …): every name it stores
            names = [nd.id for nd in ast.walk(st) if isinstance(nd, ast.Name) and isinstance(nd.ctx, (ast.Store, ast.Del))]
            names += [nd.name for nd in ast.walk(st) if isinstance(nd, (ast.FunctionDef, ast.AsyncFunctionDef, ast.ClassDef))]
            names += [(a.asname or a.name).split('.')[0] for nd in ast.walk(st) if isinstance(nd, (ast.Import, ast.ImportFrom)) for a in nd.names]
        for nm in names:
            if nm in fns or nm in fns.rebound:
                fns.rebound[nm] = st.lineno
            if isinstance(st, ast.FunctionDef) and nm == st.name:
                fns[nm] = st
            elif nm in fns:
                fns.rebound[nm] = st.lineno
    return fns, None


def check_header(r, fn, fns):
    """decorators other than the citation decorator, and a second top-level binding of the name, are not understood"""
    for d in fn.decorator_list:
        ok = (isinstance(d, ast.Call) and isinstance(d.func, ast.Attribute) and d.func.attr == 'dcite'
              and isinstance(d.func.value, ast.Name) and d.func.value.id == 'due')
        if not ok:
            r.bad(d, 'unrecognised decorator %s' % src_of(d))
    if fn.name in getattr(fns, 'rebound', {}):
        r.bad(fn, 'the module binds the name %s again at top level (line %s)' % (fn.name, fns.rebound[fn.name]))
    if fn.returns is not None or any(a.annotation is not None for a in fn.args.args):
        pass    # annotations have no run-time effect


def defaults_of(fn):
    a = fn.args
    params = [x.arg for x in a.args]
    return list(zip(params[len(params) - len(a.defaults):], [ast.unparse(d) for d in a.defaults]))


def lean_defaults(ds):
    return lst('(%s, %s)' % (q(k), q(v)) for k, v in ds)


# ====================================================================== family 'floyd'

class FloydX:
    """expression / statement mapping for distance_wei_floyd (Model/CoreIRFloyd.lean: Ix, Ex, Stmt)"""

    def __init__(self, r):
        self.r = r
        self.dims = set()      # names bound by `x = M.shape[c]`
        self.wheres = set()    # names bound by `i, j = np.where(p)`

    # --- index inside M[r, c]
    def ix(self, node):
        if isinstance(node, ast.Name):
            return '(.arr %s)' % q(node.id) if node.id in self.wheres else '(.var %s)' % q(node.id)
        raise Unrec(node, 'unrecognised index %s' % src_of(node))

    def is_dim(self, node):
        return isinstance(node, ast.Name) and node.id in self.dims

    # --- whole-array expression, by the value of one cell
    def ex(self, node):
        z = const_nat(node)
        if z is not None:
            return '(.lit %d)' % z
        if is_np(node, 'inf'):
            return '.inf'
        if isinstance(node, ast.Name):
            return '(.ref %s .row .col)' % q(node.id)
        if isinstance(node, ast.BinOp) and isinstance(node.op, ast.Add):
            return '(.add %s %s)' % (self.ex(node.left), self.ex(node.right))
        if isinstance(node, ast.BinOp) and isinstance(node.op, ast.Div) and const_nat(node.left) == 1:
            return '(.recip %s)' % self.ex(node.right)
        if isinstance(node, ast.UnaryOp) and isinstance(node.op, ast.USub) and np_call(node.operand, 'log', 1) and not node.operand.keywords:
            return '(.negLog %s)' % self.ex(node.operand.args[0])
        if isinstance(node, ast.Compare) and len(node.ops) == 1 and isinstance(node.ops[0], (ast.Gt, ast.GtE, ast.Eq, ast.NotEq)):
            op = {ast.Gt: 'gt', ast.GtE: 'ge', ast.Eq: 'eq', ast.NotEq: 'ne'}[type(node.ops[0])]
            return '(.%s %s %s)' % (op, self.ex(node.left), self.ex(node.comparators[0]))
        if isinstance(node, ast.Compare) and len(node.ops) == 1 and isinstance(node.ops[0], (ast.Lt, ast.LtE)):     # a < b  is  b > a
            op = {ast.Lt: 'gt', ast.LtE: 'ge'}[type(node.ops[0])]
            return '(.%s %s %s)' % (op, self.ex(node.comparators[0]), self.ex(node.left))
        if isinstance(node, ast.Call) and not node.keywords:
            f = node.func
            # X.copy()  /  X.astype('float'): the matrix itself; of a comparison: 0/1 numbers
            if isinstance(f, ast.Attribute) and f.attr == 'copy' and not node.args:
                return self.ex(f.value)
            if (isinstance(f, ast.Attribute) and f.attr == 'astype' and len(node.args) == 1
                    and isinstance(node.args[0], ast.Constant) and node.args[0].value == 'float'):
                inner = f.value
                while np_call(inner, 'array', 1) and not inner.keywords:
                    inner = inner.args[0]
                return '(.toNum %s)' % self.ex(inner) if isinstance(inner, ast.Compare) else self.ex(inner)
            a = np_call(node, 'array', 1)
            if a:
                return self.ex(a[0])
            a = np_call(node, 'eye', 1)
            if a and self.is_dim(a[0]):
                return '.eye'
            # np.min(np.stack([A, B], 2), 2)
            a = np_call(node, 'min', 2)
            if a and const_nat(a[1]) == 2:
                s = np_call(a[0], 'stack', 2)
                if s and not a[0].keywords and const_nat(s[1]) == 2 and isinstance(s[0], ast.List) and len(s[0].elts) == 2:
                    return '(.min %s %s)' % (self.ex(s[0].elts[0]), self.ex(s[0].elts[1]))
            a = np_call(node, 'repeat', 3)
            if a and self.is_dim(a[1]) and const_nat(a[2]) in (0, 1):
                axis = const_nat(a[2])
                # np.repeat(np.atleast_2d(np.arange(0, n)), n, 0)
                b = np_call(a[0], 'atleast_2d', 1)
                if b and axis == 0 and not a[0].keywords:
                    c = np_call(b[0], 'arange', 2)
                    if c and not b[0].keywords and const_nat(c[0]) == 0 and self.is_dim(c[1]):
                        return '.colIdx'
                # np.repeat(M[:, [v]], n, 1)  /  np.repeat(M[[v], :], n, 0)
                sub = a[0]
                if (isinstance(sub, ast.Subscript) and isinstance(sub.value, ast.Name) and isinstance(sub.slice, ast.Tuple)
                        and len(sub.slice.elts) == 2):
                    x, y = sub.slice.elts

                    def full(s_):
                        return isinstance(s_, ast.Slice) and s_.lower is None and s_.upper is None and s_.step is None

                    def one(s_):
                        return isinstance(s_, ast.List) and len(s_.elts) == 1 and isinstance(s_.elts[0], ast.Name)
                    if full(x) and one(y) and axis == 1:
                        return '(.ref %s .row %s)' % (q(sub.value.id), self.ix(y.elts[0]))
                    if one(x) and full(y) and axis == 0:
                        return '(.ref %s %s .col)' % (q(sub.value.id), self.ix(x.elts[0]))
        # M[a, b] with names a, b
        if (isinstance(node, ast.Subscript) and isinstance(node.value, ast.Name) and isinstance(node.slice, ast.Tuple)
                and len(node.slice.elts) == 2):
            x, y = node.slice.elts
            return '(.ref %s %s %s)' % (q(node.value.id), self.ix(x), self.ix(y))
        raise Unrec(node, 'unrecognised expression %s' % src_of(node))

    # --- one statement -> list of IR statements
    def stmt(self, st):
        if isinstance(st, ast.Assign) and len(st.targets) == 1:
            t, v = st.targets[0], st.value
            # i, j = np.where(p)
            if (isinstance(t, ast.Tuple) and len(t.elts) == 2 and all(isinstance(e, ast.Name) for e in t.elts)
                    and np_call(v, 'where', 1) and not v.keywords and isinstance(v.args[0], ast.Name)):
                out = ['.whereB %s %s %s' % (q(t.elts[0].id), q(t.elts[1].id), q(v.args[0].id))]
                self.wheres |= {t.elts[0].id, t.elts[1].id}
                return out
            # M[p], N[p] = c1, c2   (constants: evaluation order is immaterial)
            if (isinstance(t, ast.Tuple) and isinstance(v, ast.Tuple) and len(t.elts) == len(v.elts)
                    and all(const_nat(e) is not None for e in v.elts)):
                out = []
                for tt, vv in zip(t.elts, v.elts):
                    out += self.store(tt, vv)
                return out
            if isinstance(t, ast.Name):
                # n = M.shape[c]
                if (isinstance(v, ast.Subscript) and isinstance(v.value, ast.Attribute) and v.value.attr == 'shape'
                        and isinstance(v.value.value, ast.Name) and const_nat(v.slice) is not None):
                    self.dims.add(t.id)
                    return ['.dim %s %s %d' % (q(t.id), q(v.value.value.id), const_nat(v.slice))]
                e = self.ex(v)
                self.dims.discard(t.id)
                self.wheres.discard(t.id)
                return ['.bind %s %s' % (q(t.id), e)]
            if isinstance(t, ast.Subscript):
                return self.store(t, v)
        raise Unrec(st, 'unrecognised statement %s' % src_of(st))

    def store(self, t, v):
        """M[p] = e"""
        if isinstance(t, ast.Subscript) and isinstance(t.value, ast.Name) and isinstance(t.slice, (ast.Name, ast.Compare)):
            return ['.setMask %s %s %s' % (q(t.value.id), self.ex(t.slice), self.ex(v))]
        raise Unrec(t, 'unrecognised store target %s' % src_of(t))

    def stmts(self, sts):
        out = []
        for st in sts:
            try:
                out += self.stmt(st)
            except Unrec as e:
                self.r.bad(e.node if hasattr(e.node, 'lineno') else st, e.msg)
        return out

    # --- the `if transform is not None: … else: …` tree -> decision list
    def dispatch(self, sts, tr):
        if len(sts) == 1 and isinstance(sts[0], ast.With) and len(sts[0].items) == 1:
            ce = sts[0].items[0].context_expr
            if isinstance(ce, ast.Call) and is_np(ce.func, 'errstate') and sts[0].items[0].optional_vars is None:
                return self.dispatch(sts[0].body, tr)
        if len(sts) == 1 and isinstance(sts[0], ast.If):
            nd = sts[0]
            t = nd.test
            if (isinstance(t, ast.Compare) and len(t.ops) == 1 and isinstance(t.left, ast.Name) and t.left.id == tr):
                c = t.comparators[0]
                if isinstance(c, ast.Constant) and c.value is None and isinstance(t.ops[0], ast.IsNot):
                    return [('.isNone', self.arm(nd.orelse))] + self.dispatch(nd.body, tr)
                if isinstance(c, ast.Constant) and c.value is None and isinstance(t.ops[0], ast.Is):
                    return [('.isNone', self.arm(nd.body))] + self.dispatch(nd.orelse, tr)
                if isinstance(c, ast.Constant) and isinstance(c.value, str) and isinstance(t.ops[0], ast.Eq):
                    return [('.eqStr %s' % q(c.value), self.arm(nd.body))] + self.dispatch(nd.orelse, tr)
            self.r.bad(nd, 'unrecognised test of the transform argument: %s' % src_of(t))
            return []
        return [('.otherwise', self.arm(sts))]

    def arm(self, sts):
        if len(sts) == 1 and isinstance(sts[0], ast.Raise) and sts[0].cause is None:
            e = sts[0].exc
            if isinstance(e, ast.Call) and isinstance(e.func, ast.Name):
                return '.raise %s' % q(e.func.id)
            if isinstance(e, ast.Name):
                return '.raise %s' % q(e.id)
        return '.stmts %s' % lst(self.stmts(sts))


def extract_floyd(fn, path):
    r = Routine('distance_wei_floyd', path)
    r.line = fn.lineno
    x = FloydX(r)
    args = [a.arg for a in fn.args.args]
    if len(args) != 2 or fn.args.vararg or fn.args.kwarg or fn.args.kwonlyargs:
        r.bad(fn, 'expected exactly two parameters, found %s' % args)
        args = (args + ['?', '?'])[:2]
    body = body_wo_doc(fn)
    loops = [i for i, st in enumerate(body) if isinstance(st, ast.For)]
    if len(loops) != 1 or not body or not isinstance(body[0], ast.If) or not isinstance(body[-1], ast.Return):
        r.bad(fn, 'expected `if <transform> …`, statements, one `for` loop, statements, `return`')
        return r
    li = loops[0]
    loop = body[li]
    disp = x.dispatch(body[:1], args[1])
    init = x.stmts(body[1:li])
    lv, lb = '?', '?'
    if (isinstance(loop.target, ast.Name) and isinstance(loop.iter, ast.Call) and isinstance(loop.iter.func, ast.Name)
            and loop.iter.func.id == 'range' and len(loop.iter.args) == 1 and not loop.iter.keywords
            and isinstance(loop.iter.args[0], ast.Name) and not loop.orelse):
        lv, lb = loop.target.id, loop.iter.args[0].id
    else:
        r.bad(loop, 'unrecognised loop header: %s' % src_of(loop))
    bd = x.stmts(loop.body)
    epi = x.stmts(body[li + 1:-1])
    ret = body[-1].value
    if isinstance(ret, ast.Tuple) and all(isinstance(e, ast.Name) for e in ret.elts):
        rets = [e.id for e in ret.elts]
    else:
        r.bad(body[-1], 'unrecognised return: %s' % src_of(body[-1])); rets = []
    r.parts = {'dispatch': lines_of(body[:1]), 'init': lines_of(body[1:li]), 'body': lines_of([loop]),
               'epilogue': lines_of(body[li + 1:])}
    r.fields = {'param': q(args[0]), 'trParam': q(args[1]), 'defaults': lean_defaults(defaults_of(fn)),
                'dispatch': '[' + ',\n      '.join('(%s, %s)' % ca for ca in disp) + ']',
                'init': '[' + ',\n      '.join(init) + ']',
                'loopVar': q(lv), 'loopBound': q(lb),
                'body': '[' + ',\n      '.join(bd) + ']',
                'epilogue': '[' + ',\n      '.join(epi) + ']',
                'ret': lst(map(q, rets))}
    r.counts = {'dispatch_arms': len(disp), 'init': len(init), 'body': len(bd), 'epilogue': len(epi)}
    return r


def lean_floyd(r, src_path):
    f = r.fields
    rel = os.path.basename(src_path)
    out = ['import BctVerif.Props.CoresFloyd',
           '/-!',
           '# GENERATED by translate/cores.py (family floyd) — do not edit.  Re-emitted from the current source on every check run.',
           'source: %s' % src_path,
           '',
           'The statements of `distance_wei_floyd` as a `FloydIR` value, one obligation per part (so that a failure names',
           'the part and its source lines), the whole-routine obligation `distance_wei_floyd_ok`, and the link theorems',
           'instantiated at the extracted value.',
           '-/',
           'set_option linter.unusedTactic false',
           'set_option linter.unreachableTactic false',
           'namespace Bct.Gen.CoresFloyd',
           'open Bct Bct.Dist Bct.CoreIR.Floyd Bct.Cores.Floyd',
           '']
    for p in r.problems:
        out.append('-- NOT RECOGNISED: ' + p.replace('\n', ' '))
    if not f:
        f = {'param': q('?'), 'trParam': q('?'), 'defaults': '[]', 'dispatch': '[]', 'init': '[]', 'loopVar': q('?'), 'loopBound': q('?'),
             'body': '[]', 'epilogue': '[]', 'ret': '[]'}
    out.append('/-- `distance_wei_floyd` (%s:%d) -/' % (rel, r.line))
    out.append('def ir_distance_wei_floyd : FloydIR :=\n  { recognised := %s,\n    param := %s, trParam := %s, defaults := %s,\n    dispatch :=\n     %s,\n'
               '    init :=\n     %s,\n    loopVar := %s, loopBound := %s,\n    body :=\n     %s,\n    epilogue :=\n     %s,\n    ret := %s }\n' % (
                   'true' if not r.problems else 'false', f['param'], f['trParam'], f['defaults'], f['dispatch'], f['init'], f['loopVar'],
                   f['loopBound'], f['body'], f['epilogue'], f['ret']))
    parts = [('dispatch', '(ir_distance_wei_floyd.dispatch == refDispatch)', 'the transform dispatch / the SPL[SPL == 0] = inf initialisation'),
             ('init', '(ir_distance_wei_floyd.init == refInit)', 'the initialisation of n / hops / Pmat'),
             ('body', '(ir_distance_wei_floyd.loopVar == "k" && ir_distance_wei_floyd.loopBound == "n" && ir_distance_wei_floyd.body == refBody)',
              'the loop `for k in range(n)` (the Floyd stage)'),
             ('epilogue', '(ir_distance_wei_floyd.epilogue == refEpilogue && ir_distance_wei_floyd.ret == ["SPL", "hops", "Pmat"])',
              'the epilogue (diagonal of SPL / hops / Pmat) and the returned names')]
    for pn, prop, what in parts:
        a, b = r.parts.get(pn, (r.line, r.line))
        out.append('theorem distance_wei_floyd_%s_ok : %s = true := by\n  first | decide | fail "distance_wei_floyd_%s_ok: %s of distance_wei_floyd '
                   '(%s:%d-%d) is not the expected statement list"\n' % (pn, prop, pn, what, rel, a, b))
    out.append('theorem distance_wei_floyd_ok : floydOk ir_distance_wei_floyd = true := by\n  first | decide | fail "distance_wei_floyd_ok: the statements '
               'extracted from distance_wei_floyd (%s:%d) %s"\n' % (
                   rel, r.line, 'were not all recognised by translate/cores.py' if r.problems else 'are not the expected program'))
    out.append('theorem distance_wei_floyd_stage {n : Nat} (nl : Rat → Ext) (E : Env n) (s : FSt n) (k : Fin n) (h : StateIs E s) :\n'
               '    ∃ E\', execs nl ir_distance_wei_floyd.body (E.setVar ir_distance_wei_floyd.loopVar k) = some E\' ∧ StateIs E\' (fStage s k) :=\n'
               '  link_stage nl _ distance_wei_floyd_ok E s k h\n')
    out.append('theorem distance_wei_floyd_computes_none {n : Nat} (nl : Rat → Ext) (A : AMat Rat n) :\n'
               '    run nl ir_distance_wei_floyd none A = .ok (embed (floyd (lenMat .none A))) :=\n  link_floyd_none nl _ distance_wei_floyd_ok A\n')
    out.append('theorem distance_wei_floyd_computes_inv {n : Nat} (nl : Rat → Ext) (A : AMat Rat n) :\n'
               '    run nl ir_distance_wei_floyd (some "inv") A = .ok (embed (floyd (lenMat .inv A))) :=\n  link_floyd_inv nl _ distance_wei_floyd_ok A\n')
    out.append('theorem distance_wei_floyd_computes_log {n : Nat} (nl : Rat → Ext) (hnl : ∀ q, (nl q).isFin = (q != 0)) (A : AMat Rat n) :\n'
               '    run nl ir_distance_wei_floyd (some "log") A = .ok (embed (floyd (AMat.ofFn fun i j => nl (A.get i j)))) :=\n'
               '  link_floyd_log nl hnl _ distance_wei_floyd_ok A\n')
    out.append('theorem distance_wei_floyd_other {n : Nat} (nl : Rat → Ext) (A : AMat Rat n) (t : String) (h1 : t ≠ "log") (h2 : t ≠ "inv") :\n'
               '    run nl ir_distance_wei_floyd (some t) A = .error "ValueError" :=\n  link_floyd_other nl _ distance_wei_floyd_ok A t h1 h2\n')
    out.append('end Bct.Gen.CoresFloyd')
    return '\n'.join(out) + '\n'


def family_floyd():
    path = os.path.join(common.REPO, 'bct', 'algorithms', 'distance.py')
    fns, err = parse_functions(path)
    name = 'distance_wei_floyd'
    if name not in fns:
        r = Routine(name, path); r.problems.append('%s: %s' % (name, err or 'function not found in ' + path))
    else:
        try:
            r = extract_floyd(fns[name], path)
            check_header(r, fns[name], fns)
        except Exception as e:  # noqa — an extractor crash must not look like success
            r = Routine(name, path); r.problems.append('%s: extractor raised %s: %s' % (name, type(e).__name__, e))
    return {'module': 'BctVerif.Gen.CoresFloyd', 'file': 'CoresFloyd.lean', 'text': lean_floyd(r, path), 'sources': [path],
            'routines': {r.name: dict(getattr(r, 'counts', {}), line=r.line, recognised=not r.problems)},
            'problems': list(r.problems)}


# ====================================================================== family 'peel'

HELPERS = ('degrees_und', 'degrees_dir', 'strengths_und')
PEELERS = ('kcore_bu', 'kcore_bd', 'score_wu')
CORENESS = ('kcoreness_centrality_bu', 'kcoreness_centrality_bd')


def kw(call, name):
    for k in call.keywords:
        if k.arg == name:
            return k.value
    return None


def const_int(node):
    if isinstance(node, ast.Constant) and type(node.value) is int:
        return node.value
    if (isinstance(node, ast.UnaryOp) and isinstance(node.op, ast.USub) and isinstance(node.operand, ast.Constant)
            and type(node.operand.value) is int):
        return -node.operand.value
    return None


def lint(z):
    return '(%d)' % z if z < 0 else '%d' % z


class PeelX:
    """expression / statement mapping for the peeling routines (Model/CoreIRPeel.lean: MEx, VEx, Stmt)"""

    def __init__(self, r, params):
        self.r = r
        self.mats = set(params[:1])
        self.scalars = set(params[1:])
        self.flags = set(params[1:])
        self.vecs = set()
        self.idxs = set()
        self.nats = set()

    def mex(self, node):
        if isinstance(node, ast.Name) and node.id in self.mats:
            return '(.ref %s)' % q(node.id)
        if (isinstance(node, ast.Call) and isinstance(node.func, ast.Attribute) and node.func.attr == 'copy'
                and not node.args and not node.keywords):
            return '(.copy %s)' % self.mex(node.func.value)
        if (isinstance(node, ast.Call) and isinstance(node.func, ast.Name) and node.func.id == 'binarize' and len(node.args) == 1
                and len(node.keywords) == 1 and isinstance(kw(node, 'copy'), ast.Constant) and kw(node, 'copy').value is True):
            return '(.binarize %s)' % self.mex(node.args[0])
        if (isinstance(node, ast.BinOp) and isinstance(node.op, ast.Add) and isinstance(node.right, ast.Attribute)
                and node.right.attr == 'T'):
            return '(.addT %s %s)' % (self.mex(node.left), self.mex(node.right.value))
        a = np_call(node, 'array', 1)
        if (a and len(node.keywords) == 1 and isinstance(kw(node, 'dtype'), ast.Name) and kw(node, 'dtype').id == 'float'
                and isinstance(a[0], ast.Compare) and len(a[0].ops) == 1 and isinstance(a[0].ops[0], ast.Gt)
                and const_int(a[0].comparators[0]) is not None):
            return '(.gtNum %s %s)' % (self.mex(a[0].left), lint(const_int(a[0].comparators[0])))
        raise Unrec(node, 'unrecognised matrix expression %s' % src_of(node))

    def vex(self, node):
        z = const_int(node)
        if z is not None:
            return '(.lit %s)' % lint(z)
        if isinstance(node, ast.Name):
            if node.id in self.vecs:
                return '(.ref %s)' % q(node.id)
            if node.id in self.scalars:
                return '(.scalar %s)' % q(node.id)
        if isinstance(node, ast.BinOp) and isinstance(node.op, ast.Add):
            return '(.add %s %s)' % (self.vex(node.left), self.vex(node.right))
        if isinstance(node, ast.Compare) and len(node.ops) == 1:
            a, b = self.vex(node.left), self.vex(node.comparators[0])
            op = type(node.ops[0])
            if op is ast.Lt:
                return '(.lt %s %s)' % (a, b)
            if op is ast.Gt:
                return '(.lt %s %s)' % (b, a)
            if op is ast.LtE:
                return '(.le %s %s)' % (a, b)
            if op is ast.GtE:
                return '(.le %s %s)' % (b, a)
        a = np_call(node, 'sum', 1)
        if a and len(node.keywords) == 1 and const_nat(kw(node, 'axis')) is not None:
            return '(.sum %s %d)' % (self.mex(a[0]), const_nat(kw(node, 'axis')))
        for fn_, c in (('logical_and', 'land'), ('logical_or', 'lor')):
            a = np_call(node, fn_, 2)
            if a and not node.keywords:
                return '(.%s %s %s)' % (c, self.vex(a[0]), self.vex(a[1]))
        raise Unrec(node, 'unrecognised vector expression %s' % src_of(node))

    def simple(self, st):
        """statements that may also occur in a helper: x = <matrix> / x = <vector>"""
        if isinstance(st, ast.Assign) and len(st.targets) == 1 and isinstance(st.targets[0], ast.Name):
            x, v = st.targets[0].id, st.value
            try:
                e = self.mex(v)
                kind = 'M'
            except Unrec:
                e = self.vex(v)
                kind = 'V'
            for s_ in (self.mats, self.vecs, self.idxs, self.nats):
                s_.discard(x)
            self.scalars.discard(x)
            self.flags.discard(x)
            (self.mats if kind == 'M' else self.vecs).add(x)
            return '.bind%s %s %s' % (kind, q(x), e)
        raise Unrec(st, 'unrecognised statement %s' % src_of(st))

    def stmt(self, st):
        # if <flag>: <one statement>
        if isinstance(st, ast.If) and isinstance(st.test, ast.Name) and st.test.id in self.flags and not st.orelse and len(st.body) == 1:
            return '.ifFlag %s (%s)' % (q(st.test.id), self.stmt(st.body[0]))
        # if x.size == 0: break
        if (isinstance(st, ast.If) and not st.orelse and len(st.body) == 1 and isinstance(st.body[0], ast.Break)
                and isinstance(st.test, ast.Compare) and len(st.test.ops) == 1 and isinstance(st.test.ops[0], ast.Eq)
                and const_nat(st.test.comparators[0]) == 0 and isinstance(st.test.left, ast.Attribute) and st.test.left.attr == 'size'
                and isinstance(st.test.left.value, ast.Name) and st.test.left.value.id in self.idxs):
            return '.breakIfEmpty %s' % q(st.test.left.value.id)
        if isinstance(st, ast.AugAssign) and isinstance(st.op, ast.Add) and isinstance(st.target, ast.Name) \
                and st.target.id in self.nats and const_nat(st.value) == 1:
            return '.incr %s' % q(st.target.id)
        if isinstance(st, ast.Expr) and isinstance(st.value, ast.Call) and isinstance(st.value.func, ast.Attribute) \
                and st.value.func.attr == 'append' and isinstance(st.value.func.value, ast.Name) and len(st.value.args) == 1 \
                and not st.value.keywords:
            l, a = st.value.func.value.id, st.value.args[0]
            if isinstance(a, ast.Name) and a.id in self.idxs:
                return '.appendIdx %s %s' % (q(l), q(a.id))
            # it * np.ones((len(x),))
            if isinstance(a, ast.BinOp) and isinstance(a.op, ast.Mult) and isinstance(a.left, ast.Name) and a.left.id in self.nats:
                o = np_call(a.right, 'ones', 1)
                if o and not a.right.keywords and isinstance(o[0], ast.Tuple) and len(o[0].elts) == 1:
                    ln = o[0].elts[0]
                    if (isinstance(ln, ast.Call) and isinstance(ln.func, ast.Name) and ln.func.id == 'len' and len(ln.args) == 1
                            and isinstance(ln.args[0], ast.Name) and ln.args[0].id in self.idxs):
                        return '.appendLevel %s %s %s' % (q(l), q(a.left.id), q(ln.args[0].id))
        if isinstance(st, ast.Assign) and len(st.targets) == 1:
            t, v = st.targets[0], st.value
            # a, b = ([], [])
            if (isinstance(t, ast.Tuple) and isinstance(v, ast.Tuple) and len(t.elts) == len(v.elts)
                    and all(isinstance(e, ast.Name) for e in t.elts)
                    and all(isinstance(e, ast.List) and not e.elts for e in v.elts)):
                return '.initLists %s' % lst(q(e.id) for e in t.elts)
            # x, = np.where(e)
            if isinstance(t, ast.Tuple) and len(t.elts) == 1 and isinstance(t.elts[0], ast.Name) and np_call(v, 'where', 1) \
                    and not v.keywords:
                e = self.vex(v.args[0])
                self.idxs.add(t.elts[0].id)
                return '.whereV %s %s' % (q(t.elts[0].id), e)
            # t1, .., tk = helper(M)   /   t = helper(M)
            if isinstance(v, ast.Call) and isinstance(v.func, ast.Name) and v.func.id in HELPERS and len(v.args) == 1 and not v.keywords:
                ts = t.elts if isinstance(t, ast.Tuple) else [t]
                if all(isinstance(e, ast.Name) for e in ts):
                    arg = self.mex(v.args[0])
                    for e in ts:
                        self.vecs.add(e.id)
                    return '.call %s %s %s' % (lst(q(e.id) for e in ts), q(v.func.id), arg)
            # M[x, :] = c  /  M[:, x] = c
            if (isinstance(t, ast.Subscript) and isinstance(t.value, ast.Name) and t.value.id in self.mats
                    and isinstance(t.slice, ast.Tuple) and len(t.slice.elts) == 2 and const_int(v) is not None):
                a, b = t.slice.elts

                def full(s_):
                    return isinstance(s_, ast.Slice) and s_.lower is None and s_.upper is None and s_.step is None
                if isinstance(a, ast.Name) and a.id in self.idxs and full(b):
                    return '.setRows %s %s %s' % (q(t.value.id), q(a.id), lint(const_int(v)))
                if isinstance(b, ast.Name) and b.id in self.idxs and full(a):
                    return '.setCols %s %s %s' % (q(t.value.id), q(b.id), lint(const_int(v)))
            if isinstance(t, ast.Name):
                if const_nat(v) is not None and type(v.value) is int:
                    self.nats.add(t.id)
                    return '.setNat %s %d' % (q(t.id), const_nat(v))
                # x = np.sum(<boolean vector>)
                a = np_call(v, 'sum', 1)
                if a and not v.keywords and isinstance(a[0], ast.Compare):
                    e = self.vex(a[0])
                    self.nats.add(t.id)
                    return '.count %s %s' % (q(t.id), e)
                return self.simple(st)
        raise Unrec(st, 'unrecognised statement %s' % src_of(st))

    def stmts(self, sts, simple=False):
        out = []
        for st in sts:
            try:
                out.append(self.simple(st) if simple else self.stmt(st))
            except Unrec as e:
                self.r.bad(e.node if hasattr(e.node, 'lineno') else st, e.msg)
        return out


def ret_names(r, st):
    v = st.value
    els = v.elts if isinstance(v, ast.Tuple) else [v]
    if all(isinstance(e, ast.Name) for e in els):
        return [e.id for e in els]
    r.bad(st, 'unrecognised return: %s' % src_of(st))
    return []


def extract_helper(fn, path):
    r = Routine(fn.name, path)
    r.line = fn.lineno
    args = [a.arg for a in fn.args.args]
    if len(args) != 1 or fn.args.vararg or fn.args.kwarg or fn.args.kwonlyargs:
        r.bad(fn, 'expected exactly one parameter, found %s' % args)
    x = PeelX(r, args[:1])
    body = body_wo_doc(fn)
    if not body or not isinstance(body[-1], ast.Return) or body[-1].value is None:
        r.bad(fn, 'expected statements followed by `return`')
        return r
    sts = x.stmts(body[:-1], simple=True)
    v = body[-1].value
    rets = []
    for e in (v.elts if isinstance(v, ast.Tuple) else [v]):
        try:
            rets.append(x.vex(e))
        except Unrec as u:
            r.bad(body[-1], u.msg)
    r.fields = {'param': q(args[0] if args else '?'), 'body': lst(sts), 'ret': lst(rets)}
    r.counts = {'statements': len(sts), 'returns': len(rets)}
    return r


def extract_peeler(fn, path):
    r = Routine(fn.name, path)
    r.line = fn.lineno
    args = [a.arg for a in fn.args.args]
    if fn.args.vararg or fn.args.kwarg or fn.args.kwonlyargs:
        r.bad(fn, 'unexpected parameter kinds')
    x = PeelX(r, args)
    body = body_wo_doc(fn)
    loops = [i for i, st in enumerate(body) if isinstance(st, ast.While)]
    if len(loops) != 1:
        r.bad(fn, 'expected exactly one `while` loop, found %d' % len(loops))
        return r
    li = loops[0]
    loop = body[li]
    if not (isinstance(loop.test, ast.Constant) and loop.test.value is True and not loop.orelse):
        r.bad(loop, 'expected `while True:` without else')
    pre = x.stmts(body[:li])
    bd = x.stmts(loop.body)
    tail = body[li + 1:]
    flag, ret_flag, ret = 'none', [], []
    if tail and isinstance(tail[-1], ast.Return) and tail[-1].value is not None:
        ret = ret_names(r, tail[-1]); post_nodes = tail[:-1]
    elif (tail and isinstance(tail[-1], ast.If) and isinstance(tail[-1].test, ast.Name) and len(tail[-1].body) == 1
          and len(tail[-1].orelse) == 1 and isinstance(tail[-1].body[0], ast.Return) and isinstance(tail[-1].orelse[0], ast.Return)
          and tail[-1].body[0].value is not None and tail[-1].orelse[0].value is not None):
        flag = '(some %s)' % q(tail[-1].test.id)
        ret_flag = ret_names(r, tail[-1].body[0]); ret = ret_names(r, tail[-1].orelse[0]); post_nodes = tail[:-1]
    else:
        r.bad(fn, 'unrecognised return structure after the loop'); post_nodes = tail
    post = x.stmts(post_nodes)
    r.parts = {'pre': lines_of(body[:li]), 'body': lines_of([loop]), 'post': lines_of(tail)}
    r.fields = {'params': lst(map(q, args)), 'defaults': lean_defaults(defaults_of(fn)), 'pre': lst(pre),
                'body': '[' + ',\n      '.join(bd) + ']', 'post': lst(post),
                'flag': flag, 'retFlag': lst(map(q, ret_flag)), 'ret': lst(map(q, ret))}
    r.counts = {'pre': len(pre), 'body': len(bd), 'post': len(post)}
    return r


def nex(node, dims):
    z = const_nat(node)
    if z is not None and type(node.value) is int:
        return '(.lit %d)' % z
    if isinstance(node, ast.Name) and node.id in dims:
        return '(.dim %s)' % q(node.id)
    if isinstance(node, ast.BinOp) and isinstance(node.op, (ast.Mult, ast.Sub, ast.Add)):
        op = {ast.Mult: 'mul', ast.Sub: 'sub', ast.Add: 'add'}[type(node.op)]
        return '(.%s %s %s)' % (op, nex(node.left, dims), nex(node.right, dims))
    if isinstance(node, ast.Call) and isinstance(node.func, ast.Name) and node.func.id == 'max' and len(node.args) == 2 and not node.keywords:
        return '(.max %s %s)' % (nex(node.args[0], dims), nex(node.args[1], dims))
    raise Unrec(node, 'unrecognised size expression %s' % src_of(node))


def extract_coreness(fn, path):
    r = Routine(fn.name, path)
    r.line = fn.lineno
    args = [a.arg for a in fn.args.args]
    if len(args) != 1 or fn.args.vararg or fn.args.kwarg or fn.args.kwonlyargs:
        r.bad(fn, 'expected exactly one parameter, found %s' % args)
        return r
    x = PeelX(r, args)
    dims = set()
    body = body_wo_doc(fn)
    loops = [i for i, st in enumerate(body) if isinstance(st, ast.For)]
    if len(loops) != 1 or not isinstance(body[-1], ast.Return) or loops[0] != len(body) - 2:
        r.bad(fn, 'expected statements, one `for` loop, `return`')
        return r
    loop = body[loops[0]]

    def cstmt(st):
        if isinstance(st, ast.Assign) and len(st.targets) == 1 and isinstance(st.targets[0], ast.Name):
            t, v = st.targets[0].id, st.value
            if (isinstance(v, ast.Call) and isinstance(v.func, ast.Name) and v.func.id == 'len' and len(v.args) == 1 and not v.keywords
                    and isinstance(v.args[0], ast.Name) and v.args[0].id in x.mats):
                dims.add(t)
                return '.len %s %s' % (q(t), q(v.args[0].id))
            z = np_call(v, 'zeros', 1)
            if z and not v.keywords and isinstance(z[0], ast.Tuple) and len(z[0].elts) == 1:
                return '.zeros %s %s' % (q(t), nex(z[0].elts[0], dims))
            e = x.mex(v)
            x.mats.add(t)
            return '.bindM %s %s' % (q(t), e)
        if isinstance(st, ast.If) and not st.orelse and len(st.body) == 1:
            a = np_call(st.test, 'any', 1)
            if (a and not st.test.keywords and isinstance(a[0], ast.Compare) and len(a[0].ops) == 1 and isinstance(a[0].ops[0], ast.Gt)
                    and const_int(a[0].comparators[0]) is not None):
                return '.ifAnyGt %s %s (%s)' % (x.mex(a[0].left), lint(const_int(a[0].comparators[0])), cstmt(st.body[0]))
        raise Unrec(st, 'unrecognised statement %s' % src_of(st))
    pre = []
    for st in body[:loops[0]]:
        try:
            pre.append(cstmt(st))
        except Unrec as e:
            r.bad(e.node if hasattr(e.node, 'lineno') else st, e.msg)
    f = {'param': q(args[0]), 'pre': '[' + ',\n      '.join(pre) + ']'}
    bad = q('?')
    f.update(loopVar=bad, bound='(.lit 0)', core=bad, knArr=bad, knIdx=bad, callee=bad, callArgs='[]', ss=bad, member='(.lit 0)',
             out=bad, storeIdx=bad, storeVal=bad)
    try:
        if not (isinstance(loop.target, ast.Name) and isinstance(loop.iter, ast.Call) and isinstance(loop.iter.func, ast.Name)
                and loop.iter.func.id == 'range' and len(loop.iter.args) == 1 and not loop.iter.keywords and not loop.orelse):
            raise Unrec(loop, 'unrecognised loop header %s' % src_of(loop))
        f['loopVar'] = q(loop.target.id)
        f['bound'] = nex(loop.iter.args[0], dims)
        if len(loop.body) != 3:
            raise Unrec(loop, 'expected exactly three statements in the loop body, found %d' % len(loop.body))
        s1, s2, s3 = loop.body
        # <core>, <kn>[<k>] = <callee>(<args>)
        ok1 = (isinstance(s1, ast.Assign) and len(s1.targets) == 1 and isinstance(s1.targets[0], ast.Tuple) and len(s1.targets[0].elts) == 2
               and isinstance(s1.targets[0].elts[0], ast.Name) and isinstance(s1.targets[0].elts[1], ast.Subscript)
               and isinstance(s1.targets[0].elts[1].value, ast.Name) and isinstance(s1.targets[0].elts[1].slice, ast.Name)
               and isinstance(s1.value, ast.Call) and isinstance(s1.value.func, ast.Name) and not s1.value.keywords
               and all(isinstance(a, ast.Name) for a in s1.value.args))
        if not ok1:
            raise Unrec(s1, 'unrecognised k-core call %s' % src_of(s1))
        f['core'] = q(s1.targets[0].elts[0].id)
        f['knArr'] = q(s1.targets[0].elts[1].value.id)
        f['knIdx'] = q(s1.targets[0].elts[1].slice.id)
        f['callee'] = q(s1.value.func.id)
        f['callArgs'] = lst(q(a.id) for a in s1.value.args)
        x.mats.add(s1.targets[0].elts[0].id)
        # <ss> = <membership>
        if not (isinstance(s2, ast.Assign) and len(s2.targets) == 1 and isinstance(s2.targets[0], ast.Name)):
            raise Unrec(s2, 'unrecognised membership statement %s' % src_of(s2))
        f['ss'] = q(s2.targets[0].id)
        f['member'] = x.vex(s2.value)
        # <out>[<ss>] = <k>
        if not (isinstance(s3, ast.Assign) and len(s3.targets) == 1 and isinstance(s3.targets[0], ast.Subscript)
                and isinstance(s3.targets[0].value, ast.Name) and isinstance(s3.targets[0].slice, ast.Name) and isinstance(s3.value, ast.Name)):
            raise Unrec(s3, 'unrecognised coreness store %s' % src_of(s3))
        f['out'] = q(s3.targets[0].value.id)
        f['storeIdx'] = q(s3.targets[0].slice.id)
        f['storeVal'] = q(s3.value.id)
    except Unrec as e:
        r.bad(e.node if hasattr(e.node, 'lineno') else loop, e.msg)
    f['ret'] = lst(map(q, ret_names(r, body[-1])))
    r.parts = {'pre': lines_of(body[:loops[0]]), 'body': lines_of([loop])}
    r.fields = f
    r.counts = {'pre': len(pre)}
    return r


def lean_peel(hs, ps, cs, paths):
    out = ['import BctVerif.Props.CoresPeel',
           '/-!',
           '# GENERATED by translate/cores.py (family peel) — do not edit.  Re-emitted from the current source on every check run.',
           'sources: %s' % ', '.join(paths),
           '',
           'Every statement of `degrees_und`, `degrees_dir`, `strengths_und` (helper table), of `kcore_bu`, `kcore_bd`, `score_wu` and of',
           '`kcoreness_centrality_bu/_bd` as data, one obligation per function, and the link theorems instantiated at the extracted values.',
           '-/',
           'set_option linter.unusedTactic false',
           'set_option linter.unreachableTactic false',
           'namespace Bct.Gen.CoresPeel',
           'open Bct Bct.Core Bct.CoreIR.Peel Bct.Cores.Peel',
           '']

    def notes(r):
        for p in r.problems:
            out.append('-- NOT RECOGNISED: ' + p.replace('\n', ' '))

    def why(r):
        return 'were not all recognised by translate/cores.py' if r.problems else 'are not the expected program'
    refname = {'degrees_und': 'refDegreesUnd', 'degrees_dir': 'refDegreesDir', 'strengths_und': 'refStrengthsUnd',
               'kcore_bu': 'refKcoreBu', 'kcore_bd': 'refKcoreBd', 'score_wu': 'refScoreWu',
               'kcoreness_centrality_bu': 'refCorenessBu', 'kcoreness_centrality_bd': 'refCorenessBd'}
    for r in hs:
        f = r.fields or {'param': q('?'), 'body': '[]', 'ret': '[]'}
        notes(r)
        out.append('/-- `%s` (%s:%d) -/' % (r.name, os.path.basename(r.file), r.line))
        out.append('def h_%s : Helper :=\n  { name := %s, recognised := %s, param := %s,\n    body := %s,\n    ret := %s }\n' % (
            r.name, q(r.name), 'true' if not r.problems else 'false', f['param'], f['body'], f['ret']))
        out.append('theorem %s_ok : (h_%s == %s) = true := by\n  first | decide | fail "%s_ok: the statements extracted from %s (%s:%d) %s"\n' % (
            r.name, r.name, refname[r.name], r.name, r.name, os.path.basename(r.file), r.line, why(r)))
    out.append('def helpers : List Helper := %s\n' % lst('h_' + r.name for r in hs))
    out.append('theorem helpers_ok : helpersOk helpers = true := by\n  first | decide | fail "helpers_ok: degrees_und / degrees_dir / strengths_und '
               '(%s) are not the expected helper functions"\n' % os.path.basename(hs[0].file))
    for r in ps:
        f = r.fields or {'params': '[]', 'defaults': '[]', 'pre': '[]', 'body': '[]', 'post': '[]', 'flag': 'none', 'retFlag': '[]', 'ret': '[]'}
        notes(r)
        out.append('/-- `%s` (%s:%d) -/' % (r.name, os.path.basename(r.file), r.line))
        out.append('def ir_%s : PeelIR :=\n  { name := %s, recognised := %s, params := %s, defaults := %s,\n    pre := %s,\n    body :=\n     %s,\n    post := %s,\n'
                   '    flag := %s, retFlag := %s, ret := %s }\n' % (
                       r.name, q(r.name), 'true' if not r.problems else 'false', f['params'], f['defaults'], f['pre'], f['body'], f['post'], f['flag'],
                       f['retFlag'], f['ret']))
        a, b = r.parts.get('body', (r.line, r.line))
        out.append('theorem %s_body_ok : (ir_%s.body == %s.body) = true := by\n  first | decide | fail "%s_body_ok: the `while True` body of %s '
                   '(%s:%d-%d: degree call, peel condition, stop test, zeroing of rows and columns) is not the expected statement list"\n' % (
                       r.name, r.name, refname[r.name], r.name, r.name, os.path.basename(r.file), a, b))
        out.append('theorem %s_ok : peelOk ir_%s = true := by\n  first | decide | fail "%s_ok: the statements extracted from %s (%s:%d) %s"\n' % (
            r.name, r.name, r.name, r.name, os.path.basename(r.file), r.line, why(r)))
    lk = {'kcore_bu': ('degBu', 'link_kcore_bu', 'kcoreBu'), 'kcore_bd': ('degBd', 'link_kcore_bd', 'kcoreBd')}
    for name, (deg, th, model) in lk.items():
        out.append('theorem %s_computes {n : Nat} (fuel : Nat) (A : AMat Int n) (k : Nat) (p : Bool) :\n'
                   '    runPeel helpers ir_%s fuel [.mat (embI A), .scal (.int k), .flag p] =\n'
                   '      (peelLoopOpt 0 %s (smallNat k) posNat fuel A 0 [] []).map (kcoreResult p) :=\n'
                   '  %s helpers helpers_ok ir_%s %s_ok rfl fuel A k p\n' % (name, name, deg, th, name, name))
        out.append('theorem %s_model {n : Nat} (A : AMat Int n) (k : Nat) (p : Bool) (res : List (Obj n))\n'
                   '    (h : runPeel helpers ir_%s n [.mat (embI A), .scal (.int k), .flag p] = some res) : res = kcoreResult p (%s A k) :=\n'
                   '  %s_model helpers helpers_ok ir_%s %s_ok rfl A k p res h\n' % (name, name, model, th, name, name))
    out.append('theorem score_wu_computes {n : Nat} (fuel : Nat) (A : AMat Rat n) (s : Rat) :\n'
               '    runPeel helpers ir_score_wu fuel [.mat (embR A), .scal (.rat s)] =\n'
               '      (peelLoopOpt 0 strWu (smallRat s) posRat fuel A 0 [] []).map fun out => [.mat (embR out.M), .nat out.kn] :=\n'
               '  link_score_wu helpers helpers_ok ir_score_wu score_wu_ok rfl fuel A s\n')
    out.append('theorem score_wu_model {n : Nat} (A : AMat Rat n) (s : Rat) (res : List (Obj n))\n'
               '    (h : runPeel helpers ir_score_wu n [.mat (embR A), .scal (.rat s)] = some res) :\n'
               '    res = [.mat (embR (scoreWu A s).M), .nat (scoreWu A s).kn] :=\n'
               '  link_score_wu_model helpers helpers_ok ir_score_wu score_wu_ok rfl A s res h\n')
    for r in cs:
        f = r.fields
        notes(r)
        if not f:
            f = dict(param=q('?'), pre='[]', loopVar=q('?'), bound='(.lit 0)', core=q('?'), knArr=q('?'), knIdx=q('?'), callee=q('?'),
                     callArgs='[]', ss=q('?'), member='(.lit 0)', out=q('?'), storeIdx=q('?'), storeVal=q('?'), ret='[]')
        out.append('/-- `%s` (%s:%d) -/' % (r.name, os.path.basename(r.file), r.line))
        out.append('def ir_%s : CorenessIR :=\n  { name := %s, recognised := %s, param := %s,\n    pre :=\n     %s,\n    loopVar := %s, bound := %s,\n'
                   '    core := %s, knArr := %s, knIdx := %s, callee := %s, callArgs := %s,\n    ss := %s, member := %s,\n'
                   '    out := %s, storeIdx := %s, storeVal := %s, ret := %s }\n' % (
                       r.name, q(r.name), 'true' if not r.problems else 'false', f['param'], f['pre'], f['loopVar'], f['bound'], f['core'],
                       f['knArr'], f['knIdx'], f['callee'], f['callArgs'], f['ss'], f['member'], f['out'], f['storeIdx'], f['storeVal'], f['ret']))
        a, b = r.parts.get('body', (r.line, r.line))
        out.append('theorem %s_ok : corenessOk ir_%s = true := by\n  first | decide | fail "%s_ok: the statements extracted from %s (%s:%d; loop bound '
                   'and membership expression at %d-%d) %s"\n' % (r.name, r.name, r.name, r.name, os.path.basename(r.file), r.line, a, b, why(r)))
    for name, kcm, model, th in (('kcoreness_centrality_bu', 'kcoreBu', 'kcorenessBu', 'link_coreness_bu'),
                                 ('kcoreness_centrality_bd', 'kcoreBd', 'kcorenessBd', 'link_coreness_bd')):
        out.append('theorem %s_computes {n : Nat} (kc : AMat V n → Nat → Option (AMat V n × Nat))\n'
                   '    (hkc : ∀ (M : AMat Int n) (k : Nat), kc (embI M) k = some (embI (%s M k).M, (%s M k).kn)) (A : AMat Int n) :\n'
                   '    runCoreness ir_%s kc (embI A) = some (%s A) :=\n  %s _ %s_ok rfl kc hkc A\n' % (name, kcm, kcm, name, model, th, name))
    out.append('end Bct.Gen.CoresPeel')
    return '\n'.join(out) + '\n'


def family_peel():
    base = os.path.join(common.REPO, 'bct', 'algorithms')
    paths = {'degree': os.path.join(base, 'degree.py'), 'core': os.path.join(base, 'core.py'), 'centrality': os.path.join(base, 'centrality.py')}
    fns = {k: parse_functions(p) for k, p in paths.items()}

    def one(kind, name, extractor):
        f, err = fns[kind]
        if name not in f:
            r = Routine(name, paths[kind]); r.problems.append('%s: %s' % (name, err or 'function not found in ' + paths[kind]))
            return r
        try:
            r = extractor(f[name], paths[kind])
            check_header(r, f[name], f)
            if extractor is not extract_peeler and f[name].args.defaults:
                r.bad(f[name], 'unexpected default values %s' % defaults_of(f[name]))
            return r
        except Exception as e:  # noqa — an extractor crash must not look like success
            r = Routine(name, paths[kind]); r.problems.append('%s: extractor raised %s: %s' % (name, type(e).__name__, e))
            return r
    hs = [one('degree', n, extract_helper) for n in HELPERS]
    ps = [one('core', n, extract_peeler) for n in PEELERS]
    cs = [one('centrality', n, extract_coreness) for n in CORENESS]
    allr = hs + ps + cs
    return {'module': 'BctVerif.Gen.CoresPeel', 'file': 'CoresPeel.lean', 'text': lean_peel(hs, ps, cs, [paths[k] for k in ('degree', 'core', 'centrality')]),
            'sources': [paths[k] for k in ('degree', 'core', 'centrality')],
            'routines': {r.name: dict(getattr(r, 'counts', {}), line=r.line, recognised=not r.problems) for r in allr},
            'problems': [p for r in allr for p in r.problems]}


# ====================================================================== family 'util'

from fractions import Fraction

UTIL_MATRIX = ('threshold_absolute', 'binarize', 'normalize', 'invert', 'logtransform')       # bct/utils/other.py, first parameter = the matrix
UTIL_SCALAR = ('teachers_round', 'cuberoot', 'pick_four_unique_nodes_quickly')                # bct/utils/miscellaneous_utilities.py


class UtilX:
    """expression / statement mapping for the pure utilities (Model/CoreIRUtil.lean: SEx, Ret, Stmt)"""

    def __init__(self, r, fname, params, matrix):
        self.r = r
        self.fname = fname
        self.params = params
        self.matrix = matrix        # name of the matrix parameter or None

    def sex(self, node):
        if isinstance(node, ast.Constant) and type(node.value) in (int, float) and node.value == node.value \
                and node.value not in (float('inf'), float('-inf')):
            fr = Fraction(node.value)
            return '(.lit %s %d)' % (lint(fr.numerator), fr.denominator)
        if isinstance(node, ast.Name):
            return '(.var %s)' % q(node.id)
        if isinstance(node, ast.Subscript) and isinstance(node.value, ast.Name) and isinstance(node.slice, ast.Name):
            return '(.at %s %s)' % (q(node.value.id), q(node.slice.id))
        if isinstance(node, ast.BinOp):
            ops = {ast.Add: 'add', ast.Sub: 'sub', ast.Mult: 'mul', ast.Div: 'div', ast.Mod: 'mod', ast.FloorDiv: 'fdiv', ast.Pow: 'pow'}
            if type(node.op) in ops:
                return '(.%s %s %s)' % (ops[type(node.op)], self.sex(node.left), self.sex(node.right))
        if isinstance(node, ast.UnaryOp) and isinstance(node.op, ast.USub):
            a = np_call(node.operand, 'log', 1)
            if a and not node.operand.keywords:
                return '(.negLog %s)' % self.sex(a[0])
            return '(.neg %s)' % self.sex(node.operand)
        if isinstance(node, ast.Compare) and len(node.ops) == 1:
            a, b = self.sex(node.left), self.sex(node.comparators[0])
            op = type(node.ops[0])
            tbl = {ast.Lt: ('lt', a, b), ast.Gt: ('lt', b, a), ast.LtE: ('le', a, b), ast.GtE: ('le', b, a), ast.Eq: ('eq', a, b),
                   ast.NotEq: ('ne', a, b)}
            if op in tbl:
                return '(.%s %s %s)' % tbl[op]
        if isinstance(node, ast.BoolOp) and len(node.values) >= 2:
            c = 'and' if isinstance(node.op, ast.And) else 'or'
            out = self.sex(node.values[0])
            for v in node.values[1:]:
                out = '(.%s %s %s)' % (c, out, self.sex(v))
            return out
        if isinstance(node, ast.Call) and not node.keywords:
            for fn_, c, k in (('abs', 'abs', 1), ('sign', 'sign', 1), ('logical_and', 'and', 2), ('logical_or', 'or', 2)):
                a = np_call(node, fn_, k)
                if a:
                    return '(.%s %s)' % (c, ' '.join(self.sex(x) for x in a))
            # int(np.floor(x)) / int(np.ceil(x))
            if isinstance(node.func, ast.Name) and node.func.id == 'int' and len(node.args) == 1:
                for fn_, c in (('floor', 'floorInt'), ('ceil', 'ceilInt')):
                    a = np_call(node.args[0], fn_, 1)
                    if a and not node.args[0].keywords:
                        return '(.%s %s)' % (c, self.sex(a[0]))
        raise Unrec(node, 'unrecognised expression %s' % src_of(node))

    def ret(self, st):
        v = st.value
        if v is None:
            raise Unrec(st, 'bare return')
        if isinstance(v, ast.Name) and v.id == self.matrix:
            return '(.mat %s)' % q(v.id)
        if isinstance(v, ast.Tuple):
            return '(.tuple %s)' % lst(self.sex(e) for e in v.elts)
        if (isinstance(v, ast.Call) and isinstance(v.func, ast.Name) and v.func.id == self.fname and not v.keywords
                and all(isinstance(a, ast.Name) for a in v.args)):
            return '(.retry %s %s)' % (q(v.func.id), lst(q(a.id) for a in v.args))
        return '(.expr %s)' % self.sex(v)

    def copy_stmt(self, st):
        """if <flag>: W = W.copy()   /   if <flag>: W = W.astype(float) if W.dtype.kind in 'iub' else W.copy()"""
        if not (isinstance(st, ast.If) and isinstance(st.test, ast.Name) and not st.orelse and len(st.body) == 1
                and isinstance(st.body[0], ast.Assign) and len(st.body[0].targets) == 1
                and isinstance(st.body[0].targets[0], ast.Name)):
            return None
        w, v = st.body[0].targets[0].id, st.body[0].value

        def is_copy(x):
            return (isinstance(x, ast.Call) and isinstance(x.func, ast.Attribute) and x.func.attr == 'copy' and not x.args
                    and not x.keywords and isinstance(x.func.value, ast.Name) and x.func.value.id == w)
        if is_copy(v):
            return '.ifCopy %s %s' % (q(st.test.id), q(w))
        if (isinstance(v, ast.IfExp) and is_copy(v.orelse) and ast.unparse(v.body) == '%s.astype(float)' % w
                and ast.unparse(v.test) == "%s.dtype.kind in 'iub'" % w):
            return '.ifCopyFloat %s %s' % (q(st.test.id), q(w))
        return None

    def stmt(self, st):
        c = self.copy_stmt(st)
        if c:
            return c
        if isinstance(st, ast.Return):
            return '.ret %s' % self.ret(st)
        if isinstance(st, ast.If) and len(st.body) == 1 and len(st.orelse) == 1 and isinstance(st.body[0], ast.Return) \
                and isinstance(st.orelse[0], ast.Return):
            return '.ifRet %s %s %s' % (self.sex(st.test), self.ret(st.body[0]), self.ret(st.orelse[0]))
        # if <c>.any(): raise Exc(...)
        if (isinstance(st, ast.If) and not st.orelse and len(st.body) == 1 and isinstance(st.body[0], ast.Raise)
                and st.body[0].cause is None and isinstance(st.test, ast.Call) and isinstance(st.test.func, ast.Attribute)
                and st.test.func.attr == 'any' and not st.test.args and not st.test.keywords):
            e = st.body[0].exc
            exc = e.func.id if isinstance(e, ast.Call) and isinstance(e.func, ast.Name) else (e.id if isinstance(e, ast.Name) else None)
            names = {nd.id for nd in ast.walk(st.test.func.value) if isinstance(nd, ast.Name) and nd.id != 'np'}
            if exc and names == {self.matrix}:
                return '.raiseIfAny %s %s %s' % (q(self.matrix), self.sex(st.test.func.value), q(exc))
        if isinstance(st, ast.Expr) and np_call(st.value, 'fill_diagonal', 2) and not st.value.keywords \
                and isinstance(st.value.args[0], ast.Name):
            return '.fillDiag %s %s' % (q(st.value.args[0].id), self.sex(st.value.args[1]))
        if isinstance(st, ast.AugAssign) and isinstance(st.op, ast.Div) and isinstance(st.target, ast.Name):
            a = np_call(st.value, 'max', 1)
            if a and not st.value.keywords:
                return '.idivMax %s %s' % (q(st.target.id), self.sex(a[0]))
        if isinstance(st, ast.Assign) and len(st.targets) == 1:
            t, v = st.targets[0], st.value
            if isinstance(t, ast.Subscript) and isinstance(t.value, ast.Name):
                w = t.value.id
                if isinstance(t.slice, ast.Constant) and t.slice.value is Ellipsis:
                    return '.setAll %s %s' % (q(w), self.sex(v))
                if isinstance(t.slice, ast.Name):
                    return '.setAt %s %s %s' % (q(w), q(t.slice.id), self.sex(v))
                if isinstance(t.slice, (ast.Compare, ast.Call, ast.BoolOp)):
                    return '.setMask %s %s %s' % (q(w), self.sex(t.slice), self.sex(v))
            if isinstance(t, ast.Name):
                a = np_call(v, 'where', 1)
                if a and not v.keywords and isinstance(a[0], ast.Name):
                    return '.whereNZ %s %s' % (q(t.id), q(a[0].id))
                if isinstance(v, ast.Call) and isinstance(v.func, ast.Name) and v.func.id == 'get_rng' and len(v.args) == 1 \
                        and not v.keywords and isinstance(v.args[0], ast.Name):
                    return '.bindRng %s %s' % (q(t.id), q(v.args[0].id))
                if (isinstance(v, ast.Call) and isinstance(v.func, ast.Attribute) and v.func.attr == 'randint'
                        and isinstance(v.func.value, ast.Name) and len(v.args) == 1 and not v.keywords):
                    return '.draw %s %s %s' % (q(t.id), q(v.func.value.id), self.sex(v.args[0]))
                return '.bind %s %s' % (q(t.id), self.sex(v))
        raise Unrec(st, 'unrecognised statement %s' % src_of(st))


def extract_util(fn, path, matrix):
    r = Routine(fn.name, path)
    r.line = fn.lineno
    a = fn.args
    if a.vararg or a.kwarg or a.kwonlyargs or a.posonlyargs:
        r.bad(fn, 'unexpected parameter kinds')
    params = [x.arg for x in a.args]
    defaults = defaults_of(fn)
    x = UtilX(r, fn.name, params, params[0] if (matrix and params) else None)
    sts = []
    for st in body_wo_doc(fn):
        try:
            sts.append(x.stmt(st))
        except Unrec as e:
            r.bad(e.node if hasattr(e.node, 'lineno') else st, e.msg)
    r.fields = {'params': lst(map(q, params)), 'defaults': lst('(%s, %s)' % (q(k), q(v)) for k, v in defaults),
                'body': '[' + ',\n      '.join(sts) + ']'}
    r.counts = {'statements': len(sts)}
    r.parts = {'body': lines_of(body_wo_doc(fn))}
    return r


UTIL_LINKS = {
    'teachers_round': ('{n : Nat} (o : Oracles) (x : Rat) (ds : List Nat)',
                       'runFn (n := n) o ir_teachers_round [.sc (.rat x)] ds = .vals [.int (Bct.Thresh.teachersRound x)] ds',
                       'link_teachers_round o _ teachers_round_ok rfl x ds'),
    'threshold_absolute': ('{n : Nat} (o : Oracles) (W : AMat Rat n) (thr : Rat) (c : Bool) (ds : List Nat)',
                           'runFn o ir_threshold_absolute [.mat (embQ W), .sc (.rat thr), .sc (.bool c)] ds = .mat (embQ (Bct.Thresh.thresholdAbsolute W thr))',
                           'link_threshold_absolute o _ threshold_absolute_ok rfl W thr c ds'),
    'binarize': ('{n : Nat} (o : Oracles) (W : AMat Rat n) (c : Bool) (ds : List Nat)',
                 'runFn o ir_binarize [.mat (embQ W), .sc (.bool c)] ds = .mat (embQ (Bct.Thresh.binarize W))',
                 'link_binarize o _ binarize_ok rfl W c ds'),
    'normalize': ('{n : Nat} (o : Oracles) (W : AMat Rat n) (c : Bool) (ds : List Nat)',
                  'runFn o ir_normalize [.mat (embQ W), .sc (.bool c)] ds =\n      .mat (match Bct.Thresh.normalize W with | some R => embQ R | none => AMat.ofFn fun _ _ => SV.nan)',
                  'link_normalize o _ normalize_ok rfl W c ds'),
    'invert': ('{n : Nat} (o : Oracles) (W : AMat Rat n) (c : Bool) (ds : List Nat)',
               'runFn o ir_invert [.mat (embQ W), .sc (.bool c)] ds = .mat (embQ (Bct.Thresh.invert W))',
               'link_invert o _ invert_ok rfl W c ds'),
    'logtransform': ('{n : Nat} (o : Oracles) (W : AMat Rat n) (c : Bool) (ds : List Nat)',
                     'runFn o ir_logtransform [.mat (embQ W), .sc (.bool c)] ds =\n      if logGuard W then .raise "ValueError"\n'
                     '      else .mat (AMat.ofFn fun i j => match o.nl (W.get i j) with | some r => SV.rat r | none => SV.err)',
                     'link_logtransform o _ logtransform_ok rfl W c ds'),
    'cuberoot': ('{n : Nat} (o : Oracles) (x : Rat) (ds : List Nat)',
                 'runFn (n := n) o ir_cuberoot [.sc (.rat x)] ds =\n      .vals [match o.cb (if x < 0 then -x else x) with\n'
                 '             | some r => SV.rat ((if x < 0 then -1 else if x = 0 then 0 else 1) * r)\n             | none => SV.err] ds',
                 'link_cuberoot o _ cuberoot_ok rfl x ds'),
    'pick_four_unique_nodes_quickly': ('(o : Oracles) (m : Nat) (ds : List Nat) (fuel : Nat) (hf : ds.length < fuel)',
                                       'runPick o ir_pick_four_unique_nodes_quickly m fuel ds = Bct.Signed.pickFour m ds',
                                       'link_pick_four o _ pick_four_unique_nodes_quickly_ok rfl m ds fuel hf'),
}


def lean_util(rs, paths):
    out = ['import BctVerif.Props.CoresUtil',
           '/-!',
           '# GENERATED by translate/cores.py (family util) — do not edit.  Re-emitted from the current source on every check run.',
           'sources: %s' % ', '.join(paths),
           '',
           'Every statement of the pure utilities as data, one obligation per function, and the link theorems instantiated at the',
           'extracted values.',
           '-/',
           'set_option linter.unusedTactic false',
           'set_option linter.unreachableTactic false',
           'namespace Bct.Gen.CoresUtil',
           'open Bct Bct.CoreIR.Util Bct.Cores.Util',
           '']
    for r in rs:
        f = r.fields or {'params': '[]', 'defaults': '[]', 'body': '[]'}
        for p in r.problems:
            out.append('-- NOT RECOGNISED: ' + p.replace('\n', ' '))
        a, b = r.parts.get('body', (r.line, r.line))
        out.append('/-- `%s` (%s:%d) -/' % (r.name, os.path.basename(r.file), r.line))
        out.append('def ir_%s : FnIR :=\n  { name := %s, recognised := %s, params := %s, defaults := %s,\n    body :=\n     %s }\n' % (
            r.name, q(r.name), 'true' if not r.problems else 'false', f['params'], f['defaults'], f['body']))
        out.append('theorem %s_ok : utilOk ir_%s = true := by\n  first | decide | fail "%s_ok: the statements extracted from %s (%s:%d-%d) %s"\n' % (
            r.name, r.name, r.name, r.name, os.path.basename(r.file), a, b,
            'were not all recognised by translate/cores.py' if r.problems else 'are not the expected program'))
        bind, stmt, proof = UTIL_LINKS[r.name]
        out.append('theorem %s_computes %s :\n    %s :=\n  %s\n' % (r.name, bind, stmt, proof))
    out.append('end Bct.Gen.CoresUtil')
    return '\n'.join(out) + '\n'


def family_util():
    base = os.path.join(common.REPO, 'bct', 'utils')
    paths = {'other': os.path.join(base, 'other.py'), 'misc': os.path.join(base, 'miscellaneous_utilities.py')}
    fns = {k: parse_functions(p) for k, p in paths.items()}
    rs = []
    for kind, names, matrix in (('misc', UTIL_SCALAR[:1], False), ('other', UTIL_MATRIX, True), ('misc', UTIL_SCALAR[1:], False)):
        f, err = fns[kind]
        for name in names:
            if name not in f:
                r = Routine(name, paths[kind]); r.problems.append('%s: %s' % (name, err or 'function not found in ' + paths[kind]))
            else:
                try:
                    r = extract_util(f[name], paths[kind], matrix)
                    check_header(r, f[name], f)
                except Exception as e:  # noqa — an extractor crash must not look like success
                    r = Routine(name, paths[kind]); r.problems.append('%s: extractor raised %s: %s' % (name, type(e).__name__, e))
            rs.append(r)
    return {'module': 'BctVerif.Gen.CoresUtil', 'file': 'CoresUtil.lean', 'text': lean_util(rs, [paths['other'], paths['misc']]),
            'sources': [paths['other'], paths['misc']],
            'routines': {r.name: dict(getattr(r, 'counts', {}), line=r.line, recognised=not r.problems) for r in rs},
            'problems': [p for r in rs for p in r.problems]}


# ====================================================================== family 'comp'

COMP_FIELDS = ('param extraParams defaults guardL guardR exc binTarget binArg dim dimOf diagMat diagVal em e1 e2 outer ob inner ib emMat row col emLit '
               'sets item loopOver body comps cIdx2 cAdd cNode cBound cIdx cLen cMem cList cIdx3 sizes sVar2 sVar sList ret').split()
COMP_INT = {'diagVal': '0', 'emLit': '0', 'cAdd': '0', 'body': '[]', 'ret': '[]', 'extraParams': '[]', 'defaults': '[]'}


def name_of(node, what):
    if isinstance(node, ast.Name):
        return node.id
    raise Unrec(node, 'expected a name for %s, found %s' % (what, src_of(node)))


def range_of(gen, what):
    """`for x in range(<name>)` -> (x, name)"""
    it = gen.iter
    if (isinstance(gen.target, ast.Name) and isinstance(it, ast.Call) and isinstance(it.func, ast.Name) and it.func.id == 'range'
            and len(it.args) == 1 and not it.keywords and not gen.is_async):
        return gen.target.id, it.args[0]
    raise Unrec(gen.iter, 'unrecognised generator for %s: %s' % (what, src_of(gen.iter)))


def comp_istmt(st):
    """statements of the inner loop (Model/CoreIRComp.lean: IStmt)"""
    # x = a.union(b)
    if (isinstance(st, ast.Assign) and len(st.targets) == 1 and isinstance(st.targets[0], ast.Name) and isinstance(st.value, ast.Call)
            and isinstance(st.value.func, ast.Attribute) and st.value.func.attr == 'union' and isinstance(st.value.func.value, ast.Name)
            and len(st.value.args) == 1 and isinstance(st.value.args[0], ast.Name) and not st.value.keywords):
        return '(.assignUnion %s %s %s)' % (q(st.targets[0].id), q(st.value.func.value.id), q(st.value.args[0].id))
    # l.append(x)
    if (isinstance(st, ast.Expr) and isinstance(st.value, ast.Call) and isinstance(st.value.func, ast.Attribute)
            and st.value.func.attr == 'append' and isinstance(st.value.func.value, ast.Name) and len(st.value.args) == 1
            and isinstance(st.value.args[0], ast.Name) and not st.value.keywords):
        return '(.append %s %s)' % (q(st.value.func.value.id), q(st.value.args[0].id))
    # if not a.isdisjoint(b): <one statement> else: <one statement>
    if (isinstance(st, ast.If) and len(st.body) == 1 and len(st.orelse) == 1 and isinstance(st.test, ast.UnaryOp)
            and isinstance(st.test.op, ast.Not) and isinstance(st.test.operand, ast.Call)
            and isinstance(st.test.operand.func, ast.Attribute) and st.test.operand.func.attr == 'isdisjoint'
            and isinstance(st.test.operand.func.value, ast.Name) and len(st.test.operand.args) == 1
            and isinstance(st.test.operand.args[0], ast.Name) and not st.test.operand.keywords):
        return '(.ifNotDisjoint %s %s %s %s)' % (q(st.test.operand.func.value.id), q(st.test.operand.args[0].id),
                                                 comp_istmt(st.body[0]), comp_istmt(st.orelse[0]))
    raise Unrec(st, 'unrecognised statement in the inner loop: %s' % src_of(st))


def comp_ostmt(st):
    """statements of the merge loop body (OStmt)"""
    if isinstance(st, ast.Assign) and len(st.targets) == 1 and isinstance(st.targets[0], ast.Name):
        if isinstance(st.value, ast.List) and not st.value.elts:
            return '.listInit %s' % q(st.targets[0].id)
        if isinstance(st.value, ast.Name):
            return '.assignList %s %s' % (q(st.targets[0].id), q(st.value.id))
    if isinstance(st, ast.For) and isinstance(st.target, ast.Name) and isinstance(st.iter, ast.Name) and not st.orelse:
        return '.forIn %s %s %s' % (q(st.target.id), q(st.iter.id), lst(comp_istmt(x) for x in st.body))
    if isinstance(st, ast.Expr):
        return comp_istmt(st)[1:-1]
    raise Unrec(st, 'unrecognised statement in the merge loop: %s' % src_of(st))


def extract_comp(fn, path):
    r = Routine(fn.name, path)
    r.line = fn.lineno
    a = fn.args
    if len(a.args) < 1 or a.vararg or a.kwarg or a.kwonlyargs:
        r.bad(fn, 'expected positional parameters only')
        return r
    f = {'param': a.args[0].arg, 'extraParams': lst(q(x.arg) for x in a.args[1:]), 'defaults': lean_defaults(defaults_of(fn))}
    body = body_wo_doc(fn)
    if len(body) != 10:
        r.bad(fn, 'expected exactly 10 statements (guard, binarize, len, fill_diagonal, edge_map, union_sets, merge loop, comps, '
                  'comp_sizes, return), found %d' % len(body))
        return r
    steps = []

    def step(i, fun):
        try:
            fun(body[i])
        except Unrec as e:
            r.bad(e.node if hasattr(e.node, 'lineno') else body[i], e.msg)
        except (AttributeError, IndexError, TypeError, ValueError) as e:
            r.bad(body[i], 'unrecognised statement %s (%s)' % (src_of(body[i]), type(e).__name__))

    def s_guard(st):
        # if not np.all(X == Y.T): raise Exc(...)
        t = st.test
        ok = (isinstance(st, ast.If) and not st.orelse and len(st.body) == 1 and isinstance(st.body[0], ast.Raise)
              and st.body[0].cause is None and isinstance(t, ast.UnaryOp) and isinstance(t.op, ast.Not)
              and np_call(t.operand, 'all', 1) and not t.operand.keywords)
        c = t.operand.args[0] if ok else None
        if not (ok and isinstance(c, ast.Compare) and len(c.ops) == 1 and isinstance(c.ops[0], ast.Eq)
                and isinstance(c.comparators[0], ast.Attribute) and c.comparators[0].attr == 'T'):
            raise Unrec(st, 'unrecognised symmetry guard %s' % src_of(st))
        f['guardL'] = name_of(c.left, 'the guard'); f['guardR'] = name_of(c.comparators[0].value, 'the guard')
        e = st.body[0].exc
        f['exc'] = e.func.id if isinstance(e, ast.Call) and isinstance(e.func, ast.Name) else name_of(e, 'the exception')

    def s_bin(st):
        v = st.value
        if not (isinstance(st, ast.Assign) and len(st.targets) == 1 and isinstance(v, ast.Call) and isinstance(v.func, ast.Name)
                and v.func.id == 'binarize' and len(v.args) == 1 and len(v.keywords) == 1
                and isinstance(kw(v, 'copy'), ast.Constant) and kw(v, 'copy').value is True):
            raise Unrec(st, 'expected `A = binarize(A, copy=True)`, found %s' % src_of(st))
        f['binTarget'] = name_of(st.targets[0], 'binarize'); f['binArg'] = name_of(v.args[0], 'binarize')

    def s_len(st):
        v = st.value
        if not (isinstance(st, ast.Assign) and len(st.targets) == 1 and isinstance(v, ast.Call) and isinstance(v.func, ast.Name)
                and v.func.id == 'len' and len(v.args) == 1 and not v.keywords):
            raise Unrec(st, 'expected `n = len(A)`, found %s' % src_of(st))
        f['dim'] = name_of(st.targets[0], 'len'); f['dimOf'] = name_of(v.args[0], 'len')

    def s_diag(st):
        if not (isinstance(st, ast.Expr) and np_call(st.value, 'fill_diagonal', 2) and not st.value.keywords
                and const_int(st.value.args[1]) is not None):
            raise Unrec(st, 'expected `np.fill_diagonal(A, 1)`, found %s' % src_of(st))
        f['diagMat'] = name_of(st.value.args[0], 'fill_diagonal'); f['diagVal'] = lint(const_int(st.value.args[1]))

    def s_em(st):
        v = st.value
        if not (isinstance(st, ast.Assign) and len(st.targets) == 1 and isinstance(v, ast.ListComp) and isinstance(v.elt, ast.Set)
                and len(v.elt.elts) == 2 and len(v.generators) == 2 and not v.generators[0].ifs and len(v.generators[1].ifs) == 1):
            raise Unrec(st, 'unrecognised edge_map comprehension %s' % src_of(st))
        f['em'] = name_of(st.targets[0], 'edge_map')
        f['e1'] = name_of(v.elt.elts[0], 'the pair'); f['e2'] = name_of(v.elt.elts[1], 'the pair')
        f['outer'], ob = range_of(v.generators[0], 'edge_map'); f['ob'] = name_of(ob, 'range')
        f['inner'], ib = range_of(v.generators[1], 'edge_map'); f['ib'] = name_of(ib, 'range')
        c = v.generators[1].ifs[0]
        if not (isinstance(c, ast.Compare) and len(c.ops) == 1 and isinstance(c.ops[0], ast.Eq) and const_int(c.comparators[0]) is not None
                and isinstance(c.left, ast.Subscript) and isinstance(c.left.slice, ast.Tuple) and len(c.left.slice.elts) == 2):
            raise Unrec(c, 'unrecognised edge_map condition %s' % src_of(c))
        f['emMat'] = name_of(c.left.value, 'edge_map'); f['row'] = name_of(c.left.slice.elts[0], 'edge_map')
        f['col'] = name_of(c.left.slice.elts[1], 'edge_map'); f['emLit'] = lint(const_int(c.comparators[0]))

    def s_sets(st):
        if not (isinstance(st, ast.Assign) and len(st.targets) == 1 and isinstance(st.value, ast.List) and not st.value.elts):
            raise Unrec(st, 'expected `union_sets = []`, found %s' % src_of(st))
        f['sets'] = name_of(st.targets[0], 'union_sets')

    def s_loop(st):
        if not (isinstance(st, ast.For) and not st.orelse):
            raise Unrec(st, 'expected the merge loop, found %s' % src_of(st))
        f['item'] = name_of(st.target, 'the loop variable'); f['loopOver'] = name_of(st.iter, 'the loop')
        out = []
        for x in st.body:
            try:
                out.append(comp_ostmt(x))
            except Unrec as e:
                r.bad(e.node if hasattr(e.node, 'lineno') else x, e.msg)
        f['body'] = '[' + ',\n      '.join(out) + ']'
        r.counts = {'merge_loop_statements': len(out)}

    def np_array_comp(st, what):
        v = st.value
        a = np_call(v, 'array', 1)
        if not (isinstance(st, ast.Assign) and len(st.targets) == 1 and a and not v.keywords and isinstance(a[0], ast.ListComp)):
            raise Unrec(st, 'unrecognised %s comprehension %s' % (what, src_of(st)))
        return name_of(st.targets[0], what), a[0]

    def s_comps(st):
        f['comps'], c = np_array_comp(st, 'comps')
        if not (isinstance(c.elt, ast.BinOp) and isinstance(c.elt.op, ast.Add) and const_nat(c.elt.right) is not None
                and len(c.generators) == 2 and not c.generators[0].ifs and len(c.generators[1].ifs) == 1):
            raise Unrec(st, 'unrecognised comps comprehension %s' % src_of(st))
        f['cIdx2'] = name_of(c.elt.left, 'comps'); f['cAdd'] = '%d' % const_nat(c.elt.right)
        f['cNode'], b = range_of(c.generators[0], 'comps'); f['cBound'] = name_of(b, 'range')
        f['cIdx'], ln = range_of(c.generators[1], 'comps')
        if not (isinstance(ln, ast.Call) and isinstance(ln.func, ast.Name) and ln.func.id == 'len' and len(ln.args) == 1 and not ln.keywords):
            raise Unrec(ln, 'expected range(len(<list>)), found %s' % src_of(ln))
        f['cLen'] = name_of(ln.args[0], 'len')
        t = c.generators[1].ifs[0]
        if not (isinstance(t, ast.Compare) and len(t.ops) == 1 and isinstance(t.ops[0], ast.In) and isinstance(t.comparators[0], ast.Subscript)):
            raise Unrec(t, 'unrecognised membership test %s' % src_of(t))
        f['cMem'] = name_of(t.left, 'membership'); f['cList'] = name_of(t.comparators[0].value, 'membership')
        f['cIdx3'] = name_of(t.comparators[0].slice, 'membership')

    def s_sizes(st):
        f['sizes'], c = np_array_comp(st, 'comp_sizes')
        e = c.elt
        if not (isinstance(e, ast.Call) and isinstance(e.func, ast.Name) and e.func.id == 'len' and len(e.args) == 1 and not e.keywords
                and len(c.generators) == 1 and not c.generators[0].ifs and not c.generators[0].is_async):
            raise Unrec(st, 'unrecognised comp_sizes comprehension %s' % src_of(st))
        f['sVar2'] = name_of(e.args[0], 'len'); f['sVar'] = name_of(c.generators[0].target, 'comp_sizes')
        f['sList'] = name_of(c.generators[0].iter, 'comp_sizes')

    def s_ret(st):
        if not isinstance(st, ast.Return) or st.value is None:
            raise Unrec(st, 'expected `return comps, comp_sizes`')
        f['ret'] = lst(map(q, ret_names(r, st)))
    for i, fun in enumerate((s_guard, s_bin, s_len, s_diag, s_em, s_sets, s_loop, s_comps, s_sizes, s_ret)):
        step(i, fun)
    r.parts = {'body': lines_of([body[6]])}
    r.fields = f
    return r


def lean_comp(r, path):
    rel = os.path.basename(path)
    out = ['import BctVerif.Props.CoresComp',
           '/-!',
           '# GENERATED by translate/cores.py (family comp) — do not edit.  Re-emitted from the current source on every check run.',
           'source: %s' % path,
           '-/',
           'set_option linter.unusedTactic false',
           'set_option linter.unreachableTactic false',
           'namespace Bct.Gen.CoresComp',
           'open Bct Bct.Comp Bct.CoreIR.Comp Bct.Cores.Comp',
           '']
    for p in r.problems:
        out.append('-- NOT RECOGNISED: ' + p.replace('\n', ' '))
    f = r.fields
    vals = []
    for k in COMP_FIELDS:
        if k in f:
            v = f[k] if k in COMP_INT else q(f[k])
        else:
            v = COMP_INT.get(k, q('?'))
        vals.append('%s := %s' % (k, v))
    out.append('/-- `get_components` (%s:%d) -/' % (rel, r.line))
    out.append('def ir_get_components : CompIR :=\n  { recognised := %s,\n    %s }\n' % (
        'true' if not r.problems else 'false', ',\n    '.join(vals)))
    a, b = r.parts.get('body', (r.line, r.line))
    out.append('theorem get_components_loop_ok : (ir_get_components.body == refBody) = true := by\n  first | decide | fail "get_components_loop_ok: '
               'the merge loop of get_components (%s:%d-%d) is not the expected statement list"\n' % (rel, a, b))
    out.append('theorem get_components_ok : compOk ir_get_components = true := by\n  first | decide | fail "get_components_ok: the statements extracted '
               'from get_components (%s:%d) %s"\n' % (rel, r.line, 'were not all recognised by translate/cores.py' if r.problems
                                                      else 'are not the expected program'))
    out.append('theorem get_components_computes {n : Nat} (A : AMat Int n) :\n'
               '    run ir_get_components A = if isSymm A then .ok (labels (unionSets A), (unionSets A).map NSet.size) else .error "BCTParamError" :=\n'
               '  link_get_components _ get_components_ok A\n')
    out.append('theorem get_components_model {n : Nat} (A : AMat Int n) (r : List Nat × List Nat) :\n'
               '    run ir_get_components A = .ok r ↔ getComponents A = .ok r :=\n  link_get_components_model _ get_components_ok A r\n')
    out.append('end Bct.Gen.CoresComp')
    return '\n'.join(out) + '\n'


def family_comp():
    path = os.path.join(common.REPO, 'bct', 'algorithms', 'clustering.py')
    fns, err = parse_functions(path)
    name = 'get_components'
    if name not in fns:
        r = Routine(name, path); r.problems.append('%s: %s' % (name, err or 'function not found in ' + path))
    else:
        try:
            r = extract_comp(fns[name], path)
            check_header(r, fns[name], fns)
        except Exception as e:  # noqa — an extractor crash must not look like success
            r = Routine(name, path); r.problems.append('%s: extractor raised %s: %s' % (name, type(e).__name__, e))
    return {'module': 'BctVerif.Gen.CoresComp', 'file': 'CoresComp.lean', 'text': lean_comp(r, path), 'sources': [path],
            'routines': {r.name: dict(getattr(r, 'counts', {}), line=r.line, recognised=not r.problems)},
            'problems': list(r.problems)}


# ====================================================================== family 'dijk'

class DijkX:
    """statement mapping for the relaxation block of distance_wei (Model/CoreIRDijk.lean: LEx, Stmt)"""

    def __init__(self, scalars):
        self.scalars = set(scalars)
        self.idxs = set()

    def sub2(self, node):
        """M[a, b] with names -> (M, a, b)"""
        if (isinstance(node, ast.Subscript) and isinstance(node.value, ast.Name) and isinstance(node.slice, ast.Tuple)
                and len(node.slice.elts) == 2 and all(isinstance(e, ast.Name) for e in node.slice.elts)):
            return node.value.id, node.slice.elts[0].id, node.slice.elts[1].id
        return None

    def lex(self, node):
        # X.flatten() of a one-dimensional array is the array
        if (isinstance(node, ast.Call) and isinstance(node.func, ast.Attribute) and node.func.attr == 'flatten' and not node.args
                and not node.keywords):
            return self.lex(node.func.value)
        t = self.sub2(node)
        if t and t[1] in self.scalars and t[2] in self.idxs:
            return '(.rowAt %s %s %s)' % tuple(map(q, t))
        if isinstance(node, ast.BinOp) and isinstance(node.op, ast.Add):
            t = self.sub2(node.left)
            if t and t[1] in self.scalars and t[2] in self.scalars:
                return '(.addScalar %s %s %s %s)' % (q(t[0]), q(t[1]), q(t[2]), self.lex(node.right))
        raise Unrec(node, 'unrecognised one-dimensional expression %s' % src_of(node))

    def stmt(self, st):
        if isinstance(st, ast.Assign) and len(st.targets) == 1:
            t, v = st.targets[0], st.value
            # x, = np.where(M[r, :])
            if isinstance(t, ast.Tuple) and len(t.elts) == 1 and isinstance(t.elts[0], ast.Name) and np_call(v, 'where', 1) and not v.keywords:
                a = v.args[0]
                if (isinstance(a, ast.Subscript) and isinstance(a.value, ast.Name) and isinstance(a.slice, ast.Tuple) and len(a.slice.elts) == 2
                        and isinstance(a.slice.elts[0], ast.Name) and a.slice.elts[0].id in self.scalars
                        and isinstance(a.slice.elts[1], ast.Slice) and a.slice.elts[1].lower is None and a.slice.elts[1].upper is None
                        and a.slice.elts[1].step is None):
                    self.idxs.add(t.elts[0].id)
                    return '.whereRow %s %s %s' % (q(t.elts[0].id), q(a.value.id), q(a.slice.elts[0].id))
            if isinstance(t, ast.Name):
                # x = np.array([a, b])
                a = np_call(v, 'array', 1)
                if a and not v.keywords and isinstance(a[0], ast.List) and len(a[0].elts) == 2:
                    return '.stack2 %s %s %s' % (q(t.id), self.lex(a[0].elts[0]), self.lex(a[0].elts[1]))
                # x = np.min(td, axis=0) / np.argmin(td, axis=0)
                for fn_, c in (('min', 'minAxis0'), ('argmin', 'argminAxis0')):
                    a = np_call(v, fn_, 1)
                    if a and len(v.keywords) == 1 and const_nat(kw(v, 'axis')) == 0 and isinstance(a[0], ast.Name):
                        return '.%s %s %s' % (c, q(t.id), q(a[0].id))
                # x = ix[np.where(wi == lit)]
                if (isinstance(v, ast.Subscript) and isinstance(v.value, ast.Name) and v.value.id in self.idxs and np_call(v.slice, 'where', 1)
                        and not v.slice.keywords):
                    c = v.slice.args[0]
                    if (isinstance(c, ast.Compare) and len(c.ops) == 1 and isinstance(c.ops[0], ast.Eq) and isinstance(c.left, ast.Name)
                            and const_nat(c.comparators[0]) is not None):
                        self.idxs.add(t.id)
                        return '.selectEq %s %s %s %d' % (q(t.id), q(v.value.id), q(c.left.id), const_nat(c.comparators[0]))
            tt = self.sub2(t)
            if tt and tt[1] in self.scalars and tt[2] in self.idxs:
                # M[r, ix] = src
                if isinstance(v, ast.Name):
                    return '.storeRow %s %s %s %s' % (q(tt[0]), q(tt[1]), q(tt[2]), q(v.id))
                # M[r, ix] = M2[r2, c2] + lit
                if isinstance(v, ast.BinOp) and isinstance(v.op, ast.Add) and const_nat(v.right) is not None:
                    s2 = self.sub2(v.left)
                    if s2 and s2[1] in self.scalars and s2[2] in self.scalars:
                        return '.storeRowScalar %s %s %s %s %s %s %d' % (tuple(map(q, tt)) + tuple(map(q, s2)) + (const_nat(v.right),))
        raise Unrec(st, 'unrecognised statement %s' % src_of(st))


def extract_dijk(fn, path):
    r = Routine('distance_wei', path)
    r.line = fn.lineno
    body = body_wo_doc(fn)
    outers = [st for st in body if isinstance(st, ast.For)]
    if len(outers) != 1:
        r.bad(fn, 'expected exactly one outer `for` loop, found %d' % len(outers)); return r
    o = outers[0]
    f = {'rowVar': '?', 'rowBound': '?', 'nodeVar': '?', 'nodeList': '?', 'body': '[]'}
    r.fields = f
    try:
        f['rowVar'], b = range_of(ast.comprehension(target=o.target, iter=o.iter, ifs=[], is_async=0), 'the row loop')
        f['rowBound'] = name_of(b, 'range')
    except Unrec as e:
        r.bad(o, e.msg)
    whiles = [st for st in o.body if isinstance(st, ast.While)]
    if len(whiles) != 1 or o.orelse:
        r.bad(o, 'expected exactly one `while` loop in the row loop, found %d' % len(whiles)); return r
    w = whiles[0]
    if not (isinstance(w.test, ast.Constant) and w.test.value is True and not w.orelse):
        r.bad(w, 'expected `while True:`')
    inner = [st for st in w.body if isinstance(st, ast.For)]
    if len(inner) != 1:
        r.bad(w, 'expected exactly one `for` loop in the `while` loop, found %d' % len(inner)); return r
    blk = inner[0]
    if not (isinstance(blk.target, ast.Name) and isinstance(blk.iter, ast.Name) and not blk.orelse):
        r.bad(blk, 'unrecognised loop header %s' % src_of(blk)); return r
    f['nodeVar'], f['nodeList'] = blk.target.id, blk.iter.id
    x = DijkX([f['rowVar'], f['nodeVar']])
    out = []
    for st in blk.body:
        try:
            out.append(x.stmt(st))
        except Unrec as e:
            r.bad(e.node if hasattr(e.node, 'lineno') else st, e.msg)
    f['body'] = '[' + ',\n      '.join(out) + ']'
    r.parts = {'body': lines_of([blk])}
    r.counts = {'block_statements': len(out)}
    return r


def lean_dijk(r, path):
    rel = os.path.basename(path)
    f = r.fields or {'rowVar': '?', 'rowBound': '?', 'nodeVar': '?', 'nodeList': '?', 'body': '[]'}
    a, b = r.parts.get('body', (r.line, r.line))
    out = ['import BctVerif.Props.CoresDijk',
           '/-!',
           '# GENERATED by translate/cores.py (family dijk) — do not edit.  Re-emitted from the current source on every check run.',
           'source: %s' % path,
           '-/',
           'set_option linter.unusedTactic false',
           'set_option linter.unreachableTactic false',
           'namespace Bct.Gen.CoresDijk',
           'open Bct Bct.Dist Bct.CoreIR.Dijk Bct.Cores.Dijk',
           '']
    for p in r.problems:
        out.append('-- NOT RECOGNISED: ' + p.replace('\n', ' '))
    out.append('/-- the body of `for v in V:` of `distance_wei` (%s:%d-%d) -/' % (rel, a, b))
    out.append('def ir_distance_wei_relax : RelaxIR :=\n  { recognised := %s, rowVar := %s, rowBound := %s, nodeVar := %s, nodeList := %s,\n    body :=\n     %s }\n' % (
        'true' if not r.problems else 'false', q(f['rowVar']), q(f['rowBound']), q(f['nodeVar']), q(f['nodeList']), f['body']))
    out.append('theorem distance_wei_relax_ok : relaxOk ir_distance_wei_relax = true := by\n  first | decide | fail "distance_wei_relax_ok: the relaxation '
               'block of distance_wei (%s:%d-%d) %s"\n' % (rel, a, b, 'was not completely recognised by translate/cores.py' if r.problems
                                                          else 'is not the expected statement list'))
    out.append('theorem distance_wei_relax_computes {n : Nat} (L : AMat Ext n) (st : DSt n) (Dm Bm G1 : AMat V n) (u v : Fin n)\n'
               '    (hD : ∀ w, Dm.get u w = .ext st.D[w]) (hB : ∀ w, Bm.get u w = .nat st.B[w])\n'
               '    (hG : ∀ w, G1.get v w = g1cell L st.S v w) (hL : ∀ w q, L.get v w = .fin q → q ≠ 0) :\n'
               '    ∃ D\' B\', runBlock ir_distance_wei_relax Dm Bm G1 u v = some (D\', B\') ∧\n'
               '      (∀ w, D\'.get u w = .ext (relaxFrom L st v).D[w]) ∧ (∀ w, B\'.get u w = .nat (relaxFrom L st v).B[w]) ∧\n'
               '      (∀ a w, a ≠ u → D\'.get a w = Dm.get a w ∧ B\'.get a w = Bm.get a w) :=\n'
               '  link_relax _ distance_wei_relax_ok L st Dm Bm G1 u v hD hB hG hL\n')
    out.append('end Bct.Gen.CoresDijk')
    return '\n'.join(out) + '\n'


def family_dijk():
    path = os.path.join(common.REPO, 'bct', 'algorithms', 'distance.py')
    fns, err = parse_functions(path)
    name = 'distance_wei'
    if name not in fns:
        r = Routine(name, path); r.problems.append('%s: %s' % (name, err or 'function not found in ' + path))
    else:
        try:
            r = extract_dijk(fns[name], path)
            check_header(r, fns[name], fns)
        except Exception as e:  # noqa — an extractor crash must not look like success
            r = Routine(name, path); r.problems.append('%s: extractor raised %s: %s' % (name, type(e).__name__, e))
    return {'module': 'BctVerif.Gen.CoresDijk', 'file': 'CoresDijk.lean', 'text': lean_dijk(r, path), 'sources': [path],
            'routines': {'distance_wei (relaxation block)': dict(getattr(r, 'counts', {}), line=r.line, recognised=not r.problems)},
            'problems': list(r.problems)}


# ====================================================================== entry points

FAMILIES = {'floyd': family_floyd, 'peel': family_peel, 'util': family_util, 'comp': family_comp, 'dijk': family_dijk}


def write_if_changed(path, text):
    os.makedirs(os.path.dirname(path), exist_ok=True)
    old = open(path).read() if os.path.exists(path) else None
    if old != text:
        tmp = path + '.tmp%d' % os.getpid()
        open(tmp, 'w').write(text)
        os.replace(tmp, path)
    return old != text


def generate(lean_dir=None, families=None):
    """Re-extract from the current source and (re)write <lean_dir>/BctVerif/Gen/Cores<Family>.lean for the requested
    families (default: all).  Returns {'families': {fam: {'module', 'file', 'changed', 'sources', 'routines', 'problems'}},
    'modules': [...], 'problems': [...all...]}."""
    lean_dir = lean_dir or common.LEAN
    out = {'families': {}, 'modules': [], 'problems': []}
    for fam in (families or sorted(FAMILIES)):
        try:
            res = FAMILIES[fam]()
        except Exception as e:  # noqa
            out['problems'].append('family %s: extractor raised %s: %s' % (fam, type(e).__name__, e))
            continue
        path = os.path.join(lean_dir, 'BctVerif', 'Gen', res['file'])
        changed = write_if_changed(path, res.pop('text'))
        res['file'] = path
        res['changed'] = changed
        out['families'][fam] = res
        out['modules'].append(res['module'])
        out['problems'] += res['problems']
    return out


if __name__ == '__main__':
    if len(sys.argv) > 2 and sys.argv[1] == '--print':
        sys.stdout.write(FAMILIES[sys.argv[2]]()['text'])
    else:
        print(json.dumps(generate(sys.argv[1] if len(sys.argv) > 1 else None), indent=1))
