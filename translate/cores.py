"""AST -> core update steps of further routines (T-gen, second tie for C03/C12, C15, C16, C17/C06).

Run on every check run (`generate()`), it re-reads /repo's *current* source (path from common.REPO) and re-emits

  family 'floyd'  bct/algorithms/distance.py   distance_wei_floyd: transform dispatch, initialisation of hops/Pmat, the body of
                                               `for k in range(n)`, the epilogue, the returned names
                  -> lean/BctVerif/Gen/CoresFloyd.lean     (IR: Model/CoreIRFloyd.lean, links: Props/CoresFloyd.lean)
  family 'peel'   bct/algorithms/core.py       kcore_bu, kcore_bd, score_wu: every statement (degree call, peel condition,
                  bct/algorithms/degree.py     stop test, zeroing of rows/columns, bookkeeping, size expression, returns);
                  bct/algorithms/centrality.py degrees_und, degrees_dir, strengths_und: every statement;
                                               kcoreness_centrality_bu/_bd: symmetrisation, loop bound, membership expression
                  -> lean/BctVerif/Gen/CoresPeel.lean      (IR: Model/CoreIRPeel.lean, links: Props/CoresPeel.lean)
  family 'util'   bct/utils/other.py           threshold_absolute, binarize, normalize, invert, logtransform (guard)
                  bct/utils/miscellaneous_utilities.py   teachers_round, cuberoot, pick_four_unique_nodes_quickly
                  -> lean/BctVerif/Gen/CoresUtil.lean      (IR: Model/CoreIRUtil.lean, links: Props/CoresUtil.lean)
  family 'comp'   bct/algorithms/clustering.py get_components: every statement (guard, binarize, fill_diagonal, edge_map
                                               comprehension, the merge loop over union_sets, comps / comp_sizes comprehensions, return)
                  -> lean/BctVerif/Gen/CoresComp.lean      (IR: Model/CoreIRComp.lean, links: Props/CoresComp.lean)
  family 'dijk'   bct/algorithms/distance.py   distance_wei: only the body of `for v in V:` (the relaxation block) and the loop headers
                  -> lean/BctVerif/Gen/CoresDijk.lean      (IR: Model/CoreIRDijk.lean, links: Props/CoresDijk.lean)

as *data* (one IR value per routine) together with one obligation per routine (`… Ok ir = true := by first | decide | fail "…"`)
and the link theorem instantiated at the extracted value.

This file only knows *where* to look and how to map Python syntax to IR constructors (the tables below are the trusted
part).  What the routines are expected to contain lives in Lean (`ref…` / `…Ok` in Model/CoreIR*.lean); what a program
that passes computes is proved in Props/Cores*.lean.  Conservative by construction: every statement of an extracted
function body must be recognised; anything else (unknown statement, unknown expression shape, extra statement) is listed
under `problems` with routine and source line *and* sets `recognised := false`, which makes the routine's obligation
unprovable.  Nothing is skipped silently.
"""
import ast
import json
import os
import re
import shutil
import sys

try:
    import common
except ImportError:  # stand-alone use
    sys.path.insert(0, os.path.join(os.path.dirname(os.path.dirname(os.path.abspath(__file__))), 'harness'))
    import common


class Unrec(Exception):
    """an expression / statement shape outside the mapping tables"""

    def __init__(self, node, msg):
        Exception.__init__(self, msg)
        self.node = node
        self.msg = msg


def q(s):
    """Lean string literal"""
    return json.dumps(str(s), ensure_ascii=True)


def src_of(node, limit=70):
    try:
        s = ast.unparse(node)
    except Exception:  # noqa
        s = type(node).__name__
    s = ' '.join(s.split())
    return s[:limit]


def is_np(node, attr):
    return (isinstance(node, ast.Attribute) and node.attr == attr and isinstance(node.value, ast.Name)
            and node.value.id == 'np')


def np_call(node, attr, nargs=None):
    """np.<attr>(...) -> list of positional args, or None"""
    if isinstance(node, ast.Call) and is_np(node.func, attr) and (nargs is None or len(node.args) == nargs):
        return node.args
    return None


def const_nat(node):
    """non-negative integer literal, or a float literal with an integral value (0.0) -> int, else None"""
    if isinstance(node, ast.Constant) and type(node.value) in (int, float) and node.value >= 0 and node.value == int(node.value):
        return int(node.value)
    return None


def body_wo_doc(fn):
    b = list(fn.body)
    if b and isinstance(b[0], ast.Expr) and isinstance(b[0].value, ast.Constant) and isinstance(b[0].value.value, str):
        b = b[1:]
    return b


def lst(xs):
    return '[' + ', '.join(xs) + ']'


def lines_of(nodes):
    ls = [getattr(x, 'lineno', 0) for x in nodes] + [getattr(x, 'end_lineno', 0) or 0 for x in nodes]
    ls = [x for x in ls if x]
    return (min(ls), max(ls)) if ls else (0, 0)


class Routine:
    """extraction result of one routine"""

    def __init__(self, name, file):
        self.name = name
        self.file = file
        self.line = 0
        self.problems = []
        self.parts = {}        # part name -> (first line, last line)
        self.fields = {}       # IR fields, already in Lean syntax

    def bad(self, node, msg):
        self.problems.append('%s: %s:%s: %s' % (self.name, os.path.basename(self.file), getattr(node, 'lineno', '?'), msg))


class Fns(dict):
    """{name: the FunctionDef that is in force at the end of the module}; .rebound = {name: line} for names that the
    module binds again at top level in any other way (assignment, import, class, second def) — the routine that callers
    get would then not be the one extracted.  Reading an entry gives the definition with its function-local names put
    back to the canonical ones (`canonicalise_locals`), so that the statement mappings see the same text after a
    consistent renaming of locals."""
    rebound = {}
    path = None

    def __getitem__(self, name):
        node = dict.__getitem__(self, name)
        if self.path is None:
            return node
        cache = self.__dict__.setdefault('_canon', {})
        if name not in cache:
            cache[name] = canonicalise_locals(node, self.path)
        return cache[name]


def parse_functions(path):
    """-> (Fns, error or None)"""
    try:
        tree = ast.parse(open(path).read())
    except (OSError, SyntaxError) as e:
        return Fns(), '%s: %s' % (type(e).__name__, e)
    fns = Fns()
    fns.rebound = {}
    fns.path = path
    for st in tree.body:
        names = []
        if isinstance(st, (ast.FunctionDef, ast.AsyncFunctionDef, ast.ClassDef)):
            names = [st.name]
        elif isinstance(st, (ast.Import, ast.ImportFrom)):
            names = [(a.asname or a.name).split('.')[0] for a in st.names]
        else:
            # any other top-level statement (assignment, if / try / with / for blocks with arbitrary contents …): every name it stores
            names = [nd.id for nd in ast.walk(st) if isinstance(nd, ast.Name) and isinstance(nd.ctx, (ast.Store, ast.Del))]
            names += [nd.name for nd in ast.walk(st) if isinstance(nd, (ast.FunctionDef, ast.AsyncFunctionDef, ast.ClassDef))]
            names += [(a.asname or a.name).split('.')[0] for nd in ast.walk(st) if isinstance(nd, (ast.Import, ast.ImportFrom)) for a in nd.names]
        for nm in names:
            if nm in fns or nm in fns.rebound:
                fns.rebound[nm] = st.lineno
            if isinstance(st, ast.FunctionDef) and nm == st.name:
                fns[nm] = st
            elif nm in fns:
                fns.rebound[nm] = st.lineno
    return fns, None


def check_header(r, fn, fns):
    """decorators other than the citation decorator, and a second top-level binding of the name, are not understood"""
    for d in fn.decorator_list:
        ok = (isinstance(d, ast.Call) and isinstance(d.func, ast.Attribute) and d.func.attr == 'dcite'
              and isinstance(d.func.value, ast.Name) and d.func.value.id == 'due')
        if not ok:
            r.bad(d, 'unrecognised decorator %s' % src_of(d))
    if fn.name in getattr(fns, 'rebound', {}):
        r.bad(fn, 'the module binds the name %s again at top level (line %s)' % (fn.name, fns.rebound[fn.name]))
    name_check(r, fn, r.file)


def defaults_of(fn):
    a = fn.args
    params = [x.arg for x in a.args]
    return list(zip(params[len(params) - len(a.defaults):], [ast.unparse(d) for d in a.defaults]))


def lean_defaults(ds):
    return lst('(%s, %s)' % (q(k), q(v)) for k, v in ds)


# ====================================================================== name resolution (imports -> definitions)
#
# The statement mappings below read `np.sum(...)`, `binarize(...)`, `degrees_und(...)`, `range(...)` by NAME.  What a name
# denotes is decided here, from the module's own binding statements: every global name a routine uses is resolved to its
# definition (through `from m import x`, package `__init__` star imports, …) and emitted into the IR (`origins`), where
# the Lean check compares it with the expected origin.  Anything that is not understood — a name bound twice at module
# level, a renaming import, a binding by an assignment / `global` statement, a function-local rebinding or a parameter
# of that name, an attribute store on the numpy module anywhere in the package — is reported as a problem.

import builtins as _builtins


class ResolveError(Exception):
    pass


def rel(path):
    return os.path.relpath(path, common.REPO).replace(os.sep, '/')


class Scope:
    """module-level bindings of one source file"""

    def __init__(self, path):
        self.path = path
        self.tree = ast.parse(open(path).read())
        self.explicit = {}      # name -> [(kind, line, data)]   kind in def class import from other global
        self.stars = []         # (line, level, module)
        self.all = None
        for st in self.tree.body:
            self._top(st)
        for nd in ast.walk(self.tree):
            if isinstance(nd, ast.Global):
                for nm in nd.names:
                    self._add(nm, 'global', nd.lineno, None)

    def _add(self, name, kind, line, data):
        self.explicit.setdefault(name, []).append((kind, line, data))

    def _top(self, st):
        if isinstance(st, (ast.FunctionDef, ast.AsyncFunctionDef)):
            self._add(st.name, 'def', st.lineno, st)
        elif isinstance(st, ast.ClassDef):
            self._add(st.name, 'class', st.lineno, st)
        elif isinstance(st, ast.Import):
            for a in st.names:
                if a.asname:
                    self._add(a.asname, 'import', st.lineno, a.name)
                else:
                    self._add(a.name.split('.')[0], 'import', st.lineno, a.name.split('.')[0])
        elif isinstance(st, ast.ImportFrom):
            if st.module == '__future__':
                return
            for a in st.names:
                if a.name == '*':
                    self.stars.append((st.lineno, st.level, st.module))
                else:
                    self._add(a.asname or a.name, 'from', st.lineno, (st.level, st.module, a.name))
        else:
            if (isinstance(st, ast.Assign) and len(st.targets) == 1 and isinstance(st.targets[0], ast.Name)
                    and st.targets[0].id == '__all__' and isinstance(st.value, (ast.List, ast.Tuple))
                    and all(isinstance(e, ast.Constant) and isinstance(e.value, str) for e in st.value.elts)):
                self.all = [e.value for e in st.value.elts]
            for nd in ast.walk(st):
                if isinstance(nd, ast.Name) and isinstance(nd.ctx, (ast.Store, ast.Del)):
                    self._add(nd.id, 'other', st.lineno, src_of(st, 50))
                elif isinstance(nd, (ast.FunctionDef, ast.AsyncFunctionDef, ast.ClassDef)):
                    self._add(nd.name, 'other', st.lineno, src_of(st, 50))
                elif isinstance(nd, (ast.Import, ast.ImportFrom)):
                    for a in nd.names:
                        self._add((a.asname or a.name).split('.')[0], 'other', st.lineno, src_of(st, 50))


_SCOPES = {}


def scope_of(path):
    if path not in _SCOPES:
        _SCOPES[path] = Scope(path)
    return _SCOPES[path]


def target_path(cur, level, module):
    """file of the module named by an import statement of `cur`; None for a module outside the bct package"""
    if level == 0:
        parts = (module or '').split('.')
        if parts[0] != 'bct':
            return None
        base = os.path.join(common.REPO, *parts)
    else:
        d = os.path.dirname(cur)
        for _ in range(level - 1):
            d = os.path.dirname(d)
        base = os.path.join(d, *(module.split('.') if module else []))
    if os.path.isfile(base + '.py'):
        return base + '.py'
    if os.path.isfile(os.path.join(base, '__init__.py')):
        return os.path.join(base, '__init__.py')
    raise ResolveError('cannot locate the module of `from %s%s import …` in %s' % ('.' * level, module or '', rel(cur)))


def exports(path, seen=()):
    """names a `from <path> import *` binds"""
    sc = scope_of(path)
    if sc.all is not None:
        return set(sc.all)
    out = {n for n in sc.explicit if not n.startswith('_')}
    for line, level, module in sc.stars:
        tp = target_path(path, level, module)
        if tp is None:
            raise ResolveError('%s:%d: star import from %s (outside the package) may bind any name' % (rel(path), line, module))
        if tp not in seen:
            out |= {n for n in exports(tp, seen + (path,)) if not n.startswith('_')}
    return out


def resolve(path, name, seen=()):
    """-> ('def'|'class', relfile, name, node) | ('module', modname) | ('external', modname, name) | ('builtin',)"""
    key = (path, name)
    if key in seen or len(seen) > 12:
        raise ResolveError('import cycle while resolving %s' % name)
    try:
        sc = scope_of(path)
    except (OSError, SyntaxError) as e:
        raise ResolveError('%s: %s' % (rel(path), e))
    ex = sc.explicit.get(name, [])
    if len(ex) > 1:
        raise ResolveError('%s binds the name %s %d times at module level (lines %s)' % (
            rel(path), name, len(ex), ', '.join('%d: %s' % (l, k) for k, l, _ in ex)))
    results = []
    if ex:
        kind, line, data = ex[0]
        if kind in ('def', 'class'):
            results.append((kind, rel(path), name, data))
        elif kind == 'import':
            results.append(('module', data))
        elif kind == 'from':
            level, module, orig = data
            if orig != name:
                raise ResolveError('%s:%d: renaming import `from %s%s import %s as %s`' % (rel(path), line, '.' * level, module or '', orig, name))
            tp = target_path(path, level, module)
            if tp is None:
                results.append(('external', module, orig))
            else:
                tsc = scope_of(tp)
                if orig in tsc.explicit or orig in exports(tp):
                    results.append(resolve(tp, orig, seen + (key,)))
                else:
                    sub = os.path.join(os.path.dirname(tp), orig)
                    if os.path.basename(tp) == '__init__.py' and (os.path.isfile(sub + '.py') or os.path.isdir(sub)):
                        results.append(('module', rel(sub)))
                    else:
                        raise ResolveError('%s:%d: %s does not define %s' % (rel(path), line, rel(tp), orig))
        else:
            raise ResolveError('%s:%d: the name %s is bound at module level by a statement that is not understood (%s%s)' % (
                rel(path), line, name, kind, ': ' + data if data else ''))
    for line, level, module in sc.stars:
        tp = target_path(path, level, module)
        if tp is None:
            raise ResolveError('%s:%d: star import from %s (outside the package) may bind %s' % (rel(path), line, module, name))
        if name in exports(tp):
            results.append(resolve(tp, name, seen + (key,)))
    if not results:
        if hasattr(_builtins, name):
            return ('builtin',)
        raise ResolveError('the name %s is not bound in %s' % (name, rel(path)))
    if any(x[:3] != results[0][:3] for x in results[1:]):
        raise ResolveError('%s binds the name %s to different definitions: %s' % (rel(path), name, sorted({origin_str(x) for x in results})))
    return results[0]


def origin_str(res):
    if res[0] in ('def', 'class'):
        return '%s %s:%s' % (res[0], res[1], res[2])
    if res[0] == 'module':
        return 'module %s' % res[1]
    if res[0] == 'external':
        return 'external %s:%s' % (res[1], res[2])
    return 'builtin'


def shallow_origin(path, name):
    """one hop only (names that occur in the citation decorator): exactly one `from m import name`, no renaming"""
    sc = scope_of(path)
    ex = sc.explicit.get(name, [])
    for line, level, module in sc.stars:
        tp = target_path(path, level, module)
        if tp is None or name in exports(tp):
            raise ResolveError('%s: the name %s may also be bound by the star import at line %d' % (rel(path), name, line))
    if len(ex) != 1 or ex[0][0] != 'from':
        raise ResolveError('%s: the decorator name %s is not bound by exactly one `from … import %s` (%s)' % (
            rel(path), name, name, ', '.join('%d: %s' % (l, k) for k, l, _ in ex) or 'unbound'))
    kind, line, (level, module, orig) = ex[0]
    if orig != name:
        raise ResolveError('%s:%d: renaming import of %s as %s' % (rel(path), line, orig, name))
    tp = target_path(path, level, module)
    return 'from %s:%s' % (rel(tp) if tp else module, orig)


def local_names(fn):
    """{name: line} of every name the function binds itself: parameters, assignment / loop / with / except / comprehension
    targets, nested definitions, local imports, `global` / `nonlocal` declarations"""
    out = {}
    a = fn.args
    for x in list(getattr(a, 'posonlyargs', [])) + a.args + a.kwonlyargs + [y for y in (a.vararg, a.kwarg) if y]:
        out.setdefault(x.arg, fn.lineno)
    for nd in ast.walk(fn):
        if nd is fn:
            continue
        if isinstance(nd, ast.Name) and isinstance(nd.ctx, (ast.Store, ast.Del)):
            out.setdefault(nd.id, nd.lineno)
        elif isinstance(nd, (ast.FunctionDef, ast.AsyncFunctionDef, ast.ClassDef)):
            out.setdefault(nd.name, nd.lineno)
        elif isinstance(nd, (ast.Import, ast.ImportFrom)):
            for al in nd.names:
                out.setdefault((al.asname or al.name).split('.')[0], nd.lineno)
        elif isinstance(nd, (ast.Global, ast.Nonlocal)):
            for nm in nd.names:
                out.setdefault(nm, nd.lineno)
        elif isinstance(nd, ast.ExceptHandler) and nd.name:
            out.setdefault(nd.name, nd.lineno)
        elif isinstance(nd, ast.arg):
            out.setdefault(nd.arg, nd.lineno)          # parameters of nested functions / lambdas
    return out


# what the statement mappings assume about the global names they read (the authoritative comparison is the Lean check of
# the emitted `origins`; this table only turns a deviation into a `problems` entry as well)
EXPECT_ORIGIN = {
    'np': 'module numpy',
    'range': 'builtin', 'len': 'builtin', 'int': 'builtin', 'max': 'builtin', 'min': 'builtin', 'float': 'builtin', 'bool': 'builtin',
    'isinstance': 'builtin', 'ValueError': 'builtin', 'list': 'builtin', 'set': 'builtin', 'enumerate': 'builtin', 'random': 'module random',
    'randmio_und_signed': 'def bct/algorithms/reference.py:randmio_und_signed', 'randmio_dir_signed': 'def bct/algorithms/reference.py:randmio_dir_signed',
    'binarize': 'def bct/utils/other.py:binarize', 'normalize': 'def bct/utils/other.py:normalize',
    'invert': 'def bct/utils/other.py:invert', 'NotImplementedError': 'builtin',
    'cuberoot': 'def bct/utils/miscellaneous_utilities.py:cuberoot',
    'get_components': 'def bct/algorithms/clustering.py:get_components',
    'get_rng': 'def bct/utils/miscellaneous_utilities.py:get_rng',
    'pick_four_unique_nodes_quickly': 'def bct/utils/miscellaneous_utilities.py:pick_four_unique_nodes_quickly',
    'BCTParamError': 'class bct/utils/miscellaneous_utilities.py:BCTParamError',
    'degrees_und': 'def bct/algorithms/degree.py:degrees_und', 'degrees_dir': 'def bct/algorithms/degree.py:degrees_dir',
    'strengths_und': 'def bct/algorithms/degree.py:strengths_und',
    'breadth': 'def bct/algorithms/distance.py:breadth',
    'kcore_bu': 'def bct/algorithms/core.py:kcore_bu', 'kcore_bd': 'def bct/algorithms/core.py:kcore_bd',
    'due': 'from bct/due.py:due', 'BibTeX': 'from bct/due.py:BibTeX',
}


def numpy_patch_scan():
    """attribute stores on the numpy module anywhere in the package (`np.min = …`, `np.random.seed = …`, `setattr(np, …)`,
    `del np.x`): ['file:line: text'].  Such a store changes what `np.<name>` means for every routine."""
    out = []
    base = os.path.join(common.REPO, 'bct')
    for d, _, files in sorted(os.walk(base)):
        for f in sorted(files):
            if not f.endswith('.py'):
                continue
            p = os.path.join(d, f)
            try:
                tree = ast.parse(open(p).read())
            except (OSError, SyntaxError) as e:
                out.append('%s: cannot be parsed (%s)' % (rel(p), type(e).__name__))
                continue
            aliases = set()
            for nd in ast.walk(tree):
                if isinstance(nd, ast.Import):
                    for a in nd.names:
                        if a.name.split('.')[0] == 'numpy':
                            aliases.add(a.asname or 'numpy')
                elif isinstance(nd, ast.ImportFrom) and nd.module and nd.module.split('.')[0] == 'numpy' and nd.level == 0:
                    for a in nd.names:
                        if a.name != '*':
                            aliases.add(a.asname or a.name)

            def root(x):
                while isinstance(x, (ast.Attribute, ast.Subscript)):
                    x = x.value
                return x.id if isinstance(x, ast.Name) else None
            for nd in ast.walk(tree):
                tg = []
                if isinstance(nd, ast.Assign):
                    tg = nd.targets
                elif isinstance(nd, (ast.AugAssign, ast.AnnAssign)):
                    tg = [nd.target]
                elif isinstance(nd, ast.Delete):
                    tg = nd.targets
                elif isinstance(nd, (ast.For, ast.AsyncFor)):
                    tg = [nd.target]
                elif isinstance(nd, (ast.With, ast.AsyncWith)):
                    tg = [i.optional_vars for i in nd.items if i.optional_vars is not None]
                flat = []
                for t in tg:
                    flat += list(ast.walk(t))
                for t in flat:
                    if isinstance(t, ast.Attribute) and isinstance(t.ctx, (ast.Store, ast.Del)) and root(t) in aliases:
                        out.append('%s:%d: %s' % (rel(p), nd.lineno, src_of(nd, 60)))
                if (isinstance(nd, ast.Call) and isinstance(nd.func, ast.Name) and nd.func.id in ('setattr', 'delattr') and nd.args
                        and root(nd.args[0]) in aliases):
                    out.append('%s:%d: %s' % (rel(p), nd.lineno, src_of(nd, 60)))
    return sorted(set(out))


_NP_SCAN = {}


def name_check(r, fn, path, lenient=False):
    """resolve every global name of the routine; sets r.origins (sorted [(name, origin)]), reports what is not understood"""
    r.origins = []
    loc = local_names(fn)
    deco = {nd.id for d in fn.decorator_list for nd in ast.walk(d) if isinstance(nd, ast.Name)}
    body_loads = {}
    for st in fn.body:
        for nd in ast.walk(st):
            if isinstance(nd, ast.Name) and isinstance(nd.ctx, ast.Load):
                body_loads.setdefault(nd.id, nd.lineno)
    for a in fn.args.defaults + [d for d in fn.args.kw_defaults if d is not None]:
        for nd in ast.walk(a):
            if isinstance(nd, ast.Name):
                body_loads.setdefault(nd.id, nd.lineno)
    # a name the mappings read as a global must not be rebound inside the function (or be a parameter)
    for nm in sorted(set(EXPECT_ORIGIN) & set(loc)):
        if nm in body_loads or nm in deco:
            r.bad(fn, 'the name %s is bound inside %s (line %d): it does not denote %s there' % (nm, fn.name, loc[nm], EXPECT_ORIGIN[nm]))
    free = sorted((set(body_loads) - set(loc)) | deco)
    for nm in free:
        try:
            if nm in deco and nm not in body_loads:
                o = shallow_origin(path, nm)
            else:
                o = origin_str(resolve(path, nm))
        except ResolveError as e:
            r.bad(fn, 'cannot resolve the name %s: %s' % (nm, e))
            o = 'unresolved'
        except (OSError, SyntaxError) as e:
            r.bad(fn, 'cannot resolve the name %s: %s' % (nm, e))
            o = 'unresolved'
        r.origins.append((nm, o))
        exp = EXPECT_ORIGIN.get(nm)
        if exp is None and nm in deco and nm not in body_loads and o.startswith('from bct/citations.py:'):
            exp = o
        if o != 'unresolved' and o != exp and not (lenient and exp is None):
            r.bad(fn, 'the name %s resolves to `%s`%s' % (nm, o, ', expected `%s`' % exp if exp else ', which the mapping tables do not know'))
    # the definition that callers get under the routine's own name is the one extracted
    try:
        me = resolve(path, fn.name)
        if me[0] != 'def' or me[3].lineno != fn.lineno:
            r.bad(fn, 'the name %s denotes `%s`, not the definition at line %d' % (fn.name, origin_str(me), fn.lineno))
    except ResolveError as e:
        r.bad(fn, 'cannot resolve the name %s: %s' % (fn.name, e))
    if 'np' in dict(r.origins):
        if 'scan' not in _NP_SCAN:
            _NP_SCAN['scan'] = numpy_patch_scan()
        for x in _NP_SCAN['scan']:
            r.bad(fn, 'the package stores into an attribute of the numpy module (%s): `np.<name>` is not understood' % x)


def lean_origins(r):
    return lst('(%s, %s)' % (q(k), q(v)) for k, v in getattr(r, 'origins', []))


def resolved_def(path, name):
    """(file, FunctionDef) of the definition `name` denotes in the module `path`, or raises ResolveError"""
    res = resolve(path, name)
    if res[0] != 'def':
        raise ResolveError('%s denotes `%s`, not a function definition' % (name, origin_str(res)))
    dpath = os.path.join(common.REPO, res[1])
    return dpath, canonicalise_locals(res[3], dpath)


# ====================================================================== primitives of an IR that are bct functions

def fold_util_primitive(using_path, name):
    """A bct utility that an IR treats as a primitive (`binarize(·, copy=True)` in the peel / comp IRs): resolve the name
    as the using module sees it and extract the definition with the util-family mapping, so that the generated file of
    the *using* family carries the primitive's own obligation.  -> Routine"""
    try:
        dpath, node = resolved_def(using_path, name)
    except ResolveError as e:
        r = Routine(name, using_path)
        r.problems.append('%s: %s: cannot resolve the called function %s: %s' % (name, os.path.basename(using_path), name, e))
        return r
    try:
        r = extract_util(node, dpath, True)
        check_header(r, node, None)
    except Exception as e:  # noqa — an extractor crash must not look like success
        r = Routine(name, dpath); r.problems.append('%s: extractor raised %s: %s' % (name, type(e).__name__, e))
    return r


def lean_folded_primitive(r, users):
    """Lean text for fold_util_primitive (only `binarize` is folded today)"""
    f = r.fields or {'params': '[]', 'defaults': '[]', 'body': '[]'}
    a, b = r.parts.get('body', (r.line, r.line))
    out = []
    for p in r.problems:
        out.append('-- NOT RECOGNISED: ' + p.replace('\n', ' '))
    out.append('/-- `%s` as called by %s, resolved to its definition (%s:%d); a primitive of this IR, tied here with the util-family IR -/' % (
        r.name, users, os.path.basename(r.file), r.line))
    out.append('def prim_%s : Bct.CoreIR.Util.FnIR :=\n  { name := %s, recognised := %s, params := %s, defaults := %s,\n    body :=\n     %s }\n' % (
        r.name, q(r.name), 'true' if not r.problems else 'false', f['params'], f['defaults'] + ', origins := ' + lean_origins(r), f['body']))
    out.append('theorem prim_%s_ok : Bct.CoreIR.Util.utilOk prim_%s = true := by\n  first | decide | fail "prim_%s_ok: %s, called by %s, '
               '(%s:%d-%d) %s"\n' % (r.name, r.name, r.name, r.name, users, os.path.basename(r.file), a, b,
                                     'was not resolved / recognised by translate/cores.py' if r.problems else 'is not the expected program'))
    if r.name == 'binarize':
        out.append('theorem prim_binarize_computes {n : Nat} (o : Bct.CoreIR.Util.Oracles) (W : AMat Rat n) (c : Bool) (ds : List Nat) :\n'
                   '    Bct.CoreIR.Util.runFn o prim_binarize [.mat (Bct.Cores.Util.embQ W), .sc (.bool c)] ds = .mat (Bct.Cores.Util.embQ (Bct.Thresh.binarize W)) :=\n'
                   '  Bct.Cores.Util.link_binarize o _ prim_binarize_ok rfl W c ds\n')
    if r.name == 'invert':
        out.append('theorem prim_invert_computes {n : Nat} (o : Bct.CoreIR.Util.Oracles) (W : AMat Rat n) (c : Bool) (ds : List Nat) :\n'
                   '    Bct.CoreIR.Util.runFn o prim_invert [.mat (Bct.Cores.Util.embQ W), .sc (.bool c)] ds = .mat (Bct.Cores.Util.embQ (Bct.Thresh.invert W)) :=\n'
                   '  Bct.Cores.Util.link_invert o _ prim_invert_ok rfl W c ds\n')
    if r.name == 'cuberoot':
        out.append('theorem prim_cuberoot_computes {n : Nat} (o : Bct.CoreIR.Util.Oracles) (x : Rat) (ds : List Nat) :\n'
                   '    Bct.CoreIR.Util.runFn (n := n) o prim_cuberoot [.sc (.rat x)] ds =\n'
                   '      .vals [match o.cb (if x < 0 then -x else x) with\n'
                   '             | some r => Bct.CoreIR.Util.SV.rat ((if x < 0 then -1 else if x = 0 then 0 else 1) * r)\n'
                   '             | none => Bct.CoreIR.Util.SV.err] ds :=\n'
                   '  Bct.Cores.Util.link_cuberoot o _ prim_cuberoot_ok rfl x ds\n')
    return out


def fingerprint_primitive(using_path, name):
    """A bct function that an IR gives a fixed meaning without interpreting it (`get_rng`): resolve the name and take the
    normalised source of the definition as data (compared with the recognised normal form in Lean).  -> Routine"""
    try:
        dpath, node = resolved_def(using_path, name)
    except ResolveError as e:
        r = Routine(name, using_path)
        r.problems.append('%s: %s: cannot resolve the called function %s: %s' % (name, os.path.basename(using_path), name, e))
        r.fields = {'origin': 'unresolved', 'params': '', 'src': ''}
        return r
    r = Routine(name, dpath)
    r.line = node.lineno
    r.parts = {'body': lines_of(body_wo_doc(node))}
    for d in node.decorator_list:
        r.bad(d, 'unrecognised decorator %s' % src_of(d))
    name_check(r, node, dpath)
    r.fields = {'origin': 'def %s:%s' % (rel(dpath), name), 'params': ast.unparse(node.args),
                'src': '\n'.join(ast.unparse(st) for st in body_wo_doc(node))}
    return r


def lean_fingerprint(r, users):
    f = r.fields
    a, b = r.parts.get('body', (r.line, r.line))
    out = []
    for p in r.problems:
        out.append('-- NOT RECOGNISED: ' + p.replace('\n', ' '))
    out.append('/-- `%s` as called by %s, resolved to its definition (%s:%d): normalised source -/' % (r.name, users, os.path.basename(r.file), r.line))
    out.append('def prim_%s : Prim :=\n  { name := %s, origin := %s, params := %s,\n    src := %s,\n    origins := %s }\n' % (
        r.name, q(r.name), q(f['origin']), q(f['params']), '[' + ',\n            '.join(q(x) for x in f['src'].split('\n')) + ']' if f['src'] else '[]', lean_origins(r)))
    out.append('theorem prim_%s_ok : primOk prim_%s = true := by\n  first | decide | fail "prim_%s_ok: the definition of %s that %s calls '
               '(%s:%d-%d) is not the recognised one"\n' % (r.name, r.name, r.name, r.name, users, os.path.basename(r.file), a, b))
    return out


# ====================================================================== source pins
#
# For routines whose body is not (or only partly) interpreted, the whole normalised body (`ast.unparse` of every
# statement: comments, blank lines, redundant parentheses and quoting style do not matter; docstring dropped) is emitted
# as data and compared in Lean with a reference text (`Model/CoreIRPin.lean`).  A pin says nothing about what the text
# computes; it makes every change of the body — a new branch, a reordered statement — fail an obligation, so that the
# evidence collected for the pinned text (model correspondence, sampling) is not silently carried over to other code.

class _Scope(object):
    def __init__(self, parent):
        self.parent = parent
        self.bound = set()


def _pin_renameable(fn, with_pos=False):
    """names of `fn` that may be renamed without changing what any occurrence denotes: bound somewhere inside `fn`, not a
    parameter (of `fn` or of a nested function / lambda), not bound by an import, not declared global / nonlocal, and every
    occurrence (in `fn` or in a nested scope) resolves to a binding inside `fn` (never to a module-level name or a builtin).
    -> [name, …] in the order of the first binding in the text, or None if the function contains a class definition"""
    params, fixed = set(), set()
    occ = []            # (name, scope)
    first = {}          # name -> (line, col) of the first binding

    def bind(name, scope, node):
        scope.bound.add(name)
        occ.append((name, scope))
        pos = (getattr(node, 'lineno', 0), getattr(node, 'col_offset', 0))
        if name not in first or pos < first[name]:
            first[name] = pos

    class Abort(Exception):
        pass

    def args_of(a, scope):
        for x in list(getattr(a, 'posonlyargs', [])) + a.args + a.kwonlyargs + [y for y in (a.vararg, a.kwarg) if y]:
            params.add(x.arg)
            scope.bound.add(x.arg)

    def visit(node, scope):
        if isinstance(node, ast.ClassDef):
            raise Abort()
        if isinstance(node, (ast.FunctionDef, ast.AsyncFunctionDef)):
            bind(node.name, scope, node)
            for d in node.decorator_list:
                visit(d, scope)
            for d in node.args.defaults + [k for k in node.args.kw_defaults if k is not None]:
                visit(d, scope)
            inner = _Scope(scope)
            args_of(node.args, inner)
            for st in node.body:
                visit(st, inner)
            return
        if isinstance(node, ast.Lambda):
            for d in node.args.defaults + [k for k in node.args.kw_defaults if k is not None]:
                visit(d, scope)
            inner = _Scope(scope)
            args_of(node.args, inner)
            visit(node.body, inner)
            return
        if isinstance(node, (ast.ListComp, ast.SetComp, ast.DictComp, ast.GeneratorExp)):
            inner = _Scope(scope)
            for k_, g in enumerate(node.generators):
                visit(g.iter, scope if k_ == 0 else inner)
                visit(g.target, inner)
                for c in g.ifs:
                    visit(c, inner)
            if isinstance(node, ast.DictComp):
                visit(node.key, inner); visit(node.value, inner)
            else:
                visit(node.elt, inner)
            return
        if isinstance(node, (ast.Global, ast.Nonlocal)):
            fixed.update(node.names)
            return
        if isinstance(node, (ast.Import, ast.ImportFrom)):
            for al in node.names:
                nm_ = (al.asname or al.name).split('.')[0]
                fixed.add(nm_)
                scope.bound.add(nm_)
            return
        if isinstance(node, ast.ExceptHandler) and node.name:
            bind(node.name, scope, node)
        if isinstance(node, ast.Name):
            if isinstance(node.ctx, (ast.Store, ast.Del)):
                bind(node.id, scope, node)
            else:
                occ.append((node.id, scope))
            return
        for ch in ast.iter_child_nodes(node):
            visit(ch, scope)
    top = _Scope(None)
    try:
        args_of(fn.args, top)
        for st in fn.body:
            visit(st, top)
    except Abort:
        return None

    def resolves(name, scope):
        while scope is not None:
            if name in scope.bound:
                return True
            scope = scope.parent
        return False
    bad = {nm_ for nm_, sc in occ if not resolves(nm_, sc)}
    names = [nm_ for nm_ in first if nm_ not in params and nm_ not in fixed and nm_ not in bad]
    names = sorted(names, key=lambda nm_: first[nm_])
    return (names, first) if with_pos else names


class _Web(object):
    """one renameable variable: `name`, the nodes that carry it (`Name` nodes; nested definitions and exception handlers for a
    whole-routine variable), the position of its first binding, and — for a loop variable that has been split off — its `for`"""

    def __init__(self, name, nodes, pos, loop=None):
        self.name, self.nodes, self.pos, self.loop = name, nodes, pos, loop


def _local_webs(fn):
    """The renameable locals of `fn` (`_pin_renameable`) as independent variables, in the order of their first binding.
    A name is one variable for the whole routine, except for **loop variables that are re-bound by every loop that uses them**:
    a name `v` is split into one variable per `for` statement when (1) every binding of `v` is a name in the target of a
    `for` statement (`for v in …`, `for q, v in …`), (2) every other occurrence of `v` lies in the *body* of a `for` statement
    that binds `v` (not in its iterable, not in its `else`, not after it), (3) no `for` that binds `v` is nested in another one
    that binds `v`, (4) `v` does not occur in a nested function, lambda or comprehension, and (5) the routine does not mention
    `locals`, `vars`, `globals`, `eval`, `exec` or `dir`.  Under these conditions the value a loop leaves in `v` is never read,
    so the loops use independent variables that merely share a name.  -> [_Web] or None (class definition inside)"""
    res = _pin_renameable(fn, with_pos=True)
    if res is None:
        return None
    names, first = res
    cand = set(names)
    if any(isinstance(nd, ast.Name) and nd.id in ('locals', 'vars', 'globals', 'eval', 'exec', 'dir') for nd in ast.walk(fn)):
        cand = set()
    loops = {}          # name -> {id(for): (for, [nodes])}
    plain = {}          # name -> [nodes] (every carrier of the name, also in nested scopes)

    def targets(t):
        if isinstance(t, ast.Name):
            return [t]
        if isinstance(t, (ast.Tuple, ast.List)):
            return [x for e in t.elts for x in targets(e)]
        if isinstance(t, ast.Starred):
            return targets(t.value)
        return []

    def note(name, node):
        plain.setdefault(name, []).append(node)

    def visit(node, stack, nested):
        """stack: [(for statement, part)] of the enclosing `for` statements of the routine's own scope, innermost last"""
        if isinstance(node, (ast.FunctionDef, ast.AsyncFunctionDef)):
            note(node.name, node)
            cand.discard(node.name)
            for ch in ast.iter_child_nodes(node):
                visit(ch, stack, True)
            return
        if isinstance(node, (ast.Lambda, ast.ListComp, ast.SetComp, ast.DictComp, ast.GeneratorExp)):
            for ch in ast.iter_child_nodes(node):
                visit(ch, stack, True)
            return
        if isinstance(node, ast.ExceptHandler) and node.name:
            note(node.name, node)
            cand.discard(node.name)
        if isinstance(node, ast.AsyncFor):
            for x in targets(node.target):
                cand.discard(x.id)
        if isinstance(node, ast.For) and not nested:
            tn = targets(node.target)
            tset = {x.id for x in tn}
            for f_, _part in stack:
                inner = {x.id for x in targets(f_.target)} & tset
                for nm_ in inner:
                    cand.discard(nm_)                          # (3) nested loops over the same name
            for x in tn:
                note(x.id, x)
                loops.setdefault(x.id, {}).setdefault(id(node), (node, []))[1].append(x)
            # whatever else the target contains (`for D[i], _ in …`) is read before the binding
            for sub in ast.walk(node.target):
                if isinstance(sub, ast.Name) and sub not in tn:
                    visit(sub, stack + [(node, 'target')], nested)
            visit(node.iter, stack + [(node, 'iter')], nested)
            for st in node.body:
                visit(st, stack + [(node, 'body')], nested)
            for st in node.orelse:
                visit(st, stack + [(node, 'orelse')], nested)
            return
        if isinstance(node, ast.Name):
            note(node.id, node)
            if nested:
                cand.discard(node.id)                          # (4)
            elif isinstance(node.ctx, (ast.Store, ast.Del)):
                cand.discard(node.id)                          # (1) a binding that is not a `for` target
            else:
                home = None
                for f_, part in reversed(stack):
                    if node.id in {x.id for x in targets(f_.target)}:
                        home = (f_, part)
                        break
                if home is None or home[1] != 'body':
                    cand.discard(node.id)                      # (2)
                else:
                    loops[node.id][id(home[0])][1].append(node)
            return
        for ch in ast.iter_child_nodes(node):
            visit(ch, stack, nested)
    for st in fn.body:
        visit(st, [], False)
    webs = []
    for nm_ in names:
        if nm_ in cand and nm_ in loops:
            for f_, nodes in loops[nm_].values():
                webs.append(_Web(nm_, nodes, min((x.lineno, x.col_offset) for x in nodes if isinstance(x.ctx, ast.Store)), loop=f_))
        else:
            webs.append(_Web(nm_, plain.get(nm_, []), first[nm_]))
    webs.sort(key=lambda w: w.pos)
    return webs


def _rename_webs(webs, new_names):
    """rename in place, variable by variable (never parameters, attributes, keywords)"""
    for w, nn in zip(webs, new_names):
        for nd in w.nodes:
            if isinstance(nd, ast.Name):
                nd.id = nn
            else:
                nd.name = nn        # nested definition, exception handler


def _nested_fors(a, b):
    """is one of the two `for` statements inside the other"""
    return any(x is b for x in ast.walk(a)) or any(x is a for x in ast.walk(b))


def _drop_noops(body):
    """the statements without `pass` and without bare-string statements (docstrings included), in every nested block; a block
    left empty keeps one `pass`"""
    out = []
    for st in body:
        if isinstance(st, ast.Pass):
            continue
        if isinstance(st, ast.Expr) and isinstance(st.value, ast.Constant) and isinstance(st.value.value, str):
            continue
        for fld in ('body', 'orelse', 'finalbody'):
            if isinstance(getattr(st, fld, None), list) and (getattr(st, fld) or fld == 'body'):
                setattr(st, fld, _drop_noops(getattr(st, fld)))
        for h in getattr(st, 'handlers', []) or []:
            h.body = _drop_noops(h.body)
        out.append(st)
    return out or [ast.Pass()]


def _rename_locals(fn, ren):
    """rename in place: Name nodes, nested function names, exception-handler names (never parameters, attributes, keywords)"""
    for nd in ast.walk(fn):
        if isinstance(nd, ast.Name) and nd.id in ren:
            nd.id = ren[nd.id]
        elif isinstance(nd, (ast.FunctionDef, ast.AsyncFunctionDef)) and nd is not fn and nd.name in ren:
            nd.name = ren[nd.name]
        elif isinstance(nd, ast.ExceptHandler) and nd.name in ren:
            nd.name = ren[nd.name]


def _names_used(fn):
    """every identifier that occurs in `fn` as a name, parameter, import binding or global / nonlocal declaration"""
    used = {nd.id for nd in ast.walk(fn) if isinstance(nd, ast.Name)} | {nd.arg for nd in ast.walk(fn) if isinstance(nd, ast.arg)}
    for nd in ast.walk(fn):
        if isinstance(nd, (ast.Import, ast.ImportFrom)):
            used |= {(al.asname or al.name).split('.')[0] for al in nd.names}
        elif isinstance(nd, (ast.Global, ast.Nonlocal)):
            used |= set(nd.names)
        elif isinstance(nd, (ast.FunctionDef, ast.AsyncFunctionDef)) and nd is not fn:
            used.add(nd.name)
        elif isinstance(nd, ast.ExceptHandler) and nd.name:
            used.add(nd.name)
    return used


_CANON_SEEN = {}        # 'file:function' -> current renameable locals, recorded for `canon_locals_text`


def canonicalise_locals(fn, path):
    """The interpreted ties read names (`BC`, `NPd`, `hops` … are fields of the IRs and are compared with the reference
    IRs).  A consistent renaming of function-local variables does not change what a routine computes, so it is undone
    before the statements are mapped: the renameable locals of the current source (`_pin_renameable`: bound inside the
    routine, not a parameter of it or of a nested function, not bound by an import, not global / nonlocal, every occurrence
    resolving inside the routine) in the order of their first binding are renamed, simultaneously, to the canonical list
    of `CANON_LOCALS` — if and only if the two lists have the same length, and no canonical name is used in the current
    source for anything else (a parameter, a global, a builtin …: the renaming would capture it).  Otherwise the routine
    is extracted as it stands (and its obligation fails, as it should).  Loop variables that every loop re-binds count as one
    variable per loop (`_local_webs`), so the canonical list may name the same `i` several times; variables are given the
    same canonical name only if all of them are such loop variables and their loops do not contain each other.  The renamed
    function is alpha-equivalent to the current one; line numbers are kept.  `pass` statements and
    bare-string statements (docstrings, string "comments") are dropped in every block first (`_drop_noops`), as for the
    source pins.  -> FunctionDef (a copy)"""
    key = '%s:%s' % (rel(path), fn.name)
    import copy
    try:
        fn2 = copy.deepcopy(fn)
        fn2.body = _drop_noops(fn2.body)
        webs = _local_webs(fn2)
    except Exception:  # noqa
        return fn
    cur = None if webs is None else [w.name for w in webs]
    _CANON_SEEN[key] = cur
    canon = CANON_LOCALS.get(key)
    if canon is None or cur is None or len(cur) != len(canon) or cur == canon:
        return fn2
    if set(canon) & (_names_used(fn2) - set(cur)):
        return fn2
    # variables that get the same canonical name must be loop variables of loops that do not contain each other
    by_new = {}
    for w, nn in zip(webs, canon):
        by_new.setdefault(nn, []).append(w)
    for ws in by_new.values():
        if len(ws) > 1 and (any(w.loop is None for w in ws) or any(_nested_fors(a.loop, b.loop) for k_, a in enumerate(ws) for b in ws[k_ + 1:])):
            return fn2
    _rename_webs(webs, canon)
    return fn2


def canon_locals_text():
    """the table `CANON_LOCALS` for the current source (run once on the reference revision of /repo): every routine that
    `generate()` reads, with its renameable locals in first-binding order"""
    _CANON_SEEN.clear()
    import tempfile
    with tempfile.TemporaryDirectory() as d:
        os.makedirs(os.path.join(d, 'BctVerif', 'Gen'))
        saved = dict(CANON_LOCALS)
        CANON_LOCALS.clear()
        try:
            generate(d)
        finally:
            CANON_LOCALS.update(saved)
    out = ['CANON_LOCALS = {']
    for k_ in sorted(_CANON_SEEN):
        if _CANON_SEEN[k_]:
            ln = '    %r: %r,' % (k_, _CANON_SEEN[k_])
            while len(ln) > 150:
                cut = ln.rfind(', ', 0, 150) + 1
                out.append(ln[:cut]); ln = '        ' + ln[cut + 1:]
            out.append(ln)
    out.append('}')
    return '\n'.join(out) + '\n'


def _pure_kw(node):
    """an argument expression whose evaluation has no effect and cannot fail differently in another position: names, literals,
    attribute chains of names, signed literals, tuples / lists of those"""
    if isinstance(node, (ast.Name, ast.Constant)):
        return True
    if isinstance(node, ast.Attribute):
        return _pure_kw(node.value)
    if isinstance(node, ast.UnaryOp) and isinstance(node.op, (ast.USub, ast.UAdd)) and isinstance(node.operand, ast.Constant):
        return True
    if isinstance(node, (ast.Tuple, ast.List)):
        return all(_pure_kw(e) for e in node.elts)
    return False


def normalise_body(fn):
    """the text a source pin compares (used for the generated pin and for the reference alike): a deep copy of the function in
    which (1) docstrings of the function and of nested functions, other bare-string statements and `pass` statements are dropped
    (a block left empty keeps one `pass`), (2) the renameable local variables (`_local_webs`: names, with loop variables that
    every loop re-binds counted once per loop) are replaced by v0, v1, … in the order of their first binding, (3) the keyword arguments of a call are sorted by name when all of them have pure values
    (`_pure_kw`), (4) every statement is printed by `ast.unparse` (comments, blank lines, redundant parentheses,
    spacing, quoting style and line breaks do not survive).  Statement order, parameters, global names, attribute names,
    keyword-argument names, imports and literals are kept as they are.  -> list of lines"""
    import copy
    fn = copy.deepcopy(fn)
    fn.body = _drop_noops(fn.body)
    webs = _local_webs(fn)
    if webs:
        used = _names_used(fn)
        prefix = 'v'
        while any(re.match(r'^%s\d+$' % re.escape(prefix), u) for u in used - {w.name for w in webs}):
            prefix = '_' + prefix
        _rename_webs(webs, ['%s%d' % (prefix, k_) for k_ in range(len(webs))])
    for nd in ast.walk(fn):
        # keyword arguments are put in alphabetical order when every one of them is named (no `**kw`) and has a pure value
        if isinstance(nd, ast.Call) and len(nd.keywords) > 1 and all(k_.arg is not None and _pure_kw(k_.value) for k_ in nd.keywords):
            nd.keywords = sorted(nd.keywords, key=lambda k_: k_.arg)
    ast.fix_missing_locations(fn)
    return '\n'.join(ast.unparse(st) for st in fn.body).split('\n')


def pin_routine(path, name, fns=None):
    """-> Routine with fields {origin, params, src (list of lines)}; names are resolved and recorded, not judged"""
    if fns is None:
        fns, err = parse_functions(path)
    else:
        err = None
    r = Routine(name, path)
    r.fields = {'origin': 'unresolved', 'params': '', 'src': []}
    if name not in fns:
        r.problems.append('%s: %s' % (name, err or 'function not found in ' + path))
        return r
    node = fns[name]
    r.line = node.lineno
    body = body_wo_doc(node)
    r.parts = {'body': lines_of(body)}
    try:
        for d in node.decorator_list:
            ok = (isinstance(d, ast.Call) and isinstance(d.func, ast.Attribute) and d.func.attr == 'dcite'
                  and isinstance(d.func.value, ast.Name) and d.func.value.id == 'due')
            if not ok:
                r.bad(d, 'unrecognised decorator %s' % src_of(d))
        if name in getattr(fns, 'rebound', {}):
            r.bad(node, 'the module binds the name %s again at top level (line %s)' % (name, fns.rebound[name]))
        name_check(r, node, path, lenient=True)
        src = []
        for ln in normalise_body(node):
            # long lines are cut into pieces (the Lean check compares character by character)
            src.append(ln[:96])
            for k_ in range(96, len(ln), 96):
                src.append('  ... ' + ln[k_:k_ + 96])
        r.fields = {'origin': 'def %s:%s' % (rel(path), name), 'params': ast.unparse(node.args), 'src': src}
        r.counts = {'lines': len(r.fields['src'])}
    except Exception as e:  # noqa — an extractor crash must not look like success
        r.problems.append('%s: extractor raised %s: %s' % (name, type(e).__name__, e))
    return r


def lean_pin_value(r, defname):
    f = r.fields
    blocks = [f['src'][k_:k_ + 12] for k_ in range(0, len(f['src']), 12)]   # blocks of 12 lines keep the Lean comparison shallow
    return ('def %s : Bct.CoreIR.Pin.SrcPin :=\n  { name := %s, origin := %s, params := %s,\n    src := [%s],\n    origins := %s }\n'
            % (defname, q(r.name), q(f['origin']), q(f['params']),
               ',\n      '.join('[' + ',\n       '.join(q(x) for x in b_) + ']' for b_ in blocks), lean_origins(r)))


def lean_pin(r):
    """generated definition + obligation for one pinned routine (reference `Bct.CoreIR.Pin.ref_<name>`)"""
    relb = os.path.basename(r.file)
    a, b = r.parts.get('body', (r.line, r.line))
    out = []
    for p in r.problems:
        out.append('-- NOT RECOGNISED: ' + p.replace('\n', ' '))
    out.append('/-- `%s` (%s:%d): the normalised source of the whole body -/' % (r.name, relb, r.line))
    nm_ = r.name.lstrip('_')
    out.append(lean_pin_value(r, 'pin_%s' % nm_))
    out.append('theorem %s_pin_ok : Bct.CoreIR.Pin.pinOk Bct.CoreIR.Pin.ref_%s pin_%s = true := by\n  first | decide | fail "%s_pin_ok: the body of %s '
               '(%s:%d-%d) is not the pinned text%s"\n' % (nm_, nm_, nm_, nm_, r.name, relb, a, b,
                                                         ' (and was not resolved by translate/cores.py)' if r.problems else ''))
    return out


PINNED = {
    # family -> [(relative file, routine)]: the routines of the family and the bct functions they call that no other family interprets
    'modq': [('bct/algorithms/modularity.py', 'modularity_und'), ('bct/algorithms/modularity.py', 'modularity_dir'),
             ('bct/algorithms/modularity.py', 'modularity_louvain_und'), ('bct/algorithms/modularity.py', 'modularity_louvain_dir'),
             ('bct/algorithms/modularity.py', 'ls2ci'), ('bct/algorithms/modularity.py', '_safe_squeeze'),
             ('bct/utils/miscellaneous_utilities.py', 'get_rng')],
    'nullm': [('bct/algorithms/reference.py', 'null_model_und_sign'), ('bct/algorithms/reference.py', 'null_model_dir_sign'),
              ('bct/algorithms/reference.py', 'randmio_und_signed'), ('bct/algorithms/reference.py', 'randmio_dir_signed'),
              ('bct/utils/miscellaneous_utilities.py', 'get_rng')],
    'nbs': [('bct/nbs.py', 'nbs_bct'), ('bct/utils/miscellaneous_utilities.py', 'get_rng')],
    'synth': [('bct/algorithms/reference.py', 'makerandCIJdegreesfixed'), ('bct/algorithms/reference.py', 'makeringlatticeCIJ'),
              ('bct/utils/miscellaneous_utilities.py', 'get_rng'),
              ('bct/algorithms/reference.py', 'makerandCIJ_dir'), ('bct/algorithms/reference.py', 'makerandCIJ_und'),
              ('bct/algorithms/reference.py', 'maketoeplitzCIJ'), ('bct/algorithms/reference.py', 'makeevenCIJ'),
              ('bct/algorithms/reference.py', 'makefractalCIJ')],
    # families that consist of source pins only (no interpreted part yet)
    'pinrew': [('bct/algorithms/reference.py', x) for x in (
        'randmio_und', 'randmio_dir', 'randmio_und_connected', 'randmio_dir_connected', 'latmio_und', 'latmio_dir', 'latmio_und_connected',
        'latmio_dir_connected', 'randomizer_bin_und', 'randomize_graph_partial_und',
        '_has_rewirable_pair')] + [('bct/utils/miscellaneous_utilities.py', 'get_rng')],   # _has_rewirable_pair: the guard helper of the nine loops
    'pinmod': [('bct/algorithms/modularity.py', x) for x in (
        'community_louvain', 'modularity_louvain_und_sign', 'modularity_probtune_und_sign', 'modularity_finetune_und',
        'modularity_finetune_und_sign', 'modularity_finetune_dir', 'modularity_und_sign', 'link_communities')]
        + [('bct/utils/miscellaneous_utilities.py', 'get_rng')],
    'pinpart': [('bct/algorithms/modularity.py', 'partition_distance'), ('bct/algorithms/modularity.py', 'ci2ls'),
                ('bct/algorithms/modularity.py', 'ls2ci'),
                ('bct/algorithms/centrality.py', 'participation_coef'), ('bct/algorithms/centrality.py', 'participation_coef_sign'),
                ('bct/algorithms/centrality.py', 'diversity_coef_sign'), ('bct/algorithms/centrality.py', 'gateway_coef_sign'),
                ('bct/algorithms/centrality.py', 'module_degree_zscore'), ('bct/algorithms/clustering.py', 'agreement'),
                ('bct/algorithms/clustering.py', 'agreement_weighted'), ('bct/algorithms/clustering.py', 'consensus_und'),
                ('bct/utils/miscellaneous_utilities.py', 'dummyvar')],
    'pindist': [('bct/algorithms/distance.py', 'navigation_wu'), ('bct/algorithms/efficiency.py', 'efficiency_wei'),
                ('bct/algorithms/efficiency.py', 'rout_efficiency')],
    'pinmeas': [('bct/algorithms/clustering.py', 'clustering_coef_wu_sign'), ('bct/algorithms/core.py', 'assortativity_bin'),
                ('bct/algorithms/core.py', 'assortativity_wei'), ('bct/algorithms/physical_connectivity.py', 'density_dir'),
                ('bct/algorithms/physical_connectivity.py', 'density_und'), ('bct/algorithms/similarity.py', 'edge_nei_overlap_bd'),
                ('bct/algorithms/similarity.py', 'edge_nei_overlap_bu'), ('bct/algorithms/centrality.py', 'flow_coef_bd'),
                ('bct/algorithms/similarity.py', 'matching_ind'), ('bct/algorithms/similarity.py', 'matching_ind_und'),
                ('bct/algorithms/core.py', 'rich_club_bd'), ('bct/algorithms/core.py', 'rich_club_bu'), ('bct/algorithms/core.py', 'rich_club_wd'),
                ('bct/algorithms/core.py', 'rich_club_wu'), ('bct/algorithms/degree.py', 'strengths_dir'),
                ('bct/algorithms/degree.py', 'strengths_und_sign'), ('bct/algorithms/degree.py', 'jdegree')],
    'pinwalk': [('bct/algorithms/centrality.py', 'eigenvector_centrality_und'), ('bct/algorithms/centrality.py', 'subgraph_centrality'),
                ('bct/algorithms/distance.py', 'findwalks'), ('bct/algorithms/distance.py', 'findpaths'),
                ('bct/algorithms/efficiency.py', 'diffusion_efficiency')],
    'pingen': [('bct/algorithms/core.py', 'core_periphery_dir'), ('bct/algorithms/generative.py', 'generative_model'),
               ('bct/algorithms/generative.py', 'evaluate_generative_model'), ('bct/algorithms/physical_connectivity.py', 'rentian_scaling'),
               ('bct/utils/miscellaneous_utilities.py', 'get_rng')],
    'pinutil': [('bct/utils/other.py', 'autofix')],
}

# the Lean file that holds the references of a family (`Bct.CoreIR.Pin.ref_<routine>`)
PIN_REF_FILE = {'modq': 'CoreIRPin', 'nullm': 'CoreIRPin', 'nbs': 'CoreIRPin', 'synth': 'CoreIRPin'}
PIN_REF_DEFAULT = 'CoreIRPinMore'


def pin_reference_text(families=None, skip=()):
    """Lean text of the reference pins for the current source (to refresh `Model/CoreIRPin*.lean` after a reviewed change)"""
    out = []
    seen = set(skip)
    for fam in (families or sorted(PINNED)):
        for relf, name in PINNED[fam]:
            if (relf, name) in seen:
                continue
            seen.add((relf, name))
            r = pin_routine(os.path.join(common.REPO, relf), name)
            out.append(lean_pin_value(r, 'ref_%s' % name.lstrip('_')).replace('Bct.CoreIR.Pin.SrcPin', 'SrcPin'))
    return '\n'.join(out)


def write_pin_references(lean_dir, only=None):
    """refresh the reference sections of `Model/CoreIRPin.lean` (everything after the marker line) and rewrite
    `Model/CoreIRPinMore.lean` from the current source — to be run on a reviewed revision of /repo only.
    With `only` (routine names): replace just the entries `def ref_<name> : SrcPin := …` of these routines and leave every other
    entry of the two files as it is (several people refreshing different routines from different worktrees)"""
    if only:
        import tempfile
        tmp = tempfile.mkdtemp(prefix='pinrefs_')
        try:
            os.makedirs(os.path.join(tmp, 'BctVerif', 'Model'))
            files = ['CoreIRPin.lean', 'CoreIRPinMore.lean']
            for f_ in files:
                shutil.copy(os.path.join(lean_dir, 'BctVerif', 'Model', f_), os.path.join(tmp, 'BctVerif', 'Model', f_))
            write_pin_references(tmp)
            changed = []
            for f_ in files:
                fresh = open(os.path.join(tmp, 'BctVerif', 'Model', f_)).read()
                p_ = os.path.join(lean_dir, 'BctVerif', 'Model', f_)
                cur = open(p_).read()
                out = cur
                for name in only:
                    pat = r'def ref_%s : SrcPin :=\n(?:.+\n)*' % re.escape(name)
                    a, b = re.search(pat, fresh), re.search(pat, out)
                    if a and b and a.group(0) != b.group(0):
                        out = out[:b.start()] + a.group(0) + out[b.end():]
                if out != cur:
                    open(p_, 'w').write(out)
                    changed.append(p_)
            return changed
        finally:
            shutil.rmtree(tmp, ignore_errors=True)
    base_fams = sorted(f_ for f_ in PINNED if PIN_REF_FILE.get(f_, PIN_REF_DEFAULT) == 'CoreIRPin')
    more_fams = sorted(f_ for f_ in PINNED if PIN_REF_FILE.get(f_, PIN_REF_DEFAULT) != 'CoreIRPin')
    p0 = os.path.join(lean_dir, 'BctVerif', 'Model', 'CoreIRPin.lean')
    t0 = open(p0).read()
    marker = '/-! ## references (from /repo at the time the pins were made) -/\n'
    head = t0[:t0.index(marker) + len(marker)]
    open(p0, 'w').write(head + '\n' + pin_reference_text(base_fams) + '\n\nend Bct.CoreIR.Pin\n')
    base = {(relf, name) for f_ in base_fams for relf, name in PINNED[f_]}
    p1 = os.path.join(lean_dir, 'BctVerif', 'Model', 'CoreIRPinMore.lean')
    open(p1, 'w').write('import BctVerif.Model.CoreIRPin\n/-!\n# Source pins, second file: references for the families that consist of pins only\n\n'
                        'Same format and same normalisation as `Model/CoreIRPin.lean` (generated by `cores.write_pin_references` from a reviewed\n'
                        'revision of /repo).  A pin carries no meaning; it makes every change of the body fail an obligation.\n\nCore Lean only.\n-/\n'
                        'namespace Bct.CoreIR.Pin\n\n' + pin_reference_text(more_fams, skip=base) + '\n\nend Bct.CoreIR.Pin\n')
    return [p0, p1]


# ====================================================================== family 'floyd'

class FloydX:
    """expression / statement mapping for distance_wei_floyd (Model/CoreIRFloyd.lean: Ix, Ex, Stmt)"""

    def __init__(self, r):
        self.r = r
        self.dims = set()      # names bound by `x = M.shape[c]`
        self.wheres = set()    # names bound by `i, j = np.where(p)`

    # --- index inside M[r, c]
    def ix(self, node):
        if isinstance(node, ast.Name):
            return '(.arr %s)' % q(node.id) if node.id in self.wheres else '(.var %s)' % q(node.id)
        raise Unrec(node, 'unrecognised index %s' % src_of(node))

    def is_dim(self, node):
        return isinstance(node, ast.Name) and node.id in self.dims

    # --- whole-array expression, by the value of one cell
    def ex(self, node):
        z = const_nat(node)
        if z is not None:
            return '(.lit %d)' % z
        if is_np(node, 'inf'):
            return '.inf'
        if isinstance(node, ast.Name):
            return '(.ref %s .row .col)' % q(node.id)
        if isinstance(node, ast.BinOp) and isinstance(node.op, ast.Add):
            return '(.add %s %s)' % (self.ex(node.left), self.ex(node.right))
        if isinstance(node, ast.BinOp) and isinstance(node.op, ast.Div) and const_nat(node.left) == 1:
            return '(.recip %s)' % self.ex(node.right)
        if isinstance(node, ast.UnaryOp) and isinstance(node.op, ast.USub) and np_call(node.operand, 'log', 1) and not node.operand.keywords:
            return '(.negLog %s)' % self.ex(node.operand.args[0])
        if isinstance(node, ast.Compare) and len(node.ops) == 1 and isinstance(node.ops[0], (ast.Gt, ast.GtE, ast.Eq, ast.NotEq)):
            op = {ast.Gt: 'gt', ast.GtE: 'ge', ast.Eq: 'eq', ast.NotEq: 'ne'}[type(node.ops[0])]
            return '(.%s %s %s)' % (op, self.ex(node.left), self.ex(node.comparators[0]))
        if isinstance(node, ast.Compare) and len(node.ops) == 1 and isinstance(node.ops[0], (ast.Lt, ast.LtE)):     # a < b  is  b > a
            op = {ast.Lt: 'gt', ast.LtE: 'ge'}[type(node.ops[0])]
            return '(.%s %s %s)' % (op, self.ex(node.comparators[0]), self.ex(node.left))
        if isinstance(node, ast.Call) and not node.keywords:
            f = node.func
            # X.copy()  /  X.astype('float'): the matrix itself; of a comparison: 0/1 numbers
            if isinstance(f, ast.Attribute) and f.attr == 'copy' and not node.args:
                return self.ex(f.value)
            if (isinstance(f, ast.Attribute) and f.attr == 'astype' and len(node.args) == 1
                    and isinstance(node.args[0], ast.Constant) and node.args[0].value == 'float'):
                inner = f.value
                while np_call(inner, 'array', 1) and not inner.keywords:
                    inner = inner.args[0]
                return '(.toNum %s)' % self.ex(inner) if isinstance(inner, ast.Compare) else self.ex(inner)
            a = np_call(node, 'array', 1)
            if a:
                return self.ex(a[0])
            a = np_call(node, 'eye', 1)
            if a and self.is_dim(a[0]):
                return '.eye'
            # np.min(np.stack([A, B], 2), 2)
            a = np_call(node, 'min', 2)
            if a and const_nat(a[1]) == 2:
                s = np_call(a[0], 'stack', 2)
                if s and not a[0].keywords and const_nat(s[1]) == 2 and isinstance(s[0], ast.List) and len(s[0].elts) == 2:
                    return '(.min %s %s)' % (self.ex(s[0].elts[0]), self.ex(s[0].elts[1]))
            a = np_call(node, 'repeat', 3)
            if a and self.is_dim(a[1]) and const_nat(a[2]) in (0, 1):
                axis = const_nat(a[2])
                # np.repeat(np.atleast_2d(np.arange(0, n)), n, 0)
                b = np_call(a[0], 'atleast_2d', 1)
                if b and axis == 0 and not a[0].keywords:
                    c = np_call(b[0], 'arange', 2)
                    if c and not b[0].keywords and const_nat(c[0]) == 0 and self.is_dim(c[1]):
                        return '.colIdx'
                # np.repeat(M[:, [v]], n, 1)  /  np.repeat(M[[v], :], n, 0)
                sub = a[0]
                if (isinstance(sub, ast.Subscript) and isinstance(sub.value, ast.Name) and isinstance(sub.slice, ast.Tuple)
                        and len(sub.slice.elts) == 2):
                    x, y = sub.slice.elts

                    def full(s_):
                        return isinstance(s_, ast.Slice) and s_.lower is None and s_.upper is None and s_.step is None

                    def one(s_):
                        return isinstance(s_, ast.List) and len(s_.elts) == 1 and isinstance(s_.elts[0], ast.Name)
                    if full(x) and one(y) and axis == 1:
                        return '(.ref %s .row %s)' % (q(sub.value.id), self.ix(y.elts[0]))
                    if one(x) and full(y) and axis == 0:
                        return '(.ref %s %s .col)' % (q(sub.value.id), self.ix(x.elts[0]))
        # M[a, b] with names a, b
        if (isinstance(node, ast.Subscript) and isinstance(node.value, ast.Name) and isinstance(node.slice, ast.Tuple)
                and len(node.slice.elts) == 2):
            x, y = node.slice.elts
            return '(.ref %s %s %s)' % (q(node.value.id), self.ix(x), self.ix(y))
        raise Unrec(node, 'unrecognised expression %s' % src_of(node))

    # --- one statement -> list of IR statements
    def stmt(self, st):
        if isinstance(st, ast.Assign) and len(st.targets) == 1:
            t, v = st.targets[0], st.value
            # i, j = np.where(p)
            if (isinstance(t, ast.Tuple) and len(t.elts) == 2 and all(isinstance(e, ast.Name) for e in t.elts)
                    and np_call(v, 'where', 1) and not v.keywords and isinstance(v.args[0], ast.Name)):
                out = ['.whereB %s %s %s' % (q(t.elts[0].id), q(t.elts[1].id), q(v.args[0].id))]
                self.wheres |= {t.elts[0].id, t.elts[1].id}
                return out
            # M[p], N[p] = c1, c2   (constants: evaluation order is immaterial)
            if (isinstance(t, ast.Tuple) and isinstance(v, ast.Tuple) and len(t.elts) == len(v.elts)
                    and all(const_nat(e) is not None for e in v.elts)):
                out = []
                for tt, vv in zip(t.elts, v.elts):
                    out += self.store(tt, vv)
                return out
            if isinstance(t, ast.Name):
                # n = M.shape[c]
                if (isinstance(v, ast.Subscript) and isinstance(v.value, ast.Attribute) and v.value.attr == 'shape'
                        and isinstance(v.value.value, ast.Name) and const_nat(v.slice) is not None):
                    self.dims.add(t.id)
                    return ['.dim %s %s %d' % (q(t.id), q(v.value.value.id), const_nat(v.slice))]
                e = self.ex(v)
                self.dims.discard(t.id)
                self.wheres.discard(t.id)
                return ['.bind %s %s' % (q(t.id), e)]
            if isinstance(t, ast.Subscript):
                return self.store(t, v)
        raise Unrec(st, 'unrecognised statement %s' % src_of(st))

    def store(self, t, v):
        """M[p] = e"""
        if isinstance(t, ast.Subscript) and isinstance(t.value, ast.Name) and isinstance(t.slice, (ast.Name, ast.Compare)):
            return ['.setMask %s %s %s' % (q(t.value.id), self.ex(t.slice), self.ex(v))]
        raise Unrec(t, 'unrecognised store target %s' % src_of(t))

    def stmts(self, sts):
        out = []
        for st in sts:
            try:
                out += self.stmt(st)
            except Unrec as e:
                self.r.bad(e.node if hasattr(e.node, 'lineno') else st, e.msg)
        return out

    # --- the `if transform is not None: … else: …` tree -> decision list
    def dispatch(self, sts, tr):
        if len(sts) == 1 and isinstance(sts[0], ast.With) and len(sts[0].items) == 1:
            ce = sts[0].items[0].context_expr
            if isinstance(ce, ast.Call) and is_np(ce.func, 'errstate') and sts[0].items[0].optional_vars is None:
                return self.dispatch(sts[0].body, tr)
        if len(sts) == 1 and isinstance(sts[0], ast.If):
            nd = sts[0]
            t = nd.test
            if (isinstance(t, ast.Compare) and len(t.ops) == 1 and isinstance(t.left, ast.Name) and t.left.id == tr):
                c = t.comparators[0]
                if isinstance(c, ast.Constant) and c.value is None and isinstance(t.ops[0], ast.IsNot):
                    return [('.isNone', self.arm(nd.orelse))] + self.dispatch(nd.body, tr)
                if isinstance(c, ast.Constant) and c.value is None and isinstance(t.ops[0], ast.Is):
                    return [('.isNone', self.arm(nd.body))] + self.dispatch(nd.orelse, tr)
                if isinstance(c, ast.Constant) and isinstance(c.value, str) and isinstance(t.ops[0], ast.Eq):
                    return [('.eqStr %s' % q(c.value), self.arm(nd.body))] + self.dispatch(nd.orelse, tr)
            self.r.bad(nd, 'unrecognised test of the transform argument: %s' % src_of(t))
            return []
        return [('.otherwise', self.arm(sts))]

    def arm(self, sts):
        if len(sts) == 1 and isinstance(sts[0], ast.Raise) and sts[0].cause is None:
            e = sts[0].exc
            if isinstance(e, ast.Call) and isinstance(e.func, ast.Name):
                return '.raise %s' % q(e.func.id)
            if isinstance(e, ast.Name):
                return '.raise %s' % q(e.id)
        return '.stmts %s' % lst(self.stmts(sts))


def extract_floyd(fn, path):
    r = Routine('distance_wei_floyd', path)
    r.line = fn.lineno
    x = FloydX(r)
    args = [a.arg for a in fn.args.args]
    if len(args) != 2 or fn.args.vararg or fn.args.kwarg or fn.args.kwonlyargs:
        r.bad(fn, 'expected exactly two parameters, found %s' % args)
        args = (args + ['?', '?'])[:2]
    body = body_wo_doc(fn)
    loops = [i for i, st in enumerate(body) if isinstance(st, ast.For)]
    if len(loops) != 1 or not body or not isinstance(body[0], ast.If) or not isinstance(body[-1], ast.Return):
        r.bad(fn, 'expected `if <transform> …`, statements, one `for` loop, statements, `return`')
        return r
    li = loops[0]
    loop = body[li]
    disp = x.dispatch(body[:1], args[1])
    init = x.stmts(body[1:li])
    lv, lb = '?', '?'
    if (isinstance(loop.target, ast.Name) and isinstance(loop.iter, ast.Call) and isinstance(loop.iter.func, ast.Name)
            and loop.iter.func.id == 'range' and len(loop.iter.args) == 1 and not loop.iter.keywords
            and isinstance(loop.iter.args[0], ast.Name) and not loop.orelse):
        lv, lb = loop.target.id, loop.iter.args[0].id
    else:
        r.bad(loop, 'unrecognised loop header: %s' % src_of(loop))
    bd = x.stmts(loop.body)
    epi = x.stmts(body[li + 1:-1])
    ret = body[-1].value
    if isinstance(ret, ast.Tuple) and all(isinstance(e, ast.Name) for e in ret.elts):
        rets = [e.id for e in ret.elts]
    else:
        r.bad(body[-1], 'unrecognised return: %s' % src_of(body[-1])); rets = []
    r.parts = {'dispatch': lines_of(body[:1]), 'init': lines_of(body[1:li]), 'body': lines_of([loop]),
               'epilogue': lines_of(body[li + 1:])}
    r.fields = {'param': q(args[0]), 'trParam': q(args[1]), 'defaults': lean_defaults(defaults_of(fn)),
                'dispatch': '[' + ',\n      '.join('(%s, %s)' % ca for ca in disp) + ']',
                'init': '[' + ',\n      '.join(init) + ']',
                'loopVar': q(lv), 'loopBound': q(lb),
                'body': '[' + ',\n      '.join(bd) + ']',
                'epilogue': '[' + ',\n      '.join(epi) + ']',
                'ret': lst(map(q, rets))}
    r.counts = {'dispatch_arms': len(disp), 'init': len(init), 'body': len(bd), 'epilogue': len(epi)}
    return r


def lean_floyd(r, src_path):
    f = r.fields
    rel = os.path.basename(src_path)
    out = ['import BctVerif.Props.CoresFloyd',
           '/-!',
           '# GENERATED by translate/cores.py (family floyd) — do not edit.  Re-emitted from the current source on every check run.',
           'source: %s' % src_path,
           '',
           'The statements of `distance_wei_floyd` as a `FloydIR` value, one obligation per part (so that a failure names',
           'the part and its source lines), the whole-routine obligation `distance_wei_floyd_ok`, and the link theorems',
           'instantiated at the extracted value.',
           '-/',
           'set_option linter.unusedTactic false',
           'set_option linter.unreachableTactic false',
           'namespace Bct.Gen.CoresFloyd',
           'open Bct Bct.Dist Bct.CoreIR.Floyd Bct.Cores.Floyd',
           '']
    for p in r.problems:
        out.append('-- NOT RECOGNISED: ' + p.replace('\n', ' '))
    if not f:
        f = {'param': q('?'), 'trParam': q('?'), 'defaults': '[]', 'dispatch': '[]', 'init': '[]', 'loopVar': q('?'), 'loopBound': q('?'),
             'body': '[]', 'epilogue': '[]', 'ret': '[]'}
    out.append('/-- `distance_wei_floyd` (%s:%d) -/' % (rel, r.line))
    out.append('def ir_distance_wei_floyd : FloydIR :=\n  { recognised := %s,\n    param := %s, trParam := %s, defaults := %s,\n    dispatch :=\n     %s,\n'
               '    init :=\n     %s,\n    loopVar := %s, loopBound := %s,\n    body :=\n     %s,\n    epilogue :=\n     %s,\n    ret := %s }\n' % (
                   'true' if not r.problems else 'false', f['param'], f['trParam'], f['defaults'] + ', origins := ' + lean_origins(r),
                   f['dispatch'], f['init'], f['loopVar'],
                   f['loopBound'], f['body'], f['epilogue'], f['ret']))
    parts = [('dispatch', '(ir_distance_wei_floyd.dispatch == refDispatch)', 'the transform dispatch / the SPL[SPL == 0] = inf initialisation'),
             ('init', '(ir_distance_wei_floyd.init == refInit)', 'the initialisation of n / hops / Pmat'),
             ('body', '(ir_distance_wei_floyd.loopVar == "k" && ir_distance_wei_floyd.loopBound == "n" && ir_distance_wei_floyd.body == refBody)',
              'the loop `for k in range(n)` (the Floyd stage)'),
             ('epilogue', '(ir_distance_wei_floyd.epilogue == refEpilogue && ir_distance_wei_floyd.ret == ["SPL", "hops", "Pmat"])',
              'the epilogue (diagonal of SPL / hops / Pmat) and the returned names')]
    for pn, prop, what in parts:
        a, b = r.parts.get(pn, (r.line, r.line))
        out.append('theorem distance_wei_floyd_%s_ok : %s = true := by\n  first | decide | fail "distance_wei_floyd_%s_ok: %s of distance_wei_floyd '
                   '(%s:%d-%d) is not the expected statement list"\n' % (pn, prop, pn, what, rel, a, b))
    out.append('theorem distance_wei_floyd_ok : floydOk ir_distance_wei_floyd = true := by\n  first | decide | fail "distance_wei_floyd_ok: the statements '
               'extracted from distance_wei_floyd (%s:%d) %s"\n' % (
                   rel, r.line, 'were not all recognised by translate/cores.py' if r.problems else 'are not the expected program'))
    out.append('theorem distance_wei_floyd_stage {n : Nat} (nl : Rat → Ext) (E : Env n) (s : FSt n) (k : Fin n) (h : StateIs E s) :\n'
               '    ∃ E\', execs nl ir_distance_wei_floyd.body (E.setVar ir_distance_wei_floyd.loopVar k) = some E\' ∧ StateIs E\' (fStage s k) :=\n'
               '  link_stage nl _ distance_wei_floyd_ok E s k h\n')
    out.append('theorem distance_wei_floyd_computes_none {n : Nat} (nl : Rat → Ext) (A : AMat Rat n) :\n'
               '    run nl ir_distance_wei_floyd none A = .ok (embed (floyd (lenMat .none A))) :=\n  link_floyd_none nl _ distance_wei_floyd_ok A\n')
    out.append('theorem distance_wei_floyd_computes_inv {n : Nat} (nl : Rat → Ext) (A : AMat Rat n) :\n'
               '    run nl ir_distance_wei_floyd (some "inv") A = .ok (embed (floyd (lenMat .inv A))) :=\n  link_floyd_inv nl _ distance_wei_floyd_ok A\n')
    out.append('theorem distance_wei_floyd_computes_log {n : Nat} (nl : Rat → Ext) (hnl : ∀ q, (nl q).isFin = (q != 0)) (A : AMat Rat n) :\n'
               '    run nl ir_distance_wei_floyd (some "log") A = .ok (embed (floyd (AMat.ofFn fun i j => nl (A.get i j)))) :=\n'
               '  link_floyd_log nl hnl _ distance_wei_floyd_ok A\n')
    out.append('theorem distance_wei_floyd_other {n : Nat} (nl : Rat → Ext) (A : AMat Rat n) (t : String) (h1 : t ≠ "log") (h2 : t ≠ "inv") :\n'
               '    run nl ir_distance_wei_floyd (some t) A = .error "ValueError" :=\n  link_floyd_other nl _ distance_wei_floyd_ok A t h1 h2\n')
    out.append('end Bct.Gen.CoresFloyd')
    return '\n'.join(out) + '\n'


def family_floyd():
    path = os.path.join(common.REPO, 'bct', 'algorithms', 'distance.py')
    fns, err = parse_functions(path)
    name = 'distance_wei_floyd'
    if name not in fns:
        r = Routine(name, path); r.problems.append('%s: %s' % (name, err or 'function not found in ' + path))
    else:
        try:
            r = extract_floyd(fns[name], path)
            check_header(r, fns[name], fns)
        except Exception as e:  # noqa — an extractor crash must not look like success
            r = Routine(name, path); r.problems.append('%s: extractor raised %s: %s' % (name, type(e).__name__, e))
    return {'module': 'BctVerif.Gen.CoresFloyd', 'file': 'CoresFloyd.lean', 'text': lean_floyd(r, path), 'sources': [path],
            'routines': {r.name: dict(getattr(r, 'counts', {}), line=r.line, recognised=not r.problems)},
            'problems': list(r.problems)}


# ====================================================================== family 'peel'

HELPERS = ('degrees_und', 'degrees_dir', 'strengths_und')
PEELERS = ('kcore_bu', 'kcore_bd', 'score_wu')
CORENESS = ('kcoreness_centrality_bu', 'kcoreness_centrality_bd')


def kw(call, name):
    for k in call.keywords:
        if k.arg == name:
            return k.value
    return None


def const_int(node):
    if isinstance(node, ast.Constant) and type(node.value) is int:
        return node.value
    if (isinstance(node, ast.UnaryOp) and isinstance(node.op, ast.USub) and isinstance(node.operand, ast.Constant)
            and type(node.operand.value) is int):
        return -node.operand.value
    return None


def lint(z):
    return '(%d)' % z if z < 0 else '%d' % z


class PeelX:
    """expression / statement mapping for the peeling routines (Model/CoreIRPeel.lean: MEx, VEx, Stmt)"""

    def __init__(self, r, params):
        self.r = r
        self.mats = set(params[:1])
        self.scalars = set(params[1:])
        self.flags = set(params[1:])
        self.vecs = set()
        self.idxs = set()
        self.nats = set()

    def mex(self, node):
        if isinstance(node, ast.Name) and node.id in self.mats:
            return '(.ref %s)' % q(node.id)
        if (isinstance(node, ast.Call) and isinstance(node.func, ast.Attribute) and node.func.attr == 'copy'
                and not node.args and not node.keywords):
            return '(.copy %s)' % self.mex(node.func.value)
        if (isinstance(node, ast.Call) and isinstance(node.func, ast.Name) and node.func.id == 'binarize' and len(node.args) == 1
                and len(node.keywords) == 1 and isinstance(kw(node, 'copy'), ast.Constant) and kw(node, 'copy').value is True):
            return '(.binarize %s)' % self.mex(node.args[0])
        if (isinstance(node, ast.BinOp) and isinstance(node.op, ast.Add) and isinstance(node.right, ast.Attribute)
                and node.right.attr == 'T'):
            return '(.addT %s %s)' % (self.mex(node.left), self.mex(node.right.value))
        a = np_call(node, 'array', 1)
        if (a and len(node.keywords) == 1 and isinstance(kw(node, 'dtype'), ast.Name) and kw(node, 'dtype').id == 'float'
                and isinstance(a[0], ast.Compare) and len(a[0].ops) == 1 and isinstance(a[0].ops[0], ast.Gt)
                and const_int(a[0].comparators[0]) is not None):
            return '(.gtNum %s %s)' % (self.mex(a[0].left), lint(const_int(a[0].comparators[0])))
        raise Unrec(node, 'unrecognised matrix expression %s' % src_of(node))

    def vex(self, node):
        z = const_int(node)
        if z is not None:
            return '(.lit %s)' % lint(z)
        if isinstance(node, ast.Name):
            if node.id in self.vecs:
                return '(.ref %s)' % q(node.id)
            if node.id in self.scalars:
                return '(.scalar %s)' % q(node.id)
        if isinstance(node, ast.BinOp) and isinstance(node.op, ast.Add):
            return '(.add %s %s)' % (self.vex(node.left), self.vex(node.right))
        if isinstance(node, ast.Compare) and len(node.ops) == 1:
            a, b = self.vex(node.left), self.vex(node.comparators[0])
            op = type(node.ops[0])
            if op is ast.Lt:
                return '(.lt %s %s)' % (a, b)
            if op is ast.Gt:
                return '(.lt %s %s)' % (b, a)
            if op is ast.LtE:
                return '(.le %s %s)' % (a, b)
            if op is ast.GtE:
                return '(.le %s %s)' % (b, a)
        a = np_call(node, 'sum', 1)
        if a and len(node.keywords) == 1 and const_nat(kw(node, 'axis')) is not None:
            return '(.sum %s %d)' % (self.mex(a[0]), const_nat(kw(node, 'axis')))
        for fn_, c in (('logical_and', 'land'), ('logical_or', 'lor')):
            a = np_call(node, fn_, 2)
            if a and not node.keywords:
                return '(.%s %s %s)' % (c, self.vex(a[0]), self.vex(a[1]))
        raise Unrec(node, 'unrecognised vector expression %s' % src_of(node))

    def simple(self, st):
        """statements that may also occur in a helper: x = <matrix> / x = <vector>"""
        if isinstance(st, ast.Assign) and len(st.targets) == 1 and isinstance(st.targets[0], ast.Name):
            x, v = st.targets[0].id, st.value
            try:
                e = self.mex(v)
                kind = 'M'
            except Unrec:
                e = self.vex(v)
                kind = 'V'
            for s_ in (self.mats, self.vecs, self.idxs, self.nats):
                s_.discard(x)
            self.scalars.discard(x)
            self.flags.discard(x)
            (self.mats if kind == 'M' else self.vecs).add(x)
            return '.bind%s %s %s' % (kind, q(x), e)
        raise Unrec(st, 'unrecognised statement %s' % src_of(st))

    def stmt(self, st):
        # if <flag>: <one statement>
        if isinstance(st, ast.If) and isinstance(st.test, ast.Name) and st.test.id in self.flags and not st.orelse and len(st.body) == 1:
            return '.ifFlag %s (%s)' % (q(st.test.id), self.stmt(st.body[0]))
        # if x.size == 0: break
        if (isinstance(st, ast.If) and not st.orelse and len(st.body) == 1 and isinstance(st.body[0], ast.Break)
                and isinstance(st.test, ast.Compare) and len(st.test.ops) == 1 and isinstance(st.test.ops[0], ast.Eq)
                and const_nat(st.test.comparators[0]) == 0 and isinstance(st.test.left, ast.Attribute) and st.test.left.attr == 'size'
                and isinstance(st.test.left.value, ast.Name) and st.test.left.value.id in self.idxs):
            return '.breakIfEmpty %s' % q(st.test.left.value.id)
        if isinstance(st, ast.AugAssign) and isinstance(st.op, ast.Add) and isinstance(st.target, ast.Name) \
                and st.target.id in self.nats and const_nat(st.value) == 1:
            return '.incr %s' % q(st.target.id)
        if isinstance(st, ast.Expr) and isinstance(st.value, ast.Call) and isinstance(st.value.func, ast.Attribute) \
                and st.value.func.attr == 'append' and isinstance(st.value.func.value, ast.Name) and len(st.value.args) == 1 \
                and not st.value.keywords:
            l, a = st.value.func.value.id, st.value.args[0]
            if isinstance(a, ast.Name) and a.id in self.idxs:
                return '.appendIdx %s %s' % (q(l), q(a.id))
            # it * np.ones((len(x),))
            if isinstance(a, ast.BinOp) and isinstance(a.op, ast.Mult) and isinstance(a.left, ast.Name) and a.left.id in self.nats:
                o = np_call(a.right, 'ones', 1)
                if o and not a.right.keywords and isinstance(o[0], ast.Tuple) and len(o[0].elts) == 1:
                    ln = o[0].elts[0]
                    if (isinstance(ln, ast.Call) and isinstance(ln.func, ast.Name) and ln.func.id == 'len' and len(ln.args) == 1
                            and isinstance(ln.args[0], ast.Name) and ln.args[0].id in self.idxs):
                        return '.appendLevel %s %s %s' % (q(l), q(a.left.id), q(ln.args[0].id))
        if isinstance(st, ast.Assign) and len(st.targets) == 1:
            t, v = st.targets[0], st.value
            # a, b = ([], [])
            if (isinstance(t, ast.Tuple) and isinstance(v, ast.Tuple) and len(t.elts) == len(v.elts)
                    and all(isinstance(e, ast.Name) for e in t.elts)
                    and all(isinstance(e, ast.List) and not e.elts for e in v.elts)):
                return '.initLists %s' % lst(q(e.id) for e in t.elts)
            # x, = np.where(e)
            if isinstance(t, ast.Tuple) and len(t.elts) == 1 and isinstance(t.elts[0], ast.Name) and np_call(v, 'where', 1) \
                    and not v.keywords:
                e = self.vex(v.args[0])
                self.idxs.add(t.elts[0].id)
                return '.whereV %s %s' % (q(t.elts[0].id), e)
            # t1, .., tk = helper(M)   /   t = helper(M)
            if isinstance(v, ast.Call) and isinstance(v.func, ast.Name) and v.func.id in HELPERS and len(v.args) == 1 and not v.keywords:
                ts = t.elts if isinstance(t, ast.Tuple) else [t]
                if all(isinstance(e, ast.Name) for e in ts):
                    arg = self.mex(v.args[0])
                    for e in ts:
                        self.vecs.add(e.id)
                    return '.call %s %s %s' % (lst(q(e.id) for e in ts), q(v.func.id), arg)
            # M[x, :] = c  /  M[:, x] = c
            if (isinstance(t, ast.Subscript) and isinstance(t.value, ast.Name) and t.value.id in self.mats
                    and isinstance(t.slice, ast.Tuple) and len(t.slice.elts) == 2 and const_int(v) is not None):
                a, b = t.slice.elts

                def full(s_):
                    return isinstance(s_, ast.Slice) and s_.lower is None and s_.upper is None and s_.step is None
                if isinstance(a, ast.Name) and a.id in self.idxs and full(b):
                    return '.setRows %s %s %s' % (q(t.value.id), q(a.id), lint(const_int(v)))
                if isinstance(b, ast.Name) and b.id in self.idxs and full(a):
                    return '.setCols %s %s %s' % (q(t.value.id), q(b.id), lint(const_int(v)))
            if isinstance(t, ast.Name):
                if const_nat(v) is not None and type(v.value) is int:
                    self.nats.add(t.id)
                    return '.setNat %s %d' % (q(t.id), const_nat(v))
                # x = np.sum(<boolean vector>)
                a = np_call(v, 'sum', 1)
                if a and not v.keywords and isinstance(a[0], ast.Compare):
                    e = self.vex(a[0])
                    self.nats.add(t.id)
                    return '.count %s %s' % (q(t.id), e)
                return self.simple(st)
        raise Unrec(st, 'unrecognised statement %s' % src_of(st))

    def stmts(self, sts, simple=False):
        out = []
        for st in sts:
            try:
                out.append(self.simple(st) if simple else self.stmt(st))
            except Unrec as e:
                self.r.bad(e.node if hasattr(e.node, 'lineno') else st, e.msg)
        return out


def ret_names(r, st):
    v = st.value
    els = v.elts if isinstance(v, ast.Tuple) else [v]
    if all(isinstance(e, ast.Name) for e in els):
        return [e.id for e in els]
    r.bad(st, 'unrecognised return: %s' % src_of(st))
    return []


def extract_helper(fn, path):
    r = Routine(fn.name, path)
    r.line = fn.lineno
    args = [a.arg for a in fn.args.args]
    if len(args) != 1 or fn.args.vararg or fn.args.kwarg or fn.args.kwonlyargs:
        r.bad(fn, 'expected exactly one parameter, found %s' % args)
    x = PeelX(r, args[:1])
    body = body_wo_doc(fn)
    if not body or not isinstance(body[-1], ast.Return) or body[-1].value is None:
        r.bad(fn, 'expected statements followed by `return`')
        return r
    sts = x.stmts(body[:-1], simple=True)
    v = body[-1].value
    rets = []
    for e in (v.elts if isinstance(v, ast.Tuple) else [v]):
        try:
            rets.append(x.vex(e))
        except Unrec as u:
            r.bad(body[-1], u.msg)
    r.fields = {'param': q(args[0] if args else '?'), 'body': lst(sts), 'ret': lst(rets)}
    r.counts = {'statements': len(sts), 'returns': len(rets)}
    return r


def extract_peeler(fn, path):
    r = Routine(fn.name, path)
    r.line = fn.lineno
    args = [a.arg for a in fn.args.args]
    if fn.args.vararg or fn.args.kwarg or fn.args.kwonlyargs:
        r.bad(fn, 'unexpected parameter kinds')
    x = PeelX(r, args)
    body = body_wo_doc(fn)
    loops = [i for i, st in enumerate(body) if isinstance(st, ast.While)]
    if len(loops) != 1:
        r.bad(fn, 'expected exactly one `while` loop, found %d' % len(loops))
        return r
    li = loops[0]
    loop = body[li]
    if not (isinstance(loop.test, ast.Constant) and loop.test.value is True and not loop.orelse):
        r.bad(loop, 'expected `while True:` without else')
    pre = x.stmts(body[:li])
    bd = x.stmts(loop.body)
    tail = body[li + 1:]
    flag, ret_flag, ret = 'none', [], []
    if tail and isinstance(tail[-1], ast.Return) and tail[-1].value is not None:
        ret = ret_names(r, tail[-1]); post_nodes = tail[:-1]
    elif (tail and isinstance(tail[-1], ast.If) and isinstance(tail[-1].test, ast.Name) and len(tail[-1].body) == 1
          and len(tail[-1].orelse) == 1 and isinstance(tail[-1].body[0], ast.Return) and isinstance(tail[-1].orelse[0], ast.Return)
          and tail[-1].body[0].value is not None and tail[-1].orelse[0].value is not None):
        flag = '(some %s)' % q(tail[-1].test.id)
        ret_flag = ret_names(r, tail[-1].body[0]); ret = ret_names(r, tail[-1].orelse[0]); post_nodes = tail[:-1]
    else:
        r.bad(fn, 'unrecognised return structure after the loop'); post_nodes = tail
    post = x.stmts(post_nodes)
    r.parts = {'pre': lines_of(body[:li]), 'body': lines_of([loop]), 'post': lines_of(tail)}
    r.fields = {'params': lst(map(q, args)), 'defaults': lean_defaults(defaults_of(fn)), 'pre': lst(pre),
                'body': '[' + ',\n      '.join(bd) + ']', 'post': lst(post),
                'flag': flag, 'retFlag': lst(map(q, ret_flag)), 'ret': lst(map(q, ret))}
    r.counts = {'pre': len(pre), 'body': len(bd), 'post': len(post)}
    return r


def nex(node, dims):
    z = const_nat(node)
    if z is not None and type(node.value) is int:
        return '(.lit %d)' % z
    if isinstance(node, ast.Name) and node.id in dims:
        return '(.dim %s)' % q(node.id)
    if isinstance(node, ast.BinOp) and isinstance(node.op, (ast.Mult, ast.Sub, ast.Add)):
        op = {ast.Mult: 'mul', ast.Sub: 'sub', ast.Add: 'add'}[type(node.op)]
        return '(.%s %s %s)' % (op, nex(node.left, dims), nex(node.right, dims))
    if isinstance(node, ast.Call) and isinstance(node.func, ast.Name) and node.func.id == 'max' and len(node.args) == 2 and not node.keywords:
        return '(.max %s %s)' % (nex(node.args[0], dims), nex(node.args[1], dims))
    raise Unrec(node, 'unrecognised size expression %s' % src_of(node))


def extract_coreness(fn, path):
    r = Routine(fn.name, path)
    r.line = fn.lineno
    args = [a.arg for a in fn.args.args]
    if len(args) != 1 or fn.args.vararg or fn.args.kwarg or fn.args.kwonlyargs:
        r.bad(fn, 'expected exactly one parameter, found %s' % args)
        return r
    x = PeelX(r, args)
    dims = set()
    body = body_wo_doc(fn)
    loops = [i for i, st in enumerate(body) if isinstance(st, ast.For)]
    if len(loops) != 1 or not isinstance(body[-1], ast.Return) or loops[0] != len(body) - 2:
        r.bad(fn, 'expected statements, one `for` loop, `return`')
        return r
    loop = body[loops[0]]

    def cstmt(st):
        if isinstance(st, ast.Assign) and len(st.targets) == 1 and isinstance(st.targets[0], ast.Name):
            t, v = st.targets[0].id, st.value
            if (isinstance(v, ast.Call) and isinstance(v.func, ast.Name) and v.func.id == 'len' and len(v.args) == 1 and not v.keywords
                    and isinstance(v.args[0], ast.Name) and v.args[0].id in x.mats):
                dims.add(t)
                return '.len %s %s' % (q(t), q(v.args[0].id))
            z = np_call(v, 'zeros', 1)
            if z and not v.keywords and isinstance(z[0], ast.Tuple) and len(z[0].elts) == 1:
                return '.zeros %s %s' % (q(t), nex(z[0].elts[0], dims))
            e = x.mex(v)
            x.mats.add(t)
            return '.bindM %s %s' % (q(t), e)
        if isinstance(st, ast.If) and not st.orelse and len(st.body) == 1:
            a = np_call(st.test, 'any', 1)
            if (a and not st.test.keywords and isinstance(a[0], ast.Compare) and len(a[0].ops) == 1 and isinstance(a[0].ops[0], ast.Gt)
                    and const_int(a[0].comparators[0]) is not None):
                return '.ifAnyGt %s %s (%s)' % (x.mex(a[0].left), lint(const_int(a[0].comparators[0])), cstmt(st.body[0]))
        raise Unrec(st, 'unrecognised statement %s' % src_of(st))
    pre = []
    for st in body[:loops[0]]:
        try:
            pre.append(cstmt(st))
        except Unrec as e:
            r.bad(e.node if hasattr(e.node, 'lineno') else st, e.msg)
    f = {'param': q(args[0]), 'pre': '[' + ',\n      '.join(pre) + ']'}
    bad = q('?')
    f.update(loopVar=bad, bound='(.lit 0)', core=bad, knArr=bad, knIdx=bad, callee=bad, callArgs='[]', ss=bad, member='(.lit 0)',
             out=bad, storeIdx=bad, storeVal=bad)
    try:
        if not (isinstance(loop.target, ast.Name) and isinstance(loop.iter, ast.Call) and isinstance(loop.iter.func, ast.Name)
                and loop.iter.func.id == 'range' and len(loop.iter.args) == 1 and not loop.iter.keywords and not loop.orelse):
            raise Unrec(loop, 'unrecognised loop header %s' % src_of(loop))
        f['loopVar'] = q(loop.target.id)
        f['bound'] = nex(loop.iter.args[0], dims)
        if len(loop.body) != 3:
            raise Unrec(loop, 'expected exactly three statements in the loop body, found %d' % len(loop.body))
        s1, s2, s3 = loop.body
        # <core>, <kn>[<k>] = <callee>(<args>)
        ok1 = (isinstance(s1, ast.Assign) and len(s1.targets) == 1 and isinstance(s1.targets[0], ast.Tuple) and len(s1.targets[0].elts) == 2
               and isinstance(s1.targets[0].elts[0], ast.Name) and isinstance(s1.targets[0].elts[1], ast.Subscript)
               and isinstance(s1.targets[0].elts[1].value, ast.Name) and isinstance(s1.targets[0].elts[1].slice, ast.Name)
               and isinstance(s1.value, ast.Call) and isinstance(s1.value.func, ast.Name) and not s1.value.keywords
               and all(isinstance(a, ast.Name) for a in s1.value.args))
        if not ok1:
            raise Unrec(s1, 'unrecognised k-core call %s' % src_of(s1))
        f['core'] = q(s1.targets[0].elts[0].id)
        f['knArr'] = q(s1.targets[0].elts[1].value.id)
        f['knIdx'] = q(s1.targets[0].elts[1].slice.id)
        f['callee'] = q(s1.value.func.id)
        f['callArgs'] = lst(q(a.id) for a in s1.value.args)
        x.mats.add(s1.targets[0].elts[0].id)
        # <ss> = <membership>
        if not (isinstance(s2, ast.Assign) and len(s2.targets) == 1 and isinstance(s2.targets[0], ast.Name)):
            raise Unrec(s2, 'unrecognised membership statement %s' % src_of(s2))
        f['ss'] = q(s2.targets[0].id)
        f['member'] = x.vex(s2.value)
        # <out>[<ss>] = <k>
        if not (isinstance(s3, ast.Assign) and len(s3.targets) == 1 and isinstance(s3.targets[0], ast.Subscript)
                and isinstance(s3.targets[0].value, ast.Name) and isinstance(s3.targets[0].slice, ast.Name) and isinstance(s3.value, ast.Name)):
            raise Unrec(s3, 'unrecognised coreness store %s' % src_of(s3))
        f['out'] = q(s3.targets[0].value.id)
        f['storeIdx'] = q(s3.targets[0].slice.id)
        f['storeVal'] = q(s3.value.id)
    except Unrec as e:
        r.bad(e.node if hasattr(e.node, 'lineno') else loop, e.msg)
    f['ret'] = lst(map(q, ret_names(r, body[-1])))
    r.parts = {'pre': lines_of(body[:loops[0]]), 'body': lines_of([loop])}
    r.fields = f
    r.counts = {'pre': len(pre)}
    return r


def lean_peel(hs, ps, cs, paths, prim):
    out = ['import BctVerif.Props.CoresPeel',
           'import BctVerif.Props.CoresUtil',
           '/-!',
           '# GENERATED by translate/cores.py (family peel) — do not edit.  Re-emitted from the current source on every check run.',
           'sources: %s' % ', '.join(paths),
           '',
           'Every statement of `degrees_und`, `degrees_dir`, `strengths_und` (helper table), of `kcore_bu`, `kcore_bd`, `score_wu` and of',
           '`kcoreness_centrality_bu/_bd` as data, one obligation per function, and the link theorems instantiated at the extracted values.',
           '-/',
           'set_option linter.unusedTactic false',
           'set_option linter.unreachableTactic false',
           'namespace Bct.Gen.CoresPeel',
           'open Bct Bct.Core Bct.CoreIR.Peel Bct.Cores.Peel',
           '']

    def notes(r):
        for p in r.problems:
            out.append('-- NOT RECOGNISED: ' + p.replace('\n', ' '))

    def why(r):
        return 'were not all recognised by translate/cores.py' if r.problems else 'are not the expected program'
    refname = {'degrees_und': 'refDegreesUnd', 'degrees_dir': 'refDegreesDir', 'strengths_und': 'refStrengthsUnd',
               'kcore_bu': 'refKcoreBu', 'kcore_bd': 'refKcoreBd', 'score_wu': 'refScoreWu',
               'kcoreness_centrality_bu': 'refCorenessBu', 'kcoreness_centrality_bd': 'refCorenessBd'}
    for r in hs:
        f = r.fields or {'param': q('?'), 'body': '[]', 'ret': '[]'}
        notes(r)
        out.append('/-- `%s` (%s:%d) -/' % (r.name, os.path.basename(r.file), r.line))
        out.append('def h_%s : Helper :=\n  { name := %s, recognised := %s, param := %s,\n    body := %s,\n    ret := %s }\n' % (
            r.name, q(r.name), 'true' if not r.problems else 'false', f['param'] + ', origins := ' + lean_origins(r), f['body'], f['ret']))
        out.append('theorem %s_ok : (h_%s == %s) = true := by\n  first | decide | fail "%s_ok: the statements extracted from %s (%s:%d) %s"\n' % (
            r.name, r.name, refname[r.name], r.name, r.name, os.path.basename(r.file), r.line, why(r)))
    out += lean_folded_primitive(prim, 'degrees_und / degrees_dir')
    out.append('def helpers : List Helper := %s\n' % lst('h_' + r.name for r in hs))
    out.append('theorem helpers_ok : helpersOk helpers = true := by\n  first | decide | fail "helpers_ok: degrees_und / degrees_dir / strengths_und '
               '(%s) are not the expected helper functions"\n' % os.path.basename(hs[0].file))
    for r in ps:
        f = r.fields or {'params': '[]', 'defaults': '[]', 'pre': '[]', 'body': '[]', 'post': '[]', 'flag': 'none', 'retFlag': '[]', 'ret': '[]'}
        notes(r)
        out.append('/-- `%s` (%s:%d) -/' % (r.name, os.path.basename(r.file), r.line))
        out.append('def ir_%s : PeelIR :=\n  { name := %s, recognised := %s, params := %s, defaults := %s,\n    pre := %s,\n    body :=\n     %s,\n    post := %s,\n'
                   '    flag := %s, retFlag := %s, ret := %s }\n' % (
                       r.name, q(r.name), 'true' if not r.problems else 'false', f['params'], f['defaults'] + ',\n    origins := ' + lean_origins(r),
                       f['pre'], f['body'], f['post'], f['flag'],
                       f['retFlag'], f['ret']))
        a, b = r.parts.get('body', (r.line, r.line))
        out.append('theorem %s_body_ok : (ir_%s.body == %s.body) = true := by\n  first | decide | fail "%s_body_ok: the `while True` body of %s '
                   '(%s:%d-%d: degree call, peel condition, stop test, zeroing of rows and columns) is not the expected statement list"\n' % (
                       r.name, r.name, refname[r.name], r.name, r.name, os.path.basename(r.file), a, b))
        out.append('theorem %s_ok : peelOk ir_%s = true := by\n  first | decide | fail "%s_ok: the statements extracted from %s (%s:%d) %s"\n' % (
            r.name, r.name, r.name, r.name, os.path.basename(r.file), r.line, why(r)))
    lk = {'kcore_bu': ('degBu', 'link_kcore_bu', 'kcoreBu'), 'kcore_bd': ('degBd', 'link_kcore_bd', 'kcoreBd')}
    for name, (deg, th, model) in lk.items():
        out.append('theorem %s_computes {n : Nat} (fuel : Nat) (A : AMat Int n) (k : Nat) (p : Bool) :\n'
                   '    runPeel helpers ir_%s fuel [.mat (embI A), .scal (.int k), .flag p] =\n'
                   '      (peelLoopOpt 0 %s (smallNat k) posNat fuel A 0 [] []).map (kcoreResult p) :=\n'
                   '  %s helpers helpers_ok ir_%s %s_ok rfl fuel A k p\n' % (name, name, deg, th, name, name))
        out.append('theorem %s_model {n : Nat} (A : AMat Int n) (k : Nat) (p : Bool) (res : List (Obj n))\n'
                   '    (h : runPeel helpers ir_%s n [.mat (embI A), .scal (.int k), .flag p] = some res) : res = kcoreResult p (%s A k) :=\n'
                   '  %s_model helpers helpers_ok ir_%s %s_ok rfl A k p res h\n' % (name, name, model, th, name, name))
    out.append('theorem score_wu_computes {n : Nat} (fuel : Nat) (A : AMat Rat n) (s : Rat) :\n'
               '    runPeel helpers ir_score_wu fuel [.mat (embR A), .scal (.rat s)] =\n'
               '      (peelLoopOpt 0 strWu (smallRat s) posRat fuel A 0 [] []).map fun out => [.mat (embR out.M), .nat out.kn] :=\n'
               '  link_score_wu helpers helpers_ok ir_score_wu score_wu_ok rfl fuel A s\n')
    out.append('theorem score_wu_model {n : Nat} (A : AMat Rat n) (s : Rat) (res : List (Obj n))\n'
               '    (h : runPeel helpers ir_score_wu n [.mat (embR A), .scal (.rat s)] = some res) :\n'
               '    res = [.mat (embR (scoreWu A s).M), .nat (scoreWu A s).kn] :=\n'
               '  link_score_wu_model helpers helpers_ok ir_score_wu score_wu_ok rfl A s res h\n')
    for r in cs:
        f = r.fields
        notes(r)
        if not f:
            f = dict(param=q('?'), pre='[]', loopVar=q('?'), bound='(.lit 0)', core=q('?'), knArr=q('?'), knIdx=q('?'), callee=q('?'),
                     callArgs='[]', ss=q('?'), member='(.lit 0)', out=q('?'), storeIdx=q('?'), storeVal=q('?'), ret='[]')
        out.append('/-- `%s` (%s:%d) -/' % (r.name, os.path.basename(r.file), r.line))
        out.append('def ir_%s : CorenessIR :=\n  { name := %s, recognised := %s, param := %s,\n    pre :=\n     %s,\n    loopVar := %s, bound := %s,\n'
                   '    core := %s, knArr := %s, knIdx := %s, callee := %s, callArgs := %s,\n    ss := %s, member := %s,\n'
                   '    out := %s, storeIdx := %s, storeVal := %s, ret := %s }\n' % (
                       r.name, q(r.name), 'true' if not r.problems else 'false', f['param'] + ',\n    origins := ' + lean_origins(r),
                       f['pre'], f['loopVar'], f['bound'], f['core'],
                       f['knArr'], f['knIdx'], f['callee'], f['callArgs'], f['ss'], f['member'], f['out'], f['storeIdx'], f['storeVal'], f['ret']))
        a, b = r.parts.get('body', (r.line, r.line))
        out.append('theorem %s_ok : corenessOk ir_%s = true := by\n  first | decide | fail "%s_ok: the statements extracted from %s (%s:%d; loop bound '
                   'and membership expression at %d-%d) %s"\n' % (r.name, r.name, r.name, r.name, os.path.basename(r.file), r.line, a, b, why(r)))
    for name, kcm, model, th in (('kcoreness_centrality_bu', 'kcoreBu', 'kcorenessBu', 'link_coreness_bu'),
                                 ('kcoreness_centrality_bd', 'kcoreBd', 'kcorenessBd', 'link_coreness_bd')):
        out.append('theorem %s_computes {n : Nat} (kc : AMat V n → Nat → Option (AMat V n × Nat))\n'
                   '    (hkc : ∀ (M : AMat Int n) (k : Nat), kc (embI M) k = some (embI (%s M k).M, (%s M k).kn)) (A : AMat Int n) :\n'
                   '    runCoreness ir_%s kc (embI A) = some (%s A) :=\n  %s _ %s_ok rfl kc hkc A\n' % (name, kcm, kcm, name, model, th, name))
    out.append('end Bct.Gen.CoresPeel')
    return '\n'.join(out) + '\n'


def family_peel():
    base = os.path.join(common.REPO, 'bct', 'algorithms')
    paths = {'degree': os.path.join(base, 'degree.py'), 'core': os.path.join(base, 'core.py'), 'centrality': os.path.join(base, 'centrality.py')}
    fns = {k: parse_functions(p) for k, p in paths.items()}

    def one(kind, name, extractor):
        f, err = fns[kind]
        if name not in f:
            r = Routine(name, paths[kind]); r.problems.append('%s: %s' % (name, err or 'function not found in ' + paths[kind]))
            return r
        try:
            r = extractor(f[name], paths[kind])
            check_header(r, f[name], f)
            if extractor is not extract_peeler and f[name].args.defaults:
                r.bad(f[name], 'unexpected default values %s' % defaults_of(f[name]))
            return r
        except Exception as e:  # noqa — an extractor crash must not look like success
            r = Routine(name, paths[kind]); r.problems.append('%s: extractor raised %s: %s' % (name, type(e).__name__, e))
            return r
    hs = [one('degree', n, extract_helper) for n in HELPERS]
    prim = fold_util_primitive(paths['degree'], 'binarize')
    ps = [one('core', n, extract_peeler) for n in PEELERS]
    cs = [one('centrality', n, extract_coreness) for n in CORENESS]
    allr = hs + ps + cs
    prim.name_in_summary = 'binarize (called by degrees_und / degrees_dir)'
    return {'module': 'BctVerif.Gen.CoresPeel', 'file': 'CoresPeel.lean', 'text': lean_peel(hs, ps, cs, [paths[k] for k in ('degree', 'core', 'centrality')], prim),
            'sources': [paths[k] for k in ('degree', 'core', 'centrality')],
            'routines': dict({r.name: dict(getattr(r, 'counts', {}), line=r.line, recognised=not r.problems) for r in allr},
                             **{prim.name_in_summary: dict(line=prim.line, file=rel(prim.file), recognised=not prim.problems)}),
            'problems': [p for r in allr + [prim] for p in r.problems]}


# ====================================================================== family 'util'

from fractions import Fraction

UTIL_MATRIX = ('threshold_absolute', 'binarize', 'normalize', 'invert', 'logtransform')       # bct/utils/other.py, first parameter = the matrix
UTIL_SCALAR = ('teachers_round', 'cuberoot', 'pick_four_unique_nodes_quickly')                # bct/utils/miscellaneous_utilities.py


class UtilX:
    """expression / statement mapping for the pure utilities (Model/CoreIRUtil.lean: SEx, Ret, Stmt)"""

    def __init__(self, r, fname, params, matrix):
        self.r = r
        self.fname = fname
        self.params = params
        self.matrix = matrix        # name of the matrix parameter or None

    def sex(self, node):
        if isinstance(node, ast.Constant) and type(node.value) in (int, float) and node.value == node.value \
                and node.value not in (float('inf'), float('-inf')):
            fr = Fraction(node.value)
            return '(.lit %s %d)' % (lint(fr.numerator), fr.denominator)
        if isinstance(node, ast.Name):
            return '(.var %s)' % q(node.id)
        if isinstance(node, ast.Subscript) and isinstance(node.value, ast.Name) and isinstance(node.slice, ast.Name):
            return '(.at %s %s)' % (q(node.value.id), q(node.slice.id))
        if isinstance(node, ast.BinOp):
            ops = {ast.Add: 'add', ast.Sub: 'sub', ast.Mult: 'mul', ast.Div: 'div', ast.Mod: 'mod', ast.FloorDiv: 'fdiv', ast.Pow: 'pow'}
            if type(node.op) in ops:
                return '(.%s %s %s)' % (ops[type(node.op)], self.sex(node.left), self.sex(node.right))
        if isinstance(node, ast.UnaryOp) and isinstance(node.op, ast.USub):
            a = np_call(node.operand, 'log', 1)
            if a and not node.operand.keywords:
                return '(.negLog %s)' % self.sex(a[0])
            return '(.neg %s)' % self.sex(node.operand)
        if isinstance(node, ast.Compare) and len(node.ops) == 1:
            a, b = self.sex(node.left), self.sex(node.comparators[0])
            op = type(node.ops[0])
            tbl = {ast.Lt: ('lt', a, b), ast.Gt: ('lt', b, a), ast.LtE: ('le', a, b), ast.GtE: ('le', b, a), ast.Eq: ('eq', a, b),
                   ast.NotEq: ('ne', a, b)}
            if op in tbl:
                return '(.%s %s %s)' % tbl[op]
        if isinstance(node, ast.BoolOp) and len(node.values) >= 2:
            c = 'and' if isinstance(node.op, ast.And) else 'or'
            out = self.sex(node.values[0])
            for v in node.values[1:]:
                out = '(.%s %s %s)' % (c, out, self.sex(v))
            return out
        if isinstance(node, ast.Call) and not node.keywords:
            for fn_, c, k in (('abs', 'abs', 1), ('sign', 'sign', 1), ('logical_and', 'and', 2), ('logical_or', 'or', 2)):
                a = np_call(node, fn_, k)
                if a:
                    return '(.%s %s)' % (c, ' '.join(self.sex(x) for x in a))
            # int(np.floor(x)) / int(np.ceil(x))
            if isinstance(node.func, ast.Name) and node.func.id == 'int' and len(node.args) == 1:
                for fn_, c in (('floor', 'floorInt'), ('ceil', 'ceilInt')):
                    a = np_call(node.args[0], fn_, 1)
                    if a and not node.args[0].keywords:
                        return '(.%s %s)' % (c, self.sex(a[0]))
        raise Unrec(node, 'unrecognised expression %s' % src_of(node))

    def ret(self, st):
        v = st.value
        if v is None:
            raise Unrec(st, 'bare return')
        if isinstance(v, ast.Name) and v.id == self.matrix:
            return '(.mat %s)' % q(v.id)
        if isinstance(v, ast.Tuple):
            return '(.tuple %s)' % lst(self.sex(e) for e in v.elts)
        if (isinstance(v, ast.Call) and isinstance(v.func, ast.Name) and v.func.id == self.fname and not v.keywords
                and all(isinstance(a, ast.Name) for a in v.args)):
            return '(.retry %s %s)' % (q(v.func.id), lst(q(a.id) for a in v.args))
        return '(.expr %s)' % self.sex(v)

    def copy_stmt(self, st):
        """if <flag>: W = W.copy()   /   if <flag>: W = W.astype(float) if W.dtype.kind in 'iub' else W.copy()"""
        if not (isinstance(st, ast.If) and isinstance(st.test, ast.Name) and not st.orelse and len(st.body) == 1
                and isinstance(st.body[0], ast.Assign) and len(st.body[0].targets) == 1
                and isinstance(st.body[0].targets[0], ast.Name)):
            return None
        w, v = st.body[0].targets[0].id, st.body[0].value

        def is_copy(x):
            return (isinstance(x, ast.Call) and isinstance(x.func, ast.Attribute) and x.func.attr == 'copy' and not x.args
                    and not x.keywords and isinstance(x.func.value, ast.Name) and x.func.value.id == w)
        if is_copy(v):
            return '.ifCopy %s %s' % (q(st.test.id), q(w))
        if (isinstance(v, ast.IfExp) and is_copy(v.orelse) and ast.unparse(v.body) == '%s.astype(float)' % w
                and ast.unparse(v.test) == "%s.dtype.kind in 'iub'" % w):
            return '.ifCopyFloat %s %s' % (q(st.test.id), q(w))
        return None

    def stmt(self, st):
        c = self.copy_stmt(st)
        if c:
            return c
        if isinstance(st, ast.Return):
            return '.ret %s' % self.ret(st)
        if isinstance(st, ast.If) and len(st.body) == 1 and len(st.orelse) == 1 and isinstance(st.body[0], ast.Return) \
                and isinstance(st.orelse[0], ast.Return):
            return '.ifRet %s %s %s' % (self.sex(st.test), self.ret(st.body[0]), self.ret(st.orelse[0]))
        # if <c>.any(): raise Exc(...)
        if (isinstance(st, ast.If) and not st.orelse and len(st.body) == 1 and isinstance(st.body[0], ast.Raise)
                and st.body[0].cause is None and isinstance(st.test, ast.Call) and isinstance(st.test.func, ast.Attribute)
                and st.test.func.attr == 'any' and not st.test.args and not st.test.keywords):
            e = st.body[0].exc
            exc = e.func.id if isinstance(e, ast.Call) and isinstance(e.func, ast.Name) else (e.id if isinstance(e, ast.Name) else None)
            names = {nd.id for nd in ast.walk(st.test.func.value) if isinstance(nd, ast.Name) and nd.id != 'np'}
            if exc and names == {self.matrix}:
                return '.raiseIfAny %s %s %s' % (q(self.matrix), self.sex(st.test.func.value), q(exc))
        if isinstance(st, ast.Expr) and np_call(st.value, 'fill_diagonal', 2) and not st.value.keywords \
                and isinstance(st.value.args[0], ast.Name):
            return '.fillDiag %s %s' % (q(st.value.args[0].id), self.sex(st.value.args[1]))
        if isinstance(st, ast.AugAssign) and isinstance(st.op, ast.Div) and isinstance(st.target, ast.Name):
            a = np_call(st.value, 'max', 1)
            if a and not st.value.keywords:
                return '.idivMax %s %s' % (q(st.target.id), self.sex(a[0]))
        if isinstance(st, ast.Assign) and len(st.targets) == 1:
            t, v = st.targets[0], st.value
            if isinstance(t, ast.Subscript) and isinstance(t.value, ast.Name):
                w = t.value.id
                if isinstance(t.slice, ast.Constant) and t.slice.value is Ellipsis:
                    return '.setAll %s %s' % (q(w), self.sex(v))
                if isinstance(t.slice, ast.Name):
                    return '.setAt %s %s %s' % (q(w), q(t.slice.id), self.sex(v))
                if isinstance(t.slice, (ast.Compare, ast.Call, ast.BoolOp)):
                    return '.setMask %s %s %s' % (q(w), self.sex(t.slice), self.sex(v))
            if isinstance(t, ast.Name):
                a = np_call(v, 'where', 1)
                if a and not v.keywords and isinstance(a[0], ast.Name):
                    return '.whereNZ %s %s' % (q(t.id), q(a[0].id))
                if isinstance(v, ast.Call) and isinstance(v.func, ast.Name) and v.func.id == 'get_rng' and len(v.args) == 1 \
                        and not v.keywords and isinstance(v.args[0], ast.Name):
                    return '.bindRng %s %s' % (q(t.id), q(v.args[0].id))
                if (isinstance(v, ast.Call) and isinstance(v.func, ast.Attribute) and v.func.attr == 'randint'
                        and isinstance(v.func.value, ast.Name) and len(v.args) == 1 and not v.keywords):
                    return '.draw %s %s %s' % (q(t.id), q(v.func.value.id), self.sex(v.args[0]))
                return '.bind %s %s' % (q(t.id), self.sex(v))
        raise Unrec(st, 'unrecognised statement %s' % src_of(st))


def extract_util(fn, path, matrix):
    r = Routine(fn.name, path)
    r.line = fn.lineno
    a = fn.args
    if a.vararg or a.kwarg or a.kwonlyargs or a.posonlyargs:
        r.bad(fn, 'unexpected parameter kinds')
    params = [x.arg for x in a.args]
    defaults = defaults_of(fn)
    x = UtilX(r, fn.name, params, params[0] if (matrix and params) else None)
    sts = []
    for st in body_wo_doc(fn):
        try:
            sts.append(x.stmt(st))
        except Unrec as e:
            r.bad(e.node if hasattr(e.node, 'lineno') else st, e.msg)
    r.fields = {'params': lst(map(q, params)), 'defaults': lst('(%s, %s)' % (q(k), q(v)) for k, v in defaults),
                'body': '[' + ',\n      '.join(sts) + ']'}
    r.counts = {'statements': len(sts)}
    r.parts = {'body': lines_of(body_wo_doc(fn))}
    return r


UTIL_LINKS = {
    'teachers_round': ('{n : Nat} (o : Oracles) (x : Rat) (ds : List Nat)',
                       'runFn (n := n) o ir_teachers_round [.sc (.rat x)] ds = .vals [.int (Bct.Thresh.teachersRound x)] ds',
                       'link_teachers_round o _ teachers_round_ok rfl x ds'),
    'threshold_absolute': ('{n : Nat} (o : Oracles) (W : AMat Rat n) (thr : Rat) (c : Bool) (ds : List Nat)',
                           'runFn o ir_threshold_absolute [.mat (embQ W), .sc (.rat thr), .sc (.bool c)] ds = .mat (embQ (Bct.Thresh.thresholdAbsolute W thr))',
                           'link_threshold_absolute o _ threshold_absolute_ok rfl W thr c ds'),
    'binarize': ('{n : Nat} (o : Oracles) (W : AMat Rat n) (c : Bool) (ds : List Nat)',
                 'runFn o ir_binarize [.mat (embQ W), .sc (.bool c)] ds = .mat (embQ (Bct.Thresh.binarize W))',
                 'link_binarize o _ binarize_ok rfl W c ds'),
    'normalize': ('{n : Nat} (o : Oracles) (W : AMat Rat n) (c : Bool) (ds : List Nat)',
                  'runFn o ir_normalize [.mat (embQ W), .sc (.bool c)] ds =\n      .mat (match Bct.Thresh.normalize W with | some R => embQ R | none => AMat.ofFn fun _ _ => SV.nan)',
                  'link_normalize o _ normalize_ok rfl W c ds'),
    'invert': ('{n : Nat} (o : Oracles) (W : AMat Rat n) (c : Bool) (ds : List Nat)',
               'runFn o ir_invert [.mat (embQ W), .sc (.bool c)] ds = .mat (embQ (Bct.Thresh.invert W))',
               'link_invert o _ invert_ok rfl W c ds'),
    'logtransform': ('{n : Nat} (o : Oracles) (W : AMat Rat n) (c : Bool) (ds : List Nat)',
                     'runFn o ir_logtransform [.mat (embQ W), .sc (.bool c)] ds =\n      if logGuard W then .raise "ValueError"\n'
                     '      else .mat (AMat.ofFn fun i j => match o.nl (W.get i j) with | some r => SV.rat r | none => SV.err)',
                     'link_logtransform o _ logtransform_ok rfl W c ds'),
    'cuberoot': ('{n : Nat} (o : Oracles) (x : Rat) (ds : List Nat)',
                 'runFn (n := n) o ir_cuberoot [.sc (.rat x)] ds =\n      .vals [match o.cb (if x < 0 then -x else x) with\n'
                 '             | some r => SV.rat ((if x < 0 then -1 else if x = 0 then 0 else 1) * r)\n             | none => SV.err] ds',
                 'link_cuberoot o _ cuberoot_ok rfl x ds'),
    'pick_four_unique_nodes_quickly': ('(o : Oracles) (m : Nat) (ds : List Nat) (fuel : Nat) (hf : ds.length < fuel)',
                                       'runPick o ir_pick_four_unique_nodes_quickly m fuel ds = Bct.Signed.pickFour m ds',
                                       'link_pick_four o _ pick_four_unique_nodes_quickly_ok rfl m ds fuel hf'),
}


def lean_util(rs, paths, prim, disp, tpr):
    out = ['import BctVerif.Props.CoresUtil',
           'import BctVerif.Props.CoresTp',
           '/-!',
           '# GENERATED by translate/cores.py (family util) — do not edit.  Re-emitted from the current source on every check run.',
           'sources: %s' % ', '.join(paths),
           '',
           'Every statement of the pure utilities as data, one obligation per function, and the link theorems instantiated at the',
           'extracted values.',
           '-/',
           'set_option linter.unusedTactic false',
           'set_option linter.unreachableTactic false',
           'namespace Bct.Gen.CoresUtil',
           'open Bct Bct.CoreIR.Util Bct.Cores.Util',
           '']
    for r in rs:
        f = r.fields or {'params': '[]', 'defaults': '[]', 'body': '[]'}
        for p in r.problems:
            out.append('-- NOT RECOGNISED: ' + p.replace('\n', ' '))
        a, b = r.parts.get('body', (r.line, r.line))
        out.append('/-- `%s` (%s:%d) -/' % (r.name, os.path.basename(r.file), r.line))
        out.append('def ir_%s : FnIR :=\n  { name := %s, recognised := %s, params := %s, defaults := %s,\n    body :=\n     %s }\n' % (
            r.name, q(r.name), 'true' if not r.problems else 'false', f['params'], f['defaults'] + ', origins := ' + lean_origins(r), f['body']))
        out.append('theorem %s_ok : utilOk ir_%s = true := by\n  first | decide | fail "%s_ok: the statements extracted from %s (%s:%d-%d) %s"\n' % (
            r.name, r.name, r.name, r.name, os.path.basename(r.file), a, b,
            'were not all recognised by translate/cores.py' if r.problems else 'are not the expected program'))
        bind, stmt, proof = UTIL_LINKS[r.name]
        out.append('theorem %s_computes %s :\n    %s :=\n  %s\n' % (r.name, bind, stmt, proof))
    out += lean_fingerprint(prim, 'pick_four_unique_nodes_quickly')
    out += lean_dispatch(disp)
    out += lean_tp(tpr)
    out.append('end Bct.Gen.CoresUtil')
    return '\n'.join(out) + '\n'


def extract_dispatch(fn, path):
    """weight_conversion: `if <arg> == '<lit>': return <callee>(<names>)` … `else: raise <Exc>(…)` (Model/CoreIRUtil.lean: DispatchIR)"""
    r = Routine(fn.name, path)
    r.line = fn.lineno
    a = fn.args
    if a.vararg or a.kwarg or a.kwonlyargs or getattr(a, 'posonlyargs', []):
        r.bad(fn, 'unexpected parameter kinds')
    f = {'params': lst(q(x.arg) for x in a.args), 'defaults': lean_defaults(defaults_of(fn)), 'arg': q('?'), 'arms': '[]', 'elseExc': q('?')}
    r.fields = f
    body = body_wo_doc(fn)
    r.parts = {'body': lines_of(body)}
    if len(body) != 1 or not isinstance(body[0], ast.If):
        r.bad(fn, 'expected a single `if … elif … else …` statement')
        return r
    arms, args_seen, nd = [], set(), body[0]
    while True:
        t = nd.test
        ok = (isinstance(t, ast.Compare) and len(t.ops) == 1 and isinstance(t.ops[0], ast.Eq) and isinstance(t.left, ast.Name)
              and isinstance(t.comparators[0], ast.Constant) and isinstance(t.comparators[0].value, str)
              and len(nd.body) == 1 and isinstance(nd.body[0], ast.Return) and isinstance(nd.body[0].value, ast.Call)
              and isinstance(nd.body[0].value.func, ast.Name) and not nd.body[0].value.keywords
              and all(isinstance(x, ast.Name) for x in nd.body[0].value.args))
        if not ok:
            r.bad(nd, 'unrecognised arm %s' % src_of(nd)); return r
        args_seen.add(t.left.id)
        c = nd.body[0].value
        arms.append('⟨%s, %s, %s⟩' % (q(t.comparators[0].value), q(c.func.id), lst(q(x.id) for x in c.args)))
        if len(nd.orelse) == 1 and isinstance(nd.orelse[0], ast.If):
            nd = nd.orelse[0]; continue
        if (len(nd.orelse) == 1 and isinstance(nd.orelse[0], ast.Raise) and nd.orelse[0].cause is None and isinstance(nd.orelse[0].exc, ast.Call)
                and isinstance(nd.orelse[0].exc.func, ast.Name)):
            f['elseExc'] = q(nd.orelse[0].exc.func.id)
        else:
            r.bad(nd, 'expected the chain to end with `else: raise <Exception>(…)`')
        break
    if len(args_seen) != 1:
        r.bad(fn, 'the tests compare different names %s' % sorted(args_seen))
    else:
        f['arg'] = q(args_seen.pop())
    f['arms'] = lst(arms)
    r.counts = {'arms': len(arms)}
    return r


def lean_dispatch(r):
    f = r.fields or {'params': '[]', 'defaults': '[]', 'arg': q('?'), 'arms': '[]', 'elseExc': q('?')}
    a, b = r.parts.get('body', (r.line, r.line))
    out = []
    for p in r.problems:
        out.append('-- NOT RECOGNISED: ' + p.replace('\n', ' '))
    out.append('/-- `%s` (%s:%d) -/' % (r.name, os.path.basename(r.file), r.line))
    out.append('def ir_%s : DispatchIR :=\n  { name := %s, recognised := %s, params := %s, defaults := %s,\n    origins := %s,\n    arg := %s,\n'
               '    arms := %s,\n    elseExc := %s }\n' % (r.name, q(r.name), 'true' if not r.problems else 'false', f['params'], f['defaults'],
                                                        lean_origins(r), f['arg'], f['arms'], f['elseExc']))
    out.append('theorem %s_ok : dispatchOk ir_%s = true := by\n  first | decide | fail "%s_ok: the statements extracted from %s (%s:%d-%d) %s"\n' % (
        r.name, r.name, r.name, r.name, os.path.basename(r.file), a, b,
        'were not all recognised by translate/cores.py' if r.problems else 'are not the expected program'))
    out.append('theorem weight_conversion_computes {n : Nat} (o : Oracles) (W : AMat Rat n) (wcm : String) (c : Bool) (ds : List Nat) :\n'
               '    runDispatch o [ir_binarize, ir_normalize, ir_invert] ir_weight_conversion (embQ W) wcm c ds =\n'
               '      match Bct.Thresh.weightConversion W wcm with\n      | .ok (some R) => .mat (embQ R)\n'
               '      | .ok none => .mat (AMat.ofFn fun _ _ => SV.nan)\n      | .error e => .raise e :=\n'
               '  link_weight_conversion o _ weight_conversion_ok ir_binarize ir_normalize ir_invert binarize_ok normalize_ok invert_ok rfl rfl rfl W wcm c ds\n')
    return out


TP_FIELDS = ('impAlias impOrigin guard exc copyFlag copyMat dim dimOf diagMat diagVal symA symB trilMat trilDim trilVal udVar udThen udElse '
             'indVar indOf ordVar ordMat ordInd enVar enCallee enArg cutMat cutInd0 cutOrd0 cutEn0 cutInd1 cutOrd1 cutEn1 cutVal '
             'symVar symLit symMat symL symR ret').split()
TP_RAW = {'guard': '(.lit 0 1)', 'enArg': '(.lit 0 1)', 'diagVal': '0', 'trilVal': '0', 'udThen': '0', 'udElse': '0', 'cutVal': '0', 'symLit': '0'}


def extract_tp(fn, path):
    """threshold_proportional: twelve statements matched positionally (Model/CoreIRTp.lean: TpIR)"""
    r = Routine(fn.name, path)
    r.line = fn.lineno
    a = fn.args
    if a.vararg or a.kwarg or a.kwonlyargs or getattr(a, 'posonlyargs', []):
        r.bad(fn, 'unexpected parameter kinds')
    f = {}
    r.fields = f
    r.params = lst(q(x.arg) for x in a.args)
    r.defaults = lean_defaults(defaults_of(fn))
    body = body_wo_doc(fn)
    r.parts = {'body': lines_of(body)}
    if len(body) != 12:
        r.bad(fn, 'expected exactly 12 statements, found %d' % len(body))
        return r
    x = UtilX(r, fn.name, [y.arg for y in a.args], a.args[0].arg if a.args else None)

    def sub3(node):
        """ind[k][I][en:] -> (ind, k, I, en)"""
        if (isinstance(node, ast.Subscript) and isinstance(node.slice, ast.Slice) and isinstance(node.slice.lower, ast.Name)
                and node.slice.upper is None and node.slice.step is None and isinstance(node.value, ast.Subscript)
                and isinstance(node.value.slice, ast.Name) and isinstance(node.value.value, ast.Subscript)
                and isinstance(node.value.value.value, ast.Name) and const_nat(node.value.value.slice) is not None):
            return node.value.value.value.id, const_nat(node.value.value.slice), node.value.slice.id, node.slice.lower.id
        return None

    def full2(sl):
        return isinstance(sl, ast.Tuple) and len(sl.elts) == 2 and all(full_slice(e) for e in sl.elts)
    try:
        s0, s1, s2, s3, s4, s5, s6, s7, s8, s9, s10, s11 = body
        if not (isinstance(s0, ast.ImportFrom) and len(s0.names) == 1 and s0.names[0].name != '*'):
            raise Unrec(s0, 'expected the local import of the rounding function')
        al = s0.names[0]
        f['impAlias'] = al.asname or al.name
        try:
            tp_ = target_path(path, s0.level, s0.module)
            f['impOrigin'] = origin_str(resolve(tp_, al.name)) if tp_ else 'external %s:%s' % (s0.module, al.name)
        except ResolveError as e:
            r.bad(s0, 'cannot resolve the local import: %s' % e); f['impOrigin'] = 'unresolved'
        if not (isinstance(s1, ast.If) and not s1.orelse and len(s1.body) == 1 and isinstance(s1.body[0], ast.Raise) and s1.body[0].cause is None
                and isinstance(s1.body[0].exc, ast.Call) and isinstance(s1.body[0].exc.func, ast.Name)):
            raise Unrec(s1, 'expected `if <test>: raise <Exception>(…)`')
        f['guard'] = x.sex(s1.test); f['exc'] = s1.body[0].exc.func.id
        c = x.copy_stmt(s2)
        if not c or not c.startswith('.ifCopy '):
            raise Unrec(s2, 'expected `if copy: W = W.copy()`')
        f['copyFlag'], f['copyMat'] = s2.test.id, s2.body[0].targets[0].id
        v = s3.value if isinstance(s3, ast.Assign) and len(s3.targets) == 1 else None
        if not (isinstance(v, ast.Call) and isinstance(v.func, ast.Name) and v.func.id == 'len' and len(v.args) == 1 and not v.keywords):
            raise Unrec(s3, 'expected `n = len(W)`')
        f['dim'] = name_of(s3.targets[0], 'len'); f['dimOf'] = name_of(v.args[0], 'len')
        if not (isinstance(s4, ast.Expr) and np_call(s4.value, 'fill_diagonal', 2) and not s4.value.keywords and const_int(s4.value.args[1]) is not None):
            raise Unrec(s4, 'expected `np.fill_diagonal(W, 0)`')
        f['diagMat'] = name_of(s4.value.args[0], 'fill_diagonal'); f['diagVal'] = lint(const_int(s4.value.args[1]))
        ae = np_call(s5.test, 'array_equal', 2) if isinstance(s5, ast.If) else None
        if not (ae and not s5.test.keywords and isinstance(ae[1], ast.Attribute) and ae[1].attr == 'T' and len(s5.body) == 2 and len(s5.orelse) == 1):
            raise Unrec(s5, 'expected `if np.array_equal(W, W.T): … else: …`')
        f['symA'] = name_of(ae[0], 'array_equal'); f['symB'] = name_of(ae[1].value, 'array_equal')
        t0 = s5.body[0]
        ti = np_call(t0.targets[0].slice, 'tril_indices', 1) if (isinstance(t0, ast.Assign) and len(t0.targets) == 1
                                                                  and isinstance(t0.targets[0], ast.Subscript)) else None
        if not (ti and not t0.targets[0].slice.keywords and const_int(t0.value) is not None):
            raise Unrec(t0, 'expected `W[np.tril_indices(n)] = 0`')
        f['trilMat'] = name_of(t0.targets[0].value, 'tril'); f['trilDim'] = name_of(ti[0], 'tril_indices'); f['trilVal'] = lint(const_int(t0.value))
        u1, u2 = s5.body[1], s5.orelse[0]
        for u_ in (u1, u2):
            if not (isinstance(u_, ast.Assign) and len(u_.targets) == 1 and isinstance(u_.targets[0], ast.Name) and const_nat(u_.value) is not None
                    and type(u_.value.value) is int):
                raise Unrec(u_, 'expected `ud = <integer>`')
        if u1.targets[0].id != u2.targets[0].id:
            raise Unrec(u2, 'the two branches bind different names')
        f['udVar'] = u1.targets[0].id; f['udThen'] = '%d' % u1.value.value; f['udElse'] = '%d' % u2.value.value
        w = np_call(s6.value, 'where', 1) if isinstance(s6, ast.Assign) and len(s6.targets) == 1 else None
        if not (w and not s6.value.keywords):
            raise Unrec(s6, 'expected `ind = np.where(W)`')
        f['indVar'] = name_of(s6.targets[0], 'where'); f['indOf'] = name_of(w[0], 'where')
        v = s7.value if isinstance(s7, ast.Assign) and len(s7.targets) == 1 else None
        ok7 = (isinstance(v, ast.Subscript) and isinstance(v.slice, ast.Slice) and v.slice.lower is None and v.slice.upper is None
               and const_int(v.slice.step) == -1 and np_call(v.value, 'argsort', 1) and not v.value.keywords
               and isinstance(v.value.args[0], ast.Subscript) and isinstance(v.value.args[0].slice, ast.Name))
        if not ok7:
            raise Unrec(s7, 'expected `I = np.argsort(W[ind])[::-1]`')
        f['ordVar'] = name_of(s7.targets[0], 'argsort'); f['ordMat'] = name_of(v.value.args[0].value, 'argsort'); f['ordInd'] = v.value.args[0].slice.id
        v = s8.value if isinstance(s8, ast.Assign) and len(s8.targets) == 1 else None
        ok8 = (isinstance(v, ast.Call) and isinstance(v.func, ast.Name) and v.func.id == 'int' and len(v.args) == 1 and not v.keywords
               and isinstance(v.args[0], ast.Call) and isinstance(v.args[0].func, ast.Name) and len(v.args[0].args) == 1 and not v.args[0].keywords)
        if not ok8:
            raise Unrec(s8, 'expected `en = int(round(<expression>))`')
        f['enVar'] = name_of(s8.targets[0], 'en'); f['enCallee'] = v.args[0].func.id; f['enArg'] = x.sex(v.args[0].args[0])
        t = s9.targets[0] if isinstance(s9, ast.Assign) and len(s9.targets) == 1 else None
        ok9 = (isinstance(t, ast.Subscript) and isinstance(t.slice, ast.Tuple) and len(t.slice.elts) == 2 and sub3(t.slice.elts[0])
               and sub3(t.slice.elts[1]) and sub3(t.slice.elts[0])[1] == 0 and sub3(t.slice.elts[1])[1] == 1 and const_int(s9.value) is not None)
        if not ok9:
            raise Unrec(s9, 'expected `W[(ind[0][I][en:], ind[1][I][en:])] = 0`')
        f['cutMat'] = name_of(t.value, 'the cut')
        f['cutInd0'], _, f['cutOrd0'], f['cutEn0'] = sub3(t.slice.elts[0])
        f['cutInd1'], _, f['cutOrd1'], f['cutEn1'] = sub3(t.slice.elts[1])
        f['cutVal'] = lint(const_int(s9.value))
        t = s10.test if isinstance(s10, ast.If) else None
        b0 = s10.body[0] if isinstance(s10, ast.If) and len(s10.body) == 1 and not s10.orelse else None
        ok10 = (isinstance(t, ast.Compare) and len(t.ops) == 1 and isinstance(t.ops[0], ast.Eq) and const_nat(t.comparators[0]) is not None
                and isinstance(b0, ast.Assign) and len(b0.targets) == 1 and isinstance(b0.targets[0], ast.Subscript)
                and full2(b0.targets[0].slice) and isinstance(b0.value, ast.BinOp) and isinstance(b0.value.op, ast.Add)
                and isinstance(b0.value.right, ast.Attribute) and b0.value.right.attr == 'T')
        if not ok10:
            raise Unrec(s10, 'expected `if ud == 2: W[:, :] = W + W.T`')
        f['symVar'] = name_of(t.left, 'ud'); f['symLit'] = '%d' % const_nat(t.comparators[0])
        f['symMat'] = name_of(b0.targets[0].value, 'W'); f['symL'] = name_of(b0.value.left, 'W'); f['symR'] = name_of(b0.value.right.value, 'W')
        if not (isinstance(s11, ast.Return) and isinstance(s11.value, ast.Name)):
            raise Unrec(s11, 'expected `return W`')
        f['ret'] = s11.value.id
    except Unrec as e:
        r.bad(e.node if hasattr(e.node, 'lineno') else fn, e.msg)
    except (AttributeError, IndexError, TypeError, ValueError) as e:
        r.bad(fn, 'unrecognised statement shape (%s: %s)' % (type(e).__name__, e))
    return r


def lean_tp(r):
    f = r.fields or {}
    a, b = r.parts.get('body', (r.line, r.line))
    out = []
    for p in r.problems:
        out.append('-- NOT RECOGNISED: ' + p.replace('\n', ' '))
    vals = []
    for k in TP_FIELDS:
        if k in TP_RAW:
            vals.append('%s := %s' % (k, f.get(k, TP_RAW[k])))
        else:
            vals.append('%s := %s' % (k, q(f.get(k, '?'))))
    out.append('/-- `%s` (%s:%d) -/' % (r.name, os.path.basename(r.file), r.line))
    out.append('def ir_threshold_proportional : TpIR :=\n  { recognised := %s, origins := %s,\n    params := %s, defaults := %s,\n    %s }\n' % (
        'true' if not r.problems else 'false', lean_origins(r), getattr(r, 'params', '[]'), getattr(r, 'defaults', '[]'), ',\n    '.join(vals)))
    out.append('theorem threshold_proportional_ok : tpOk ir_threshold_proportional = true := by\n  first | decide | fail "threshold_proportional_ok: '
               'the statements extracted from threshold_proportional (%s:%d-%d) %s"\n' % (
                   os.path.basename(r.file), a, b, 'were not all recognised by translate/cores.py' if r.problems else 'are not the expected program'))
    out.append('theorem threshold_proportional_computes {n : Nat} (o : Oracles) (W : AMat Rat n) (p : Rat) (c : Bool) (order : List Nat) :\n'
               '    runTp o [ir_teachers_round] ir_threshold_proportional W p c order =\n'
               '      match Bct.Thresh.thresholdProportional W p order with\n      | .ok R => .ok R\n      | .error e => .error e.str :=\n'
               '  link_threshold_proportional o _ threshold_proportional_ok [ir_teachers_round] ir_teachers_round teachers_round_ok rfl rfl W p c order\n')
    return out


def family_util():
    base = os.path.join(common.REPO, 'bct', 'utils')
    paths = {'other': os.path.join(base, 'other.py'), 'misc': os.path.join(base, 'miscellaneous_utilities.py')}
    fns = {k: parse_functions(p) for k, p in paths.items()}
    rs = []
    for kind, names, matrix in (('misc', UTIL_SCALAR[:1], False), ('other', UTIL_MATRIX, True), ('misc', UTIL_SCALAR[1:], False)):
        f, err = fns[kind]
        for name in names:
            if name not in f:
                r = Routine(name, paths[kind]); r.problems.append('%s: %s' % (name, err or 'function not found in ' + paths[kind]))
            else:
                try:
                    r = extract_util(f[name], paths[kind], matrix)
                    check_header(r, f[name], f)
                except Exception as e:  # noqa — an extractor crash must not look like success
                    r = Routine(name, paths[kind]); r.problems.append('%s: extractor raised %s: %s' % (name, type(e).__name__, e))
            rs.append(r)
    prim = fingerprint_primitive(paths['misc'], 'get_rng')
    f_, err_ = fns['other']
    if 'weight_conversion' not in f_:
        disp = Routine('weight_conversion', paths['other']); disp.problems.append('weight_conversion: %s' % (err_ or 'function not found in ' + paths['other']))
    else:
        try:
            disp = extract_dispatch(f_['weight_conversion'], paths['other'])
            check_header(disp, f_['weight_conversion'], f_)
        except Exception as e:  # noqa
            disp = Routine('weight_conversion', paths['other']); disp.problems.append('weight_conversion: extractor raised %s: %s' % (type(e).__name__, e))
    if 'threshold_proportional' not in f_:
        tpr = Routine('threshold_proportional', paths['other']); tpr.problems.append('threshold_proportional: %s' % (err_ or 'function not found'))
    else:
        try:
            tpr = extract_tp(f_['threshold_proportional'], paths['other'])
            check_header(tpr, f_['threshold_proportional'], f_)
        except Exception as e:  # noqa
            tpr = Routine('threshold_proportional', paths['other']); tpr.problems.append('threshold_proportional: extractor raised %s: %s' % (type(e).__name__, e))
    rs_all = rs + [disp, tpr]
    return {'module': 'BctVerif.Gen.CoresUtil', 'file': 'CoresUtil.lean', 'text': lean_util(rs, [paths['other'], paths['misc']], prim, disp, tpr),
            'sources': [paths['other'], paths['misc']],
            'routines': dict({r.name: dict(getattr(r, 'counts', {}), line=r.line, recognised=not r.problems) for r in rs_all},
                             **{'get_rng (called by pick_four_unique_nodes_quickly)': dict(line=prim.line, file=rel(prim.file), recognised=not prim.problems)}),
            'problems': [p for r in rs_all + [prim] for p in r.problems]}


# ====================================================================== family 'comp'

COMP_FIELDS = ('param extraParams defaults guardL guardR exc binTarget binArg dim dimOf diagMat diagVal em e1 e2 outer ob inner ib emMat row col emLit '
               'sets item loopOver body comps cIdx2 cAdd cNode cBound cIdx cLen cMem cList cIdx3 sizes sVar2 sVar sList ret').split()
COMP_INT = {'diagVal': '0', 'emLit': '0', 'cAdd': '0', 'body': '[]', 'ret': '[]', 'extraParams': '[]', 'defaults': '[]'}


def name_of(node, what):
    if isinstance(node, ast.Name):
        return node.id
    raise Unrec(node, 'expected a name for %s, found %s' % (what, src_of(node)))


def range_of(gen, what):
    """`for x in range(<name>)` -> (x, name)"""
    it = gen.iter
    if (isinstance(gen.target, ast.Name) and isinstance(it, ast.Call) and isinstance(it.func, ast.Name) and it.func.id == 'range'
            and len(it.args) == 1 and not it.keywords and not gen.is_async):
        return gen.target.id, it.args[0]
    raise Unrec(gen.iter, 'unrecognised generator for %s: %s' % (what, src_of(gen.iter)))


def comp_istmt(st):
    """statements of the inner loop (Model/CoreIRComp.lean: IStmt)"""
    # x = a.union(b)
    if (isinstance(st, ast.Assign) and len(st.targets) == 1 and isinstance(st.targets[0], ast.Name) and isinstance(st.value, ast.Call)
            and isinstance(st.value.func, ast.Attribute) and st.value.func.attr == 'union' and isinstance(st.value.func.value, ast.Name)
            and len(st.value.args) == 1 and isinstance(st.value.args[0], ast.Name) and not st.value.keywords):
        return '(.assignUnion %s %s %s)' % (q(st.targets[0].id), q(st.value.func.value.id), q(st.value.args[0].id))
    # l.append(x)
    if (isinstance(st, ast.Expr) and isinstance(st.value, ast.Call) and isinstance(st.value.func, ast.Attribute)
            and st.value.func.attr == 'append' and isinstance(st.value.func.value, ast.Name) and len(st.value.args) == 1
            and isinstance(st.value.args[0], ast.Name) and not st.value.keywords):
        return '(.append %s %s)' % (q(st.value.func.value.id), q(st.value.args[0].id))
    # if not a.isdisjoint(b): <one statement> else: <one statement>
    if (isinstance(st, ast.If) and len(st.body) == 1 and len(st.orelse) == 1 and isinstance(st.test, ast.UnaryOp)
            and isinstance(st.test.op, ast.Not) and isinstance(st.test.operand, ast.Call)
            and isinstance(st.test.operand.func, ast.Attribute) and st.test.operand.func.attr == 'isdisjoint'
            and isinstance(st.test.operand.func.value, ast.Name) and len(st.test.operand.args) == 1
            and isinstance(st.test.operand.args[0], ast.Name) and not st.test.operand.keywords):
        return '(.ifNotDisjoint %s %s %s %s)' % (q(st.test.operand.func.value.id), q(st.test.operand.args[0].id),
                                                 comp_istmt(st.body[0]), comp_istmt(st.orelse[0]))
    raise Unrec(st, 'unrecognised statement in the inner loop: %s' % src_of(st))


def comp_ostmt(st):
    """statements of the merge loop body (OStmt)"""
    if isinstance(st, ast.Assign) and len(st.targets) == 1 and isinstance(st.targets[0], ast.Name):
        if isinstance(st.value, ast.List) and not st.value.elts:
            return '.listInit %s' % q(st.targets[0].id)
        if isinstance(st.value, ast.Name):
            return '.assignList %s %s' % (q(st.targets[0].id), q(st.value.id))
    if isinstance(st, ast.For) and isinstance(st.target, ast.Name) and isinstance(st.iter, ast.Name) and not st.orelse:
        return '.forIn %s %s %s' % (q(st.target.id), q(st.iter.id), lst(comp_istmt(x) for x in st.body))
    if isinstance(st, ast.Expr):
        return comp_istmt(st)[1:-1]
    raise Unrec(st, 'unrecognised statement in the merge loop: %s' % src_of(st))


def extract_comp(fn, path):
    r = Routine(fn.name, path)
    r.line = fn.lineno
    a = fn.args
    if len(a.args) < 1 or a.vararg or a.kwarg or a.kwonlyargs:
        r.bad(fn, 'expected positional parameters only')
        return r
    f = {'param': a.args[0].arg, 'extraParams': lst(q(x.arg) for x in a.args[1:]), 'defaults': lean_defaults(defaults_of(fn))}
    body = body_wo_doc(fn)
    if len(body) != 10:
        r.bad(fn, 'expected exactly 10 statements (guard, binarize, len, fill_diagonal, edge_map, union_sets, merge loop, comps, '
                  'comp_sizes, return), found %d' % len(body))
        return r
    steps = []

    def step(i, fun):
        try:
            fun(body[i])
        except Unrec as e:
            r.bad(e.node if hasattr(e.node, 'lineno') else body[i], e.msg)
        except (AttributeError, IndexError, TypeError, ValueError) as e:
            r.bad(body[i], 'unrecognised statement %s (%s)' % (src_of(body[i]), type(e).__name__))

    def s_guard(st):
        # if not np.all(X == Y.T): raise Exc(...)
        t = st.test
        ok = (isinstance(st, ast.If) and not st.orelse and len(st.body) == 1 and isinstance(st.body[0], ast.Raise)
              and st.body[0].cause is None and isinstance(t, ast.UnaryOp) and isinstance(t.op, ast.Not)
              and np_call(t.operand, 'all', 1) and not t.operand.keywords)
        c = t.operand.args[0] if ok else None
        if not (ok and isinstance(c, ast.Compare) and len(c.ops) == 1 and isinstance(c.ops[0], ast.Eq)
                and isinstance(c.comparators[0], ast.Attribute) and c.comparators[0].attr == 'T'):
            raise Unrec(st, 'unrecognised symmetry guard %s' % src_of(st))
        f['guardL'] = name_of(c.left, 'the guard'); f['guardR'] = name_of(c.comparators[0].value, 'the guard')
        e = st.body[0].exc
        f['exc'] = e.func.id if isinstance(e, ast.Call) and isinstance(e.func, ast.Name) else name_of(e, 'the exception')

    def s_bin(st):
        v = st.value
        if not (isinstance(st, ast.Assign) and len(st.targets) == 1 and isinstance(v, ast.Call) and isinstance(v.func, ast.Name)
                and v.func.id == 'binarize' and len(v.args) == 1 and len(v.keywords) == 1
                and isinstance(kw(v, 'copy'), ast.Constant) and kw(v, 'copy').value is True):
            raise Unrec(st, 'expected `A = binarize(A, copy=True)`, found %s' % src_of(st))
        f['binTarget'] = name_of(st.targets[0], 'binarize'); f['binArg'] = name_of(v.args[0], 'binarize')

    def s_len(st):
        v = st.value
        if not (isinstance(st, ast.Assign) and len(st.targets) == 1 and isinstance(v, ast.Call) and isinstance(v.func, ast.Name)
                and v.func.id == 'len' and len(v.args) == 1 and not v.keywords):
            raise Unrec(st, 'expected `n = len(A)`, found %s' % src_of(st))
        f['dim'] = name_of(st.targets[0], 'len'); f['dimOf'] = name_of(v.args[0], 'len')

    def s_diag(st):
        if not (isinstance(st, ast.Expr) and np_call(st.value, 'fill_diagonal', 2) and not st.value.keywords
                and const_int(st.value.args[1]) is not None):
            raise Unrec(st, 'expected `np.fill_diagonal(A, 1)`, found %s' % src_of(st))
        f['diagMat'] = name_of(st.value.args[0], 'fill_diagonal'); f['diagVal'] = lint(const_int(st.value.args[1]))

    def s_em(st):
        v = st.value
        if not (isinstance(st, ast.Assign) and len(st.targets) == 1 and isinstance(v, ast.ListComp) and isinstance(v.elt, ast.Set)
                and len(v.elt.elts) == 2 and len(v.generators) == 2 and not v.generators[0].ifs and len(v.generators[1].ifs) == 1):
            raise Unrec(st, 'unrecognised edge_map comprehension %s' % src_of(st))
        f['em'] = name_of(st.targets[0], 'edge_map')
        f['e1'] = name_of(v.elt.elts[0], 'the pair'); f['e2'] = name_of(v.elt.elts[1], 'the pair')
        f['outer'], ob = range_of(v.generators[0], 'edge_map'); f['ob'] = name_of(ob, 'range')
        f['inner'], ib = range_of(v.generators[1], 'edge_map'); f['ib'] = name_of(ib, 'range')
        c = v.generators[1].ifs[0]
        if not (isinstance(c, ast.Compare) and len(c.ops) == 1 and isinstance(c.ops[0], ast.Eq) and const_int(c.comparators[0]) is not None
                and isinstance(c.left, ast.Subscript) and isinstance(c.left.slice, ast.Tuple) and len(c.left.slice.elts) == 2):
            raise Unrec(c, 'unrecognised edge_map condition %s' % src_of(c))
        f['emMat'] = name_of(c.left.value, 'edge_map'); f['row'] = name_of(c.left.slice.elts[0], 'edge_map')
        f['col'] = name_of(c.left.slice.elts[1], 'edge_map'); f['emLit'] = lint(const_int(c.comparators[0]))

    def s_sets(st):
        if not (isinstance(st, ast.Assign) and len(st.targets) == 1 and isinstance(st.value, ast.List) and not st.value.elts):
            raise Unrec(st, 'expected `union_sets = []`, found %s' % src_of(st))
        f['sets'] = name_of(st.targets[0], 'union_sets')

    def s_loop(st):
        if not (isinstance(st, ast.For) and not st.orelse):
            raise Unrec(st, 'expected the merge loop, found %s' % src_of(st))
        f['item'] = name_of(st.target, 'the loop variable'); f['loopOver'] = name_of(st.iter, 'the loop')
        out = []
        for x in st.body:
            try:
                out.append(comp_ostmt(x))
            except Unrec as e:
                r.bad(e.node if hasattr(e.node, 'lineno') else x, e.msg)
        f['body'] = '[' + ',\n      '.join(out) + ']'
        r.counts = {'merge_loop_statements': len(out)}

    def np_array_comp(st, what):
        v = st.value
        a = np_call(v, 'array', 1)
        if not (isinstance(st, ast.Assign) and len(st.targets) == 1 and a and not v.keywords and isinstance(a[0], ast.ListComp)):
            raise Unrec(st, 'unrecognised %s comprehension %s' % (what, src_of(st)))
        return name_of(st.targets[0], what), a[0]

    def s_comps(st):
        f['comps'], c = np_array_comp(st, 'comps')
        if not (isinstance(c.elt, ast.BinOp) and isinstance(c.elt.op, ast.Add) and const_nat(c.elt.right) is not None
                and len(c.generators) == 2 and not c.generators[0].ifs and len(c.generators[1].ifs) == 1):
            raise Unrec(st, 'unrecognised comps comprehension %s' % src_of(st))
        f['cIdx2'] = name_of(c.elt.left, 'comps'); f['cAdd'] = '%d' % const_nat(c.elt.right)
        f['cNode'], b = range_of(c.generators[0], 'comps'); f['cBound'] = name_of(b, 'range')
        f['cIdx'], ln = range_of(c.generators[1], 'comps')
        if not (isinstance(ln, ast.Call) and isinstance(ln.func, ast.Name) and ln.func.id == 'len' and len(ln.args) == 1 and not ln.keywords):
            raise Unrec(ln, 'expected range(len(<list>)), found %s' % src_of(ln))
        f['cLen'] = name_of(ln.args[0], 'len')
        t = c.generators[1].ifs[0]
        if not (isinstance(t, ast.Compare) and len(t.ops) == 1 and isinstance(t.ops[0], ast.In) and isinstance(t.comparators[0], ast.Subscript)):
            raise Unrec(t, 'unrecognised membership test %s' % src_of(t))
        f['cMem'] = name_of(t.left, 'membership'); f['cList'] = name_of(t.comparators[0].value, 'membership')
        f['cIdx3'] = name_of(t.comparators[0].slice, 'membership')

    def s_sizes(st):
        f['sizes'], c = np_array_comp(st, 'comp_sizes')
        e = c.elt
        if not (isinstance(e, ast.Call) and isinstance(e.func, ast.Name) and e.func.id == 'len' and len(e.args) == 1 and not e.keywords
                and len(c.generators) == 1 and not c.generators[0].ifs and not c.generators[0].is_async):
            raise Unrec(st, 'unrecognised comp_sizes comprehension %s' % src_of(st))
        f['sVar2'] = name_of(e.args[0], 'len'); f['sVar'] = name_of(c.generators[0].target, 'comp_sizes')
        f['sList'] = name_of(c.generators[0].iter, 'comp_sizes')

    def s_ret(st):
        if not isinstance(st, ast.Return) or st.value is None:
            raise Unrec(st, 'expected `return comps, comp_sizes`')
        f['ret'] = lst(map(q, ret_names(r, st)))
    for i, fun in enumerate((s_guard, s_bin, s_len, s_diag, s_em, s_sets, s_loop, s_comps, s_sizes, s_ret)):
        step(i, fun)
    r.parts = {'body': lines_of([body[6]])}
    r.fields = f
    return r


def lean_comp(r, path, prim, rn=None):
    relb = os.path.basename(path)
    out = ['import BctVerif.Props.CoresComp',
           'import BctVerif.Props.CoresUtil',
           '/-!',
           '# GENERATED by translate/cores.py (family comp) — do not edit.  Re-emitted from the current source on every check run.',
           'source: %s' % path,
           '-/',
           'set_option linter.unusedTactic false',
           'set_option linter.unreachableTactic false',
           'namespace Bct.Gen.CoresComp',
           'open Bct Bct.Comp Bct.CoreIR.Comp Bct.Cores.Comp',
           '']
    for p in r.problems:
        out.append('-- NOT RECOGNISED: ' + p.replace('\n', ' '))
    f = r.fields
    vals = []
    for k in COMP_FIELDS:
        if k in f:
            v = f[k] if k in COMP_INT else q(f[k])
        else:
            v = COMP_INT.get(k, q('?'))
        vals.append('%s := %s' % (k, v))
    out += lean_folded_primitive(prim, 'get_components')
    out.append('/-- `get_components` (%s:%d) -/' % (relb, r.line))
    out.append('def ir_get_components : CompIR :=\n  { recognised := %s,\n    %s }\n' % (
        'true' if not r.problems else 'false', ',\n    '.join(['origins := ' + lean_origins(r)] + vals)))
    a, b = r.parts.get('body', (r.line, r.line))
    out.append('theorem get_components_loop_ok : (ir_get_components.body == refBody) = true := by\n  first | decide | fail "get_components_loop_ok: '
               'the merge loop of get_components (%s:%d-%d) is not the expected statement list"\n' % (relb, a, b))
    out.append('theorem get_components_ok : compOk ir_get_components = true := by\n  first | decide | fail "get_components_ok: the statements extracted '
               'from get_components (%s:%d) %s"\n' % (relb, r.line, 'were not all recognised by translate/cores.py' if r.problems
                                                      else 'are not the expected program'))
    out.append('theorem get_components_computes {n : Nat} (A : AMat Int n) :\n'
               '    run ir_get_components A = if isSymm A then .ok (labels (unionSets A), (unionSets A).map NSet.size) else .error "BCTParamError" :=\n'
               '  link_get_components _ get_components_ok A\n')
    out.append('theorem get_components_model {n : Nat} (A : AMat Int n) (r : List Nat × List Nat) :\n'
               '    run ir_get_components A = .ok r ↔ getComponents A = .ok r :=\n  link_get_components_model _ get_components_ok A r\n')
    if rn is not None:
        out += lean_numcomp(rn)
    out.append('end Bct.Gen.CoresComp')
    return '\n'.join(out) + '\n'


def extract_numcomp(fn, path):
    """number_of_components: two statements (Model/CoreIRComp.lean: NumIR)"""
    r = Routine(fn.name, path)
    r.line = fn.lineno
    a = fn.args
    if len(a.args) != 1 or a.vararg or a.kwarg or a.kwonlyargs or a.defaults:
        r.bad(fn, 'expected exactly one parameter without default')
    f = {k: q('?') for k in ('param', 'discard', 'sizes', 'callee', 'arg', 'lenOf')}
    f['param'] = q(a.args[0].arg if a.args else '?')
    r.fields = f
    body = body_wo_doc(fn)
    r.parts = {'body': lines_of(body)}
    r.counts = {'body': len(body)}
    try:
        if len(body) != 2:
            raise Unrec(fn, 'expected exactly 2 statements, found %d' % len(body))
        s0, s1 = body
        t = s0.targets[0] if isinstance(s0, ast.Assign) and len(s0.targets) == 1 else None
        v = s0.value if t is not None else None
        if not (isinstance(t, ast.Tuple) and len(t.elts) == 2 and all(isinstance(e, ast.Name) for e in t.elts)
                and isinstance(v, ast.Call) and isinstance(v.func, ast.Name) and len(v.args) == 1 and not v.keywords
                and isinstance(v.args[0], ast.Name)):
            raise Unrec(s0, 'expected `_, csizes = get_components(A)`')
        f['discard'], f['sizes'], f['callee'], f['arg'] = q(t.elts[0].id), q(t.elts[1].id), q(v.func.id), q(v.args[0].id)
        rv = s1.value if isinstance(s1, ast.Return) else None
        if not (isinstance(rv, ast.Call) and isinstance(rv.func, ast.Name) and rv.func.id == 'len' and len(rv.args) == 1 and not rv.keywords
                and isinstance(rv.args[0], ast.Name)):
            raise Unrec(s1, 'expected `return len(csizes)`')
        f['lenOf'] = q(rv.args[0].id)
    except Unrec as e:
        r.bad(e.node if hasattr(e.node, 'lineno') else fn, e.msg)
    return r


def lean_numcomp(r):
    relb = os.path.basename(r.file)
    f = r.fields or {k: q('?') for k in ('param', 'discard', 'sizes', 'callee', 'arg', 'lenOf')}
    a, b = r.parts.get('body', (r.line, r.line))
    out = []
    for p in r.problems:
        out.append('-- NOT RECOGNISED: ' + p.replace('\n', ' '))
    out.append('/-- `number_of_components` (%s:%d) -/' % (relb, r.line))
    out.append('def ir_number_of_components : NumIR :=\n  { recognised := %s, origins := %s,\n    %s }\n'
               % ('true' if not r.problems else 'false', lean_origins(r),
                  ', '.join('%s := %s' % (k, f[k]) for k in ('param', 'discard', 'sizes', 'callee', 'arg', 'lenOf'))))
    out.append('theorem number_of_components_ok : numOk ir_number_of_components = true := by\n  first | decide | fail "number_of_components_ok: '
               'the statements extracted from number_of_components (%s:%d-%d) %s"\n'
               % (relb, a, b, 'were not all recognised by translate/cores.py' if r.problems else 'are not the expected program'))
    out.append('theorem number_of_components_computes {n : Nat} (A : AMat Int n) :\n'
               '    runNum ir_number_of_components ir_get_components A = match numberOfComponents A with\n'
               '      | .ok k => .ok k\n      | .error _ => .error "BCTParamError" :=\n'
               '  link_number_of_components _ number_of_components_ok _ get_components_ok A\n')
    return out


def family_comp():
    path = os.path.join(common.REPO, 'bct', 'algorithms', 'clustering.py')
    fns, err = parse_functions(path)
    name = 'get_components'
    if name not in fns:
        r = Routine(name, path); r.problems.append('%s: %s' % (name, err or 'function not found in ' + path))
    else:
        try:
            r = extract_comp(fns[name], path)
            check_header(r, fns[name], fns)
        except Exception as e:  # noqa — an extractor crash must not look like success
            r = Routine(name, path); r.problems.append('%s: extractor raised %s: %s' % (name, type(e).__name__, e))
    prim = fold_util_primitive(path, 'binarize')
    name2 = 'number_of_components'
    if name2 not in fns:
        rn = Routine(name2, path); rn.problems.append('%s: %s' % (name2, err or 'function not found in ' + path))
    else:
        try:
            rn = extract_numcomp(fns[name2], path)
            check_header(rn, fns[name2], fns)
        except Exception as e:  # noqa — an extractor crash must not look like success
            rn = Routine(name2, path); rn.problems.append('%s: extractor raised %s: %s' % (name2, type(e).__name__, e))
    return {'module': 'BctVerif.Gen.CoresComp', 'file': 'CoresComp.lean', 'text': lean_comp(r, path, prim, rn), 'sources': [path],
            'routines': {r.name: dict(getattr(r, 'counts', {}), line=r.line, recognised=not r.problems),
                         rn.name: dict(getattr(rn, 'counts', {}), line=rn.line, recognised=not rn.problems),
                         'binarize (called by get_components)': dict(line=prim.line, file=rel(prim.file), recognised=not prim.problems)},
            'problems': list(r.problems) + list(rn.problems) + list(prim.problems)}


# ====================================================================== family 'dijk'

class DijkX:
    """statement mapping for the relaxation block of distance_wei (Model/CoreIRDijk.lean: LEx, Stmt)"""

    def __init__(self, scalars):
        self.scalars = set(scalars)
        self.idxs = set()

    def sub2(self, node):
        """M[a, b] with names -> (M, a, b)"""
        if (isinstance(node, ast.Subscript) and isinstance(node.value, ast.Name) and isinstance(node.slice, ast.Tuple)
                and len(node.slice.elts) == 2 and all(isinstance(e, ast.Name) for e in node.slice.elts)):
            return node.value.id, node.slice.elts[0].id, node.slice.elts[1].id
        return None

    def lex(self, node):
        # X.flatten() of a one-dimensional array is the array
        if (isinstance(node, ast.Call) and isinstance(node.func, ast.Attribute) and node.func.attr == 'flatten' and not node.args
                and not node.keywords):
            return self.lex(node.func.value)
        t = self.sub2(node)
        if t and t[1] in self.scalars and t[2] in self.idxs:
            return '(.rowAt %s %s %s)' % tuple(map(q, t))
        if isinstance(node, ast.BinOp) and isinstance(node.op, ast.Add):
            t = self.sub2(node.left)
            if t and t[1] in self.scalars and t[2] in self.scalars:
                return '(.addScalar %s %s %s %s)' % (q(t[0]), q(t[1]), q(t[2]), self.lex(node.right))
        raise Unrec(node, 'unrecognised one-dimensional expression %s' % src_of(node))

    def stmt(self, st):
        if isinstance(st, ast.Assign) and len(st.targets) == 1:
            t, v = st.targets[0], st.value
            # x, = np.where(M[r, :])
            if isinstance(t, ast.Tuple) and len(t.elts) == 1 and isinstance(t.elts[0], ast.Name) and np_call(v, 'where', 1) and not v.keywords:
                a = v.args[0]
                if (isinstance(a, ast.Subscript) and isinstance(a.value, ast.Name) and isinstance(a.slice, ast.Tuple) and len(a.slice.elts) == 2
                        and isinstance(a.slice.elts[0], ast.Name) and a.slice.elts[0].id in self.scalars
                        and isinstance(a.slice.elts[1], ast.Slice) and a.slice.elts[1].lower is None and a.slice.elts[1].upper is None
                        and a.slice.elts[1].step is None):
                    self.idxs.add(t.elts[0].id)
                    return '.whereRow %s %s %s' % (q(t.elts[0].id), q(a.value.id), q(a.slice.elts[0].id))
            if isinstance(t, ast.Name):
                # x = np.array([a, b])
                a = np_call(v, 'array', 1)
                if a and not v.keywords and isinstance(a[0], ast.List) and len(a[0].elts) == 2:
                    return '.stack2 %s %s %s' % (q(t.id), self.lex(a[0].elts[0]), self.lex(a[0].elts[1]))
                # x = np.min(td, axis=0) / np.argmin(td, axis=0)
                for fn_, c in (('min', 'minAxis0'), ('argmin', 'argminAxis0')):
                    a = np_call(v, fn_, 1)
                    if a and len(v.keywords) == 1 and const_nat(kw(v, 'axis')) == 0 and isinstance(a[0], ast.Name):
                        return '.%s %s %s' % (c, q(t.id), q(a[0].id))
                # x = ix[np.where(wi == lit)]
                if (isinstance(v, ast.Subscript) and isinstance(v.value, ast.Name) and v.value.id in self.idxs and np_call(v.slice, 'where', 1)
                        and not v.slice.keywords):
                    c = v.slice.args[0]
                    if (isinstance(c, ast.Compare) and len(c.ops) == 1 and isinstance(c.ops[0], ast.Eq) and isinstance(c.left, ast.Name)
                            and const_nat(c.comparators[0]) is not None):
                        self.idxs.add(t.id)
                        return '.selectEq %s %s %s %d' % (q(t.id), q(v.value.id), q(c.left.id), const_nat(c.comparators[0]))
            tt = self.sub2(t)
            if tt and tt[1] in self.scalars and tt[2] in self.idxs:
                # M[r, ix] = src
                if isinstance(v, ast.Name):
                    return '.storeRow %s %s %s %s' % (q(tt[0]), q(tt[1]), q(tt[2]), q(v.id))
                # M[r, ix] = np.min(td, axis=0): the right-hand side is evaluated first, into a temporary whose name is its own source
                # text (not an identifier, so it cannot clash with a variable of the routine)
                a = np_call(v, 'min', 1)
                if a and len(v.keywords) == 1 and const_nat(kw(v, 'axis')) == 0 and isinstance(a[0], ast.Name):
                    tmp = ast.unparse(v)
                    return '.minAxis0 %s %s, .storeRow %s %s %s %s' % (q(tmp), q(a[0].id), q(tt[0]), q(tt[1]), q(tt[2]), q(tmp))
                # M[r, ix] = M2[r2, c2] + lit
                if isinstance(v, ast.BinOp) and isinstance(v.op, ast.Add) and const_nat(v.right) is not None:
                    s2 = self.sub2(v.left)
                    if s2 and s2[1] in self.scalars and s2[2] in self.scalars:
                        return '.storeRowScalar %s %s %s %s %s %s %d' % (tuple(map(q, tt)) + tuple(map(q, s2)) + (const_nat(v.right),))
        raise Unrec(st, 'unrecognised statement %s' % src_of(st))


def extract_dijk(fn, path):
    r = Routine('distance_wei', path)
    r.line = fn.lineno
    body = body_wo_doc(fn)
    outers = [st for st in body if isinstance(st, ast.For)]
    if len(outers) != 1:
        r.bad(fn, 'expected exactly one outer `for` loop, found %d' % len(outers)); return r
    o = outers[0]
    f = {'rowVar': '?', 'rowBound': '?', 'nodeVar': '?', 'nodeList': '?', 'body': '[]'}
    r.fields = f
    try:
        f['rowVar'], b = range_of(ast.comprehension(target=o.target, iter=o.iter, ifs=[], is_async=0), 'the row loop')
        f['rowBound'] = name_of(b, 'range')
    except Unrec as e:
        r.bad(o, e.msg)
    whiles = [st for st in o.body if isinstance(st, ast.While)]
    if len(whiles) != 1 or o.orelse:
        r.bad(o, 'expected exactly one `while` loop in the row loop, found %d' % len(whiles)); return r
    w = whiles[0]
    if not (isinstance(w.test, ast.Constant) and w.test.value is True and not w.orelse):
        r.bad(w, 'expected `while True:`')
    inner = [st for st in w.body if isinstance(st, ast.For)]
    if len(inner) != 1:
        r.bad(w, 'expected exactly one `for` loop in the `while` loop, found %d' % len(inner)); return r
    blk = inner[0]
    if not (isinstance(blk.target, ast.Name) and isinstance(blk.iter, ast.Name) and not blk.orelse):
        r.bad(blk, 'unrecognised loop header %s' % src_of(blk)); return r
    f['nodeVar'], f['nodeList'] = blk.target.id, blk.iter.id
    x = DijkX([f['rowVar'], f['nodeVar']])
    out = []
    for st in blk.body:
        try:
            out.append(x.stmt(st))
        except Unrec as e:
            r.bad(e.node if hasattr(e.node, 'lineno') else st, e.msg)
    f['body'] = '[' + ',\n      '.join(out) + ']'
    r.parts = {'body': lines_of([blk])}
    r.counts = {'block_statements': len(out)}
    return r


def full_slice(x):
    return isinstance(x, ast.Slice) and x.lower is None and x.upper is None and x.step is None


def extract_dijk_whole(fn, path):
    """every statement of distance_wei (Model/CoreIRDijk.lean: PStmt, RStmt, WStmt, DijkIR)"""
    r = Routine('distance_wei', path)
    r.line = fn.lineno
    a = fn.args
    if len(a.args) != 1 or a.vararg or a.kwarg or a.kwonlyargs or a.defaults:
        r.bad(fn, 'expected exactly one parameter without default')
    f = {'param': q(a.args[0].arg if a.args else '?'), 'pre': '[]', 'rowVar': q('?'), 'rowBound': q('?'), 'rowPre': '[]', 'whileBody': '[]',
         'ret': '[]'}
    r.fields = f
    body = body_wo_doc(fn)
    loops = [i for i, st in enumerate(body) if isinstance(st, ast.For)]
    if len(loops) != 1 or loops[0] != len(body) - 2 or not isinstance(body[-1], ast.Return):
        r.bad(fn, 'expected statements, one `for` loop, `return`')
        return r

    def names2(node):
        return (isinstance(node, ast.Tuple) and len(node.elts) == 2 and all(isinstance(e, ast.Name) for e in node.elts))

    def pstmt(st):
        if isinstance(st, ast.Assign) and len(st.targets) == 1:
            t, v = st.targets[0], st.value
            if isinstance(t, ast.Name):
                if (isinstance(v, ast.Call) and isinstance(v.func, ast.Name) and v.func.id == 'len' and len(v.args) == 1 and not v.keywords
                        and isinstance(v.args[0], ast.Name)):
                    return '.len %s %s' % (q(t.id), q(v.args[0].id))
                z = np_call(v, 'zeros', 1)
                if z and not v.keywords and names2(z[0]):
                    return '.zerosMat %s %s %s' % (q(t.id), q(z[0].elts[0].id), q(z[0].elts[1].id))
            # M[np.logical_not(np.eye(n))] = np.inf
            if isinstance(t, ast.Subscript) and isinstance(t.value, ast.Name) and is_np(v, 'inf'):
                ln = np_call(t.slice, 'logical_not', 1)
                if ln and not t.slice.keywords:
                    ey = np_call(ln[0], 'eye', 1)
                    if ey and not ln[0].keywords and isinstance(ey[0], ast.Name):
                        return '.setOffDiagInf %s %s' % (q(t.value.id), q(ey[0].id))
        raise Unrec(st, 'unrecognised statement %s' % src_of(st))

    def rstmt(st):
        if isinstance(st, ast.Assign) and len(st.targets) == 1 and isinstance(st.targets[0], ast.Name):
            t, v = st.targets[0].id, st.value
            o = np_call(v, 'ones', 1)
            if (o and len(v.keywords) == 1 and isinstance(kw(v, 'dtype'), ast.Name) and kw(v, 'dtype').id == 'bool'
                    and isinstance(o[0], ast.Tuple) and len(o[0].elts) == 1 and isinstance(o[0].elts[0], ast.Name)):
                return '.onesVec %s %s' % (q(t), q(o[0].elts[0].id))
            if (isinstance(v, ast.Call) and isinstance(v.func, ast.Attribute) and v.func.attr == 'copy' and not v.args and not v.keywords
                    and isinstance(v.func.value, ast.Name)):
                return '.copyMat %s %s' % (q(t), q(v.func.value.id))
            if isinstance(v, ast.List) and len(v.elts) == 1 and isinstance(v.elts[0], ast.Name):
                return '.listOf %s %s' % (q(t), q(v.elts[0].id))
        raise Unrec(st, 'unrecognised statement %s' % src_of(st))

    def masked(node):
        """M[r, s] with three names"""
        if (isinstance(node, ast.Subscript) and isinstance(node.value, ast.Name) and names2(node.slice)):
            return node.value.id, node.slice.elts[0].id, node.slice.elts[1].id
        return None

    def wstmt(st, row_var):
        if isinstance(st, ast.Assign) and len(st.targets) == 1:
            t, v = st.targets[0], st.value
            if isinstance(t, ast.Subscript) and isinstance(t.value, ast.Name) and const_nat(v) == 0 and type(v.value) is int:
                if isinstance(t.slice, ast.Name):
                    return '.clearVec %s %s' % (q(t.value.id), q(t.slice.id))
                if (isinstance(t.slice, ast.Tuple) and len(t.slice.elts) == 2 and full_slice(t.slice.elts[0])
                        and isinstance(t.slice.elts[1], ast.Name)):
                    return '.zeroCols %s %s' % (q(t.value.id), q(t.slice.elts[1].id))
            if isinstance(t, ast.Name):
                m = np_call(v, 'min', 1)
                if m and not v.keywords and masked(m[0]):
                    return '.minMasked %s %s %s %s' % ((q(t.id),) + tuple(map(q, masked(m[0]))))
            # x, = np.where(M[r, :] == y)
            if isinstance(t, ast.Tuple) and len(t.elts) == 1 and isinstance(t.elts[0], ast.Name) and np_call(v, 'where', 1) and not v.keywords:
                c = v.args[0]
                if (isinstance(c, ast.Compare) and len(c.ops) == 1 and isinstance(c.ops[0], ast.Eq) and isinstance(c.comparators[0], ast.Name)
                        and isinstance(c.left, ast.Subscript) and isinstance(c.left.value, ast.Name) and isinstance(c.left.slice, ast.Tuple)
                        and len(c.left.slice.elts) == 2 and isinstance(c.left.slice.elts[0], ast.Name) and full_slice(c.left.slice.elts[1])):
                    return '.whereEqRow %s %s %s %s' % (q(t.elts[0].id), q(c.left.value.id), q(c.left.slice.elts[0].id), q(c.comparators[0].id))
        if isinstance(st, ast.For) and isinstance(st.target, ast.Name) and isinstance(st.iter, ast.Name) and not st.orelse:
            x = DijkX([row_var, st.target.id])
            out = []
            for b in st.body:
                out.append(x.stmt(b))
            return '.forNodes %s %s %s' % (q(st.target.id), q(st.iter.id), '[' + ',\n        '.join(out) + ']')
        if isinstance(st, ast.If) and not st.orelse and len(st.body) == 1 and isinstance(st.body[0], ast.Break):
            t = st.test
            # if M[r, s].size == 0: break
            if (isinstance(t, ast.Compare) and len(t.ops) == 1 and isinstance(t.ops[0], ast.Eq) and const_nat(t.comparators[0]) == 0
                    and isinstance(t.left, ast.Attribute) and t.left.attr == 'size' and masked(t.left.value)):
                return '.breakIfNoneLeft %s %s %s' % tuple(map(q, masked(t.left.value)))
            i = np_call(t, 'isinf', 1)
            if i and not t.keywords and isinstance(i[0], ast.Name):
                return '.breakIfInf %s' % q(i[0].id)
        raise Unrec(st, 'unrecognised statement %s' % src_of(st))

    def block(sts, fun, sep=',\n      '):
        out = []
        for st in sts:
            try:
                out.append(fun(st))
            except Unrec as e:
                r.bad(e.node if hasattr(e.node, 'lineno') else st, e.msg)
        return '[' + sep.join(out) + ']'
    f['pre'] = block(body[:loops[0]], pstmt)
    o = body[loops[0]]
    rv = '?'
    try:
        rv, b = range_of(ast.comprehension(target=o.target, iter=o.iter, ifs=[], is_async=0), 'the row loop')
        f['rowVar'] = q(rv); f['rowBound'] = q(name_of(b, 'range'))
    except Unrec as e:
        r.bad(o, e.msg)
    if o.orelse or not o.body or not isinstance(o.body[-1], ast.While):
        r.bad(o, 'expected the row loop to end with `while True:`')
        return r
    w = o.body[-1]
    if not (isinstance(w.test, ast.Constant) and w.test.value is True and not w.orelse):
        r.bad(w, 'expected `while True:` without else')
    f['rowPre'] = block(o.body[:-1], rstmt)
    f['whileBody'] = block(w.body, lambda st: wstmt(st, rv))
    f['ret'] = lst(map(q, ret_names(r, body[-1])))
    r.parts = {'body': lines_of(body)}
    r.counts = {'statements': len(body), 'while_body': len(w.body)}
    return r


def lean_dijk(r, path, rw):
    rel = os.path.basename(path)
    f = r.fields or {'rowVar': '?', 'rowBound': '?', 'nodeVar': '?', 'nodeList': '?', 'body': '[]'}
    a, b = r.parts.get('body', (r.line, r.line))
    out = ['import BctVerif.Props.CoresDijk',
           '/-!',
           '# GENERATED by translate/cores.py (family dijk) — do not edit.  Re-emitted from the current source on every check run.',
           'source: %s' % path,
           '-/',
           'set_option linter.unusedTactic false',
           'set_option linter.unreachableTactic false',
           'namespace Bct.Gen.CoresDijk',
           'open Bct Bct.Dist Bct.CoreIR.Dijk Bct.Cores.Dijk',
           '']
    for p in r.problems:
        out.append('-- NOT RECOGNISED: ' + p.replace('\n', ' '))
    out.append('/-- the body of `for v in V:` of `distance_wei` (%s:%d-%d) -/' % (rel, a, b))
    out.append('def ir_distance_wei_relax : RelaxIR :=\n  { recognised := %s, rowVar := %s, rowBound := %s, nodeVar := %s, nodeList := %s,\n    body :=\n     %s }\n' % (
        'true' if not r.problems else 'false', q(f['rowVar']) + ', origins := ' + lean_origins(r), q(f['rowBound']), q(f['nodeVar']),
        q(f['nodeList']), f['body']))
    out.append('theorem distance_wei_relax_ok : relaxOk ir_distance_wei_relax = true := by\n  first | decide | fail "distance_wei_relax_ok: the relaxation '
               'block of distance_wei (%s:%d-%d) %s"\n' % (rel, a, b, 'was not completely recognised by translate/cores.py' if r.problems
                                                          else 'is not the expected statement list'))
    out.append('theorem distance_wei_relax_computes {n : Nat} (L : AMat Ext n) (st : DSt n) (Dm Bm G1 : AMat V n) (u v : Fin n)\n'
               '    (hD : ∀ w, Dm.get u w = .ext st.D[w]) (hB : ∀ w, Bm.get u w = embB st.B[w])\n'
               '    (hG : ∀ w, G1.get v w = g1cell L st.S v w) (hL : ∀ w q, L.get v w = .fin q → q ≠ 0) :\n'
               '    ∃ D\' B\', runBlock ir_distance_wei_relax Dm Bm G1 u v = some (D\', B\') ∧\n'
               '      (∀ w, D\'.get u w = .ext (relaxFrom L st v).D[w]) ∧ (∀ w, B\'.get u w = embB (relaxFrom L st v).B[w]) ∧\n'
               '      (∀ a w, a ≠ u → D\'.get a w = Dm.get a w ∧ B\'.get a w = Bm.get a w) :=\n'
               '  link_relax _ distance_wei_relax_ok L st Dm Bm G1 u v hD hB hG hL\n')
    fw = rw.fields or {'param': q('?'), 'pre': '[]', 'rowVar': q('?'), 'rowBound': q('?'), 'rowPre': '[]', 'whileBody': '[]', 'ret': '[]'}
    for p in rw.problems:
        out.append('-- NOT RECOGNISED: ' + p.replace('\n', ' '))
    a2, b2 = rw.parts.get('body', (rw.line, rw.line))
    out.append('/-- every statement of `distance_wei` (%s:%d) -/' % (rel, rw.line))
    out.append('def ir_distance_wei : DijkIR :=\n  { recognised := %s, origins := %s,\n    param := %s,\n    pre := %s,\n    rowVar := %s, rowBound := %s,\n'
               '    rowPre := %s,\n    whileBody :=\n     %s,\n    ret := %s }\n' % (
                   'true' if not rw.problems else 'false', lean_origins(rw), fw['param'], fw['pre'], fw['rowVar'], fw['rowBound'], fw['rowPre'],
                   fw['whileBody'], fw['ret']))
    out.append('theorem distance_wei_while_ok : (ir_distance_wei.whileBody == refWhile) = true := by\n  first | decide | fail "distance_wei_while_ok: '
               'the `while True:` body of distance_wei (%s:%d-%d: settling, relaxation loop, exit tests, next V) is not the expected statement list"\n' % (
                   rel, a2, b2))
    out.append('theorem distance_wei_ok : dijkOk ir_distance_wei = true := by\n  first | decide | fail "distance_wei_ok: the statements extracted from '
               'distance_wei (%s:%d) %s"\n' % (rel, rw.line, 'were not all recognised by translate/cores.py' if rw.problems else 'are not the expected program'))
    out.append('theorem distance_wei_computes {n : Nat} (A : AMat Rat n) :\n'
               '    runDijk ir_distance_wei (n + 1) (embG A) = (dijkstra (lenMat .none A)).map fun r => [r.1.map V.ext, r.2.map embB] :=\n'
               '  link_distance_wei _ distance_wei_ok A\n')
    out.append('end Bct.Gen.CoresDijk')
    return '\n'.join(out) + '\n'


def family_dijk():
    path = os.path.join(common.REPO, 'bct', 'algorithms', 'distance.py')
    fns, err = parse_functions(path)
    name = 'distance_wei'
    if name not in fns:
        r = Routine(name, path); r.problems.append('%s: %s' % (name, err or 'function not found in ' + path))
    else:
        try:
            r = extract_dijk(fns[name], path)
            check_header(r, fns[name], fns)
            rw = extract_dijk_whole(fns[name], path)
            check_header(rw, fns[name], fns)
        except Exception as e:  # noqa — an extractor crash must not look like success
            r = Routine(name, path); r.problems.append('%s: extractor raised %s: %s' % (name, type(e).__name__, e))
    if 'rw' not in locals():
        rw = Routine(name, path); rw.problems = list(r.problems)
    return {'module': 'BctVerif.Gen.CoresDijk', 'file': 'CoresDijk.lean', 'text': lean_dijk(r, path, rw), 'sources': [path],
            'routines': {'distance_wei (relaxation block)': dict(getattr(r, 'counts', {}), line=r.line, recognised=not r.problems),
                         'distance_wei': dict(getattr(rw, 'counts', {}), line=rw.line, recognised=not rw.problems)},
            'problems': list(r.problems) + [p for p in rw.problems if p not in r.problems]}


# ====================================================================== family 'path'

def path_nex(node):
    """Model/CoreIRPath.lean: NEx"""
    if isinstance(node, ast.Constant) and type(node.value) is int and node.value >= 0:
        return '(.lit %d)' % node.value
    if isinstance(node, ast.Name):
        return '(.var %s)' % q(node.id)
    if (isinstance(node, ast.Subscript) and isinstance(node.value, ast.Name) and isinstance(node.slice, ast.Tuple)
            and len(node.slice.elts) == 2 and all(isinstance(e, ast.Name) for e in node.slice.elts)):
        return '(.cell %s %s %s)' % (q(node.value.id), q(node.slice.elts[0].id), q(node.slice.elts[1].id))
    if isinstance(node, ast.BinOp) and isinstance(node.op, ast.Add):
        return '(.add %s %s)' % (path_nex(node.left), path_nex(node.right))
    if isinstance(node, ast.Call) and isinstance(node.func, ast.Name) and len(node.args) == 1 and not node.keywords:
        if node.func.id == 'len' and isinstance(node.args[0], ast.Name):
            return '(.len %s)' % q(node.args[0].id)
        if node.func.id == 'int':
            return '(.toInt %s)' % path_nex(node.args[0])
    raise Unrec(node, 'unrecognised scalar expression %s' % src_of(node))


def path_stmt(st):
    if isinstance(st, ast.Assign) and len(st.targets) == 1:
        t, v = st.targets[0], st.value
        if isinstance(t, ast.Name):
            if isinstance(v, ast.List) and not v.elts:
                return '.emptyList %s' % q(t.id)
            z = np_call(v, 'zeros', 1)
            if (z and len(v.keywords) == 1 and isinstance(kw(v, 'dtype'), ast.Constant) and kw(v, 'dtype').value == 'int'
                    and isinstance(z[0], ast.Tuple) and len(z[0].elts) == 2 and const_nat(z[0].elts[1]) == 1):
                return '.zerosCol %s %s' % (q(t.id), path_nex(z[0].elts[0]))
            return '.bind %s %s' % (q(t.id), path_nex(v))
        if isinstance(t, ast.Subscript) and isinstance(t.value, ast.Name) and isinstance(t.slice, (ast.Name, ast.Constant)):
            return '.setAt %s %s %s' % (q(t.value.id), path_nex(t.slice), path_nex(v))
    raise Unrec(st, 'unrecognised statement %s' % src_of(st))


def extract_path(fn, path):
    r = Routine(fn.name, path)
    r.line = fn.lineno
    a = fn.args
    if a.vararg or a.kwarg or a.kwonlyargs or a.defaults or getattr(a, 'posonlyargs', []):
        r.bad(fn, 'expected plain positional parameters without defaults')
    f = {'params': lst(q(x.arg) for x in a.args), 'pre': '[]', 'testVar': q('?'), 'testLit': '0', 'thenPre': '[]', 'loopVar': q('?'),
         'lo': '(.lit 0)', 'hi': '(.lit 0)', 'loopBody': '[]', 'elseBody': '[]', 'ret': q('?')}
    r.fields = f
    body = body_wo_doc(fn)
    ifs = [i for i, st in enumerate(body) if isinstance(st, ast.If)]
    if len(ifs) != 1 or ifs[0] != len(body) - 2 or not isinstance(body[-1], ast.Return) or not isinstance(body[-1].value, ast.Name):
        r.bad(fn, 'expected statements, one `if … else …`, `return <name>`')
        return r

    def block(sts):
        out = []
        for st in sts:
            try:
                out.append(path_stmt(st))
            except Unrec as e:
                r.bad(e.node if hasattr(e.node, 'lineno') else st, e.msg)
        return lst(out)
    f['pre'] = block(body[:ifs[0]])
    nd = body[ifs[0]]
    t = nd.test
    if (isinstance(t, ast.Compare) and len(t.ops) == 1 and isinstance(t.ops[0], ast.NotEq) and isinstance(t.left, ast.Name)
            and const_nat(t.comparators[0]) is not None and type(t.comparators[0].value) is int):
        f['testVar'] = q(t.left.id); f['testLit'] = '%d' % const_nat(t.comparators[0])
    else:
        r.bad(nd, 'unrecognised test %s' % src_of(t))
    if not nd.body or not isinstance(nd.body[-1], ast.For):
        r.bad(nd, 'expected the `if` branch to end with the `for` loop')
        return r
    f['thenPre'] = block(nd.body[:-1])
    lp = nd.body[-1]
    it = lp.iter
    if (isinstance(lp.target, ast.Name) and isinstance(it, ast.Call) and isinstance(it.func, ast.Name) and it.func.id == 'range'
            and len(it.args) == 2 and not it.keywords and not lp.orelse):
        f['loopVar'] = q(lp.target.id)
        try:
            f['lo'] = path_nex(it.args[0]); f['hi'] = path_nex(it.args[1])
        except Unrec as e:
            r.bad(lp, e.msg)
    else:
        r.bad(lp, 'unrecognised loop header %s' % src_of(lp))
    f['loopBody'] = block(lp.body)
    f['elseBody'] = block(nd.orelse)
    f['ret'] = q(body[-1].value.id)
    r.parts = {'body': lines_of(body)}
    r.counts = {'statements': len(body)}
    return r


def lean_path(r, path):
    relb = os.path.basename(path)
    f = r.fields or {'params': '[]', 'pre': '[]', 'testVar': q('?'), 'testLit': '0', 'thenPre': '[]', 'loopVar': q('?'), 'lo': '(.lit 0)',
                     'hi': '(.lit 0)', 'loopBody': '[]', 'elseBody': '[]', 'ret': q('?')}
    a, b = r.parts.get('body', (r.line, r.line))
    out = ['import BctVerif.Props.CoresPath',
           '/-!',
           '# GENERATED by translate/cores.py (family path) — do not edit.  Re-emitted from the current source on every check run.',
           'source: %s' % path,
           '-/',
           'set_option linter.unusedTactic false',
           'set_option linter.unreachableTactic false',
           'namespace Bct.Gen.CoresPath',
           'open Bct Bct.Dist Bct.CoreIR.Path Bct.Cores.Path',
           '']
    for p in r.problems:
        out.append('-- NOT RECOGNISED: ' + p.replace('\n', ' '))
    out.append('/-- `retrieve_shortest_path` (%s:%d) -/' % (relb, r.line))
    out.append('def ir_retrieve_shortest_path : PathIR :=\n  { recognised := %s, origins := %s,\n    params := %s,\n    pre := %s,\n'
               '    testVar := %s, testLit := %s,\n    thenPre := %s,\n    loopVar := %s, lo := %s, hi := %s,\n    loopBody := %s,\n'
               '    elseBody := %s,\n    ret := %s }\n' % ('true' if not r.problems else 'false', lean_origins(r), f['params'], f['pre'], f['testVar'],
                                                         f['testLit'], f['thenPre'], f['loopVar'], f['lo'], f['hi'], f['loopBody'], f['elseBody'], f['ret']))
    out.append('theorem retrieve_shortest_path_ok : pathOk ir_retrieve_shortest_path = true := by\n  first | decide | fail "retrieve_shortest_path_ok: '
               'the statements extracted from retrieve_shortest_path (%s:%d-%d) %s"\n' % (
                   relb, a, b, 'were not all recognised by translate/cores.py' if r.problems else 'are not the expected program'))
    out.append('theorem retrieve_shortest_path_computes {n : Nat} (hops : AMat Nat n) (P : AMat (Fin n) n) (s t : Fin n) :\n'
               '    run ir_retrieve_shortest_path hops P s t = some ((retrieve hops P s t).map Fin.val) :=\n'
               '  link_retrieve _ retrieve_shortest_path_ok hops P s t\n')
    out.append('end Bct.Gen.CoresPath')
    return '\n'.join(out) + '\n'


def family_path():
    path = os.path.join(common.REPO, 'bct', 'algorithms', 'distance.py')
    fns, err = parse_functions(path)
    name = 'retrieve_shortest_path'
    if name not in fns:
        r = Routine(name, path); r.problems.append('%s: %s' % (name, err or 'function not found in ' + path))
    else:
        try:
            r = extract_path(fns[name], path)
            check_header(r, fns[name], fns)
        except Exception as e:  # noqa — an extractor crash must not look like success
            r = Routine(name, path); r.problems.append('%s: extractor raised %s: %s' % (name, type(e).__name__, e))
    return {'module': 'BctVerif.Gen.CoresPath', 'file': 'CoresPath.lean', 'text': lean_path(r, path), 'sources': [path],
            'routines': {r.name: dict(getattr(r, 'counts', {}), line=r.line, recognised=not r.problems)},
            'problems': list(r.problems)}


# ====================================================================== family 'bin'

class BinX:
    """expression / statement mapping for distance_bin (Model/CoreIRBin.lean: Ex, Stmt)"""

    def __init__(self):
        self.scalars = set()

    def ex(self, node):
        if isinstance(node, ast.Constant) and type(node.value) is int and node.value >= 0:
            return '(.lit %d)' % node.value
        if is_np(node, 'inf'):
            return '.infLit'
        if isinstance(node, ast.Name):
            return ('(.scal %s)' if node.id in self.scalars else '(.ref %s)') % q(node.id)
        if isinstance(node, ast.BinOp) and isinstance(node.op, ast.Mult):
            return '(.mul %s %s)' % (self.ex(node.left), self.ex(node.right))
        if isinstance(node, ast.Compare) and len(node.ops) == 1 and const_nat(node.comparators[0]) == 0 \
                and type(node.comparators[0].value) is int:
            if isinstance(node.ops[0], ast.NotEq):
                return '(.ne0 %s)' % self.ex(node.left)
            if isinstance(node.ops[0], ast.Eq):
                return '(.eq0 %s)' % self.ex(node.left)
        if isinstance(node, ast.Call):
            f = node.func
            if isinstance(f, ast.Attribute) and f.attr == 'copy' and not node.args and not node.keywords:
                return self.ex(f.value)
            if (isinstance(f, ast.Attribute) and f.attr == 'astype' and len(node.args) == 1 and not node.keywords
                    and isinstance(node.args[0], ast.Name) and node.args[0].id == 'float'):
                return '(.toNum %s)' % self.ex(f.value)
            if (isinstance(f, ast.Name) and f.id == 'binarize' and len(node.args) == 1 and len(node.keywords) == 1
                    and isinstance(kw(node, 'copy'), ast.Constant) and kw(node, 'copy').value is True):
                return '(.binarize %s)' % self.ex(node.args[0])
            if isinstance(f, ast.Name) and f.id == 'binarize' and len(node.args) == 1 and not node.keywords:
                return '(.binarizeD %s)' % self.ex(node.args[0])
            a = np_call(node, 'dot', 2)
            if a and not node.keywords and all(isinstance(x, ast.Name) for x in a):
                return '(.dot %s %s)' % (q(a[0].id), q(a[1].id))
            a = np_call(node, 'eye', 1)
            if (a and not node.keywords and isinstance(a[0], ast.Call) and isinstance(a[0].func, ast.Name) and a[0].func.id == 'len'
                    and len(a[0].args) == 1 and isinstance(a[0].args[0], ast.Name) and not a[0].keywords):
                return '(.eyeLen %s)' % q(a[0].args[0].id)
            a = np_call(node, 'logical_not', 1)
            if a and not node.keywords:
                return '(.lnot %s)' % self.ex(a[0])
        if (isinstance(node, ast.BinOp) and isinstance(node.op, ast.Div) and isinstance(node.left, ast.Constant)
                and type(node.left.value) is int and node.left.value == 1):
            return '(.recip %s)' % self.ex(node.right)
        raise Unrec(node, 'unrecognised expression %s' % src_of(node))

    def stmt(self, st):
        if isinstance(st, ast.Assign) and len(st.targets) == 1:
            t, v = st.targets[0], st.value
            if isinstance(t, ast.Name):
                if isinstance(v, ast.Constant) and type(v.value) is int and v.value >= 0:
                    self.scalars.add(t.id)
                    return '.setScal %s %d' % (q(t.id), v.value)
                e = self.ex(v)
                self.scalars.discard(t.id)
                return '.bind %s %s' % (q(t.id), e)
            if (isinstance(t, ast.Subscript) and isinstance(t.value, ast.Name)
                    and (isinstance(t.slice, ast.Compare) or np_call(t.slice, 'logical_not', 1))):
                return '.setMask %s %s %s' % (q(t.value.id), self.ex(t.slice), self.ex(v))
        if isinstance(st, ast.AugAssign) and isinstance(st.op, ast.Add) and isinstance(st.target, ast.Name):
            if st.target.id in self.scalars:
                if isinstance(st.value, ast.Constant) and type(st.value.value) is int and st.value.value >= 0:
                    return '.incr %s %d' % (q(st.target.id), st.value.value)
            else:
                return '.augAdd %s %s' % (q(st.target.id), self.ex(st.value))
        if (isinstance(st, ast.Expr) and np_call(st.value, 'fill_diagonal', 2) and not st.value.keywords
                and isinstance(st.value.args[0], ast.Name) and const_nat(st.value.args[1]) is not None
                and type(st.value.args[1].value) is int):
            return '.fillDiag %s %d' % (q(st.value.args[0].id), st.value.args[1].value)
        raise Unrec(st, 'unrecognised statement %s' % src_of(st))


def extract_bin(fn, path):
    r = Routine(fn.name, path)
    r.line = fn.lineno
    a = fn.args
    if len(a.args) != 1 or a.vararg or a.kwarg or a.kwonlyargs or a.defaults:
        r.bad(fn, 'expected exactly one parameter without default')
    f = {'param': q(a.args[0].arg if a.args else '?'), 'pre': '[]', 'cond': q('?'), 'body': '[]', 'post': '[]', 'ret': q('?')}
    r.fields = f
    body = body_wo_doc(fn)
    loops = [i for i, st in enumerate(body) if isinstance(st, ast.While)]
    if len(loops) != 1 or not isinstance(body[-1], ast.Return) or not isinstance(body[-1].value, ast.Name):
        r.bad(fn, 'expected statements, one `while` loop, statements, `return <name>`')
        return r
    x = BinX()

    def block(sts):
        out = []
        for st in sts:
            try:
                out.append(x.stmt(st))
            except Unrec as e:
                r.bad(e.node if hasattr(e.node, 'lineno') else st, e.msg)
        return '[' + ',\n      '.join(out) + ']'
    li = loops[0]
    f['pre'] = block(body[:li])
    w = body[li]
    c = np_call(w.test, 'any', 1)
    if c and not w.test.keywords and isinstance(c[0], ast.Name) and not w.orelse:
        f['cond'] = q(c[0].id)
    else:
        r.bad(w, 'unrecognised loop test %s' % src_of(w.test))
    f['body'] = block(w.body)
    f['post'] = block(body[li + 1:-1])
    f['ret'] = q(body[-1].value.id)
    r.parts = {'body': lines_of(body)}
    r.counts = {'pre': li, 'body': len(w.body), 'post': len(body) - li - 2}
    return r


def lean_bin(r, path, prim):
    relb = os.path.basename(path)
    f = r.fields or {'param': q('?'), 'pre': '[]', 'cond': q('?'), 'body': '[]', 'post': '[]', 'ret': q('?')}
    a, b = r.parts.get('body', (r.line, r.line))
    out = ['import BctVerif.Props.CoresBin',
           'import BctVerif.Props.CoresUtil',
           '/-!',
           '# GENERATED by translate/cores.py (family bin) — do not edit.  Re-emitted from the current source on every check run.',
           'source: %s' % path,
           '-/',
           'set_option linter.unusedTactic false',
           'set_option linter.unreachableTactic false',
           'namespace Bct.Gen.CoresBin',
           'open Bct Bct.Dist Bct.CoreIR.Bin Bct.Cores.Bin',
           '']
    out += lean_folded_primitive(prim, 'distance_bin')
    for p in r.problems:
        out.append('-- NOT RECOGNISED: ' + p.replace('\n', ' '))
    out.append('/-- `distance_bin` (%s:%d) -/' % (relb, r.line))
    out.append('def ir_distance_bin : BinIR :=\n  { recognised := %s, origins := %s,\n    param := %s,\n    pre := %s,\n    cond := %s,\n'
               '    body := %s,\n    post := %s,\n    ret := %s }\n' % ('true' if not r.problems else 'false', lean_origins(r), f['param'], f['pre'],
                                                                     f['cond'], f['body'], f['post'], f['ret']))
    out.append('theorem distance_bin_ok : binOk ir_distance_bin = true := by\n  first | decide | fail "distance_bin_ok: the statements extracted from '
               'distance_bin (%s:%d-%d) %s"\n' % (relb, a, b, 'were not all recognised by translate/cores.py' if r.problems
                                                  else 'are not the expected program'))
    out.append('theorem distance_bin_computes {n : Nat} (A : AMat Rat n) :\n'
               '    (run ir_distance_bin (n * n + 2) (embA A)).map (fun M => M.map V.toExt?) = (distBin A).map fun D => D.map some :=\n'
               '  link_distance_bin _ distance_bin_ok A\n')
    out.append('end Bct.Gen.CoresBin')
    return '\n'.join(out) + '\n'


def family_bin():
    path = os.path.join(common.REPO, 'bct', 'algorithms', 'distance.py')
    fns, err = parse_functions(path)
    name = 'distance_bin'
    if name not in fns:
        r = Routine(name, path); r.problems.append('%s: %s' % (name, err or 'function not found in ' + path))
    else:
        try:
            r = extract_bin(fns[name], path)
            check_header(r, fns[name], fns)
        except Exception as e:  # noqa — an extractor crash must not look like success
            r = Routine(name, path); r.problems.append('%s: extractor raised %s: %s' % (name, type(e).__name__, e))
    prim = fold_util_primitive(path, 'binarize')
    return {'module': 'BctVerif.Gen.CoresBin', 'file': 'CoresBin.lean', 'text': lean_bin(r, path, prim), 'sources': [path],
            'routines': {r.name: dict(getattr(r, 'counts', {}), line=r.line, recognised=not r.problems),
                         'binarize (called by distance_bin)': dict(line=prim.line, file=rel(prim.file), recognised=not prim.problems)},
            'problems': list(r.problems) + list(prim.problems)}


# ====================================================================== family 'bfs'

class BfsX:
    """expression / statement mapping for breadth (Model/CoreIRBfs.lean: SEx, AStmt, FStmt, PStmt, WStmt)"""

    def __init__(self):
        self.consts = set()

    def sex(self, node):
        z = const_int(node)
        if z is not None:
            return '(.lit %s)' % lint(z)
        if is_np(node, 'inf'):
            return '.inf'
        if isinstance(node, ast.Name):
            return ('(.var %s)' if node.id in self.consts else '(.node %s)') % q(node.id)
        if isinstance(node, ast.Subscript) and isinstance(node.value, ast.Name) and isinstance(node.slice, ast.Name):
            return '(.vecAt %s %s)' % (q(node.value.id), q(node.slice.id))
        if isinstance(node, ast.BinOp) and isinstance(node.op, ast.Add):
            return '(.add %s %s)' % (self.sex(node.left), self.sex(node.right))
        raise Unrec(node, 'unrecognised scalar expression %s' % src_of(node))

    def set_vec(self, st):
        if (isinstance(st, ast.Assign) and len(st.targets) == 1 and isinstance(st.targets[0], ast.Subscript)
                and isinstance(st.targets[0].value, ast.Name) and isinstance(st.targets[0].slice, ast.Name)):
            return '.setVec %s %s %s' % (q(st.targets[0].value.id), q(st.targets[0].slice.id), self.sex(st.value))
        return None

    def astmt(self, st):
        s_ = self.set_vec(st)
        if s_:
            return s_
        if (isinstance(st, ast.Expr) and isinstance(st.value, ast.Call) and isinstance(st.value.func, ast.Attribute)
                and st.value.func.attr == 'append' and isinstance(st.value.func.value, ast.Name) and len(st.value.args) == 1
                and isinstance(st.value.args[0], ast.Name) and not st.value.keywords):
            return '.append %s %s' % (q(st.value.func.value.id), q(st.value.args[0].id))
        raise Unrec(st, 'unrecognised statement %s' % src_of(st))

    def fstmt(self, st):
        if (isinstance(st, ast.If) and not st.orelse and isinstance(st.test, ast.Compare) and len(st.test.ops) == 1
                and isinstance(st.test.ops[0], ast.Eq)):
            return '.ifEq %s %s %s' % (self.sex(st.test.left), self.sex(st.test.comparators[0]), lst(self.astmt(x) for x in st.body))
        raise Unrec(st, 'unrecognised statement %s' % src_of(st))

    def pstmt(self, st):
        s_ = self.set_vec(st)
        if s_:
            return s_
        if isinstance(st, ast.Assign) and len(st.targets) == 1 and isinstance(st.targets[0], ast.Name):
            t, v = st.targets[0].id, st.value
            if (isinstance(v, ast.Call) and isinstance(v.func, ast.Name) and v.func.id == 'len' and len(v.args) == 1 and not v.keywords
                    and isinstance(v.args[0], ast.Name)):
                return '.len %s %s' % (q(t), q(v.args[0].id))
            if const_int(v) is not None:
                self.consts.add(t)
                return '.const %s %s' % (q(t), lint(const_int(v)))

            def vec_of(call, fn_):
                a = np_call(call, fn_, 1)
                if a and not call.keywords and isinstance(a[0], ast.Tuple) and len(a[0].elts) == 1 and isinstance(a[0].elts[0], ast.Name):
                    return a[0].elts[0].id
                return None
            if vec_of(v, 'zeros'):
                return '.zerosVec %s %s' % (q(t), q(vec_of(v, 'zeros')))
            if isinstance(v, ast.BinOp) and isinstance(v.op, ast.Mult) and is_np(v.left, 'inf') and vec_of(v.right, 'ones'):
                return '.infVec %s %s' % (q(t), q(vec_of(v.right, 'ones')))
            if isinstance(v, ast.List) and len(v.elts) == 1 and isinstance(v.elts[0], ast.Name):
                return '.listOf %s %s' % (q(t), q(v.elts[0].id))
        raise Unrec(st, 'unrecognised statement %s' % src_of(st))

    def wstmt(self, st):
        s_ = self.set_vec(st)
        if s_:
            return s_
        if isinstance(st, ast.Assign) and len(st.targets) == 1:
            t, v = st.targets[0], st.value
            if isinstance(t, ast.Name) and isinstance(v, ast.Subscript) and isinstance(v.value, ast.Name):
                if const_nat(v.slice) == 0:
                    return '.head %s %s' % (q(t.id), q(v.value.id))
                sl = v.slice
                if (isinstance(sl, ast.Slice) and const_nat(sl.lower) == 1 and sl.upper is None and sl.step is None and t.id == v.value.id):
                    return '.tail %s' % q(t.id)
            if isinstance(t, ast.Tuple) and len(t.elts) == 1 and isinstance(t.elts[0], ast.Name) and np_call(v, 'where', 1) and not v.keywords:
                a = v.args[0]
                if (isinstance(a, ast.Subscript) and isinstance(a.value, ast.Name) and isinstance(a.slice, ast.Tuple) and len(a.slice.elts) == 2
                        and isinstance(a.slice.elts[0], ast.Name) and full_slice(a.slice.elts[1])):
                    return '.whereRow %s %s %s' % (q(t.elts[0].id), q(a.value.id), q(a.slice.elts[0].id))
        if isinstance(st, ast.For) and isinstance(st.target, ast.Name) and isinstance(st.iter, ast.Name) and not st.orelse:
            return '.forIn %s %s %s' % (q(st.target.id), q(st.iter.id), '[' + ',\n        '.join(self.fstmt(x) for x in st.body) + ']')
        raise Unrec(st, 'unrecognised statement %s' % src_of(st))


def extract_bfs(fn, path):
    r = Routine(fn.name, path)
    r.line = fn.lineno
    a = fn.args
    if a.vararg or a.kwarg or a.kwonlyargs or a.defaults:
        r.bad(fn, 'expected plain positional parameters without defaults')
    f = {'params': lst(q(x.arg) for x in a.args), 'pre': '[]', 'loopList': q('?'), 'body': '[]', 'ret': '[]'}
    r.fields = f
    body = body_wo_doc(fn)
    loops = [i for i, st in enumerate(body) if isinstance(st, ast.While)]
    if len(loops) != 1 or loops[0] != len(body) - 2 or not isinstance(body[-1], ast.Return):
        r.bad(fn, 'expected statements, one `while` loop, `return`')
        return r
    x = BfsX()

    def block(sts, fun):
        out = []
        for st in sts:
            try:
                out.append(fun(st))
            except Unrec as e:
                r.bad(e.node if hasattr(e.node, 'lineno') else st, e.msg)
        return '[' + ',\n      '.join(out) + ']'
    f['pre'] = block(body[:loops[0]], x.pstmt)
    w = body[loops[0]]
    if isinstance(w.test, ast.Name) and not w.orelse:
        f['loopList'] = q(w.test.id)
    else:
        r.bad(w, 'unrecognised loop test %s' % src_of(w.test))
    f['body'] = block(w.body, x.wstmt)
    f['ret'] = lst(map(q, ret_names(r, body[-1])))
    r.parts = {'body': lines_of(body)}
    r.counts = {'pre': loops[0], 'while_body': len(w.body)}
    return r


BDIST_FIELDS = 'param dim dimOf dmat z1 z2 rowVar rowBound rowMat rowIdx callee callArgs mMat mCond mLit rmat rSrc ret'.split()


def extract_bdist(fn, path):
    r = Routine(fn.name, path)
    r.line = fn.lineno
    a = fn.args
    if len(a.args) != 1 or a.vararg or a.kwarg or a.kwonlyargs or a.defaults:
        r.bad(fn, 'expected exactly one parameter without default')
        return r
    f = {'param': a.args[0].arg}
    r.fields = f
    body = body_wo_doc(fn)
    r.parts = {'body': lines_of(body)}
    if len(body) != 6:
        r.bad(fn, 'expected exactly 6 statements (len, zeros, row loop, D[D == 0] = inf, R = (D != inf), return), found %d' % len(body))
        return r
    try:
        s0, s1, s2, s3, s4, s5 = body
        v = s0.value
        if not (isinstance(s0, ast.Assign) and isinstance(v, ast.Call) and isinstance(v.func, ast.Name) and v.func.id == 'len' and len(v.args) == 1):
            raise Unrec(s0, 'expected `n = len(CIJ)`')
        f['dim'] = name_of(s0.targets[0], 'len'); f['dimOf'] = name_of(v.args[0], 'len')
        z = np_call(s1.value, 'zeros', 1) if isinstance(s1, ast.Assign) else None
        if not (z and not s1.value.keywords and isinstance(z[0], ast.Tuple) and len(z[0].elts) == 2):
            raise Unrec(s1, 'expected `D = np.zeros((n, n))`')
        f['dmat'] = name_of(s1.targets[0], 'zeros'); f['z1'] = name_of(z[0].elts[0], 'zeros'); f['z2'] = name_of(z[0].elts[1], 'zeros')
        if not (isinstance(s2, ast.For) and not s2.orelse and len(s2.body) == 1):
            raise Unrec(s2, 'expected the row loop with one statement')
        f['rowVar'], b = range_of(ast.comprehension(target=s2.target, iter=s2.iter, ifs=[], is_async=0), 'the row loop')
        f['rowBound'] = name_of(b, 'range')
        c = s2.body[0]
        ok = (isinstance(c, ast.Assign) and len(c.targets) == 1 and isinstance(c.targets[0], ast.Tuple) and len(c.targets[0].elts) == 2
              and isinstance(c.targets[0].elts[1], ast.Name) and isinstance(c.targets[0].elts[0], ast.Subscript)
              and isinstance(c.targets[0].elts[0].slice, ast.Tuple) and len(c.targets[0].elts[0].slice.elts) == 2
              and full_slice(c.targets[0].elts[0].slice.elts[1]) and isinstance(c.value, ast.Call) and isinstance(c.value.func, ast.Name)
              and not c.value.keywords and all(isinstance(x, ast.Name) for x in c.value.args))
        if not ok:
            raise Unrec(c, 'expected `D[i, :], _ = breadth(CIJ, i)`')
        if c.targets[0].elts[1].id in (f['dmat'], f['rowVar'], f['dim'], f['param']):
            raise Unrec(c, 'the discarded result is bound to a name that is used')
        f['rowMat'] = name_of(c.targets[0].elts[0].value, 'the row store'); f['rowIdx'] = name_of(c.targets[0].elts[0].slice.elts[0], 'the row store')
        f['callee'] = c.value.func.id; f['callArgs'] = lst(q(x.id) for x in c.value.args)
        t = s3.targets[0] if isinstance(s3, ast.Assign) and len(s3.targets) == 1 else None
        if not (t is not None and isinstance(t, ast.Subscript) and isinstance(t.slice, ast.Compare) and len(t.slice.ops) == 1
                and isinstance(t.slice.ops[0], ast.Eq) and const_int(t.slice.comparators[0]) is not None and is_np(s3.value, 'inf')):
            raise Unrec(s3, 'expected `D[D == 0] = np.inf`')
        f['mMat'] = name_of(t.value, 'the mask store'); f['mCond'] = name_of(t.slice.left, 'the mask'); f['mLit'] = lint(const_int(t.slice.comparators[0]))
        v = s4.value if isinstance(s4, ast.Assign) and len(s4.targets) == 1 else None
        if not (v is not None and isinstance(v, ast.Compare) and len(v.ops) == 1 and isinstance(v.ops[0], ast.NotEq) and is_np(v.comparators[0], 'inf')):
            raise Unrec(s4, 'expected `R = (D != np.inf)`')
        f['rmat'] = name_of(s4.targets[0], 'R'); f['rSrc'] = name_of(v.left, 'R')
        f['ret'] = lst(map(q, ret_names(r, s5))) if isinstance(s5, ast.Return) and s5.value is not None else '[]'
    except Unrec as e:
        r.bad(e.node if hasattr(e.node, 'lineno') else fn, e.msg)
    except (AttributeError, IndexError, TypeError) as e:
        r.bad(fn, 'unrecognised statement shape (%s)' % type(e).__name__)
    return r


def lean_bfs(rb, rd, path):
    relb = os.path.basename(path)
    out = ['import BctVerif.Props.CoresBfs',
           '/-!',
           '# GENERATED by translate/cores.py (family bfs) — do not edit.  Re-emitted from the current source on every check run.',
           'source: %s' % path,
           '-/',
           'set_option linter.unusedTactic false',
           'set_option linter.unreachableTactic false',
           'namespace Bct.Gen.CoresBfs',
           'open Bct Bct.Dist Bct.CoreIR.Bfs Bct.Cores.Bfs',
           '']
    f = rb.fields or {'params': '[]', 'pre': '[]', 'loopList': q('?'), 'body': '[]', 'ret': '[]'}
    for p in rb.problems:
        out.append('-- NOT RECOGNISED: ' + p.replace('\n', ' '))
    a, b = rb.parts.get('body', (rb.line, rb.line))
    out.append('/-- `breadth` (%s:%d) -/' % (relb, rb.line))
    out.append('def ir_breadth : BfsIR :=\n  { recognised := %s, origins := %s,\n    params := %s,\n    pre := %s,\n    loopList := %s,\n'
               '    body := %s,\n    ret := %s }\n' % ('true' if not rb.problems else 'false', lean_origins(rb), f['params'], f['pre'], f['loopList'],
                                                     f['body'], f['ret']))
    out.append('theorem breadth_ok : bfsOk ir_breadth = true := by\n  first | decide | fail "breadth_ok: the statements extracted from breadth (%s:%d-%d) %s"\n' % (
        relb, a, b, 'were not all recognised by translate/cores.py' if rb.problems else 'are not the expected program'))
    out.append('theorem breadth_computes {n : Nat} (fuel : Nat) (A : AMat Rat n) (src : Fin n) :\n'
               '    runBfs ir_breadth fuel A src = (bfsLoop A fuel (bInit src) [src]).map fun st => [st.dist, st.branch.map cZ] :=\n'
               '  link_breadth _ breadth_ok fuel A src\n')
    out.append('theorem breadth_model {n : Nat} (A : AMat Rat n) (src : Fin n) :\n'
               '    runBfs ir_breadth (n + 1) A src = (breadth A src).map fun st => [st.dist, st.branch.map cZ] :=\n'
               '  link_breadth_model _ breadth_ok A src\n')
    fd = rd.fields
    for p in rd.problems:
        out.append('-- NOT RECOGNISED: ' + p.replace('\n', ' '))
    vals = []
    for k in BDIST_FIELDS:
        if k in ('callArgs', 'ret'):
            vals.append('%s := %s' % (k, fd.get(k, '[]')))
        elif k == 'mLit':
            vals.append('%s := %s' % (k, fd.get(k, '0')))
        else:
            vals.append('%s := %s' % (k, q(fd.get(k, '?'))))
    a, b = rd.parts.get('body', (rd.line, rd.line))
    out.append('/-- `breadthdist` (%s:%d) -/' % (relb, rd.line))
    out.append('def ir_breadthdist : BdistIR :=\n  { recognised := %s, origins := %s,\n    %s }\n' % (
        'true' if not rd.problems else 'false', lean_origins(rd), ', '.join(vals)))
    out.append('theorem breadthdist_ok : bdistOk ir_breadthdist = true := by\n  first | decide | fail "breadthdist_ok: the statements extracted from '
               'breadthdist (%s:%d-%d) %s"\n' % (relb, a, b, 'were not all recognised by translate/cores.py' if rd.problems
                                                 else 'are not the expected program'))
    out.append('/-- the extracted `breadthdist`, calling the extracted `breadth` (the definition its name resolves to) with the model\'s fuel -/\n'
               'theorem breadthdist_computes {n : Nat} (A : AMat Rat n) :\n'
               '    runBdist ir_breadthdist (fun i => (runBfs ir_breadth (n + 1) A i).bind fun vs => vs.head?) = breadthdist A := by\n'
               '  apply link_breadthdist _ breadthdist_ok A\n  intro i\n  rw [breadth_model A i]\n  cases breadth A i <;> rfl\n')
    out.append('end Bct.Gen.CoresBfs')
    return '\n'.join(out) + '\n'


def family_bfs():
    path = os.path.join(common.REPO, 'bct', 'algorithms', 'distance.py')
    fns, err = parse_functions(path)
    rs = []
    for name, ex_ in (('breadth', extract_bfs), ('breadthdist', extract_bdist)):
        if name not in fns:
            r = Routine(name, path); r.problems.append('%s: %s' % (name, err or 'function not found in ' + path))
        else:
            try:
                r = ex_(fns[name], path)
                check_header(r, fns[name], fns)
            except Exception as e:  # noqa — an extractor crash must not look like success
                r = Routine(name, path); r.problems.append('%s: extractor raised %s: %s' % (name, type(e).__name__, e))
        rs.append(r)
    return {'module': 'BctVerif.Gen.CoresBfs', 'file': 'CoresBfs.lean', 'text': lean_bfs(rs[0], rs[1], path), 'sources': [path],
            'routines': {r.name: dict(getattr(r, 'counts', {}), line=r.line, recognised=not r.problems) for r in rs},
            'problems': [p for r in rs for p in r.problems]}


# ====================================================================== family 'reach'

class ReachX:
    """expression / statement mapping for reachdist (Model/CoreIRReach.lean: Ex, Stmt)"""

    def ex(self, node):
        if isinstance(node, ast.Name):
            return '(.ref %s)' % q(node.id)
        if isinstance(node, ast.Compare) and len(node.ops) == 1 and isinstance(node.ops[0], ast.NotEq) and const_nat(node.comparators[0]) == 0:
            return '(.ne0 %s)' % self.ex(node.left)
        # s - a + k
        if (isinstance(node, ast.BinOp) and isinstance(node.op, ast.Add) and const_int(node.right) is not None
                and isinstance(node.left, ast.BinOp) and isinstance(node.left.op, ast.Sub) and isinstance(node.left.left, ast.Name)):
            return '(.affine %s %s %s)' % (q(node.left.left.id), self.ex(node.left.right), lint(const_int(node.right)))
        if isinstance(node, ast.Call):
            f = node.func
            if isinstance(f, ast.Attribute) and f.attr == 'copy' and not node.args and not node.keywords:
                return self.ex(f.value)
            if (isinstance(f, ast.Attribute) and f.attr == 'astype' and len(node.args) == 1 and not node.keywords
                    and isinstance(node.args[0], ast.Name) and node.args[0].id == 'float'):
                return '(.toNum %s)' % self.ex(f.value)
            if isinstance(f, ast.Name) and f.id == 'binarize' and len(node.args) == 1 and not node.keywords:
                return '(.binarize %s)' % self.ex(node.args[0])
            a = np_call(node, 'array', 1)
            if a and len(node.keywords) == 1 and isinstance(kw(node, 'dtype'), ast.Name) and kw(node, 'dtype').id == 'float':
                return self.ex(a[0])
            a = np_call(node, 'dot', 2)
            if a and not node.keywords and all(isinstance(x, ast.Name) for x in a):
                return '(.dot %s %s)' % (q(a[0].id), q(a[1].id))
            a = np_call(node, 'logical_or', 2)
            if a and not node.keywords:
                return '(.lor %s %s)' % (self.ex(a[0]), self.ex(a[1]))
        raise Unrec(node, 'unrecognised expression %s' % src_of(node))

    def stmt(self, st):
        if isinstance(st, ast.If) and isinstance(st.test, ast.Name) and not st.orelse and len(st.body) == 1 \
                and isinstance(st.body[0], ast.Assign) and len(st.body[0].targets) == 1 and isinstance(st.body[0].targets[0], ast.Name):
            return '.bindIf %s %s %s' % (q(st.test.id), q(st.body[0].targets[0].id), self.ex(st.body[0].value))
        if isinstance(st, ast.AugAssign) and isinstance(st.op, ast.Add) and isinstance(st.target, ast.Name):
            if isinstance(st.value, ast.Constant) and type(st.value.value) is int and st.value.value >= 0:
                return '.incr %s %d' % (q(st.target.id), st.value.value)
            return '.augAdd %s %s' % (q(st.target.id), self.ex(st.value))
        if isinstance(st, ast.Assign) and len(st.targets) == 1:
            t, v = st.targets[0], st.value
            if isinstance(t, ast.Name):
                if isinstance(v, ast.Constant) and type(v.value) is int and v.value >= 0:
                    return '.setNat %s %d' % (q(t.id), v.value)
                if isinstance(v, ast.Call) and isinstance(v.func, ast.Name) and len(v.args) == 1 and not v.keywords:
                    if v.func.id == 'len' and isinstance(v.args[0], ast.Name):
                        return '.len %s %s' % (q(t.id), q(v.args[0].id))
                    r_ = v.args[0]
                    if (v.func.id == 'list' and isinstance(r_, ast.Call) and isinstance(r_.func, ast.Name) and r_.func.id == 'range'
                            and len(r_.args) == 1 and isinstance(r_.args[0], ast.Name) and not r_.keywords):
                        return '.rangeList %s %s' % (q(t.id), q(r_.args[0].id))
                a = np_call(v, 'sum', 1)
                if a and len(v.keywords) == 1 and const_nat(kw(v, 'axis')) is not None and isinstance(a[0], ast.Name):
                    return '.sumAxis %s %s %d' % (q(t.id), q(a[0].id), const_nat(kw(v, 'axis')))
                a = np_call(v, 'delete', 2)
                if a and not v.keywords and all(isinstance(x, ast.Name) for x in a):
                    return '.delete %s %s %s' % (q(t.id), q(a[0].id), q(a[1].id))
                return '.bind %s %s' % (q(t.id), self.ex(v))
            if isinstance(t, ast.Tuple) and all(isinstance(e, ast.Name) for e in t.elts):
                w = np_call(v, 'where', 1)
                if (len(t.elts) == 1 and w and not v.keywords and isinstance(w[0], ast.Compare) and len(w[0].ops) == 1
                        and isinstance(w[0].ops[0], ast.Eq) and const_nat(w[0].comparators[0]) == 0 and isinstance(w[0].left, ast.Name)):
                    return '.whereEq0 %s %s' % (q(t.elts[0].id), q(w[0].left.id))
                if (isinstance(v, ast.Call) and isinstance(v.func, ast.Name) and not v.keywords and all(isinstance(x, ast.Name) for x in v.args)):
                    return '.call %s %s %s' % (lst(q(e.id) for e in t.elts), q(v.func.id), lst(q(x.id) for x in v.args))
            if isinstance(t, ast.Subscript) and isinstance(t.value, ast.Name) and is_np(v, 'inf'):
                sl = t.slice
                # m[m == s + k] = np.inf
                if (isinstance(sl, ast.Compare) and len(sl.ops) == 1 and isinstance(sl.ops[0], ast.Eq) and isinstance(sl.left, ast.Name)
                        and sl.left.id == t.value.id and isinstance(sl.comparators[0], ast.BinOp) and isinstance(sl.comparators[0].op, ast.Add)
                        and isinstance(sl.comparators[0].left, ast.Name) and const_nat(sl.comparators[0].right) is not None):
                    return '.infWhereEq %s %s %d' % (q(t.value.id), q(sl.comparators[0].left.id), const_nat(sl.comparators[0].right))
                if isinstance(sl, ast.Tuple) and len(sl.elts) == 2:
                    if full_slice(sl.elts[0]) and isinstance(sl.elts[1], ast.Name):
                        return '.infCols %s %s' % (q(t.value.id), q(sl.elts[1].id))
                    if full_slice(sl.elts[1]) and isinstance(sl.elts[0], ast.Name):
                        return '.infRows %s %s' % (q(t.value.id), q(sl.elts[0].id))
        raise Unrec(st, 'unrecognised statement %s' % src_of(st))


def extract_reach(fn, path):
    r = Routine(fn.name, path)
    r.line = fn.lineno
    a = fn.args
    if a.vararg or a.kwarg or a.kwonlyargs:
        r.bad(fn, 'unexpected parameter kinds')
    bad_rec = ('{ name := "?", params := [], step := [], pw := "?", nn := "?", tm := "?", tr := "?", tc := "?", incrVar := "?", incrBy := 0, '
               'callTargets := [], callee := "?", callArgs := [], ret := [] }')
    f = {'params': lst(q(x.arg) for x in a.args), 'defaults': lean_defaults(defaults_of(fn)), 'inner': bad_rec, 'body': '[]', 'ret': '[]'}
    r.fields = f
    body = body_wo_doc(fn)
    r.parts = {'body': lines_of(body)}
    if len(body) < 3 or not isinstance(body[0], ast.FunctionDef) or not isinstance(body[-1], ast.Return):
        r.bad(fn, 'expected the nested helper definition, statements, `return`')
        return r
    x = ReachX()

    def block(sts):
        out = []
        for st in sts:
            try:
                out.append(x.stmt(st))
            except Unrec as e:
                r.bad(e.node if hasattr(e.node, 'lineno') else st, e.msg)
        return out
    g = body[0]
    ga = g.args
    if ga.vararg or ga.kwarg or ga.kwonlyargs or ga.defaults or g.decorator_list:
        r.bad(g, 'unexpected parameter kinds / decorators on the nested function')
    gb = body_wo_doc(g)
    try:
        if len(gb) < 2 or not isinstance(gb[-1], ast.Return) or not isinstance(gb[-2], ast.If):
            raise Unrec(g, 'expected statements, `if …: …`, `return` in the nested function')
        step = block(gb[:-2])
        nd = gb[-2]
        t = nd.test
        ok = (isinstance(t, ast.BoolOp) and isinstance(t.op, ast.And) and len(t.values) == 2 and not nd.orelse and len(nd.body) == 2)
        c1, c2 = (t.values if ok else (None, None))
        ok = ok and (isinstance(c1, ast.Compare) and len(c1.ops) == 1 and isinstance(c1.ops[0], ast.LtE) and isinstance(c1.left, ast.Name)
                     and isinstance(c1.comparators[0], ast.Name))
        an = np_call(c2, 'any', 1) if ok else None
        ok = ok and bool(an) and not c2.keywords and isinstance(an[0], ast.Compare) and len(an[0].ops) == 1 and isinstance(an[0].ops[0], ast.Eq) \
            and const_nat(an[0].comparators[0]) == 0 and isinstance(an[0].left, ast.Subscript) and isinstance(an[0].left.value, ast.Name)
        ix = np_call(an[0].left.slice, 'ix_', 2) if ok else None
        ok = ok and bool(ix) and not an[0].left.slice.keywords and all(isinstance(z, ast.Name) for z in ix)
        if not ok:
            raise Unrec(nd, 'unrecognised recursion test %s' % src_of(nd.test))
        i0, i1 = nd.body
        if not (isinstance(i0, ast.AugAssign) and isinstance(i0.op, ast.Add) and isinstance(i0.target, ast.Name)
                and isinstance(i0.value, ast.Constant) and type(i0.value.value) is int and i0.value.value >= 0):
            raise Unrec(i0, 'expected `powr += 1`')
        cs = x.stmt(i1)
        if not cs.startswith('.call '):
            raise Unrec(i1, 'expected the recursive call')
        ct, cf, ca = i1.targets[0].elts, i1.value.func.id, i1.value.args
        f['inner'] = ('{ name := %s, params := %s,\n      step := %s,\n      pw := %s, nn := %s, tm := %s, tr := %s, tc := %s,\n'
                      '      incrVar := %s, incrBy := %d, callTargets := %s, callee := %s,\n      callArgs := %s,\n      ret := %s }' % (
                          q(g.name), lst(q(y.arg) for y in ga.args), '[' + ',\n        '.join(step) + ']', q(c1.left.id), q(c1.comparators[0].id),
                          q(an[0].left.value.id), q(ix[0].id), q(ix[1].id), q(i0.target.id), i0.value.value, lst(q(e.id) for e in ct), q(cf),
                          lst(q(y.id) for y in ca), lst(map(q, ret_names(r, gb[-1])))))
    except Unrec as e:
        r.bad(e.node if hasattr(e.node, 'lineno') else g, e.msg)
    except (AttributeError, IndexError, TypeError) as e:
        r.bad(g, 'unrecognised statement shape in the nested function (%s)' % type(e).__name__)
    f['body'] = '[' + ',\n      '.join(block(body[1:-1])) + ']'
    f['ret'] = lst(map(q, ret_names(r, body[-1])))
    r.counts = {'statements': len(body) - 2, 'nested': len(gb)}
    return r


def lean_reach(r, path, prim):
    relb = os.path.basename(path)
    f = r.fields
    a, b = r.parts.get('body', (r.line, r.line))
    out = ['import BctVerif.Props.CoresReach',
           'import BctVerif.Props.CoresUtil',
           '/-!',
           '# GENERATED by translate/cores.py (family reach) — do not edit.  Re-emitted from the current source on every check run.',
           'source: %s' % path,
           '-/',
           'set_option linter.unusedTactic false',
           'set_option linter.unreachableTactic false',
           'namespace Bct.Gen.CoresReach',
           'open Bct Bct.Dist Bct.CoreIR.Reach Bct.Cores.Reach',
           '']
    out += lean_folded_primitive(prim, 'reachdist')
    for p in r.problems:
        out.append('-- NOT RECOGNISED: ' + p.replace('\n', ' '))
    out.append('/-- `reachdist` (%s:%d) -/' % (relb, r.line))
    out.append('def ir_reachdist : ReachIR :=\n  { recognised := %s, origins := %s,\n    params := %s, defaults := %s,\n    inner :=\n    %s,\n'
               '    body := %s,\n    ret := %s }\n' % ('true' if not r.problems else 'false', lean_origins(r), f['params'], f['defaults'], f['inner'],
                                                     f['body'], f['ret']))
    out.append('theorem reachdist_ok : reachOk ir_reachdist = true := by\n  first | decide | fail "reachdist_ok: the statements extracted from '
               'reachdist (%s:%d-%d) %s"\n' % (relb, a, b, 'were not all recognised by translate/cores.py' if r.problems
                                               else 'are not the expected program'))
    out.append('theorem reachdist_computes {n : Nat} (A : AMat Rat n) :\n'
               '    ∃ Dm, run ir_reachdist (n + 1) (embA A) true = some [.mat (boolM (reachdist A).1), .mat Dm] ∧\n'
               '      ∀ i j, toExt? (Dm.get i j) = some ((reachdist A).2.get i j) :=\n'
               '  link_reachdist _ reachdist_ok (n + 1) (Nat.le_refl _) A\n')
    out.append('end Bct.Gen.CoresReach')
    return '\n'.join(out) + '\n'


def family_reach():
    path = os.path.join(common.REPO, 'bct', 'algorithms', 'distance.py')
    fns, err = parse_functions(path)
    name = 'reachdist'
    if name not in fns:
        r = Routine(name, path); r.problems.append('%s: %s' % (name, err or 'function not found in ' + path))
    else:
        try:
            r = extract_reach(fns[name], path)
            check_header(r, fns[name], fns)
        except Exception as e:  # noqa — an extractor crash must not look like success
            r = Routine(name, path); r.problems.append('%s: extractor raised %s: %s' % (name, type(e).__name__, e))
    prim = fold_util_primitive(path, 'binarize')
    return {'module': 'BctVerif.Gen.CoresReach', 'file': 'CoresReach.lean', 'text': lean_reach(r, path, prim), 'sources': [path],
            'routines': {r.name: dict(getattr(r, 'counts', {}), line=r.line, recognised=not r.problems),
                         'binarize (called by reachdist)': dict(line=prim.line, file=rel(prim.file), recognised=not prim.problems)},
            'problems': list(r.problems) + list(prim.problems)}


# ====================================================================== family 'betw'

class BetwX:
    """expression / statement mapping for betweenness_bin (Model/CoreIRBetw.lean: Ex, Stmt)"""

    def __init__(self):
        self.scalars = set()

    def ex(self, node):
        if isinstance(node, ast.Constant) and type(node.value) is int and node.value >= 0:
            return '(.lit %d)' % node.value
        if is_np(node, 'inf'):
            return '.infLit'
        if isinstance(node, ast.Name):
            return ('(.scal %s)' if node.id in self.scalars else '(.ref %s)') % q(node.id)
        if isinstance(node, ast.BinOp):
            op = {ast.Add: 'add', ast.Sub: 'sub', ast.Mult: 'mul', ast.Div: 'div'}.get(type(node.op))
            if op:
                return '(.%s %s %s)' % (op, self.ex(node.left), self.ex(node.right))
        if isinstance(node, ast.Compare) and len(node.ops) == 1:
            op = {ast.Eq: 'eq', ast.NotEq: 'ne'}.get(type(node.ops[0]))
            if op:
                return '(.%s %s %s)' % (op, self.ex(node.left), self.ex(node.comparators[0]))
        if isinstance(node, ast.Attribute) and node.attr == 'T':
            return '(.tr %s)' % self.ex(node.value)
        if isinstance(node, ast.Call):
            f = node.func
            if isinstance(f, ast.Attribute) and f.attr == 'copy' and not node.args and not node.keywords:
                return self.ex(f.value)
            a = np_call(node, 'array', 1)
            if (a and len(node.keywords) == 1 and isinstance(kw(node, 'dtype'), ast.Name) and kw(node, 'dtype').id == 'float'):
                return '(.asFloat %s)' % self.ex(a[0])
            a = np_call(node, 'eye', 1)
            if a and not node.keywords and isinstance(a[0], ast.Name) and a[0].id in self.scalars:
                return '(.eye %s)' % q(a[0].id)
            a = np_call(node, 'zeros', 1)
            if (a and not node.keywords and isinstance(a[0], ast.Tuple) and len(a[0].elts) == 2
                    and all(isinstance(x, ast.Name) and x.id in self.scalars for x in a[0].elts)):
                return '(.zeros %s %s)' % (q(a[0].elts[0].id), q(a[0].elts[1].id))
            a = np_call(node, 'dot', 2)
            if a and not node.keywords:
                return '(.dot %s %s)' % (self.ex(a[0]), self.ex(a[1]))
        raise Unrec(node, 'unrecognised expression %s' % src_of(node))

    def stmt(self, st):
        if isinstance(st, ast.Assign) and len(st.targets) == 1:
            t, v = st.targets[0], st.value
            if isinstance(t, ast.Name):
                if const_int(v) is not None:
                    self.scalars.add(t.id)
                    return '.setScal %s %s' % (q(t.id), lint(const_int(v)))
                if (isinstance(v, ast.Call) and isinstance(v.func, ast.Name) and v.func.id == 'len' and len(v.args) == 1
                        and not v.keywords and isinstance(v.args[0], ast.Name) and v.args[0].id not in self.scalars):
                    self.scalars.add(t.id)
                    return '.setLen %s %s' % (q(t.id), q(v.args[0].id))
                if (isinstance(v, ast.BinOp) and isinstance(v.op, ast.Sub) and isinstance(v.left, ast.Name)
                        and v.left.id in self.scalars and const_int(v.right) is not None):
                    self.scalars.add(t.id)
                    return '.letSub %s %s %s' % (q(t.id), q(v.left.id), lint(const_int(v.right)))
                e = self.ex(v)
                self.scalars.discard(t.id)
                return '.bind %s (%s)' % (q(t.id), e[1:-1] if e.startswith('(') else e)
            if isinstance(t, ast.Subscript) and isinstance(t.value, ast.Name) and t.value.id not in self.scalars:
                if isinstance(t.slice, ast.Compare):
                    return '.setMask %s %s %s' % (q(t.value.id), self.ex(t.slice), self.ex(v))
                a = np_call(t.slice, 'where', 1)
                if a and not t.slice.keywords and isinstance(a[0], ast.Name) and a[0].id not in self.scalars:
                    return '.setWhere %s %s %s' % (q(t.value.id), q(a[0].id), self.ex(v))
        if isinstance(st, ast.AugAssign) and isinstance(st.op, ast.Add) and isinstance(st.target, ast.Name):
            if st.target.id in self.scalars:
                if const_int(st.value) is not None:
                    return '.incr %s %s' % (q(st.target.id), lint(const_int(st.value)))
            else:
                return '.augAdd %s %s' % (q(st.target.id), self.ex(st.value))
        raise Unrec(st, 'unrecognised statement %s' % src_of(st))


class EbcX:
    """expression / statement mapping for edge_betweenness_bin (Model/CoreIREbc.lean: SEx, Stmt, Cond); names are sorted into
    scalars / float vectors / integer vectors / matrices / index arrays by the statement that binds them"""

    def __init__(self, param):
        self.sort = {param: 'mat'}

    def is_(self, node, sort):
        return isinstance(node, ast.Name) and self.sort.get(node.id) == sort

    def sex(self, node):
        z = const_int(node)
        if z is not None:
            return '(.lit %s)' % lint(z)
        if self.is_(node, 'sc'):
            return '(.var %s)' % q(node.id)
        if isinstance(node, ast.BinOp):
            op = {ast.Add: 'add', ast.Sub: 'sub', ast.Mult: 'mul', ast.Div: 'div'}.get(type(node.op))
            if op:
                return '(.%s %s %s)' % (op, self.sex(node.left), self.sex(node.right))
        if (isinstance(node, ast.Subscript) and self.is_(node.value, 'vec')
                and not isinstance(node.slice, (ast.Tuple, ast.Slice))):
            return '(.at1 %s %s)' % (q(node.value.id), self.sex(node.slice))
        raise Unrec(node, 'unrecognised scalar expression %s' % src_of(node))

    def row_of(self, node):
        """m[i, :] -> (m, i)"""
        if (isinstance(node, ast.Subscript) and self.is_(node.value, 'mat') and isinstance(node.slice, ast.Tuple)
                and len(node.slice.elts) == 2 and full_slice(node.slice.elts[1])):
            return node.value.id, node.slice.elts[0]
        return None

    def cond(self, node):
        a = np_call(node, 'any', 1)
        if a and not node.keywords:
            b = np_call(a[0], 'logical_not', 1)
            if b and not a[0].keywords and self.is_(b[0], 'vec'):
                return '(.anyNot %s)' % q(b[0].id)
            raise Unrec(node, 'unrecognised test %s' % src_of(node))
        return '(.truthy %s)' % self.sex(node)

    def zeros(self, v):
        """np.zeros((d,)) / np.zeros((d,), dtype=int) / np.zeros((d1, d2)) -> (constructor, dims, sort)"""
        a = np_call(v, 'zeros', 1)
        if not a or not isinstance(a[0], ast.Tuple) or not all(self.is_(x, 'sc') for x in a[0].elts):
            return None
        dims = [x.id for x in a[0].elts]
        if len(dims) == 1 and not v.keywords:
            return 'zeros1', dims, 'vec'
        if (len(dims) == 1 and len(v.keywords) == 1 and isinstance(kw(v, 'dtype'), ast.Name) and kw(v, 'dtype').id == 'int'):
            return 'zeros1i', dims, 'ivec'
        if len(dims) == 2 and not v.keywords:
            return 'zeros2', dims, 'mat'
        return None

    def stmt(self, st):
        if isinstance(st, ast.Assign) and len(st.targets) == 1:
            t, v = st.targets[0], st.value
            if isinstance(t, ast.Name):
                x = t.id
                if (isinstance(v, ast.Call) and isinstance(v.func, ast.Name) and v.func.id == 'len' and len(v.args) == 1
                        and not v.keywords and self.is_(v.args[0], 'mat')):
                    self.sort[x] = 'sc'
                    return '.setLen %s %s' % (q(x), q(v.args[0].id))
                z = self.zeros(v)
                if z:
                    self.sort[x] = z[2]
                    return '.%s %s %s' % (z[0], q(x), ' '.join(q(d) for d in z[1]))
                if (isinstance(v, ast.Call) and isinstance(v.func, ast.Attribute) and v.func.attr == 'copy' and not v.args
                        and not v.keywords and self.is_(v.func.value, 'mat')):
                    self.sort[x] = 'mat'
                    return '.copy %s %s' % (q(x), q(v.func.value.id))
                a = np_call(v, 'array', 1)
                if a and not v.keywords and isinstance(a[0], ast.List) and len(a[0].elts) == 1:
                    e = self.sex(a[0].elts[0])
                    self.sort[x] = 'lst'
                    return '.single %s %s' % (q(x), e)
                e = self.sex(v)
                self.sort[x] = 'sc'
                return '.letS %s %s' % (q(x), e)
            if isinstance(t, ast.Subscript) and isinstance(t.value, ast.Name):
                m, ix = t.value.id, t.slice
                if self.sort.get(m) in ('vec', 'ivec') and not isinstance(ix, (ast.Tuple, ast.Slice)):
                    return '.%s %s %s %s' % ('set1' if self.sort[m] == 'vec' else 'set1i', q(m), self.sex(ix), self.sex(v))
                if self.sort.get(m) == 'mat' and isinstance(ix, ast.Tuple) and len(ix.elts) == 2:
                    if full_slice(ix.elts[0]) and self.is_(ix.elts[1], 'lst') and const_int(v) is not None:
                        return '.clearCols %s %s %s' % (q(m), q(ix.elts[1].id), lint(const_int(v)))
                    if not any(isinstance(e, ast.Slice) for e in ix.elts):
                        return '.set2 %s %s %s %s' % (q(m), self.sex(ix.elts[0]), self.sex(ix.elts[1]), self.sex(v))
            if isinstance(t, ast.Tuple) and len(t.elts) == 1:
                t0 = t.elts[0]
                a = np_call(v, 'where', 1)
                if a and not v.keywords:
                    if isinstance(t0, ast.Name):
                        row = self.row_of(a[0])
                        if row:
                            e = self.sex(row[1])
                            self.sort[t0.id] = 'lst'
                            return '.whereRow %s %s %s' % (q(t0.id), q(row[0]), e)
                        b = np_call(a[0], 'any', 1)
                        if (b and len(a[0].keywords) == 1 and const_int(kw(a[0], 'axis')) == 0 and isinstance(b[0], ast.Subscript)
                                and self.is_(b[0].value, 'mat') and isinstance(b[0].slice, ast.Tuple) and len(b[0].slice.elts) == 2
                                and self.is_(b[0].slice.elts[0], 'lst') and full_slice(b[0].slice.elts[1])):
                            l = b[0].slice.elts[0].id
                            self.sort[t0.id] = 'lst'
                            return '.whereAnyRows %s %s %s' % (q(t0.id), q(b[0].value.id), q(l))
                    if (isinstance(t0, ast.Subscript) and self.is_(t0.value, 'ivec') and isinstance(t0.slice, ast.Slice)
                            and t0.slice.lower is None and t0.slice.step is None and t0.slice.upper is not None):
                        b = np_call(a[0], 'logical_not', 1)
                        if b and not a[0].keywords and self.is_(b[0], 'vec'):
                            return '.fillPrefix %s %s %s' % (q(t0.value.id), self.sex(t0.slice.upper), q(b[0].id))
        if isinstance(st, ast.AugAssign):
            t = st.target
            if isinstance(st.op, ast.Sub) and self.is_(t, 'sc'):
                return '.subS %s %s' % (q(t.id), self.sex(st.value))
            if isinstance(st.op, ast.Add) and isinstance(t, ast.Subscript) and isinstance(t.value, ast.Name):
                m, ix = t.value.id, t.slice
                if self.sort.get(m) == 'vec' and not isinstance(ix, (ast.Tuple, ast.Slice)):
                    return '.aug1 %s %s %s' % (q(m), self.sex(ix), self.sex(st.value))
                if (self.sort.get(m) == 'mat' and isinstance(ix, ast.Tuple) and len(ix.elts) == 2
                        and not any(isinstance(e, ast.Slice) for e in ix.elts)):
                    return '.aug2 %s %s %s %s' % (q(m), self.sex(ix.elts[0]), self.sex(ix.elts[1]), self.sex(st.value))
        raise Unrec(st, 'unrecognised statement %s' % src_of(st))


EBC_FIELDS = dict(param=q('?'), pre='[]', srcVar=q('?'), srcN=q('?'), init='[]', front=q('?'), clear='[]', vVar=q('?'), vIter=q('?'),
                  visit='[]', wVar=q('?'), wIter=q('?'), seenCond='(.truthy (.lit 0))', seen='[]', fresh='[]', next='[]',
                  fillCond='(.truthy (.lit 0))', fill='[]', mid='[]', bwVar=q('?'), bwVec=q('?'), bwHi='(.lit 0)', acc='[]',
                  bvVar=q('?'), bvMat=q('?'), bvRow='(.lit 0)', dep='[]', ret0=q('?'), ret1=q('?'))
EBC_ORDER = ['param', 'pre', 'srcVar', 'srcN', 'init', 'front', 'clear', 'vVar', 'vIter', 'visit', 'wVar', 'wIter', 'seenCond', 'seen',
             'fresh', 'next', 'fillCond', 'fill', 'mid', 'bwVar', 'bwVec', 'bwHi', 'acc', 'bvVar', 'bvMat', 'bvRow', 'dep', 'ret0', 'ret1']


def extract_ebc(fn, path):
    r = Routine(fn.name, path)
    r.line = fn.lineno
    a = fn.args
    if len(a.args) != 1 or a.vararg or a.kwarg or a.kwonlyargs or a.defaults:
        r.bad(fn, 'expected exactly one parameter without default')
    f = dict(EBC_FIELDS)
    f['param'] = q(a.args[0].arg if a.args else '?')
    r.fields = f
    r.counts = {}
    body = body_wo_doc(fn)
    r.parts = {'body': lines_of(body)}
    x = EbcX(a.args[0].arg if a.args else '?')

    def block(key, sts):
        out = []
        for st in sts:
            try:
                out.append(x.stmt(st))
            except Unrec as e:
                r.bad(e.node if hasattr(e.node, 'lineno') else st, e.msg)
        f[key] = '[' + ',\n      '.join(out) + ']'
        r.counts[key] = len(sts)

    def guarded(key, fun, node):
        try:
            f[key] = fun(node)
        except Unrec as e:
            r.bad(e.node if hasattr(e.node, 'lineno') else node, e.msg)

    def shape(node, msg):
        r.bad(node, msg)
        return r

    def loop_var(lp, key):
        if not isinstance(lp.target, ast.Name) or lp.orelse:
            r.bad(lp, 'unrecognised loop header for %s' % src_of(lp.target))
            return
        f[key] = q(lp.target.id)
        x.sort[lp.target.id] = 'sc'

    # statements, `for u in range(n):`, `return A, b`
    if (len(body) < 2 or not isinstance(body[-2], ast.For) or not isinstance(body[-1], ast.Return)
            or any(isinstance(st, (ast.For, ast.While, ast.If)) for st in body[:-2])):
        return shape(fn, 'expected statements, one `for` loop, `return`')
    block('pre', body[:-2])
    src = body[-2]
    it = src.iter
    if (isinstance(it, ast.Call) and isinstance(it.func, ast.Name) and it.func.id == 'range' and len(it.args) == 1 and not it.keywords
            and x.is_(it.args[0], 'sc')):
        f['srcN'] = q(it.args[0].id)
    else:
        r.bad(src, 'unrecognised loop range %s' % src_of(it))
    loop_var(src, 'srcVar')
    rv = body[-1].value
    if (isinstance(rv, ast.Tuple) and len(rv.elts) == 2 and isinstance(rv.elts[0], ast.Name) and isinstance(rv.elts[1], ast.Name)):
        ret = (rv.elts[0].id, rv.elts[1].id)
    else:
        ret = None
        r.bad(body[-1], 'unrecognised return value %s' % src_of(rv))
    # body of the source loop: statements, `while`, `if`, statements, `for`
    sb = src.body
    wl = [i for i, st in enumerate(sb) if isinstance(st, ast.While)]
    if (len(wl) != 1 or len(sb) < wl[0] + 3 or not isinstance(sb[wl[0] + 1], ast.If) or not isinstance(sb[-1], ast.For)
            or any(isinstance(st, (ast.For, ast.While, ast.If)) for st in sb[:wl[0]] + sb[wl[0] + 2:-1])):
        return shape(src, 'expected statements, `while`, `if`, statements, `for` in the body of the source loop')
    wi = wl[0]
    block('init', sb[:wi])
    w = sb[wi]
    if (isinstance(w.test, ast.Attribute) and w.test.attr == 'size' and x.is_(w.test.value, 'lst') and not w.orelse):
        f['front'] = q(w.test.value.id)
    else:
        r.bad(w, 'unrecognised loop test %s' % src_of(w.test))
    fl = [i for i, st in enumerate(w.body) if isinstance(st, ast.For)]
    if len(fl) != 1 or any(isinstance(st, (ast.While, ast.If)) for st in w.body):
        return shape(w, 'expected statements, one `for` loop, statements in the body of the `while` loop')
    block('clear', w.body[:fl[0]])
    lv = w.body[fl[0]]
    if x.is_(lv.iter, 'lst'):
        f['vIter'] = q(lv.iter.id)
    else:
        r.bad(lv, 'unrecognised iterable %s' % src_of(lv.iter))
    loop_var(lv, 'vVar')
    if (not lv.body or not isinstance(lv.body[-1], ast.For)
            or any(isinstance(st, (ast.For, ast.While, ast.If)) for st in lv.body[:-1])):
        return shape(lv, 'expected statements, one `for` loop in the body of the node loop')
    block('visit', lv.body[:-1])
    lw = lv.body[-1]
    if x.is_(lw.iter, 'lst'):
        f['wIter'] = q(lw.iter.id)
    else:
        r.bad(lw, 'unrecognised iterable %s' % src_of(lw.iter))
    loop_var(lw, 'wVar')
    if len(lw.body) != 1 or not isinstance(lw.body[0], ast.If) or not lw.body[0].orelse:
        return shape(lw, 'expected one `if … else …` in the body of the neighbour loop')
    br = lw.body[0]
    guarded('seenCond', x.cond, br.test)
    if any(isinstance(st, (ast.For, ast.While, ast.If)) for st in br.body + br.orelse):
        return shape(br, 'expected simple statements in both branches')
    block('seen', br.body)
    block('fresh', br.orelse)
    block('next', w.body[fl[0] + 1:])
    fi = sb[wi + 1]
    guarded('fillCond', x.cond, fi.test)
    if fi.orelse or any(isinstance(st, (ast.For, ast.While, ast.If)) for st in fi.body):
        return shape(fi, 'expected simple statements and no `else`')
    block('fill', fi.body)
    block('mid', sb[wi + 2:-1])
    bw = sb[-1]
    it = bw.iter
    if (isinstance(it, ast.Subscript) and x.is_(it.value, 'ivec') and isinstance(it.slice, ast.Slice) and it.slice.lower is None
            and it.slice.step is None and it.slice.upper is not None):
        f['bwVec'] = q(it.value.id)
        guarded('bwHi', x.sex, it.slice.upper)
    else:
        r.bad(bw, 'unrecognised iterable %s' % src_of(it))
    loop_var(bw, 'bwVar')
    if (not bw.body or not isinstance(bw.body[-1], ast.For)
            or any(isinstance(st, (ast.For, ast.While, ast.If)) for st in bw.body[:-1])):
        return shape(bw, 'expected statements, one `for` loop in the body of the back-propagation loop')
    block('acc', bw.body[:-1])
    bv = bw.body[-1]
    it = bv.iter
    ok = False
    if isinstance(it, ast.Subscript) and const_int(it.slice) == 0:
        c = np_call(it.value, 'where', 1)
        row = x.row_of(c[0]) if c and not it.value.keywords else None
        if row:
            f['bvMat'] = q(row[0])
            guarded('bvRow', x.sex, row[1])
            ok = True
    if not ok:
        r.bad(bv, 'unrecognised iterable %s' % src_of(it))
    loop_var(bv, 'bvVar')
    if any(isinstance(st, (ast.For, ast.While, ast.If)) for st in bv.body):
        return shape(bv, 'expected simple statements in the body of the predecessor loop')
    block('dep', bv.body)
    if ret:
        if x.sort.get(ret[0]) == 'mat' and x.sort.get(ret[1]) == 'vec':
            f['ret0'], f['ret1'] = q(ret[0]), q(ret[1])
        else:
            r.bad(body[-1], 'unrecognised return value %s' % src_of(rv))
    return r


class WeiX(EbcX):
    """expression / statement mapping for betweenness_wei / edge_betweenness_wei (Model/CoreIRBwei.lean: SEx, Stmt, Cond):
    the mapping of edge_betweenness_bin plus infinite distances, the boolean vector `S`, matrix cells and rows"""

    def sex(self, node):
        if (isinstance(node, ast.Subscript) and self.is_(node.value, 'mat') and isinstance(node.slice, ast.Tuple)
                and len(node.slice.elts) == 2 and not any(isinstance(e, ast.Slice) for e in node.slice.elts)):
            return '(.at2 %s %s %s)' % (q(node.value.id), self.sex(node.slice.elts[0]), self.sex(node.slice.elts[1]))
        return EbcX.sex(self, node)

    def min_sel(self, node):
        """np.min(d[s]) -> (d, s)"""
        a = np_call(node, 'min', 1)
        if (a and not node.keywords and isinstance(a[0], ast.Subscript) and self.is_(a[0].value, 'vec') and self.is_(a[0].slice, 'bvec')):
            return a[0].value.id, a[0].slice.id
        return None

    def cond(self, node):
        if isinstance(node, ast.Compare) and len(node.ops) == 1:
            l, r_ = node.left, node.comparators[0]
            if (isinstance(node.ops[0], ast.Eq) and isinstance(l, ast.Attribute) and l.attr == 'size' and isinstance(l.value, ast.Subscript)
                    and self.is_(l.value.value, 'vec') and self.is_(l.value.slice, 'bvec') and const_int(r_) == 0):
                return '(.selEmpty %s %s)' % (q(l.value.value.id), q(l.value.slice.id))
            op = {ast.Lt: 'lt', ast.Eq: 'eq'}.get(type(node.ops[0]))
            if op:
                return '(.%s %s %s)' % (op, self.sex(l), self.sex(r_))
        a = np_call(node, 'isinf', 1)
        if a and not node.keywords:
            ms = self.min_sel(a[0])
            if ms:
                return '(.minSelInf %s %s)' % (q(ms[0]), q(ms[1]))
        raise Unrec(node, 'unrecognised test %s' % src_of(node))

    def stmt(self, st):
        if isinstance(st, ast.Assign) and len(st.targets) == 1:
            t, v = st.targets[0], st.value
            if isinstance(t, ast.Name):
                x = t.id
                a = np_call(v, 'tile', 2)
                if a and not v.keywords and is_np(a[0], 'inf'):
                    if self.is_(a[1], 'sc'):
                        self.sort[x] = 'vec'
                        return '.tileInf %s %s false' % (q(x), q(a[1].id))
                    if isinstance(a[1], ast.Tuple) and len(a[1].elts) == 1 and self.is_(a[1].elts[0], 'sc'):
                        self.sort[x] = 'vec'
                        return '.tileInf %s %s true' % (q(x), q(a[1].elts[0].id))
                a = np_call(v, 'ones', 1)
                if (a and len(v.keywords) == 1 and isinstance(kw(v, 'dtype'), ast.Name) and kw(v, 'dtype').id == 'bool'
                        and isinstance(a[0], ast.Tuple) and len(a[0].elts) == 1 and self.is_(a[0].elts[0], 'sc')):
                    self.sort[x] = 'bvec'
                    return '.onesB %s %s' % (q(x), q(a[0].elts[0].id))
                if isinstance(v, ast.List) and len(v.elts) == 1:
                    e = self.sex(v.elts[0])
                    self.sort[x] = 'lst'
                    return '.single %s %s' % (q(x), e)
                if np_call(v, 'array', 1):
                    raise Unrec(st, 'unrecognised statement %s' % src_of(st))
            if isinstance(t, ast.Subscript) and isinstance(t.value, ast.Name):
                m, ix = t.value.id, t.slice
                if self.sort.get(m) == 'bvec' and self.is_(ix, 'lst') and const_int(v) is not None:
                    return '.clearB %s %s %s' % (q(m), q(ix.id), lint(const_int(v)))
                if (self.sort.get(m) == 'mat' and isinstance(ix, ast.Tuple) and len(ix.elts) == 2 and full_slice(ix.elts[1])
                        and not isinstance(ix.elts[0], ast.Slice) and const_int(v) is not None):
                    return '.setRow %s %s %s' % (q(m), self.sex(ix.elts[0]), lint(const_int(v)))
            if isinstance(t, ast.Tuple) and len(t.elts) == 1:
                t0 = t.elts[0]
                a = np_call(v, 'where', 1)
                if a and not v.keywords:
                    c = a[0]
                    if (isinstance(t0, ast.Name) and isinstance(c, ast.Compare) and len(c.ops) == 1 and isinstance(c.ops[0], ast.Eq)
                            and self.is_(c.left, 'vec')):
                        ms = self.min_sel(c.comparators[0])
                        if ms:
                            self.sort[t0.id] = 'lst'
                            return '.whereEqMin %s %s %s %s' % (q(t0.id), q(c.left.id), q(ms[0]), q(ms[1]))
                    la = np_call(c, 'logical_and', 2)
                    if la and not c.keywords and isinstance(t0, ast.Name):
                        # x, = np.where(np.logical_and(d == np.min(d'[s]), s'))
                        c0 = la[0]
                        if (isinstance(c0, ast.Compare) and len(c0.ops) == 1 and isinstance(c0.ops[0], ast.Eq) and self.is_(c0.left, 'vec')
                                and self.is_(la[1], 'bvec')):
                            ms = self.min_sel(c0.comparators[0])
                            if ms:
                                self.sort[t0.id] = 'lst'
                                return '.whereEqMinIn %s %s %s %s %s' % (q(t0.id), q(c0.left.id), q(ms[0]), q(ms[1]), q(la[1].id))
                        raise Unrec(st, 'unrecognised statement %s' % src_of(st))
                    if (isinstance(t0, ast.Subscript) and self.is_(t0.value, 'ivec') and isinstance(t0.slice, ast.Slice)
                            and t0.slice.lower is None and t0.slice.step is None and t0.slice.upper is not None):
                        b = np_call(c, 'isinf', 1)
                        if b and not c.keywords and self.is_(b[0], 'vec'):
                            return '.fillPrefixInf %s %s %s' % (q(t0.value.id), self.sex(t0.slice.upper), q(b[0].id))
                        raise Unrec(st, 'unrecognised statement %s' % src_of(st))
                    if np_call(c, 'any', 1):
                        raise Unrec(st, 'unrecognised statement %s' % src_of(st))
        return EbcX.stmt(self, st)


WEI_FIELDS = dict(param=q('?'), pre='[]', srcVar=q('?'), srcN=q('?'), init='[]', head='[]', vVar=q('?'), vIter=q('?'), visit='[]',
                  wVar=q('?'), wIter=q('?'), relaxPre='[]', c1='(.lt (.lit 0) (.lit 0))', s1='[]', c2='(.lt (.lit 0) (.lit 0))', s2='[]',
                  exit1='(.lt (.lit 0) (.lit 0))', exit2='(.lt (.lit 0) (.lit 0))', fill='[]', next='[]', mid='[]', bwVar=q('?'), bwVec=q('?'),
                  bwHi='(.lit 0)', acc='[]', bvVar=q('?'), bvMat=q('?'), bvRow='(.lit 0)', dep='[]', ret='[]')
WEI_ORDER = ['param', 'pre', 'srcVar', 'srcN', 'init', 'head', 'vVar', 'vIter', 'visit', 'wVar', 'wIter', 'relaxPre', 'c1', 's1', 'c2', 's2',
             'exit1', 'exit2', 'fill', 'next', 'mid', 'bwVar', 'bwVec', 'bwHi', 'acc', 'bvVar', 'bvMat', 'bvRow', 'dep', 'ret']


def extract_wei(fn, path):
    r = Routine(fn.name, path)
    r.line = fn.lineno
    a = fn.args
    if len(a.args) != 1 or a.vararg or a.kwarg or a.kwonlyargs or a.defaults:
        r.bad(fn, 'expected exactly one parameter without default')
    f = dict(WEI_FIELDS)
    f['param'] = q(a.args[0].arg if a.args else '?')
    r.fields = f
    r.counts = {}
    body = body_wo_doc(fn)
    r.parts = {'body': lines_of(body)}
    x = WeiX(a.args[0].arg if a.args else '?')
    ctl = (ast.For, ast.While, ast.If, ast.Break)

    def block(key, sts):
        out = []
        for st in sts:
            try:
                out.append(x.stmt(st))
            except Unrec as e:
                r.bad(e.node if hasattr(e.node, 'lineno') else st, e.msg)
        f[key] = '[' + ',\n      '.join(out) + ']'
        r.counts[key] = len(sts)

    def guarded(key, fun, node):
        try:
            f[key] = fun(node)
        except Unrec as e:
            r.bad(e.node if hasattr(e.node, 'lineno') else node, e.msg)

    def shape(node, msg):
        r.bad(node, msg)
        return r

    def loop_var(lp, key):
        if not isinstance(lp.target, ast.Name) or lp.orelse:
            r.bad(lp, 'unrecognised loop header for %s' % src_of(lp.target))
            return
        f[key] = q(lp.target.id)
        x.sort[lp.target.id] = 'sc'

    def simple(sts):
        return not any(isinstance(st, ctl) for st in sts)

    if (len(body) < 2 or not isinstance(body[-2], ast.For) or not isinstance(body[-1], ast.Return) or not simple(body[:-2])):
        return shape(fn, 'expected statements, one `for` loop, `return`')
    block('pre', body[:-2])
    src = body[-2]
    it = src.iter
    if (isinstance(it, ast.Call) and isinstance(it.func, ast.Name) and it.func.id == 'range' and len(it.args) == 1 and not it.keywords
            and x.is_(it.args[0], 'sc')):
        f['srcN'] = q(it.args[0].id)
    else:
        r.bad(src, 'unrecognised loop range %s' % src_of(it))
    loop_var(src, 'srcVar')
    rv = body[-1].value
    if isinstance(rv, ast.Name):
        ret = [rv.id]
    elif isinstance(rv, ast.Tuple) and len(rv.elts) == 2 and all(isinstance(e, ast.Name) for e in rv.elts):
        ret = [e.id for e in rv.elts]
    else:
        ret = None
        r.bad(body[-1], 'unrecognised return value %s' % src_of(rv))
    sb = src.body
    wl = [i for i, st in enumerate(sb) if isinstance(st, ast.While)]
    if (len(wl) != 1 or len(sb) < wl[0] + 2 or not isinstance(sb[-1], ast.For) or not simple(sb[:wl[0]] + sb[wl[0] + 1:-1])):
        return shape(src, 'expected statements, `while`, statements, `for` in the body of the source loop')
    wi = wl[0]
    block('init', sb[:wi])
    w = sb[wi]
    if not (isinstance(w.test, ast.Constant) and w.test.value is True and not w.orelse):
        r.bad(w, 'unrecognised loop test %s' % src_of(w.test))
    fl = [i for i, st in enumerate(w.body) if isinstance(st, ast.For)]
    if len(fl) != 1 or len(w.body) < fl[0] + 3 or not simple(w.body[:fl[0]]):
        return shape(w, 'expected statements, one `for` loop, two `if … break`, statements in the body of the `while` loop')
    block('head', w.body[:fl[0]])
    lv = w.body[fl[0]]
    if x.is_(lv.iter, 'lst'):
        f['vIter'] = q(lv.iter.id)
    else:
        r.bad(lv, 'unrecognised iterable %s' % src_of(lv.iter))
    loop_var(lv, 'vVar')
    if not lv.body or not isinstance(lv.body[-1], ast.For) or not simple(lv.body[:-1]):
        return shape(lv, 'expected statements, one `for` loop in the body of the node loop')
    block('visit', lv.body[:-1])
    lw = lv.body[-1]
    if x.is_(lw.iter, 'lst'):
        f['wIter'] = q(lw.iter.id)
    else:
        r.bad(lw, 'unrecognised iterable %s' % src_of(lw.iter))
    loop_var(lw, 'wVar')
    if not lw.body or not isinstance(lw.body[-1], ast.If) or not simple(lw.body[:-1]):
        return shape(lw, 'expected statements and one `if … elif …` in the body of the neighbour loop')
    block('relaxPre', lw.body[:-1])
    br = lw.body[-1]
    if (len(br.orelse) != 1 or not isinstance(br.orelse[0], ast.If) or br.orelse[0].orelse or not simple(br.body)
            or not simple(br.orelse[0].body)):
        return shape(br, 'expected `if …: … elif …: …` with simple statements and no `else`')
    guarded('c1', x.cond, br.test)
    block('s1', br.body)
    guarded('c2', x.cond, br.orelse[0].test)
    block('s2', br.orelse[0].body)
    e1, e2 = w.body[fl[0] + 1], w.body[fl[0] + 2]
    if not (isinstance(e1, ast.If) and not e1.orelse and len(e1.body) == 1 and isinstance(e1.body[0], ast.Break)):
        return shape(e1, 'expected `if …: break`')
    guarded('exit1', x.cond, e1.test)
    if not (isinstance(e2, ast.If) and not e2.orelse and e2.body and isinstance(e2.body[-1], ast.Break) and simple(e2.body[:-1])):
        return shape(e2, 'expected `if …: …; break`')
    guarded('exit2', x.cond, e2.test)
    block('fill', e2.body[:-1])
    if not simple(w.body[fl[0] + 3:]):
        return shape(w, 'expected simple statements at the end of the `while` loop')
    block('next', w.body[fl[0] + 3:])
    block('mid', sb[wi + 1:-1])
    bw = sb[-1]
    it = bw.iter
    if (isinstance(it, ast.Subscript) and x.is_(it.value, 'ivec') and isinstance(it.slice, ast.Slice) and it.slice.lower is None
            and it.slice.step is None and it.slice.upper is not None):
        f['bwVec'] = q(it.value.id)
        guarded('bwHi', x.sex, it.slice.upper)
    else:
        r.bad(bw, 'unrecognised iterable %s' % src_of(it))
    loop_var(bw, 'bwVar')
    if not bw.body or not isinstance(bw.body[-1], ast.For) or not simple(bw.body[:-1]):
        return shape(bw, 'expected statements, one `for` loop in the body of the back-propagation loop')
    block('acc', bw.body[:-1])
    bv = bw.body[-1]
    it = bv.iter
    ok = False
    if isinstance(it, ast.Subscript) and const_int(it.slice) == 0:
        c = np_call(it.value, 'where', 1)
        row = x.row_of(c[0]) if c and not it.value.keywords else None
        if row:
            f['bvMat'] = q(row[0])
            guarded('bvRow', x.sex, row[1])
            ok = True
    if not ok:
        r.bad(bv, 'unrecognised iterable %s' % src_of(it))
    loop_var(bv, 'bvVar')
    if not simple(bv.body):
        return shape(bv, 'expected simple statements in the body of the predecessor loop')
    block('dep', bv.body)
    if ret:
        sorts = [x.sort.get(n_) for n_ in ret]
        if sorts in (['vec'], ['mat', 'vec']):
            f['ret'] = lst(q(n_) for n_ in ret)
        else:
            r.bad(body[-1], 'unrecognised return value %s' % src_of(rv))
    return r


BETW_FIELDS = {'param': q('?'), 'pre': '[]', 'cond': q('?'), 'body': '[]', 'mid': '[]', 'loopVar': q('?'), 'loopHi': q('?'),
               'loopLo': '0', 'loopStep': '0', 'back': '[]', 'ret': q('?'), 'retAxis': '99'}


def extract_betw(fn, path):
    r = Routine(fn.name, path)
    r.line = fn.lineno
    a = fn.args
    if len(a.args) != 1 or a.vararg or a.kwarg or a.kwonlyargs or a.defaults:
        r.bad(fn, 'expected exactly one parameter without default')
    f = dict(BETW_FIELDS)
    f['param'] = q(a.args[0].arg if a.args else '?')
    r.fields = f
    body = body_wo_doc(fn)
    wl = [i for i, st in enumerate(body) if isinstance(st, ast.While)]
    fl = [i for i, st in enumerate(body) if isinstance(st, ast.For)]
    if len(wl) != 1 or len(fl) != 1 or not wl[0] < fl[0] == len(body) - 2 or not isinstance(body[-1], ast.Return):
        r.bad(fn, 'expected statements, one `while` loop, statements, one `for` loop, `return`')
        return r
    x = BetwX()

    def block(sts):
        out = []
        for st in sts:
            try:
                out.append(x.stmt(st))
            except Unrec as e:
                r.bad(e.node if hasattr(e.node, 'lineno') else st, e.msg)
        return '[' + ',\n      '.join(out) + ']'
    wi, fi = wl[0], fl[0]
    f['pre'] = block(body[:wi])
    w = body[wi]
    c = np_call(w.test, 'any', 1)
    if c and not w.test.keywords and isinstance(c[0], ast.Name) and not w.orelse:
        f['cond'] = q(c[0].id)
    else:
        r.bad(w, 'unrecognised loop test %s' % src_of(w.test))
    f['body'] = block(w.body)
    f['mid'] = block(body[wi + 1:fi])
    lp = body[fi]
    it = lp.iter
    if (isinstance(lp.target, ast.Name) and not lp.orelse and isinstance(it, ast.Call) and isinstance(it.func, ast.Name)
            and it.func.id == 'range' and len(it.args) == 3 and not it.keywords and isinstance(it.args[0], ast.Name)
            and it.args[0].id in x.scalars and const_int(it.args[1]) is not None and const_int(it.args[2]) is not None):
        f['loopVar'] = q(lp.target.id)
        f['loopHi'] = q(it.args[0].id)
        f['loopLo'] = lint(const_int(it.args[1]))
        f['loopStep'] = lint(const_int(it.args[2]))
        x.scalars.add(lp.target.id)
    else:
        r.bad(lp, 'unrecognised loop header for %s in %s' % (src_of(lp.target), src_of(it)))
    f['back'] = block(lp.body)
    rv = body[-1].value
    c = np_call(rv, 'sum', 1) if rv is not None else None
    if (c and isinstance(c[0], ast.Name) and c[0].id not in x.scalars and len(rv.keywords) == 1
            and const_int(kw(rv, 'axis')) is not None and const_int(kw(rv, 'axis')) >= 0):
        f['ret'] = q(c[0].id)
        f['retAxis'] = '%d' % const_int(kw(rv, 'axis'))
    else:
        r.bad(body[-1], 'unrecognised return value %s' % src_of(rv))
    r.parts = {'body': lines_of(body)}
    r.counts = {'pre': wi, 'body': len(w.body), 'mid': fi - wi - 1, 'back': len(lp.body)}
    return r


def lean_wei(r, ref, link, concl):
    relb = os.path.basename(r.file)
    f = r.fields or dict(WEI_FIELDS)
    a, b = r.parts.get('body', (r.line, r.line))
    out = []
    for p in r.problems:
        out.append('-- NOT RECOGNISED: ' + p.replace('\n', ' '))
    out.append('/-- `%s` (%s:%d) -/' % (r.name, relb, r.line))
    out.append('def ir_%s : Bwei.WeiIR :=\n  { name := %s, recognised := %s, origins := %s,\n    %s }\n'
               % (r.name, q(r.name), 'true' if not r.problems else 'false', lean_origins(r),
                  ',\n    '.join('%s := %s' % (k, f[k]) for k in WEI_ORDER)))
    out.append('theorem %s_ok : Bwei.weiOk Bwei.%s ir_%s = true := by\n  first | decide | fail "%s_ok: the statements extracted from %s '
               '(%s:%d-%d) %s"\n' % (r.name, ref, r.name, r.name, r.name, relb, a, b,
                                     'were not all recognised by translate/cores.py' if r.problems else 'are not the expected program'))
    out.append('theorem %s_computes {n : Nat} (G : AMat Nat n) :\n    Bwei.run ir_%s (n + 1) (Bct.Cores.Bwei.embM G) =\n%s :=\n'
               '  Bct.Cores.Bwei.%s _ %s_ok G\n' % (r.name, r.name, concl, link, r.name))
    return out


def lean_betw(r, path, r2=None, rw=()):
    relb = os.path.basename(path)
    f = r.fields or dict(BETW_FIELDS)
    a, b = r.parts.get('body', (r.line, r.line))
    out = ['import BctVerif.Props.CoresBetw',
           'import BctVerif.Props.CoresEbc',
           'import BctVerif.Props.CoresBwei',
           '/-!',
           '# GENERATED by translate/cores.py (family betw) — do not edit.  Re-emitted from the current source on every check run.',
           'source: %s' % path,
           '-/',
           'set_option linter.unusedTactic false',
           'set_option linter.unreachableTactic false',
           'namespace Bct.Gen.CoresBetw',
           'open Bct Bct.Between Bct.CoreIR Bct.CoreIR.Betw Bct.Cores.Betw',
           '']
    for p in r.problems:
        out.append('-- NOT RECOGNISED: ' + p.replace('\n', ' '))
    out.append('/-- `betweenness_bin` (%s:%d) -/' % (relb, r.line))
    out.append('def ir_betweenness_bin : BetwIR :=\n  { recognised := %s, origins := %s,\n    param := %s,\n    pre := %s,\n    cond := %s,\n'
               '    body := %s,\n    mid := %s,\n    loopVar := %s, loopHi := %s, loopLo := %s, loopStep := %s,\n    back := %s,\n'
               '    ret := %s, retAxis := %s }\n'
               % ('true' if not r.problems else 'false', lean_origins(r), f['param'], f['pre'], f['cond'], f['body'], f['mid'],
                  f['loopVar'], f['loopHi'], f['loopLo'], f['loopStep'], f['back'], f['ret'], f['retAxis']))
    out.append('theorem betweenness_bin_ok : betwOk ir_betweenness_bin = true := by\n  first | decide | fail "betweenness_bin_ok: the statements '
               'extracted from betweenness_bin (%s:%d-%d) %s"\n' % (relb, a, b, 'were not all recognised by translate/cores.py'
                                                                      if r.problems else 'are not the expected program'))
    out.append('theorem betweenness_bin_computes {n : Nat} (G : AMat Nat n) :\n'
               '    run ir_betweenness_bin (n * n + 2) (emb G) =\n'
               '      match betweennessBin G with\n'
               '      | .ok v => some (v.map V.num)\n'
               '      | .error _ => none :=\n'
               '  link_betweenness_bin _ betweenness_bin_ok G\n')
    if r2 is not None:
        f2 = r2.fields or dict(EBC_FIELDS)
        a, b = r2.parts.get('body', (r2.line, r2.line))
        for p in r2.problems:
            out.append('-- NOT RECOGNISED: ' + p.replace('\n', ' '))
        out.append('/-- `edge_betweenness_bin` (%s:%d) -/' % (relb, r2.line))
        out.append('def ir_edge_betweenness_bin : Ebc.EbcIR :=\n  { recognised := %s, origins := %s,\n    %s }\n'
                   % ('true' if not r2.problems else 'false', lean_origins(r2), ',\n    '.join('%s := %s' % (k, f2[k]) for k in EBC_ORDER)))
        out.append('theorem edge_betweenness_bin_ok : Ebc.ebcOk ir_edge_betweenness_bin = true := by\n  first | decide | fail '
                   '"edge_betweenness_bin_ok: the statements extracted from edge_betweenness_bin (%s:%d-%d) %s"\n'
                   % (relb, a, b, 'were not all recognised by translate/cores.py' if r2.problems else 'are not the expected program'))
        out.append('theorem edge_betweenness_bin_computes {n : Nat} (G : AMat Nat n) :\n'
                   '    Ebc.run ir_edge_betweenness_bin (n + 2) (Bct.Cores.Ebc.embM G) =\n'
                   '      match brandes false G with\n'
                   '      | .ok r => some r\n'
                   '      | .error _ => none :=\n'
                   '  Bct.Cores.Ebc.link_edge_betweenness_bin _ edge_betweenness_bin_ok G\n')
    for rr, ref, link, concl in rw:
        out += lean_wei(rr, ref, link, concl)
    out.append('end Bct.Gen.CoresBetw')
    return '\n'.join(out) + '\n'


def family_betw():
    path = os.path.join(common.REPO, 'bct', 'algorithms', 'centrality.py')
    fns, err = parse_functions(path)
    name = 'betweenness_bin'
    if name not in fns:
        r = Routine(name, path); r.problems.append('%s: %s' % (name, err or 'function not found in ' + path))
    else:
        try:
            r = extract_betw(fns[name], path)
            check_header(r, fns[name], fns)
        except Exception as e:  # noqa — an extractor crash must not look like success
            r = Routine(name, path); r.problems.append('%s: extractor raised %s: %s' % (name, type(e).__name__, e))
    name2 = 'edge_betweenness_bin'
    if name2 not in fns:
        r2 = Routine(name2, path); r2.problems.append('%s: %s' % (name2, err or 'function not found in ' + path))
    else:
        try:
            r2 = extract_ebc(fns[name2], path)
            check_header(r2, fns[name2], fns)
        except Exception as e:  # noqa — an extractor crash must not look like success
            r2 = Routine(name2, path); r2.problems.append('%s: extractor raised %s: %s' % (name2, type(e).__name__, e))
    rw = []
    for nm_, ref, link, concl in (
            ('betweenness_wei', 'refNode', 'link_betweenness_wei',
             '      match betweennessWei G with\n      | .ok bc => some [.vec (Bct.Cores.Bwei.embR bc)]\n      | .error _ => none'),
            ('edge_betweenness_wei', 'refEdge', 'link_edge_betweenness_wei',
             '      match brandes true G with\n      | .ok r => some [.mat (Bct.Cores.Bwei.embRM r.1), .vec (Bct.Cores.Bwei.embR r.2)]\n'
             '      | .error _ => none')):
        if nm_ not in fns:
            rr = Routine(nm_, path); rr.problems.append('%s: %s' % (nm_, err or 'function not found in ' + path))
        else:
            try:
                rr = extract_wei(fns[nm_], path)
                check_header(rr, fns[nm_], fns)
            except Exception as e:  # noqa — an extractor crash must not look like success
                rr = Routine(nm_, path); rr.problems.append('%s: extractor raised %s: %s' % (nm_, type(e).__name__, e))
        rw.append((rr, ref, link, concl))
    routines = {r.name: dict(getattr(r, 'counts', {}), line=r.line, recognised=not r.problems),
                r2.name: dict(getattr(r2, 'counts', {}), line=r2.line, recognised=not r2.problems)}
    for rr, _, _, _ in rw:
        routines[rr.name] = dict(getattr(rr, 'counts', {}), line=rr.line, recognised=not rr.problems)
    return {'module': 'BctVerif.Gen.CoresBetw', 'file': 'CoresBetw.lean', 'text': lean_betw(r, path, r2, rw), 'sources': [path],
            'routines': routines, 'problems': list(r.problems) + list(r2.problems) + [p for rr, _, _, _ in rw for p in rr.problems]}


# ====================================================================== family 'clust'

class ClustX:
    """expression / statement mapping for the straight-line clustering / transitivity routines (Model/CoreIRClust.lean: Ex, Stmt)"""

    def ex(self, node):
        if isinstance(node, ast.Constant) and type(node.value) is int and node.value >= 0:
            return '(.lit %d)' % node.value
        if is_np(node, 'inf'):
            return '.infLit'
        if isinstance(node, ast.Name):
            return '(.ref %s)' % q(node.id)
        if isinstance(node, ast.Attribute) and node.attr == 'T':
            return '(.tr %s)' % self.ex(node.value)
        if isinstance(node, ast.BinOp):
            op = {ast.Add: 'add', ast.Sub: 'sub', ast.Mult: 'mul', ast.Div: 'div'}.get(type(node.op))
            if op:
                return '(.%s %s %s)' % (op, self.ex(node.left), self.ex(node.right))
        if isinstance(node, ast.Compare) and len(node.ops) == 1 and isinstance(node.ops[0], ast.Eq):
            return '(.eq %s %s)' % (self.ex(node.left), self.ex(node.comparators[0]))
        if isinstance(node, ast.Call):
            f = node.func
            is_float = lambda k: isinstance(k, ast.Name) and k.id == 'float'  # noqa: E731
            if (isinstance(f, ast.Attribute) and f.attr == 'astype' and len(node.args) == 1 and not node.keywords and is_float(node.args[0])):
                return '(.astypeFloat %s)' % self.ex(f.value)
            for fn_, con in (('array', 'arrayFloat'), ('asarray', 'asarrayFloat')):
                a = np_call(node, fn_, 1)
                if a and len(node.keywords) == 1 and is_float(kw(node, 'dtype')):
                    return '(.%s %s)' % (con, self.ex(a[0]))
            if isinstance(f, ast.Name) and f.id == 'cuberoot' and len(node.args) == 1 and not node.keywords:
                return '(.cbrt %s)' % self.ex(node.args[0])
            for fn_, con in (('logical_not', 'lnot'), ('diag', 'diag'), ('trace', 'trace')):
                a = np_call(node, fn_, 1)
                if a and not node.keywords:
                    return '(.%s %s)' % (con, self.ex(a[0]))
            if isinstance(f, ast.Name) and f.id == 'len' and len(node.args) == 1 and not node.keywords:
                return '(.len %s)' % self.ex(node.args[0])
            a = np_call(node, 'eye', 1)
            if a and not node.keywords and isinstance(a[0], ast.Name):
                return '(.eye %s)' % q(a[0].id)
            a = np_call(node, 'ones', 1)
            if (a and not node.keywords and isinstance(a[0], ast.Tuple) and len(a[0].elts) == 1 and isinstance(a[0].elts[0], ast.Name)):
                return '(.ones1 %s)' % q(a[0].elts[0].id)
            a = np_call(node, 'dot', 2)
            if a and not node.keywords:
                return '(.dot %s %s)' % (self.ex(a[0]), self.ex(a[1]))
            a = np_call(node, 'outer', 2)
            if a and not node.keywords:
                return '(.outer %s %s)' % (self.ex(a[0]), self.ex(a[1]))
            a = np_call(node, 'tile', 2)
            if (a and not node.keywords and isinstance(a[1], ast.Tuple) and len(a[1].elts) == 2 and isinstance(a[1].elts[0], ast.Name)
                    and const_int(a[1].elts[1]) == 1):
                return '(.tileRows %s %s)' % (self.ex(a[0]), q(a[1].elts[0].id))
            a = np_call(node, 'sum', 1)
            if a and not node.keywords:
                return '(.sumAll %s)' % self.ex(a[0])
            if a and len(node.keywords) == 1 and const_int(kw(node, 'axis')) is not None and const_int(kw(node, 'axis')) >= 0:
                return '(.sumAx %s %d)' % (self.ex(a[0]), const_int(kw(node, 'axis')))
        raise Unrec(node, 'unrecognised expression %s' % src_of(node))

    def stmt(self, st):
        if isinstance(st, ast.Assign) and len(st.targets) == 1:
            t, v = st.targets[0], st.value
            if isinstance(t, ast.Name):
                e = self.ex(v)
                return '.bind %s %s' % (q(t.id), e)
            if isinstance(t, ast.Subscript) and isinstance(t.value, ast.Name):
                a = np_call(t.slice, 'where', 1)
                if a and not t.slice.keywords:
                    return '.setWhere %s %s %s' % (q(t.value.id), self.ex(a[0]), self.ex(v))
        raise Unrec(st, 'unrecognised statement %s' % src_of(st))


CLUST_ARR = [('clustering_coef_bd', 'refCcBd', 'link_cc_bd', 'A', '.vec ((ccBd A).map optV)'),
             ('clustering_coef_wd', 'refCcWd', 'link_cc_wd', 'W', '.vec ((ccWd W (AMat.map cb W)).map optV)'),
             ('clustering_coef_wu', 'refCcWu', 'link_cc_wu', 'W', '.vec ((ccWu W (AMat.map cb W)).map optV)'),
             ('transitivity_bd', 'refTransBd', 'link_trans_bd', 'A', '.sc (optV (transBd A))'),
             ('transitivity_bu', 'refTransBu', 'link_trans_bu', 'A', '.sc (optV (transBu A))'),
             ('transitivity_wd', 'refTransWd', 'link_trans_wd', 'W', '.sc (optV (transWd W (AMat.map cb W)))'),
             ('transitivity_wu', 'refTransWu', 'link_trans_wu', 'W', '.sc (optV (transWu W (AMat.map cb W)))')]


def extract_clust_arr(fn, path):
    r = Routine(fn.name, path)
    r.line = fn.lineno
    a = fn.args
    if len(a.args) != 1 or a.vararg or a.kwarg or a.kwonlyargs or a.defaults:
        r.bad(fn, 'expected exactly one parameter without default')
    f = {'param': q(a.args[0].arg if a.args else '?'), 'body': '[]', 'ret': '(.lit 0)'}
    r.fields = f
    body = body_wo_doc(fn)
    r.parts = {'body': lines_of(body)}
    if not body or not isinstance(body[-1], ast.Return) or body[-1].value is None:
        r.bad(fn, 'expected statements and a final `return <expression>`')
        return r
    x = ClustX()
    out = []
    for st in body[:-1]:
        try:
            out.append(x.stmt(st))
        except Unrec as e:
            r.bad(e.node if hasattr(e.node, 'lineno') else st, e.msg)
    f['body'] = '[' + ',\n      '.join(out) + ']'
    try:
        f['ret'] = x.ex(body[-1].value)
    except Unrec as e:
        r.bad(e.node if hasattr(e.node, 'lineno') else body[-1], e.msg)
    r.counts = {'body': len(body) - 1}
    return r


BU_FIELDS = ['param', 'dim', 'dimOf', 'out', 'outDim', 'node', 'nodeN', 'nb', 'nbMat', 'nbRow', 'cnt', 'cntOf', 'testVar', 'testLit',
             'sub', 'subMat', 'subRows', 'subCols', 'setVec', 'setIdx', 'sumOf', 'den', 'ret']


def extract_clust_bu(fn, path):
    """clustering_coef_bu: statements matched positionally (Model/CoreIRClust.lean: BuIR)"""
    r = Routine(fn.name, path)
    r.line = fn.lineno
    a = fn.args
    if len(a.args) != 1 or a.vararg or a.kwarg or a.kwonlyargs or a.defaults:
        r.bad(fn, 'expected exactly one parameter without default')
    f = {k: q('?') for k in BU_FIELDS}
    f['testLit'] = '0'
    f['den'] = '(.lit 0)'
    f['param'] = q(a.args[0].arg if a.args else '?')
    r.fields = f
    body = body_wo_doc(fn)
    r.parts = {'body': lines_of(body)}

    def nm(node, what):
        if isinstance(node, ast.Name):
            return q(node.id)
        raise Unrec(node, 'expected a name as %s, found %s' % (what, src_of(node)))

    def len_of(st, what):
        v = st.value if isinstance(st, ast.Assign) and len(st.targets) == 1 else None
        if not (isinstance(v, ast.Call) and isinstance(v.func, ast.Name) and v.func.id == 'len' and len(v.args) == 1 and not v.keywords):
            raise Unrec(st, 'expected `%s`' % what)
        return nm(st.targets[0], 'target'), nm(v.args[0], 'argument of len')

    def kex(node):
        if isinstance(node, ast.Name):
            return '(.var %s)' % q(node.id)
        if isinstance(node, ast.Constant) and type(node.value) is int and node.value >= 0:
            return '(.lit %d)' % node.value
        if isinstance(node, ast.BinOp) and isinstance(node.op, (ast.Sub, ast.Mult)):
            return '(.%s %s %s)' % ('sub' if isinstance(node.op, ast.Sub) else 'mul', kex(node.left), kex(node.right))
        raise Unrec(node, 'unrecognised integer expression %s' % src_of(node))
    try:
        if len(body) != 4:
            raise Unrec(fn, 'expected exactly 4 statements, found %d' % len(body))
        s0, s1, s2, s3 = body
        f['dim'], f['dimOf'] = len_of(s0, 'n = len(G)')
        z = np_call(s1.value, 'zeros', 1) if isinstance(s1, ast.Assign) and len(s1.targets) == 1 else None
        if not (z and not s1.value.keywords and isinstance(z[0], ast.Tuple) and len(z[0].elts) == 1):
            raise Unrec(s1, 'expected `C = np.zeros((n,))`')
        f['out'], f['outDim'] = nm(s1.targets[0], 'target'), nm(z[0].elts[0], 'dimension')
        it = s2.iter if isinstance(s2, ast.For) else None
        if not (it is not None and not s2.orelse and isinstance(it, ast.Call) and isinstance(it.func, ast.Name) and it.func.id == 'range'
                and len(it.args) == 1 and not it.keywords and len(s2.body) == 3):
            raise Unrec(s2, 'expected `for u in range(n):` with three statements')
        f['node'], f['nodeN'] = nm(s2.target, 'loop variable'), nm(it.args[0], 'range bound')
        b0, b1, b2 = s2.body
        w = (np_call(b0.value, 'where', 1) if isinstance(b0, ast.Assign) and len(b0.targets) == 1 and isinstance(b0.targets[0], ast.Tuple)
             and len(b0.targets[0].elts) == 1 else None)
        if not (w and not b0.value.keywords and isinstance(w[0], ast.Subscript) and isinstance(w[0].slice, ast.Tuple)
                and len(w[0].slice.elts) == 2 and full_slice(w[0].slice.elts[1])):
            raise Unrec(b0, 'expected `V, = np.where(G[u, :])`')
        f['nb'], f['nbMat'], f['nbRow'] = nm(b0.targets[0].elts[0], 'target'), nm(w[0].value, 'matrix'), nm(w[0].slice.elts[0], 'row')
        f['cnt'], f['cntOf'] = len_of(b1, 'k = len(V)')
        if not (isinstance(b2, ast.If) and not b2.orelse and isinstance(b2.test, ast.Compare) and len(b2.test.ops) == 1
                and isinstance(b2.test.ops[0], ast.GtE) and const_int(b2.test.comparators[0]) is not None
                and const_int(b2.test.comparators[0]) >= 0 and len(b2.body) == 2):
            raise Unrec(b2, 'expected `if k >= 2:` with two statements and no `else`')
        f['testVar'], f['testLit'] = nm(b2.test.left, 'tested name'), '%d' % const_int(b2.test.comparators[0])
        c0, c1 = b2.body
        v = c0.value if isinstance(c0, ast.Assign) and len(c0.targets) == 1 else None
        ix = np_call(v.slice, 'ix_', 2) if isinstance(v, ast.Subscript) else None
        if not (ix and not v.slice.keywords):
            raise Unrec(c0, 'expected `S = G[np.ix_(V, V)]`')
        f['sub'], f['subMat'], f['subRows'], f['subCols'] = nm(c0.targets[0], 'target'), nm(v.value, 'matrix'), nm(ix[0], 'rows'), nm(ix[1], 'columns')
        t = c1.targets[0] if isinstance(c1, ast.Assign) and len(c1.targets) == 1 else None
        v = c1.value if t is not None else None
        sm = np_call(v.left, 'sum', 1) if isinstance(v, ast.BinOp) and isinstance(v.op, ast.Div) else None
        if not (isinstance(t, ast.Subscript) and not isinstance(t.slice, (ast.Tuple, ast.Slice)) and sm and not v.left.keywords):
            raise Unrec(c1, 'expected `C[u] = np.sum(S) / (k * k - k)`')
        f['setVec'], f['setIdx'], f['sumOf'], f['den'] = nm(t.value, 'vector'), nm(t.slice, 'index'), nm(sm[0], 'argument of np.sum'), kex(v.right)
        if not (isinstance(s3, ast.Return) and s3.value is not None):
            raise Unrec(s3, 'expected `return C`')
        f['ret'] = nm(s3.value, 'returned value')
    except Unrec as e:
        r.bad(e.node if hasattr(e.node, 'lineno') else fn, e.msg)
    r.counts = {'body': len(body)}
    return r


def extract_sign(fn, path):
    """clustering_coef_wu_sign: whole body (Model/CoreIRSign.lean: SignIR) — three statements, then the `if / elif / elif` chain"""
    X = _TX
    r = Routine(fn.name, path)
    r.line = fn.lineno
    a = fn.args
    if a.vararg or a.kwarg or a.kwonlyargs or getattr(a, 'posonlyargs', []):
        r.bad(fn, 'unexpected parameter kinds')
    f = {'name': q(fn.name), 'params': lst(q(x.arg) for x in a.args), 'defaults': lean_defaults(defaults_of(fn)), 'dim': q('?'), 'dimOf': q('?'),
         'cpT': q('?'), 'cpOf': q('?'), 'fdM': q('?'), 'fdV': '99', 'tested': '[]', 'branches': '[]'}
    r.fields = f
    body = body_wo_doc(fn)
    r.parts = {'body': lines_of(body)}
    r.counts = {'body': len(body)}
    cx = ClustX()

    def at2(node, what):
        if isinstance(node, ast.Subscript) and isinstance(node.slice, ast.Tuple) and len(node.slice.elts) == 2:
            return X.nm(node.value, 'matrix'), X.nm(node.slice.elts[0], 'index'), X.nm(node.slice.elts[1], 'index')
        raise Unrec(node, 'expected `%s`' % what)

    def factors(node):
        """a * b * c (left-nested) -> [a, b, c]"""
        if isinstance(node, ast.BinOp) and isinstance(node.op, ast.Mult):
            return factors(node.left) + [node.right]
        return [node]

    def acc(st):
        w = 'cyc3[i] += W[j, i] * W[i, q] * W[j, q]'
        if not (isinstance(st, ast.AugAssign) and isinstance(st.op, ast.Add) and isinstance(st.target, ast.Subscript)):
            raise Unrec(st, 'expected an accumulation `%s`, found %s' % (w, src_of(st)))
        v, ab = st.value, 'false'
        c = np_call(v, 'abs', 1)
        if c and not v.keywords:
            v, ab = c[0], 'true'
        fs = ['(%s, %s, %s)' % at2(x, w) for x in factors(v)]
        return '{ t := %s, ti := %s, factors := %s, abs := %s }' % (X.nm(st.target.value, 'accumulator'), X.nm(st.target.slice, 'node'), lst(fs), ab)

    def rng(st, what):
        it = st.iter if isinstance(st, ast.For) else None
        if not (it is not None and not st.orelse and isinstance(it, ast.Call) and isinstance(it.func, ast.Name) and it.func.id == 'range'
                and len(it.args) == 1 and not it.keywords):
            raise Unrec(st, 'expected `%s`' % what)
        return X.nm(st.target, 'loop variable'), X.nm(it.args[0], 'bound')

    def item(st):
        # W_pos = W * (W > 0)   /   W_neg = -W * (W < 0)
        if isinstance(st, ast.Assign) and len(st.targets) == 1 and isinstance(st.value, ast.BinOp) and isinstance(st.value.op, ast.Mult) \
                and isinstance(st.value.right, ast.Compare):
            l, c = st.value.left, st.value.right
            neg = isinstance(l, ast.UnaryOp) and isinstance(l.op, ast.USub)
            wn = l.operand if neg else l
            if not (len(c.ops) == 1 and isinstance(c.ops[0], ast.Lt if neg else ast.Gt)):
                raise Unrec(st, 'expected `W_pos = W * (W > 0)` or `W_neg = -W * (W < 0)`, found %s' % src_of(st))
            return '.part { t := %s, neg := %s, w := %s, c := %s, lit := %s }' % (
                X.nm(st.targets[0], 'target'), 'true' if neg else 'false', X.nm(wn, 'matrix'), X.nm(c.left, 'matrix'), X.nat(c.comparators[0], 'bound'))
        # cyc3 = np.zeros((n,))
        if isinstance(st, ast.Assign) and len(st.targets) == 1 and np_call(st.value, 'zeros', 1):
            z = st.value.args[0]
            if st.value.keywords or not (isinstance(z, ast.Tuple) and len(z.elts) == 1):
                raise Unrec(st, 'expected `cyc3 = np.zeros((n,))`')
            return '.zeros %s %s' % (X.nm(st.targets[0], 'target'), X.nm(z.elts[0], 'length'))
        if isinstance(st, ast.For):
            i, iN = rng(st, 'for i in range(n):')
            if len(st.body) != 1:
                raise Unrec(st, 'expected exactly one nested loop in `for i in range(n):`')
            j, jN = rng(st.body[0], 'for j in range(n):')
            if len(st.body[0].body) != 1:
                raise Unrec(st.body[0], 'expected exactly one nested loop in `for j in range(n):`')
            lq = st.body[0].body[0]
            q_, qN = rng(lq, 'for q in range(n):')
            if not (lq.body and isinstance(lq.body[-1], ast.If)):
                raise Unrec(lq, 'expected the accumulations and a final `if j != q:` in the innermost loop')
            iff = lq.body[-1]
            if not (not iff.orelse and isinstance(iff.test, ast.Compare) and len(iff.test.ops) == 1 and isinstance(iff.test.ops[0], ast.NotEq)):
                raise Unrec(iff, 'expected `if j != q:` without `else`')
            return ('.loop { i := %s, iN := %s, j := %s, jN := %s, q := %s, qN := %s, always := %s, cL := %s, cR := %s, guarded := %s }'
                    % (i, iN, j, jN, q_, qN, lst(acc(x) for x in lq.body[:-1]), X.nm(iff.test.left, 'left side'),
                       X.nm(iff.test.comparators[0], 'right side'), lst(acc(x) for x in iff.body)))
        return '.arr (%s)' % cx.stmt(st)
    try:
        if len(body) != 4:
            raise Unrec(fn, 'expected exactly 4 statements (`n = len(W)`, `W = W.copy()`, `np.fill_diagonal(W, 0)`, the `if` chain), found %d' % len(body))
        w = 'n = len(W)'
        t, v = X.assign(body[0], w)
        f['dim'], f['dimOf'] = X.nm(t, 'target'), X.nm(X.len1(v, w), 'matrix')
        w = 'W = W.copy()'
        t, v = X.assign(body[1], w)
        if not (isinstance(v, ast.Call) and isinstance(v.func, ast.Attribute) and v.func.attr == 'copy' and not v.args and not v.keywords):
            raise Unrec(body[1], 'expected `%s`' % w)
        f['cpT'], f['cpOf'] = X.nm(t, 'target'), X.nm(v.func.value, 'matrix')
        w = 'np.fill_diagonal(W, 0)'
        c = np_call(body[2].value, 'fill_diagonal', 2) if isinstance(body[2], ast.Expr) else None
        if not c or body[2].value.keywords:
            raise Unrec(body[2], 'expected `%s`' % w)
        f['fdM'], f['fdV'] = X.nm(c[0], 'matrix'), X.nat(c[1], 'value')
        tested, branches = [], []
        node = body[3]
        while True:
            if not isinstance(node, ast.If):
                raise Unrec(node, 'expected `if coef_type == …:` / `elif coef_type in (…):`')
            tst = node.test
            if not (isinstance(tst, ast.Compare) and len(tst.ops) == 1):
                raise Unrec(node, 'expected `coef_type == \'default\'` or `coef_type in (…)`')
            if isinstance(tst.ops[0], ast.Eq):
                keys, is_in = [X.strlit(tst.comparators[0], 'branch key')], 'false'
            elif isinstance(tst.ops[0], ast.In) and isinstance(tst.comparators[0], (ast.Tuple, ast.List)):
                keys, is_in = [X.strlit(x, 'branch key') for x in tst.comparators[0].elts], 'true'
            else:
                raise Unrec(node, 'expected `coef_type == \'default\'` or `coef_type in (…)`')
            tested.append(X.nm(tst.left, 'tested name'))
            if not (node.body and isinstance(node.body[-1], ast.Return) and node.body[-1].value is not None):
                raise Unrec(node, 'expected the branch to end with `return …`')
            rv = node.body[-1].value
            rets = [X.nm(x, 'returned value') for x in (rv.elts if isinstance(rv, ast.Tuple) else [rv])]
            branches.append('{ keys := %s, isIn := %s, body := [%s], ret := %s }'
                            % (lst(keys), is_in, ',\n        '.join(item(x) for x in node.body[:-1]), lst(rets)))
            if not node.orelse:
                break
            if len(node.orelse) != 1:
                raise Unrec(node, 'expected `elif` (one nested `if`) or nothing after the branch')
            node = node.orelse[0]
        f['tested'] = lst(tested)
        f['branches'] = '[' + ',\n    '.join(branches) + ']'
    except Unrec as e:
        r.bad(e.node if hasattr(e.node, 'lineno') else fn, e.msg)
    return r


def lean_clust(rs, bu, path, prim, sg=None):
    relb = os.path.basename(path)
    out = ['import BctVerif.Props.CoresClust',
           'import BctVerif.Props.CoresSign',
           'import BctVerif.Props.CoresUtil',
           '/-!',
           '# GENERATED by translate/cores.py (family clust) — do not edit.  Re-emitted from the current source on every check run.',
           'source: %s' % path,
           '-/',
           'set_option linter.unusedTactic false',
           'set_option linter.unreachableTactic false',
           'namespace Bct.Gen.CoresClust',
           'open Bct Bct.Cluster Bct.CoreIR.Clust Bct.Cores.Clust',
           '']
    out += lean_folded_primitive(prim, 'clustering_coef_wd, clustering_coef_wu, transitivity_wd, transitivity_wu')
    for (name, ref, link, par, concl), r in zip(CLUST_ARR, rs):
        f = r.fields or {'param': q('?'), 'body': '[]', 'ret': '(.lit 0)'}
        a, b = r.parts.get('body', (r.line, r.line))
        for p in r.problems:
            out.append('-- NOT RECOGNISED: ' + p.replace('\n', ' '))
        out.append('/-- `%s` (%s:%d) -/' % (name, relb, r.line))
        out.append('def ir_%s : ArrIR :=\n  { name := %s, recognised := %s, origins := %s,\n    param := %s,\n    body := %s,\n    ret := %s }\n'
                   % (name, q(name), 'true' if not r.problems else 'false', lean_origins(r), f['param'], f['body'], f['ret']))
        out.append('theorem %s_ok : clustOk %s ir_%s = true := by\n  first | decide | fail "%s_ok: the statements extracted from %s '
                   '(%s:%d-%d) %s"\n' % (name, ref, name, name, name, relb, a, b,
                                         'were not all recognised by translate/cores.py' if r.problems else 'are not the expected program'))
        out.append('theorem %s_computes {n : Nat} (cb : Rat → Rat) (%s : AMat Rat n) :\n    run cb ir_%s (embA %s) = %s :=\n  %s _ %s_ok cb %s\n'
                   % (name, par, name, par, concl, link, name, par))
    f = bu.fields or {}
    a, b = bu.parts.get('body', (bu.line, bu.line))
    for p in bu.problems:
        out.append('-- NOT RECOGNISED: ' + p.replace('\n', ' '))
    out.append('/-- `clustering_coef_bu` (%s:%d) -/' % (relb, bu.line))
    out.append('def ir_clustering_coef_bu : BuIR :=\n  { recognised := %s, origins := %s,\n    %s }\n'
               % ('true' if not bu.problems else 'false', lean_origins(bu), ', '.join('%s := %s' % (k, f.get(k, q('?'))) for k in BU_FIELDS)))
    out.append('theorem clustering_coef_bu_ok : buOk ir_clustering_coef_bu = true := by\n  first | decide | fail "clustering_coef_bu_ok: the '
               'statements extracted from clustering_coef_bu (%s:%d-%d) %s"\n'
               % (relb, a, b, 'were not all recognised by translate/cores.py' if bu.problems else 'are not the expected program'))
    out.append('theorem clustering_coef_bu_computes {n : Nat} (G : AMat Rat n) :\n    runBu ir_clustering_coef_bu (embA G) = some ((ccBu G).map optV) :=\n'
               '  link_cc_bu _ clustering_coef_bu_ok G\n')
    if sg is not None:
        fs = sg.fields or {'name': q('clustering_coef_wu_sign'), 'params': '[]', 'defaults': '[]', 'dim': q('?'), 'dimOf': q('?'), 'cpT': q('?'),
                           'cpOf': q('?'), 'fdM': q('?'), 'fdV': '99', 'tested': '[]', 'branches': '[]'}
        a, b = sg.parts.get('body', (sg.line, sg.line))
        for p in sg.problems:
            out.append('-- NOT RECOGNISED: ' + p.replace('\n', ' '))
        out.append('/-- `clustering_coef_wu_sign` (%s:%d): the whole body, all three branches -/' % (relb, sg.line))
        out.append('def ir_clustering_coef_wu_sign : Bct.CoreIR.Sign.SignIR :=\n  { recognised := %s, origins := %s,\n    %s }\n'
                   % ('true' if not sg.problems else 'false', lean_origins(sg),
                      ',\n    '.join('%s := %s' % (k, fs[k]) for k in ('name', 'params', 'defaults', 'dim', 'dimOf', 'cpT', 'cpOf', 'fdM', 'fdV', 'tested', 'branches'))))
        out.append('theorem clustering_coef_wu_sign_ok : Bct.CoreIR.Sign.signOk ir_clustering_coef_wu_sign = true := by\n  first | decide | fail '
                   '"clustering_coef_wu_sign_ok: the statements extracted from clustering_coef_wu_sign (%s:%d-%d) %s"\n'
                   % (relb, a, b, 'were not all recognised by translate/cores.py' if sg.problems else 'are not the expected program'))
        out.append('theorem clustering_coef_wu_sign_default_computes {n : Nat} (cb : Rat → Rat) (W : AMat Rat n) :\n'
                   '    Bct.CoreIR.Sign.runSign cb ir_clustering_coef_wu_sign (embA W) "default" =\n'
                   '      some [.vec ((ccSignDefault W (AMat.map cb (posPart (zeroDiag W))) (AMat.map cb (negPart (zeroDiag W)))).1.map optV),\n'
                   '            .vec ((ccSignDefault W (AMat.map cb (posPart (zeroDiag W))) (AMat.map cb (negPart (zeroDiag W)))).2.map optV)] :=\n'
                   '  Bct.Cores.Sign.link_sign_default _ clustering_coef_wu_sign_ok cb W\n')
        out.append('theorem clustering_coef_wu_sign_zhang_computes {n : Nat} (cb : Rat → Rat) (W : AMat Rat n) :\n'
                   '    Bct.CoreIR.Sign.runSign cb ir_clustering_coef_wu_sign (embA W) "zhang" =\n'
                   '      some [.vec ((ccSignZhang W).1.map optV), .vec ((ccSignZhang W).2.map optV)] :=\n'
                   '  Bct.Cores.Sign.link_sign_zhang _ clustering_coef_wu_sign_ok cb W\n')
        out.append('theorem clustering_coef_wu_sign_costantini_computes {n : Nat} (cb : Rat → Rat) (W : AMat Rat n) :\n'
                   '    Bct.CoreIR.Sign.runSign cb ir_clustering_coef_wu_sign (embA W) "costantini" = some [.vec ((ccSignCost W).map optV)] :=\n'
                   '  Bct.Cores.Sign.link_sign_cost _ clustering_coef_wu_sign_ok cb W\n')
        out.append('theorem clustering_coef_wu_sign_other_computes {n : Nat} (cb : Rat → Rat) (W : AMat Rat n) (t : String)\n'
                   '    (ht : t ∉ ["default", "zhang", "Zhang", "costantini", "Costantini"]) :\n'
                   '    Bct.CoreIR.Sign.runSign cb ir_clustering_coef_wu_sign (embA W) t = some [] :=\n'
                   '  Bct.Cores.Sign.link_sign_other _ clustering_coef_wu_sign_ok cb W t ht\n')
    out.append('end Bct.Gen.CoresClust')
    return '\n'.join(out) + '\n'


def family_clust():
    path = os.path.join(common.REPO, 'bct', 'algorithms', 'clustering.py')
    fns, err = parse_functions(path)

    def one(name, extractor):
        if name not in fns:
            r = Routine(name, path); r.problems.append('%s: %s' % (name, err or 'function not found in ' + path))
            return r
        try:
            r = extractor(fns[name], path)
            check_header(r, fns[name], fns)
        except Exception as e:  # noqa — an extractor crash must not look like success
            r = Routine(name, path); r.problems.append('%s: extractor raised %s: %s' % (name, type(e).__name__, e))
        return r
    rs = [one(c[0], extract_clust_arr) for c in CLUST_ARR]
    bu = one('clustering_coef_bu', extract_clust_bu)
    sg = one('clustering_coef_wu_sign', extract_sign)
    prim = fold_util_primitive(path, 'cuberoot')
    routines = {r.name: dict(getattr(r, 'counts', {}), line=r.line, recognised=not r.problems) for r in rs + [bu, sg]}
    routines['cuberoot (called by the weighted routines)'] = dict(line=prim.line, file=rel(prim.file), recognised=not prim.problems)
    return {'module': 'BctVerif.Gen.CoresClust', 'file': 'CoresClust.lean', 'text': lean_clust(rs, bu, path, prim, sg), 'sources': [path],
            'routines': routines, 'problems': [p for r in rs + [bu, sg, prim] for p in r.problems]}


# ====================================================================== family 'char'

class CharX:
    """expression / statement mapping for charpath (Model/CoreIRChar.lean: Ex, Simple, Stmt)"""

    def __init__(self, flags):
        self.flags = set(flags)

    def ex(self, node):
        if isinstance(node, ast.Constant) and type(node.value) is int and node.value >= 0:
            return '(.lit %d)' % node.value
        if is_np(node, 'nan'):
            return '.nanLit'
        if isinstance(node, ast.Name) and node.id not in self.flags:
            return '(.ref %s)' % q(node.id)
        if isinstance(node, ast.BinOp) and isinstance(node.op, ast.Div):
            return '(.div %s %s)' % (self.ex(node.left), self.ex(node.right))
        if (isinstance(node, ast.Subscript) and not isinstance(node.slice, (ast.Tuple, ast.Slice, ast.Constant, ast.Name))):
            return '(.select %s %s)' % (self.ex(node.value), self.ex(node.slice))
        if isinstance(node, ast.Call):
            f = node.func
            if isinstance(f, ast.Attribute) and not is_np(f, f.attr) and not (isinstance(f.value, ast.Attribute) and is_np(f.value, 'ma')):
                if f.attr in ('copy', 'ravel') and not node.args and not node.keywords:
                    return '(.%s %s)' % (f.attr, self.ex(f.value))
                if (f.attr == 'max' and not node.args and len(node.keywords) == 1 and const_int(kw(node, 'axis')) is not None
                        and const_int(kw(node, 'axis')) >= 0):
                    return '(.maxAxis %s %d)' % (self.ex(f.value), const_int(kw(node, 'axis')))
            for fn_, con in (('isnan', 'isnan'), ('isinf', 'isinf'), ('logical_not', 'lnot'), ('mean', 'mean'), ('min', 'npMin'),
                             ('max', 'npMax'), ('array', 'npArray')):
                a = np_call(node, fn_, 1)
                if a and not node.keywords:
                    return '(.%s %s)' % (con, self.ex(a[0]))
            if (isinstance(f, ast.Attribute) and f.attr == 'masked_where' and isinstance(f.value, ast.Attribute) and is_np(f.value, 'ma')
                    and len(node.args) == 2 and not node.keywords):
                return '(.maskedWhere %s %s)' % (self.ex(node.args[0]), self.ex(node.args[1]))
        raise Unrec(node, 'unrecognised expression %s' % src_of(node))

    def simple(self, st):
        if (isinstance(st, ast.Expr) and np_call(st.value, 'fill_diagonal', 2) and not st.value.keywords
                and isinstance(st.value.args[0], ast.Name)):
            return '.fillDiag %s %s' % (q(st.value.args[0].id), self.ex(st.value.args[1]))
        if (isinstance(st, ast.Assign) and len(st.targets) == 1 and isinstance(st.targets[0], ast.Subscript)
                and isinstance(st.targets[0].value, ast.Name) and not isinstance(st.targets[0].slice, (ast.Tuple, ast.Slice))):
            t = st.targets[0]
            return '.setMask %s %s %s' % (q(t.value.id), self.ex(t.slice), self.ex(st.value))
        raise Unrec(st, 'unrecognised statement %s' % src_of(st))

    def stmt(self, st):
        if isinstance(st, ast.Assign) and len(st.targets) == 1 and isinstance(st.targets[0], ast.Name):
            if st.targets[0].id in self.flags:
                raise Unrec(st, 'assignment to the flag %s' % st.targets[0].id)
            return '.bind %s %s' % (q(st.targets[0].id), self.ex(st.value))
        if (isinstance(st, ast.If) and not st.orelse and isinstance(st.test, ast.UnaryOp) and isinstance(st.test.op, ast.Not)
                and isinstance(st.test.operand, ast.Name) and st.test.operand.id in self.flags):
            return '.ifNot %s [%s]' % (q(st.test.operand.id), ', '.join(self.simple(x) for x in st.body))
        raise Unrec(st, 'unrecognised statement %s' % src_of(st))


def extract_char(fn, path):
    r = Routine(fn.name, path)
    r.line = fn.lineno
    a = fn.args
    if a.vararg or a.kwarg or a.kwonlyargs or getattr(a, 'posonlyargs', []):
        r.bad(fn, 'unexpected parameter kinds')
    names = [x.arg for x in a.args]
    f = {'params': lst(q(x) for x in names), 'defaults': lean_defaults(defaults_of(fn)), 'body': '[]', 'ret': '[]'}
    r.fields = f
    body = body_wo_doc(fn)
    r.parts = {'body': lines_of(body)}
    if not body or not isinstance(body[-1], ast.Return) or not isinstance(body[-1].value, ast.Tuple) \
            or not all(isinstance(e, ast.Name) for e in body[-1].value.elts):
        r.bad(fn, 'expected statements and a final `return <name>, …`')
        return r
    x = CharX(names[1:])
    out = []
    for st in body[:-1]:
        try:
            out.append(x.stmt(st))
        except Unrec as e:
            r.bad(e.node if hasattr(e.node, 'lineno') else st, e.msg)
    f['body'] = '[' + ',\n      '.join(out) + ']'
    f['ret'] = lst(q(e.id) for e in body[-1].value.elts)
    r.counts = {'body': len(body) - 1}
    return r


def lean_char(r, path):
    relb = os.path.basename(path)
    f = r.fields or {'params': '[]', 'defaults': '[]', 'body': '[]', 'ret': '[]'}
    a, b = r.parts.get('body', (r.line, r.line))
    out = ['import BctVerif.Props.CoresChar',
           '/-!',
           '# GENERATED by translate/cores.py (family char) — do not edit.  Re-emitted from the current source on every check run.',
           'source: %s' % path,
           '-/',
           'set_option linter.unusedTactic false',
           'set_option linter.unreachableTactic false',
           'namespace Bct.Gen.CoresChar',
           'open Bct Bct.Dist Bct.CoreIR.Char Bct.Cores.Char',
           '']
    for p in r.problems:
        out.append('-- NOT RECOGNISED: ' + p.replace('\n', ' '))
    out.append('/-- `charpath` (%s:%d) -/' % (relb, r.line))
    out.append('def ir_charpath : CharIR :=\n  { recognised := %s, origins := %s,\n    params := %s, defaults := %s,\n    body := %s,\n    ret := %s }\n'
               % ('true' if not r.problems else 'false', lean_origins(r), f['params'], f['defaults'], f['body'], f['ret']))
    out.append('theorem charpath_ok : charOk ir_charpath = true := by\n  first | decide | fail "charpath_ok: the statements extracted from '
               'charpath (%s:%d-%d) %s"\n' % (relb, a, b, 'were not all recognised by translate/cores.py' if r.problems
                                              else 'are not the expected program'))
    out.append('theorem charpath_computes {n : Nat} (D : AMat Ext n) (a b : Bool) :\n'
               '    run ir_charpath (embD D) a b = some [ .sc (optC (charpath D a b).1), .sc (optC (charpath D a b).2),\n'
               '      .vec (Vector.ofFn fun i => .ext (eccOf D a b i)), .sc (rd (radiusDiameter D a b) Prod.fst),\n'
               '      .sc (rd (radiusDiameter D a b) Prod.snd) ] :=\n'
               '  link_charpath _ charpath_ok D a b\n')
    out.append('end Bct.Gen.CoresChar')
    return '\n'.join(out) + '\n'


def family_char():
    path = os.path.join(common.REPO, 'bct', 'algorithms', 'distance.py')
    fns, err = parse_functions(path)
    name = 'charpath'
    if name not in fns:
        r = Routine(name, path); r.problems.append('%s: %s' % (name, err or 'function not found in ' + path))
    else:
        try:
            r = extract_char(fns[name], path)
            check_header(r, fns[name], fns)
        except Exception as e:  # noqa — an extractor crash must not look like success
            r = Routine(name, path); r.problems.append('%s: extractor raised %s: %s' % (name, type(e).__name__, e))
    return {'module': 'BctVerif.Gen.CoresChar', 'file': 'CoresChar.lean', 'text': lean_char(r, path), 'sources': [path],
            'routines': {r.name: dict(getattr(r, 'counts', {}), line=r.line, recognised=not r.problems)},
            'problems': list(r.problems)}


# ====================================================================== family 'eff'

def kex_expr(node):
    """integer expression over names (Model/CoreIREff.lean: KEx)"""
    if isinstance(node, ast.Name):
        return '(.var %s)' % q(node.id)
    if isinstance(node, ast.Constant) and type(node.value) is int and node.value >= 0:
        return '(.lit %d)' % node.value
    if isinstance(node, ast.BinOp) and isinstance(node.op, (ast.Sub, ast.Mult)):
        return '(.%s %s %s)' % ('sub' if isinstance(node.op, ast.Sub) else 'mul', kex_expr(node.left), kex_expr(node.right))
    raise Unrec(node, 'unrecognised integer expression %s' % src_of(node))


EFF_FIELDS = ['innerName', 'dim', 'dimOf', 'flag', 'res', 'callee', 'arg', 'out', 'sumOf', 'den', 'ret']


def extract_eff(fn, path):
    """efficiency_bin: the nested distance_inv (BinIR), the statements around `if local:`, the `else` branch (EffIR)"""
    r = Routine(fn.name, path)
    r.line = fn.lineno
    a = fn.args
    if a.vararg or a.kwarg or a.kwonlyargs or getattr(a, 'posonlyargs', []):
        r.bad(fn, 'unexpected parameter kinds')
    f = {k: q('?') for k in EFF_FIELDS}
    f['den'] = '(.lit 0)'
    f['params'] = lst(q(x.arg) for x in a.args)
    f['defaults'] = lean_defaults(defaults_of(fn))
    f['pre'] = '[]'
    f['inner'] = '{ recognised := false, origins := [], param := "?", pre := [], cond := "?", body := [], post := [], ret := "?" }'
    r.fields = f
    body = body_wo_doc(fn)
    r.parts = {'body': lines_of(body)}
    r.counts = {}

    def nm(node, what):
        if isinstance(node, ast.Name):
            return q(node.id)
        raise Unrec(node, 'expected a name as %s, found %s' % (what, src_of(node)))
    try:
        if (len(body) < 4 or not isinstance(body[0], ast.FunctionDef) or not isinstance(body[-1], ast.Return)
                or not isinstance(body[-2], ast.If)):
            raise Unrec(fn, 'expected the nested helper definition, statements, `if …: … else: …`, `return`')
        g = body[0]
        if g.decorator_list or g.args.vararg or g.args.kwarg or g.args.kwonlyargs or g.args.defaults:
            r.bad(g, 'unexpected parameter kinds / decorators on the nested function')
        inner = extract_bin(g, path)
        for p_ in inner.problems:
            r.problems.append(p_.replace(g.name + ':', fn.name + ': nested ' + g.name + ':', 1))
        fi = inner.fields
        f['innerName'] = q(g.name)
        f['inner'] = ('{ recognised := %s, origins := [], param := %s,\n      pre := %s,\n      cond := %s,\n      body := %s,\n      post := %s,\n'
                      '      ret := %s }' % ('true' if not inner.problems else 'false', fi['param'], fi['pre'], fi['cond'], fi['body'], fi['post'], fi['ret']))
        r.counts.update({'inner_' + k: v for k, v in getattr(inner, 'counts', {}).items()})
        mid = body[1:-2]
        if not mid:
            raise Unrec(fn, 'expected `n = len(G)` before the `if`')
        x = BinX()
        pre = []
        for st in mid[:-1]:
            try:
                pre.append(x.stmt(st))
            except Unrec as e:
                r.bad(e.node if hasattr(e.node, 'lineno') else st, e.msg)
        f['pre'] = '[' + ', '.join(pre) + ']'
        s_n = mid[-1]
        v = s_n.value if isinstance(s_n, ast.Assign) and len(s_n.targets) == 1 else None
        if not (isinstance(v, ast.Call) and isinstance(v.func, ast.Name) and v.func.id == 'len' and len(v.args) == 1 and not v.keywords):
            raise Unrec(s_n, 'expected `n = len(G)`')
        f['dim'], f['dimOf'] = nm(s_n.targets[0], 'target'), nm(v.args[0], 'argument of len')
        br = body[-2]
        f['flag'] = nm(br.test, 'test of the `if`')
        if len(br.orelse) != 2:
            raise Unrec(br, 'expected two statements in the `else` branch')
        e0, e1 = br.orelse
        v = e0.value if isinstance(e0, ast.Assign) and len(e0.targets) == 1 else None
        if not (isinstance(v, ast.Call) and isinstance(v.func, ast.Name) and len(v.args) == 1 and not v.keywords):
            raise Unrec(e0, 'expected `e = distance_inv(G)`')
        f['res'], f['callee'], f['arg'] = nm(e0.targets[0], 'target'), q(v.func.id), nm(v.args[0], 'argument')
        v = e1.value if isinstance(e1, ast.Assign) and len(e1.targets) == 1 else None
        sm = np_call(v.left, 'sum', 1) if isinstance(v, ast.BinOp) and isinstance(v.op, ast.Div) else None
        if not (sm and not v.left.keywords):
            raise Unrec(e1, 'expected `E = np.sum(e) / (n * n - n)`')
        f['out'], f['sumOf'], f['den'] = nm(e1.targets[0], 'target'), nm(sm[0], 'argument of np.sum'), kex_expr(v.right)
        if body[-1].value is None:
            raise Unrec(body[-1], 'expected `return E`')
        f['ret'] = nm(body[-1].value, 'returned value')
        r.counts.update({'pre': len(mid) - 1, 'else': 2, 'if_branch_not_extracted': len(br.body)})
    except Unrec as e:
        r.bad(e.node if hasattr(e.node, 'lineno') else fn, e.msg)
    return r


LOC_FIELDS = ['out', 'zN', 'u', 'uN', 'v', 'va', 'vai', 'vb', 'vbi', 'e', 'callee', 'cm', 'c1', 'c2', 'se', 'se1', 'se2', 'sa', 'sam', 'sau', 'sav',
              'sam2', 'sav2', 'sau2', 'numer', 'o1', 'o2', 'o3', 'nd', 't', 'tz', 'denom', 'd1', 'dp', 'd2', 'd3', 'st', 'sti', 'sn', 'sd', 'ret']
LOC_NUM = {'nd', 'tz', 'dp'}


def extract_loc(fn, path):
    """efficiency_bin: the statements of the `if local:` branch (Model/CoreIRLoc.lean: LocIR); the common fields come from extract_eff"""
    X = _TX
    r = Routine(fn.name, path)
    r.line = fn.lineno
    f = {k: ('99' if k in LOC_NUM else q('?')) for k in LOC_FIELDS}
    r.fields = f

    def sub(node, what):
        if isinstance(node, ast.Subscript):
            return node.value, node.slice
        raise Unrec(node, 'expected `%s`' % what)

    def at2(node, what):
        v, sl = sub(node, what)
        if isinstance(sl, ast.Tuple) and len(sl.elts) == 2:
            return v, sl.elts[0], sl.elts[1]
        raise Unrec(node, 'expected `%s`' % what)

    def tr(node, what):
        if isinstance(node, ast.Attribute) and node.attr == 'T':
            return node.value
        raise Unrec(node, 'expected `%s`' % what)
    try:
        body = body_wo_doc(fn)
        if len(body) < 2 or not isinstance(body[-2], ast.If) or not isinstance(body[-1], ast.Return) or body[-1].value is None:
            raise Unrec(fn, 'expected `if local: … else: …` and `return E` at the end')
        br = body[-2].body
        r.parts = {'body': lines_of(br)}
        r.counts = {'if_branch': len(br)}
        if len(br) != 2:
            raise Unrec(body[-2], 'expected two statements in the `if local:` branch, found %d' % len(br))
        w = 'E = np.zeros((n,))'
        t, v = X.assign(br[0], w)
        z = X.np1(v, 'zeros', w)[0]
        if not (isinstance(z, ast.Tuple) and len(z.elts) == 1):
            raise Unrec(br[0], 'expected `%s`' % w)
        f['out'], f['zN'] = X.nm(t, 'target'), X.nm(z.elts[0], 'length')
        lp = br[1]
        it = lp.iter if isinstance(lp, ast.For) else None
        if not (it is not None and not lp.orelse and isinstance(it, ast.Call) and isinstance(it.func, ast.Name) and it.func.id == 'range'
                and len(it.args) == 1 and not it.keywords and len(lp.body) == 6):
            raise Unrec(lp, 'expected `for u in range(n):` with six statements')
        f['u'], f['uN'] = X.nm(lp.target, 'loop variable'), X.nm(it.args[0], 'bound')
        b0, b1, b2, b3, b4, b5 = lp.body
        w = 'V, = np.where(np.logical_or(G[u, :], G[:, u].T))'
        t, v = X.assign(b0, w)
        lo = np_call(X.np1(v, 'where', w)[0], 'logical_or', 2)
        if not (isinstance(t, ast.Tuple) and len(t.elts) == 1 and lo):
            raise Unrec(b0, 'expected `%s`' % w)
        va, vai, s1 = at2(lo[0], w)
        vb, s2, vbi = at2(tr(lo[1], w), w)
        if not (full_slice(s1) and full_slice(s2)):
            raise Unrec(b0, 'expected `%s`' % w)
        f['v'], f['va'], f['vai'], f['vb'], f['vbi'] = X.nm(t.elts[0], 'target'), X.nm(va, 'matrix'), X.nm(vai, 'node'), X.nm(vb, 'matrix'), X.nm(vbi, 'node')
        w = 'e = distance_inv(G[np.ix_(V, V)])'
        t, v = X.assign(b1, w)
        if not (isinstance(v, ast.Call) and isinstance(v.func, ast.Name) and len(v.args) == 1 and not v.keywords):
            raise Unrec(b1, 'expected `%s`' % w)
        cm, ix = sub(v.args[0], w)
        ixa = np_call(ix, 'ix_', 2)
        if not ixa or ix.keywords:
            raise Unrec(b1, 'expected `%s`' % w)
        f['e'], f['callee'], f['cm'], f['c1'], f['c2'] = X.nm(t, 'target'), q(v.func.id), X.nm(cm, 'matrix'), X.nm(ixa[0], 'neighbours'), X.nm(ixa[1], 'neighbours')
        w = 'se = e + e.T'
        t, v = X.assign(b2, w)
        l, rt = X.binop(v, ast.Add, w)
        f['se'], f['se1'], f['se2'] = X.nm(t, 'target'), X.nm(l, 'summand'), X.nm(tr(rt, w), 'transposed summand')
        w = 'sa = G[u, V] + G[V, u].T'
        t, v = X.assign(b3, w)
        l, rt = X.binop(v, ast.Add, w)
        m1, u1, v1 = at2(l, w)
        m2, v2, u2 = at2(tr(rt, w), w)
        f['sa'], f['sam'], f['sau'], f['sav'] = X.nm(t, 'target'), X.nm(m1, 'matrix'), X.nm(u1, 'node'), X.nm(v1, 'neighbours')
        f['sam2'], f['sav2'], f['sau2'] = X.nm(m2, 'matrix'), X.nm(v2, 'neighbours'), X.nm(u2, 'node')
        w = 'numer = np.sum(np.outer(sa.T, sa) * se) / 2'
        t, v = X.assign(b4, w)
        sm_, nd = X.binop(v, ast.Div, w)
        ou, o3 = X.binop(X.np1(sm_, 'sum', w)[0], ast.Mult, w)
        oa = np_call(ou, 'outer', 2)
        if not oa or ou.keywords:
            raise Unrec(b4, 'expected `%s`' % w)
        f['numer'], f['o1'], f['o2'], f['o3'], f['nd'] = X.nm(t, 'target'), X.nm(tr(oa[0], w), 'factor'), X.nm(oa[1], 'factor'), X.nm(o3, 'factor'), X.nat(nd, 'divisor')
        w = 'if numer != 0: denom = np.sum(sa)**2 - np.sum(sa * sa); E[u] = numer / denom'
        if not (isinstance(b5, ast.If) and not b5.orelse and len(b5.body) == 2 and isinstance(b5.test, ast.Compare) and len(b5.test.ops) == 1
                and isinstance(b5.test.ops[0], ast.NotEq)):
            raise Unrec(b5, 'expected `%s`' % w)
        f['t'], f['tz'] = X.nm(b5.test.left, 'tested name'), X.nat(b5.test.comparators[0], 'literal')
        t, v = X.assign(b5.body[0], w)
        pw, s2_ = X.binop(v, ast.Sub, w)
        base, dp = X.binop(pw, ast.Pow, w)
        d2, d3 = X.binop(X.np1(s2_, 'sum', w)[0], ast.Mult, w)
        f['denom'], f['d1'], f['dp'], f['d2'], f['d3'] = X.nm(t, 'target'), X.nm(X.np1(base, 'sum', w)[0], 'links'), X.nat(dp, 'exponent'), X.nm(d2, 'links'), X.nm(d3, 'links')
        t, v = X.assign(b5.body[1], w)
        st, sti = sub(t, w)
        sn, sd = X.binop(v, ast.Div, w)
        f['st'], f['sti'], f['sn'], f['sd'] = X.nm(st, 'target'), X.nm(sti, 'node'), X.nm(sn, 'numerator'), X.nm(sd, 'denominator')
        f['ret'] = X.nm(body[-1].value, 'returned value')
    except Unrec as e:
        r.bad(e.node if hasattr(e.node, 'lineno') else fn, e.msg)
    return r


WEI_EFF_FIELDS = ['guardT', 'guardKeys', 'guardExc', 'dim', 'dimOf', 'gl', 'glCallee', 'glArg', 'glKw', 'glKwVal', 'adj', 'adjOf', 'adjLit', 'adjDtype', 'tests', 'res', 'callee', 'arg',
                  'out', 'sumOf', 'den', 'ret']
DINV_FIELDS = ['f1M', 'f1V', 'invT', 'invNum', 'invOf', 'f2M', 'f2V', 'ret']


def extract_dinv(g, path):
    """the nested distance_inv_wei of efficiency_wei: the Dijkstra part through extract_dijk_whole (DijkIR), then the three statements after
    the row loop (Model/CoreIRDinv.lean: DinvIR) -> (Routine of the Dijkstra part, {epilogue fields}, [problems])"""
    X = _TX
    import copy
    body = body_wo_doc(g)
    loops = [i for i, st in enumerate(body) if isinstance(st, ast.For)]
    f = {'f1M': q('?'), 'f1V': '99', 'invT': q('?'), 'invNum': '99', 'invOf': q('?'), 'f2M': q('?'), 'f2V': '99', 'ret': q('?')}
    probs = []
    if len(loops) != 1 or len(body) != loops[0] + 5 or not isinstance(body[-1], ast.Return):
        rd = Routine(g.name, path); rd.line = g.lineno
        rd.fields = {'param': q('?'), 'pre': '[]', 'rowVar': q('?'), 'rowBound': q('?'), 'rowPre': '[]', 'whileBody': '[]', 'ret': '[]'}
        rd.bad(g, 'expected statements, one `for` loop, `np.fill_diagonal(D, 1)`, `D = 1 / D`, `np.fill_diagonal(D, 0)`, `return D`')
        return rd, f, probs
    g2 = copy.copy(g)
    g2.body = body[:loops[0] + 1] + [body[-1]]
    rd = extract_dijk_whole(g2, path)
    rd.name = g.name
    rd.problems = [p_.replace('distance_wei:', g.name + ':', 1) for p_ in rd.problems]
    e0, e1, e2 = body[loops[0] + 1:loops[0] + 4]
    try:
        def fill(st, what):
            c = np_call(st.value, 'fill_diagonal', 2) if isinstance(st, ast.Expr) else None
            if not c or st.value.keywords:
                raise Unrec(st, 'expected `%s`' % what)
            return X.nm(c[0], 'matrix'), X.nat(c[1], 'value')
        f['f1M'], f['f1V'] = fill(e0, 'np.fill_diagonal(D, 1)')
        t, v = X.assign(e1, 'D = 1 / D')
        nu, de = X.binop(v, ast.Div, 'D = 1 / D')
        f['invT'], f['invNum'], f['invOf'] = X.nm(t, 'target'), X.nat(nu, 'numerator'), X.nm(de, 'matrix')
        f['f2M'], f['f2V'] = fill(e2, 'np.fill_diagonal(D, 0)')
        f['ret'] = X.nm(body[-1].value, 'returned value')
    except Unrec as e:
        probs.append('%s: %s:%s: %s' % (g.name, os.path.basename(path), getattr(e.node, 'lineno', '?'), e.msg))
    return rd, f, probs


def extract_wei_eff(fn, path):
    """efficiency_wei: the nested distance_inv_wei, the statements before the `if` chain, the tests, the last branch (Model/CoreIREffW.lean: WeiIR)"""
    X = _TX
    r = Routine(fn.name, path)
    r.line = fn.lineno
    a = fn.args
    if a.vararg or a.kwarg or a.kwonlyargs or getattr(a, 'posonlyargs', []):
        r.bad(fn, 'unexpected parameter kinds')
    f = {k: q('?') for k in WEI_EFF_FIELDS}
    f.update(den='(.lit 0)', adjLit='99', tests='[]', guardKeys='[]', params=lst(q(x.arg) for x in a.args), defaults=lean_defaults(defaults_of(fn)))
    r.fields = f
    r.inner = None
    body = body_wo_doc(fn)
    r.parts = {'body': lines_of(body)}
    r.counts = {}
    try:
        if (len(body) != 7 or not isinstance(body[0], ast.If) or not isinstance(body[1], ast.FunctionDef) or not isinstance(body[-1], ast.Return)
                or not isinstance(body[-2], ast.If)):
            raise Unrec(fn, 'expected the guard on `local`, the nested helper, `n = len(Gw)`, `Gl = invert(Gw, copy=True)`, '
                            '`A = np.array((Gw != 0), dtype=int)`, the `if` chain, `return E`')
        gd = body[0]
        if not (isinstance(gd.test, ast.Compare) and len(gd.test.ops) == 1 and isinstance(gd.test.ops[0], ast.NotIn)
                and isinstance(gd.test.comparators[0], (ast.Tuple, ast.List)) and not gd.orelse and len(gd.body) == 1 and isinstance(gd.body[0], ast.Raise)
                and gd.body[0].cause is None and isinstance(gd.body[0].exc, ast.Call) and isinstance(gd.body[0].exc.func, ast.Name)):
            raise Unrec(gd, 'expected `if local not in (…): raise BCTParamError(…)`')
        f['guardT'], f['guardKeys'], f['guardExc'] = (X.nm(gd.test.left, 'tested name'), lst(q(ast.unparse(x)) for x in gd.test.comparators[0].elts),
                                                      q(gd.body[0].exc.func.id))
        body = body[1:]
        g = body[0]
        if g.decorator_list or g.args.vararg or g.args.kwarg or g.args.kwonlyargs or g.args.defaults:
            r.bad(g, 'unexpected parameter kinds / decorators on the nested function')
        r.inner = extract_dinv(g, path)
        for p_ in r.inner[0].problems + r.inner[2]:
            r.problems.append(p_.replace(g.name + ':', fn.name + ': nested ' + g.name + ':', 1))
        w = 'n = len(Gw)'
        t, v = X.assign(body[1], w)
        f['dim'], f['dimOf'] = X.nm(t, 'target'), X.nm(X.len1(v, w), 'matrix')
        w = 'Gl = invert(Gw, copy=True)'
        t, v = X.assign(body[2], w)
        if not (isinstance(v, ast.Call) and isinstance(v.func, ast.Name) and len(v.args) == 1 and len(v.keywords) == 1 and v.keywords[0].arg is not None):
            raise Unrec(body[2], 'expected `%s`' % w)
        f['gl'], f['glCallee'], f['glArg'], f['glKw'], f['glKwVal'] = X.nm(t, 'target'), q(v.func.id), X.nm(v.args[0], 'matrix'), q(v.keywords[0].arg), q(ast.unparse(v.keywords[0].value))
        w = 'A = np.array((Gw != 0), dtype=int)'
        t, v = X.assign(body[3], w)
        c, kw_ = X.np1(v, 'array', w, ('dtype',))
        if not (isinstance(c, ast.Compare) and len(c.ops) == 1 and isinstance(c.ops[0], ast.NotEq)):
            raise Unrec(body[3], 'expected `%s`' % w)
        f['adj'], f['adjOf'], f['adjLit'], f['adjDtype'] = X.nm(t, 'target'), X.nm(c.left, 'matrix'), X.nat(c.comparators[0], 'literal'), X.nm(kw_['dtype'], 'dtype')
        tests, node, last = [], body[4], None
        while True:
            tst = node.test
            if not (isinstance(tst, ast.Compare) and len(tst.ops) == 1):
                raise Unrec(node, 'expected `local == …` or `local in (…)`')
            if isinstance(tst.ops[0], ast.Eq):
                keys, is_in = [ast.unparse(tst.comparators[0])], 'false'
            elif isinstance(tst.ops[0], ast.In) and isinstance(tst.comparators[0], (ast.Tuple, ast.List)):
                keys, is_in = [ast.unparse(x) for x in tst.comparators[0].elts], 'true'
            else:
                raise Unrec(node, 'expected `local == …` or `local in (…)`')
            tests.append('(%s, %s, %s, %d)' % (X.nm(tst.left, 'tested name'), is_in, lst(q(k_) for k_ in keys), len(node.body)))
            last = node
            if not node.orelse:
                break
            if len(node.orelse) != 1 or not isinstance(node.orelse[0], ast.If):
                raise Unrec(node, 'expected `elif` (one nested `if`) or nothing after the branch')
            node = node.orelse[0]
        f['tests'] = lst(tests)
        r.counts.update({'branches': len(tests)})
        if len(last.body) != 2:
            raise Unrec(last, 'expected two statements in the last branch')
        e0, e1 = last.body
        t, v = X.assign(e0, 'e = distance_inv_wei(Gl)')
        if not (isinstance(v, ast.Call) and isinstance(v.func, ast.Name) and len(v.args) == 1 and not v.keywords):
            raise Unrec(e0, 'expected `e = distance_inv_wei(Gl)`')
        f['res'], f['callee'], f['arg'] = X.nm(t, 'target'), q(v.func.id), X.nm(v.args[0], 'argument')
        t, v = X.assign(e1, 'E = np.sum(e) / (n * n - n)')
        sm_, de = X.binop(v, ast.Div, 'E = np.sum(e) / (n * n - n)')
        f['out'], f['sumOf'], f['den'] = X.nm(t, 'target'), X.nm(X.np1(sm_, 'sum', 'E = np.sum(e) / (n * n - n)')[0], 'argument of np.sum'), kex_expr(de)
        f['ret'] = X.nm(body[-1].value, 'returned value')
    except Unrec as e:
        r.bad(e.node if hasattr(e.node, 'lineno') else fn, e.msg)
    return r


LOCW_FIELDS = ['branch', 'out', 'zN', 'u', 'uN', 'v', 'va', 'vai', 'vb', 'vbi', 'sw', 'swF1', 'swM1', 'swU1', 'swV1', 'swF2', 'swM2', 'swV2', 'swU2', 'e',
               'callee', 'lenCbrt', 'lenF', 'cm', 'c1', 'c2', 'se', 'seCbrt', 'seF1', 'se1', 'seF2', 'se2', 'numer', 'o1', 'o2', 'o3', 'nd', 't', 'tz', 'sa',
               'sam', 'sau', 'sav', 'sam2', 'sav2', 'sau2', 'denom', 'd1', 'dp', 'd2', 'd3', 'st', 'sti', 'sn', 'sd']
LOCW_NUM = {'branch', 'nd', 'tz', 'dp'}
LOCW_BOOL = {'lenCbrt', 'seCbrt'}


def locw_default():
    return {k: ('99' if k in LOCW_NUM else 'false' if k in LOCW_BOOL else q('?')) for k in LOCW_FIELDS}


def extract_locw(fn, path, which):
    """efficiency_wei: the statements of branch number `which` of the `if` chain (Model/CoreIRLocW.lean: LocWIR)"""
    X = _TX
    r = Routine(fn.name, path)
    r.line = fn.lineno
    f = locw_default()
    f['branch'] = '%d' % which
    r.fields = f

    def sub(node, what):
        if isinstance(node, ast.Subscript):
            return node.value, node.slice
        raise Unrec(node, 'expected `%s`' % what)

    def at2(node, what):
        v, sl = sub(node, what)
        if isinstance(sl, ast.Tuple) and len(sl.elts) == 2:
            return v, sl.elts[0], sl.elts[1]
        raise Unrec(node, 'expected `%s`' % what)

    def tr(node, what):
        if isinstance(node, ast.Attribute) and node.attr == 'T':
            return node.value
        raise Unrec(node, 'expected `%s`' % what)

    def call1(node, what):
        """f(x) -> (f, x)"""
        if isinstance(node, ast.Call) and isinstance(node.func, ast.Name) and len(node.args) == 1 and not node.keywords:
            return node.func.id, node.args[0]
        raise Unrec(node, 'expected `%s`' % what)
    try:
        body = body_wo_doc(fn)
        chain = [st for st in body if isinstance(st, ast.If) and isinstance(st.test, ast.Compare) and isinstance(st.test.ops[0], (ast.Eq, ast.In))]
        if len(chain) != 1:
            raise Unrec(fn, 'expected exactly one `if local == …` chain')
        node = chain[0]
        for _ in range(which):
            if len(node.orelse) != 1 or not isinstance(node.orelse[0], ast.If):
                raise Unrec(node, 'expected an `elif` after the branch')
            node = node.orelse[0]
        br = node.body
        r.parts = {'body': lines_of(br)}
        r.counts = {'branch': len(br)}
        if len(br) != 2:
            raise Unrec(node, 'expected two statements in the branch, found %d' % len(br))
        w = 'E = np.zeros((n,))'
        t, v = X.assign(br[0], w)
        z = X.np1(v, 'zeros', w)[0]
        if not (isinstance(z, ast.Tuple) and len(z.elts) == 1):
            raise Unrec(br[0], 'expected `%s`' % w)
        f['out'], f['zN'] = X.nm(t, 'target'), X.nm(z.elts[0], 'length')
        lp = br[1]
        it = lp.iter if isinstance(lp, ast.For) else None
        if not (it is not None and not lp.orelse and isinstance(it, ast.Call) and isinstance(it.func, ast.Name) and it.func.id == 'range'
                and len(it.args) == 1 and not it.keywords and len(lp.body) == 6):
            raise Unrec(lp, 'expected `for u in range(n):` with six statements')
        f['u'], f['uN'] = X.nm(lp.target, 'loop variable'), X.nm(it.args[0], 'bound')
        b0, b1, b2, b3, b4, b5 = lp.body
        w = 'V, = np.where(np.logical_or(Gw[u, :], Gw[:, u].T))'
        t, v = X.assign(b0, w)
        lo = np_call(X.np1(v, 'where', w)[0], 'logical_or', 2)
        if not (isinstance(t, ast.Tuple) and len(t.elts) == 1 and lo):
            raise Unrec(b0, 'expected `%s`' % w)
        va, vai, s1 = at2(lo[0], w)
        vb, s2, vbi = at2(tr(lo[1], w), w)
        if not (full_slice(s1) and full_slice(s2)):
            raise Unrec(b0, 'expected `%s`' % w)
        f['v'], f['va'], f['vai'], f['vb'], f['vbi'] = X.nm(t.elts[0], 'target'), X.nm(va, 'matrix'), X.nm(vai, 'node'), X.nm(vb, 'matrix'), X.nm(vbi, 'node')
        w = 'sw = cuberoot(Gw[u, V]) + cuberoot(Gw[V, u].T)'
        t, v = X.assign(b1, w)
        l, rt = X.binop(v, ast.Add, w)
        f1, a1 = call1(l, w)
        f2, a2 = call1(rt, w)
        m1, u1, v1 = at2(a1, w)
        m2, v2, u2 = at2(tr(a2, w), w)
        f['sw'], f['swF1'], f['swM1'], f['swU1'], f['swV1'] = X.nm(t, 'target'), q(f1), X.nm(m1, 'matrix'), X.nm(u1, 'node'), X.nm(v1, 'neighbours')
        f['swF2'], f['swM2'], f['swV2'], f['swU2'] = q(f2), X.nm(m2, 'matrix'), X.nm(v2, 'neighbours'), X.nm(u2, 'node')
        w = 'e = distance_inv_wei(Gl[np.ix_(V, V)]) / e = distance_inv_wei(cuberoot(Gl)[np.ix_(V, V)])'
        t, v = X.assign(b2, w)
        cal, arg = call1(v, w)
        cm, ix = sub(arg, w)
        ixa = np_call(ix, 'ix_', 2)
        if not ixa or ix.keywords:
            raise Unrec(b2, 'expected `%s`' % w)
        if isinstance(cm, ast.Call):
            lf, cm = call1(cm, w)
            f['lenCbrt'], f['lenF'] = 'true', q(lf)
        else:
            f['lenCbrt'], f['lenF'] = 'false', q('')
        f['e'], f['callee'], f['cm'], f['c1'], f['c2'] = X.nm(t, 'target'), q(cal), X.nm(cm, 'matrix'), X.nm(ixa[0], 'neighbours'), X.nm(ixa[1], 'neighbours')
        w = 'se = e + e.T / se = cuberoot(e) + cuberoot(e.T)'
        t, v = X.assign(b3, w)
        l, rt = X.binop(v, ast.Add, w)
        if isinstance(l, ast.Call) or isinstance(rt, ast.Call):
            sf1, l = call1(l, w)
            sf2, rt = call1(rt, w)
            f['seCbrt'], f['seF1'], f['seF2'] = 'true', q(sf1), q(sf2)
        else:
            f['seCbrt'], f['seF1'], f['seF2'] = 'false', q(''), q('')
        f['se'], f['se1'], f['se2'] = X.nm(t, 'target'), X.nm(l, 'summand'), X.nm(tr(rt, w), 'transposed summand')
        w = 'numer = np.sum(np.outer(sw.T, sw) * se) / 2'
        t, v = X.assign(b4, w)
        sm_, nd = X.binop(v, ast.Div, w)
        ou, o3 = X.binop(X.np1(sm_, 'sum', w)[0], ast.Mult, w)
        oa = np_call(ou, 'outer', 2)
        if not oa or ou.keywords:
            raise Unrec(b4, 'expected `%s`' % w)
        f['numer'], f['o1'], f['o2'], f['o3'], f['nd'] = X.nm(t, 'target'), X.nm(tr(oa[0], w), 'factor'), X.nm(oa[1], 'factor'), X.nm(o3, 'factor'), X.nat(nd, 'divisor')
        w = 'if numer != 0: sa = A[u, V] + A[V, u].T; denom = np.sum(sa)**2 - np.sum(sa * sa); E[u] = numer / denom'
        if not (isinstance(b5, ast.If) and not b5.orelse and len(b5.body) == 3 and isinstance(b5.test, ast.Compare) and len(b5.test.ops) == 1
                and isinstance(b5.test.ops[0], ast.NotEq)):
            raise Unrec(b5, 'expected `%s`' % w)
        f['t'], f['tz'] = X.nm(b5.test.left, 'tested name'), X.nat(b5.test.comparators[0], 'literal')
        t, v = X.assign(b5.body[0], w)
        l, rt = X.binop(v, ast.Add, w)
        m1, u1, v1 = at2(l, w)
        m2, v2, u2 = at2(tr(rt, w), w)
        f['sa'], f['sam'], f['sau'], f['sav'] = X.nm(t, 'target'), X.nm(m1, 'matrix'), X.nm(u1, 'node'), X.nm(v1, 'neighbours')
        f['sam2'], f['sav2'], f['sau2'] = X.nm(m2, 'matrix'), X.nm(v2, 'neighbours'), X.nm(u2, 'node')
        t, v = X.assign(b5.body[1], w)
        pw, s2_ = X.binop(v, ast.Sub, w)
        base, dp = X.binop(pw, ast.Pow, w)
        d2, d3 = X.binop(X.np1(s2_, 'sum', w)[0], ast.Mult, w)
        f['denom'], f['d1'], f['dp'], f['d2'], f['d3'] = X.nm(t, 'target'), X.nm(X.np1(base, 'sum', w)[0], 'links'), X.nat(dp, 'exponent'), X.nm(d2, 'links'), X.nm(d3, 'links')
        t, v = X.assign(b5.body[2], w)
        st, sti = sub(t, w)
        sn, sd = X.binop(v, ast.Div, w)
        f['st'], f['sti'], f['sn'], f['sd'] = X.nm(st, 'target'), X.nm(sti, 'node'), X.nm(sn, 'numerator'), X.nm(sd, 'denominator')
    except Unrec as e:
        r.bad(e.node if hasattr(e.node, 'lineno') else fn, e.msg)
    return r


def lean_eff(r, path, prim, rl=None, rw=None, prim_inv=None, rlw=(), prim_cb=None):
    relb = os.path.basename(path)
    f = r.fields
    a, b = r.parts.get('body', (r.line, r.line))
    out = ['import BctVerif.Props.CoresEff',
           'import BctVerif.Props.CoresLoc',
           'import BctVerif.Props.CoresEffW',
           'import BctVerif.Props.CoresLocW',
           'import BctVerif.Props.CoresUtil',
           '/-!',
           '# GENERATED by translate/cores.py (family eff) — do not edit.  Re-emitted from the current source on every check run.',
           'source: %s' % path,
           '-/',
           'set_option linter.unusedTactic false',
           'set_option linter.unreachableTactic false',
           'namespace Bct.Gen.CoresEff',
           'open Bct Bct.Dist Bct.CoreIR.Bin Bct.CoreIR.Eff Bct.Cores.Bin Bct.Cores.Eff',
           '']
    out += lean_folded_primitive(prim, 'efficiency_bin')
    for p in r.problems:
        out.append('-- NOT RECOGNISED: ' + p.replace('\n', ' '))
    out.append('/-- the nested function of `efficiency_bin` -/\ndef ir_efficiency_bin_inner : BinIR :=\n  %s\n' % f['inner'])
    out.append('/-- `efficiency_bin` (%s:%d); the `if local:` branch is the separate value `loc_efficiency_bin` -/' % (relb, r.line))
    out.append('def ir_efficiency_bin : EffIR :=\n  { recognised := %s, origins := %s,\n    params := %s, defaults := %s,\n    innerName := %s,\n'
               '    inner := %s,\n    pre := %s,\n    %s }\n'
               % ('true' if not r.problems else 'false', lean_origins(r), f['params'], f['defaults'], f['innerName'], 'ir_efficiency_bin_inner', f['pre'],
                  ', '.join('%s := %s' % (k, f[k]) for k in EFF_FIELDS if k != 'innerName')))
    out.append('theorem efficiency_bin_ok : effOk ir_efficiency_bin = true := by\n  first | decide | fail "efficiency_bin_ok: the statements '
               'extracted from efficiency_bin (%s:%d-%d) %s"\n' % (relb, a, b, 'were not all recognised by translate/cores.py'
                                                                     if r.problems else 'are not the expected program'))
    out.append('theorem efficiency_bin_computes {n : Nat} (A : AMat Rat n) :\n'
               '    (runEff ir_efficiency_bin (n * n + 2) (embA A)).map (fun o => o.map Ext.fin) = efficiencyBin A :=\n'
               '  link_efficiency_bin _ efficiency_bin_ok A\n')
    if rl is not None:
        fl = rl.fields
        a2, b2 = rl.parts.get('body', (rl.line, rl.line))
        for p in rl.problems:
            out.append('-- NOT RECOGNISED: ' + p.replace('\n', ' '))
        out.append('/-- the `if local:` branch of `efficiency_bin` (%s:%d-%d) with the nested function and the statements before the `if` -/' % (relb, a2, b2))
        out.append('def loc_efficiency_bin : Bct.CoreIR.Loc.LocIR :=\n  { recognised := %s, origins := %s,\n    params := %s, defaults := %s,\n    innerName := %s,\n'
                   '    inner := ir_efficiency_bin_inner,\n    pre := %s, dim := %s, dimOf := %s, flag := %s,\n    %s }\n'
                   % ('true' if not (r.problems or rl.problems) else 'false', lean_origins(r), f['params'], f['defaults'], f['innerName'], f['pre'],
                      f['dim'], f['dimOf'], f['flag'], ', '.join('%s := %s' % (k, fl[k]) for k in LOC_FIELDS)))
        out.append('theorem efficiency_bin_local_ok : Bct.CoreIR.Loc.locOk loc_efficiency_bin = true := by\n  first | decide | fail "efficiency_bin_local_ok: '
                   'the statements of the `if local:` branch extracted from efficiency_bin (%s:%d-%d) %s"\n'
                   % (relb, a2, b2, 'were not all recognised by translate/cores.py' if (r.problems or rl.problems) else 'are not the expected program'))
        out.append('theorem efficiency_bin_local_computes {n : Nat} (A : AMat Rat n) (u : Fin n) :\n'
                   '    Bct.CoreIR.Loc.runLoc loc_efficiency_bin (fun k => k * k + 2) (embA A) u = Bct.LocalEff.effBinNode A u :=\n'
                   '  Bct.Cores.Loc.link_efficiency_bin_local _ efficiency_bin_local_ok A u\n')
    if rw is not None:
        if prim_inv is not None:
            out += lean_folded_primitive(prim_inv, 'efficiency_wei')
        fw = rw.fields
        a3, b3 = rw.parts.get('body', (rw.line, rw.line))
        for p in rw.problems:
            out.append('-- NOT RECOGNISED: ' + p.replace('\n', ' '))
        if rw.inner is not None:
            rd, fe, _ = rw.inner
            fd = rd.fields
            iname = q(rd.name)
        else:
            fd = {'param': q('?'), 'pre': '[]', 'rowVar': q('?'), 'rowBound': q('?'), 'rowPre': '[]', 'whileBody': '[]', 'ret': '[]'}
            fe = {'f1M': q('?'), 'f1V': '99', 'invT': q('?'), 'invNum': '99', 'invOf': q('?'), 'f2M': q('?'), 'f2V': '99', 'ret': q('?')}
            iname = q('?')
        out.append('/-- the Dijkstra part of the nested function of `efficiency_wei` -/')
        out.append('def ir_efficiency_wei_inner_dijk : Bct.CoreIR.Dijk.DijkIR :=\n  { recognised := %s, origins := [],\n    param := %s,\n    pre := %s,\n'
                   '    rowVar := %s, rowBound := %s,\n    rowPre := %s,\n    whileBody := %s,\n    ret := %s }\n'
                   % ('true' if not rw.problems else 'false', fd['param'], fd['pre'], fd['rowVar'], fd['rowBound'], fd['rowPre'], fd['whileBody'], fd['ret']))
        out.append('/-- the nested function of `efficiency_wei` -/')
        out.append('def ir_efficiency_wei_inner : Bct.CoreIR.Dinv.DinvIR :=\n  { name := %s, dijk := ir_efficiency_wei_inner_dijk, %s }\n'
                   % (iname, ', '.join('%s := %s' % (k, fe[k]) for k in DINV_FIELDS)))
        out.append('/-- `efficiency_wei` (%s:%d): nested function, the statements before the `if` chain, the tests, the branch of `local=False` -/' % (relb, rw.line))
        out.append('def ir_efficiency_wei : Bct.CoreIR.EffW.WeiIR :=\n  { recognised := %s, origins := %s,\n    params := %s, defaults := %s,\n'
                   '    inner := ir_efficiency_wei_inner,\n    %s }\n'
                   % ('true' if not rw.problems else 'false', lean_origins(rw), fw['params'], fw['defaults'],
                      ', '.join('%s := %s' % (k, fw[k]) for k in WEI_EFF_FIELDS)))
        out.append('theorem efficiency_wei_ok : Bct.CoreIR.EffW.weiOk ir_efficiency_wei = true := by\n  first | decide | fail "efficiency_wei_ok: the statements '
                   'extracted from efficiency_wei (%s:%d-%d) %s"\n' % (relb, a3, b3, 'were not all recognised by translate/cores.py'
                                                                         if rw.problems else 'are not the expected program'))
        out.append('theorem efficiency_wei_computes {n : Nat} (W : AMat Rat n) :\n'
                   '    Bct.CoreIR.EffW.runWei ir_efficiency_wei (n + 1) (Bct.Cores.Dijk.embG W) = efficiencyWei W :=\n'
                   '  Bct.Cores.EffW.link_efficiency_wei _ efficiency_wei_ok W\n')
    if prim_cb is not None and rlw:
        out += lean_folded_primitive(prim_cb, 'the `local` branches of efficiency_wei')
    for (bname, ref, which), rb in zip((('original', 'refOriginal', 0), ('local', 'refLocal', 1)), rlw):
        fb = rb.fields
        a4, b4 = rb.parts.get('body', (rb.line, rb.line))
        bad = bool(rb.problems or (rw is not None and rw.problems))
        for p in rb.problems:
            out.append('-- NOT RECOGNISED: ' + p.replace('\n', ' '))
        out.append('/-- the branch %s of `efficiency_wei` (%s:%d-%d) -/' % ("`local == 'original'`" if which == 0 else "`local in (True, 'local')`", relb, a4, b4))
        out.append('def locw_efficiency_wei_%s : Bct.CoreIR.LocW.LocWIR :=\n  { base := ir_efficiency_wei,\n    %s }\n'
                   % (bname, ', '.join('%s := %s' % (k, fb[k]) for k in LOCW_FIELDS)))
        out.append('theorem efficiency_wei_%s_ok : Bct.CoreIR.LocW.locWOk Bct.CoreIR.LocW.%s locw_efficiency_wei_%s = true := by\n  first | decide | fail '
                   '"efficiency_wei_%s_ok: the statements of the branch extracted from efficiency_wei (%s:%d-%d) %s"\n'
                   % (bname, ref, bname, bname, relb, a4, b4, 'were not all recognised by translate/cores.py' if bad else 'are not the expected program'))
        if which == 1:
            out.append('theorem efficiency_wei_local_computes {n : Nat} (cb : Rat → Rat) (hcb0 : cb 0 = 0) (hinv : ∀ x, x ≠ 0 → cb (1 / x) = 1 / cb x)\n'
                       '    (hne : ∀ x, x ≠ 0 → cb x ≠ 0) (W : AMat Rat n) (u : Fin n) :\n'
                       '    Bct.CoreIR.LocW.runLocW cb locw_efficiency_wei_local (fun k => k + 1) (Bct.Cores.Dijk.embG W) u =\n'
                       '      Bct.LocalEff.effWeiNode W (AMat.map cb W) u :=\n'
                       '  Bct.Cores.LocW.link_efficiency_wei_local _ efficiency_wei_local_ok cb hcb0 hinv hne W u\n')
    out.append('end Bct.Gen.CoresEff')
    return '\n'.join(out) + '\n'


def family_eff():
    path = os.path.join(common.REPO, 'bct', 'algorithms', 'efficiency.py')
    fns, err = parse_functions(path)
    name = 'efficiency_bin'
    if name not in fns:
        r = Routine(name, path); r.problems.append('%s: %s' % (name, err or 'function not found in ' + path))
        r.fields = None
    else:
        try:
            r = extract_eff(fns[name], path)
            check_header(r, fns[name], fns)
        except Exception as e:  # noqa — an extractor crash must not look like success
            r = Routine(name, path); r.problems.append('%s: extractor raised %s: %s' % (name, type(e).__name__, e))
            r.fields = None
    if not r.fields:
        r.fields = {k: q('?') for k in EFF_FIELDS}
        r.fields.update(den='(.lit 0)', params='[]', defaults='[]', pre='[]',
                        inner='{ recognised := false, origins := [], param := "?", pre := [], cond := "?", body := [], post := [], ret := "?" }')
    prim = fold_util_primitive(path, 'binarize')
    if name in fns:
        try:
            rl = extract_loc(fns[name], path)
        except Exception as e:  # noqa
            rl = Routine(name, path); rl.problems.append('%s: extractor of the `if local:` branch raised %s: %s' % (name, type(e).__name__, e))
            rl.fields = {k: ('99' if k in LOC_NUM else q('?')) for k in LOC_FIELDS}
    else:
        rl = Routine(name, path); rl.fields = {k: ('99' if k in LOC_NUM else q('?')) for k in LOC_FIELDS}
    wname = 'efficiency_wei'
    if wname in fns:
        try:
            rw = extract_wei_eff(fns[wname], path)
            check_header(rw, fns[wname], fns)
        except Exception as e:  # noqa
            rw = Routine(wname, path); rw.problems.append('%s: extractor raised %s: %s' % (wname, type(e).__name__, e))
            rw.inner = None
            rw.fields = dict({k: q('?') for k in WEI_EFF_FIELDS}, den='(.lit 0)', adjLit='99', tests='[]', guardKeys='[]', params='[]', defaults='[]')
    else:
        rw = Routine(wname, path); rw.problems.append('%s: %s' % (wname, err or 'function not found in ' + path)); rw.inner = None
        rw.fields = dict({k: q('?') for k in WEI_EFF_FIELDS}, den='(.lit 0)', adjLit='99', tests='[]', guardKeys='[]', params='[]', defaults='[]')
    prim_inv = fold_util_primitive(path, 'invert')
    prim_cb = fold_util_primitive(path, 'cuberoot')
    rlw = []
    for which in (0, 1):
        if wname in fns:
            try:
                rb = extract_locw(fns[wname], path, which)
            except Exception as e:  # noqa
                rb = Routine(wname, path); rb.problems.append('%s: extractor of branch %d raised %s: %s' % (wname, which, type(e).__name__, e))
                rb.fields = dict(locw_default(), branch='%d' % which)
        else:
            rb = Routine(wname, path); rb.fields = dict(locw_default(), branch='%d' % which)
        rlw.append(rb)
    return {'module': 'BctVerif.Gen.CoresEff', 'file': 'CoresEff.lean', 'text': lean_eff(r, path, prim, rl, rw, prim_inv, rlw, prim_cb), 'sources': [path],
            'routines': {r.name: dict(getattr(r, 'counts', {}), line=r.line, recognised=not r.problems),
                         r.name + ' (local branch)': dict(getattr(rl, 'counts', {}), line=rl.line, recognised=not rl.problems),
                         wname + ' (global part)': dict(getattr(rw, 'counts', {}), line=rw.line, recognised=not rw.problems),
                         'binarize (called by efficiency_bin)': dict(line=prim.line, file=rel(prim.file), recognised=not prim.problems),
                         wname + " (branch local == 'original')": dict(getattr(rlw[0], 'counts', {}), line=rlw[0].line, recognised=not rlw[0].problems),
                         wname + " (branch local in (True, 'local'))": dict(getattr(rlw[1], 'counts', {}), line=rlw[1].line, recognised=not rlw[1].problems),
                         'invert (called by efficiency_wei)': dict(line=prim_inv.line, file=rel(prim_inv.file), recognised=not prim_inv.problems),
                         'cuberoot (called by the local branches of efficiency_wei)': dict(line=prim_cb.line, file=rel(prim_cb.file),
                                                                                         recognised=not prim_cb.problems)},
            'problems': list(r.problems) + list(rl.problems) + list(rw.problems) + [p_ for rb in rlw for p_ in rb.problems] + list(prim.problems)
                        + list(prim_inv.problems) + list(prim_cb.problems)}


# ====================================================================== family 'walks'

def extract_pagerank(fn, path):
    """pagerank_centrality: whole body (Model/CoreIRWalks.lean: WStmt, PrIR); expressions are those of the clust family"""
    r = Routine(fn.name, path)
    r.line = fn.lineno
    a = fn.args
    if a.vararg or a.kwarg or a.kwonlyargs or getattr(a, 'posonlyargs', []):
        r.bad(fn, 'unexpected parameter kinds')
    f = {'params': lst(q(x.arg) for x in a.args), 'defaults': lean_defaults(defaults_of(fn)), 'imports': '[]', 'body': '[]', 'ret': '(.lit 0)'}
    r.fields = f
    body = body_wo_doc(fn)
    r.parts = {'body': lines_of(body)}
    if not body or not isinstance(body[-1], ast.Return) or body[-1].value is None:
        r.bad(fn, 'expected statements and a final `return <expression>`')
        return r
    x = ClustX()
    imports = {}
    out = []

    def one(st):
        if isinstance(st, ast.ImportFrom) and len(st.names) == 1 and st.names[0].name != '*' and not out:
            al = st.names[0]
            if st.level == 0 and st.module and not st.module.split('.')[0] == 'bct':
                org = 'external %s:%s' % (st.module, al.name)
            else:
                try:
                    tp_ = target_path(path, st.level, st.module)
                    org = origin_str(resolve(tp_, al.name)) if tp_ else 'external %s:%s' % (st.module, al.name)
                except ResolveError as e:
                    r.bad(st, 'cannot resolve the local import: %s' % e)
                    org = 'unresolved'
            imports[al.asname or al.name] = org
            return None
        if isinstance(st, ast.Assign) and len(st.targets) == 1:
            t, v = st.targets[0], st.value
            if isinstance(t, ast.Name):
                if (isinstance(v, ast.Call) and isinstance(v.func, ast.Attribute) and v.func.attr == 'solve'
                        and isinstance(v.func.value, ast.Name) and v.func.value.id in imports and len(v.args) == 2 and not v.keywords):
                    return '.solve %s %s %s %s' % (q(t.id), q(v.func.value.id), x.ex(v.args[0]), x.ex(v.args[1]))
                return '.bind %s %s' % (q(t.id), x.ex(v))
            if (isinstance(t, ast.Subscript) and isinstance(t.value, ast.Name) and isinstance(t.slice, ast.Compare)):
                return '.setMask %s %s %s' % (q(t.value.id), x.ex(t.slice), x.ex(v))
        if isinstance(st, ast.AugAssign) and isinstance(st.op, ast.Div) and isinstance(st.target, ast.Name):
            return '.augDiv %s %s' % (q(st.target.id), x.ex(st.value))
        if (isinstance(st, ast.If) and isinstance(st.test, ast.Compare) and len(st.test.ops) == 1 and isinstance(st.test.ops[0], ast.Is)
                and isinstance(st.test.left, ast.Name) and isinstance(st.test.comparators[0], ast.Constant)
                and st.test.comparators[0].value is None and len(st.body) == 1 and len(st.orelse) == 1):
            b0, b1 = st.body[0], st.orelse[0]
            if (all(isinstance(b, ast.Assign) and len(b.targets) == 1 and isinstance(b.targets[0], ast.Name) for b in (b0, b1))
                    and b0.targets[0].id == b1.targets[0].id):
                return '.bindIfNone %s %s %s %s' % (q(b0.targets[0].id), q(st.test.left.id), x.ex(b0.value), x.ex(b1.value))
        raise Unrec(st, 'unrecognised statement %s' % src_of(st))
    for st in body[:-1]:
        try:
            t_ = one(st)
            if t_ is not None:
                out.append(t_)
        except Unrec as e:
            r.bad(e.node if hasattr(e.node, 'lineno') else st, e.msg)
    f['body'] = '[' + ',\n      '.join(out) + ']'
    f['imports'] = lean_defaults(sorted(imports.items()))
    try:
        f['ret'] = x.ex(body[-1].value)
    except Unrec as e:
        r.bad(e.node if hasattr(e.node, 'lineno') else body[-1], e.msg)
    r.counts = {'body': len(body) - 1}
    return r


MFPT_FIELDS = ['param', 'pVar', 'sumOf', 'sumAxis', 'rhs', 'dim', 'dimOf', 'evals', 'evecs', 'eigOf', 'aux', 'auxOf', 'auxShift', 'idx', 'idxL',
               'idxR', 'tolVec', 'tolIdx', 'tolNum', 'tolDen', 'exc', 'w', 'wMat', 'wIdx', 'w2', 'w2Num', 'w2Den', 'bigW', 'repOf', 'repN',
               'repAxis', 'eye', 'eyeN', 'z', 'zI', 'zP', 'zW', 'out', 'outDiag', 'outN', 'outAxis', 'outSub', 'outDiv', 'ret']
MFPT_NUM = {'sumAxis', 'auxShift', 'tolNum', 'tolDen', 'repAxis', 'outAxis'}


def extract_mfpt(fn, path):
    """mean_first_passage_time: thirteen statements matched positionally (Model/CoreIRWalks.lean: MfptIR)"""
    from fractions import Fraction
    r = Routine(fn.name, path)
    r.line = fn.lineno
    a = fn.args
    if len(a.args) != 1 or a.vararg or a.kwarg or a.kwonlyargs or a.defaults:
        r.bad(fn, 'expected exactly one parameter without default')
    f = {k: ('99' if k in MFPT_NUM else q('?')) for k in MFPT_FIELDS}
    f['param'] = q(a.args[0].arg if a.args else '?')
    r.fields = f
    body = body_wo_doc(fn)
    r.parts = {'body': lines_of(body)}
    r.counts = {'body': len(body)}

    def nm(node, what):
        if isinstance(node, ast.Name):
            return q(node.id)
        raise Unrec(node, 'expected a name as %s, found %s' % (what, src_of(node)))

    def nat(node, what):
        z = const_int(node)
        if z is None or z < 0:
            raise Unrec(node, 'expected a natural number as %s, found %s' % (what, src_of(node)))
        return '%d' % z

    def nplinalg(node, fn_, nargs):
        if (isinstance(node, ast.Call) and isinstance(node.func, ast.Attribute) and node.func.attr == fn_
                and is_np(node.func.value, 'linalg') and len(node.args) == nargs and not node.keywords):
            return node.args
        return None

    def assign(st, what):
        if isinstance(st, ast.Assign) and len(st.targets) == 1:
            return st.targets[0], st.value
        raise Unrec(st, 'expected `%s`' % what)

    def repeat(node, what):
        c = np_call(node, 'repeat', 3)
        if not c or node.keywords:
            raise Unrec(node, 'expected `%s`' % what)
        return c
    try:
        if len(body) != 13:
            raise Unrec(fn, 'expected exactly 13 statements, found %d' % len(body))
        s0, s1, s2, s3, s4, s5, s6, s7, s8, s9, s10, s11, s12 = body
        w0 = 'P = np.linalg.solve(np.diag(np.sum(adjacency, axis=1)), adjacency)'
        t, v = assign(s0, w0)
        sv = nplinalg(v, 'solve', 2)
        dg = np_call(sv[0], 'diag', 1) if sv else None
        sm = np_call(dg[0], 'sum', 1) if dg and not sv[0].keywords else None
        if not (sm and len(dg[0].keywords) == 1 and kw(dg[0], 'axis') is not None):
            raise Unrec(s0, 'expected `%s`' % w0)
        f['pVar'], f['sumOf'], f['sumAxis'], f['rhs'] = nm(t, 'target'), nm(sm[0], 'summed matrix'), nat(kw(dg[0], 'axis'), 'axis'), nm(sv[1], 'right-hand side')
        t, v = assign(s1, 'n = len(P)')
        if not (isinstance(v, ast.Call) and isinstance(v.func, ast.Name) and v.func.id == 'len' and len(v.args) == 1 and not v.keywords):
            raise Unrec(s1, 'expected `n = len(P)`')
        f['dim'], f['dimOf'] = nm(t, 'target'), nm(v.args[0], 'argument of len')
        t, v = assign(s2, 'D, V = np.linalg.eig(P.T)')
        eg = nplinalg(v, 'eig', 1)
        if not (isinstance(t, ast.Tuple) and len(t.elts) == 2 and eg and isinstance(eg[0], ast.Attribute) and eg[0].attr == 'T'):
            raise Unrec(s2, 'expected `D, V = np.linalg.eig(P.T)`')
        f['evals'], f['evecs'], f['eigOf'] = nm(t.elts[0], 'eigenvalues'), nm(t.elts[1], 'eigenvectors'), nm(eg[0].value, 'matrix')
        t, v = assign(s3, 'aux = np.abs(D - 1)')
        ab = np_call(v, 'abs', 1)
        if not (ab and not v.keywords and isinstance(ab[0], ast.BinOp) and isinstance(ab[0].op, ast.Sub)):
            raise Unrec(s3, 'expected `aux = np.abs(D - 1)`')
        f['aux'], f['auxOf'], f['auxShift'] = nm(t, 'target'), nm(ab[0].left, 'eigenvalues'), nat(ab[0].right, 'shift')
        t, v = assign(s4, 'index = np.where(aux == aux.min())[0]')
        wh = np_call(v.value, 'where', 1) if isinstance(v, ast.Subscript) and const_int(v.slice) == 0 else None
        c = wh[0] if wh and not v.value.keywords else None
        if not (isinstance(c, ast.Compare) and len(c.ops) == 1 and isinstance(c.ops[0], ast.Eq) and isinstance(c.comparators[0], ast.Call)
                and isinstance(c.comparators[0].func, ast.Attribute) and c.comparators[0].func.attr == 'min'
                and not c.comparators[0].args and not c.comparators[0].keywords):
            raise Unrec(s4, 'expected `index = np.where(aux == aux.min())[0]`')
        f['idx'], f['idxL'], f['idxR'] = nm(t, 'target'), nm(c.left, 'compared vector'), nm(c.comparators[0].func.value, 'minimised vector')
        if not (isinstance(s5, ast.If) and not s5.orelse and len(s5.body) == 1 and isinstance(s5.body[0], ast.Raise) and s5.body[0].cause is None
                and isinstance(s5.body[0].exc, ast.Call) and isinstance(s5.body[0].exc.func, ast.Name)
                and isinstance(s5.test, ast.Compare) and len(s5.test.ops) == 1 and isinstance(s5.test.ops[0], ast.Gt)
                and isinstance(s5.test.left, ast.Subscript) and isinstance(s5.test.comparators[0], ast.Constant)
                and type(s5.test.comparators[0].value) in (int, float)):
            raise Unrec(s5, 'expected `if aux[index] > 10e-3: raise ValueError(…)`')
        tol = Fraction(repr(s5.test.comparators[0].value))
        f['tolVec'], f['tolIdx'] = nm(s5.test.left.value, 'tested vector'), nm(s5.test.left.slice, 'tested index')
        f['tolNum'], f['tolDen'], f['exc'] = '%d' % tol.numerator, '%d' % tol.denominator, q(s5.body[0].exc.func.id)
        t, v = assign(s6, 'w = V[:, index].T')
        sub = v.value if isinstance(v, ast.Attribute) and v.attr == 'T' else None
        if not (isinstance(sub, ast.Subscript) and isinstance(sub.slice, ast.Tuple) and len(sub.slice.elts) == 2 and full_slice(sub.slice.elts[0])):
            raise Unrec(s6, 'expected `w = V[:, index].T`')
        f['w'], f['wMat'], f['wIdx'] = nm(t, 'target'), nm(sub.value, 'eigenvector matrix'), nm(sub.slice.elts[1], 'column index')
        t, v = assign(s7, 'w = w / np.sum(w)')
        sm = np_call(v.right, 'sum', 1) if isinstance(v, ast.BinOp) and isinstance(v.op, ast.Div) else None
        if not (sm and not v.right.keywords):
            raise Unrec(s7, 'expected `w = w / np.sum(w)`')
        f['w2'], f['w2Num'], f['w2Den'] = nm(t, 'target'), nm(v.left, 'numerator'), nm(sm[0], 'summed vector')
        t, v = assign(s8, 'W = np.real(np.repeat(w, n, 0))')
        re_ = np_call(v, 'real', 1)
        if not (re_ and not v.keywords):
            raise Unrec(s8, 'expected `W = np.real(np.repeat(w, n, 0))`')
        rp = repeat(re_[0], 'W = np.real(np.repeat(w, n, 0))')
        f['bigW'], f['repOf'], f['repN'], f['repAxis'] = nm(t, 'target'), nm(rp[0], 'repeated vector'), nm(rp[1], 'count'), nat(rp[2], 'axis')
        t, v = assign(s9, 'I = np.eye(n)')
        ey = np_call(v, 'eye', 1)
        if not (ey and not v.keywords):
            raise Unrec(s9, 'expected `I = np.eye(n)`')
        f['eye'], f['eyeN'] = nm(t, 'target'), nm(ey[0], 'dimension')
        t, v = assign(s10, 'Z = np.linalg.inv(I - P + W)')
        iv = nplinalg(v, 'inv', 1)
        e = iv[0] if iv else None
        if not (isinstance(e, ast.BinOp) and isinstance(e.op, ast.Add) and isinstance(e.left, ast.BinOp) and isinstance(e.left.op, ast.Sub)):
            raise Unrec(s10, 'expected `Z = np.linalg.inv(I - P + W)`')
        f['z'], f['zI'], f['zP'], f['zW'] = nm(t, 'target'), nm(e.left.left, 'identity'), nm(e.left.right, 'transition matrix'), nm(e.right, 'W')
        w11 = 'mfpt = (np.repeat(np.atleast_2d(np.diag(Z)), n, 0) - Z) / W'
        t, v = assign(s11, w11)
        num = v.left if isinstance(v, ast.BinOp) and isinstance(v.op, ast.Div) else None
        if not (isinstance(num, ast.BinOp) and isinstance(num.op, ast.Sub)):
            raise Unrec(s11, 'expected `%s`' % w11)
        rp = repeat(num.left, w11)
        a2 = np_call(rp[0], 'atleast_2d', 1)
        dg = np_call(a2[0], 'diag', 1) if a2 and not rp[0].keywords else None
        if not (dg and not a2[0].keywords):
            raise Unrec(s11, 'expected `%s`' % w11)
        f['out'], f['outDiag'], f['outN'], f['outAxis'] = nm(t, 'target'), nm(dg[0], 'inverse'), nm(rp[1], 'count'), nat(rp[2], 'axis')
        f['outSub'], f['outDiv'] = nm(num.right, 'subtracted matrix'), nm(v.right, 'divisor')
        if not (isinstance(s12, ast.Return) and s12.value is not None):
            raise Unrec(s12, 'expected `return mfpt`')
        f['ret'] = nm(s12.value, 'returned value')
    except Unrec as e:
        r.bad(e.node if hasattr(e.node, 'lineno') else fn, e.msg)
    return r


def lean_walks(r, path, rm=None):
    relb = os.path.basename(path)
    f = r.fields or {'params': '[]', 'defaults': '[]', 'imports': '[]', 'body': '[]', 'ret': '(.lit 0)'}
    a, b = r.parts.get('body', (r.line, r.line))
    out = ['import BctVerif.Props.CoresWalks',
           '/-!',
           '# GENERATED by translate/cores.py (family walks) — do not edit.  Re-emitted from the current source on every check run.',
           'source: %s' % path,
           '-/',
           'set_option linter.unusedTactic false',
           'set_option linter.unreachableTactic false',
           'namespace Bct.Gen.CoresWalks',
           'open Bct Bct.Walks Bct.CoreIR.Walks Bct.Cores.Walks',
           'open Bct.CoreIR.Clust (Ex)',
           'open Bct.Cores.Clust (embA)',
           '']
    for p in r.problems:
        out.append('-- NOT RECOGNISED: ' + p.replace('\n', ' '))
    out.append('/-- `pagerank_centrality` (%s:%d) -/' % (relb, r.line))
    out.append('def ir_pagerank_centrality : PrIR :=\n  { recognised := %s, origins := %s,\n    params := %s, defaults := %s, imports := %s,\n'
               '    body := %s,\n    ret := %s }\n'
               % ('true' if not r.problems else 'false', lean_origins(r), f['params'], f['defaults'], f['imports'], f['body'], f['ret']))
    out.append('theorem pagerank_centrality_ok : prOk ir_pagerank_centrality = true := by\n  first | decide | fail "pagerank_centrality_ok: the '
               'statements extracted from pagerank_centrality (%s:%d-%d) %s"\n'
               % (relb, a, b, 'were not all recognised by translate/cores.py' if r.problems else 'are not the expected program'))
    out.append('theorem pagerank_centrality_computes {n : Nat} (sol : Vector Rat n) (A : QMat n) (d : Rat) (f : Option (Vector Int n)) (hn : 0 < n) :\n'
               '    run sol ir_pagerank_centrality (embA A) d (f.map embI) =\n'
               '      match prior f with\n'
               '      | .error _ => none\n'
               '      | .ok nf =>\n'
               '        if solves (prMat A d) sol (Vector.ofFn fun i => (1 - d) * nf[i]) then\n'
               '          (if fsum (fun i : Fin n => sol[i]) = 0 then none else some (Vector.ofFn fun i => sol[i] / fsum fun i : Fin n => sol[i]))\n'
               '        else none :=\n'
               '  link_pagerank _ pagerank_centrality_ok sol A d f hn\n')
    out.append('theorem pagerank_centrality_model {n : Nat} (A : QMat n) (d : Rat) (f : Option (Vector Int n)) (hn : 0 < n) (o : PrOut n)\n'
               '    (h : pagerank A d f = .ok o) : run o.r0 ir_pagerank_centrality (embA A) d (f.map embI) = some o.r :=\n'
               '  link_pagerank_model _ pagerank_centrality_ok A d f hn o h\n')
    if rm is not None:
        fm = rm.fields or {k: ('99' if k in MFPT_NUM else q('?')) for k in MFPT_FIELDS}
        relm = os.path.basename(rm.file)
        a, b = rm.parts.get('body', (rm.line, rm.line))
        for p in rm.problems:
            out.append('-- NOT RECOGNISED: ' + p.replace('\n', ' '))
        out.append('/-- `mean_first_passage_time` (%s:%d) -/' % (relm, rm.line))
        out.append('def ir_mean_first_passage_time : MfptIR :=\n  { recognised := %s, origins := %s,\n    %s }\n'
                   % ('true' if not rm.problems else 'false', lean_origins(rm), ', '.join('%s := %s' % (k, fm[k]) for k in MFPT_FIELDS)))
        out.append('theorem mean_first_passage_time_ok : mfptOk ir_mean_first_passage_time = true := by\n  first | decide | fail '
                   '"mean_first_passage_time_ok: the statements extracted from mean_first_passage_time (%s:%d-%d) %s"\n'
                   % (relm, a, b, 'were not all recognised by translate/cores.py' if rm.problems else 'are not the expected program'))
        out.append('theorem mean_first_passage_time_model {n : Nat} (W : QMat n) (o : MfptOut n) (h : mfpt W = .ok o)\n'
                   '    (Xp : QMat n) (hX : ∀ i j, rowSum W i * Xp.get i j = W.get i j) (Dv : Vector Rat n) (Vm : QMat n) (k : Fin n)\n'
                   '    (hsel : ∀ (a : Rat) (as : List Rat), (List.finRange n).map (fun i => absQ (Dv[i] - 1)) = a :: as →\n'
                   '      ((List.finRange n).filter fun i => absQ (Dv[i] - 1) == as.foldl (fun x y => if y < x then y else x) a) = [k])\n'
                   '    (htol : ¬ (1 : Rat) / 100 < absQ (Dv[k] - 1))\n'
                   '    (hs : ((List.finRange n).map fun i => Vm.get i k).sum ≠ 0)\n'
                   '    (hw : ∀ j : Fin n, Vm.get j k / ((List.finRange n).map fun i => Vm.get i k).sum = o.w[j]) :\n'
                   '    runMfpt ir_mean_first_passage_time W Xp Dv Vm o.Z = some o.M :=\n'
                   '  link_mfpt_model _ mean_first_passage_time_ok W o h Xp hX Dv Vm k hsel htol hs hw\n')
    out.append('end Bct.Gen.CoresWalks')
    return '\n'.join(out) + '\n'


def family_walks():
    path = os.path.join(common.REPO, 'bct', 'algorithms', 'centrality.py')
    fns, err = parse_functions(path)
    name = 'pagerank_centrality'
    if name not in fns:
        r = Routine(name, path); r.problems.append('%s: %s' % (name, err or 'function not found in ' + path))
    else:
        try:
            r = extract_pagerank(fns[name], path)
            check_header(r, fns[name], fns)
        except Exception as e:  # noqa — an extractor crash must not look like success
            r = Routine(name, path); r.problems.append('%s: extractor raised %s: %s' % (name, type(e).__name__, e))
    path2 = os.path.join(common.REPO, 'bct', 'algorithms', 'distance.py')
    fns2, err2 = parse_functions(path2)
    name2 = 'mean_first_passage_time'
    if name2 not in fns2:
        rm = Routine(name2, path2); rm.problems.append('%s: %s' % (name2, err2 or 'function not found in ' + path2))
    else:
        try:
            rm = extract_mfpt(fns2[name2], path2)
            check_header(rm, fns2[name2], fns2)
        except Exception as e:  # noqa — an extractor crash must not look like success
            rm = Routine(name2, path2); rm.problems.append('%s: extractor raised %s: %s' % (name2, type(e).__name__, e))
    return {'module': 'BctVerif.Gen.CoresWalks', 'file': 'CoresWalks.lean', 'text': lean_walks(r, path, rm), 'sources': [path, path2],
            'routines': {r.name: dict(getattr(r, 'counts', {}), line=r.line, recognised=not r.problems),
                         rm.name: dict(getattr(rm, 'counts', {}), line=rm.line, recognised=not rm.problems)},
            'problems': list(r.problems) + list(rm.problems)}


# ====================================================================== families of pinned routines

PIN_MODULES = {'modq': 'CoresMod', 'nullm': 'CoresNull', 'nbs': 'CoresNbs', 'synth': 'CoresSynth', 'pinrew': 'CoresPinRewire', 'pinmod': 'CoresPinMod',
               'pinpart': 'CoresPinPart', 'pindist': 'CoresPinDist', 'pinmeas': 'CoresPinMeas', 'pinwalk': 'CoresPinWalk', 'pingen': 'CoresPinGen',
               'pinutil': 'CoresPinUtil'}


def family_pinned(fam, extra=None):
    """Gen/<module>.lean with one source pin per routine of PINNED[fam]; `extra(out)` may add semantic IRs of parts"""
    mod = PIN_MODULES[fam]
    rs = []
    for relf, name in PINNED[fam]:
        rs.append(pin_routine(os.path.join(common.REPO, relf), name))
    imports = ['import BctVerif.Model.%s' % PIN_REF_FILE.get(fam, PIN_REF_DEFAULT)]
    body = []
    problems = []
    routines = {}
    if extra is not None:
        ex = extra()
        imports += ex.get('imports', [])
        body += ex.get('lean', [])
        problems += ex.get('problems', [])
        routines.update(ex.get('routines', {}))
    out = imports + ['/-!',
                     '# GENERATED by translate/cores.py (family %s) — do not edit.  Re-emitted from the current source on every check run.' % fam,
                     'sources: %s' % ', '.join(sorted({r.file for r in rs})),
                     '-/'] + (['set_option linter.unusedTactic false', 'set_option linter.unreachableTactic false'] if len(imports) > 1 else []) + [
                     'namespace Bct.Gen.%s' % mod,
                     'open Bct',
                     '']
    for r in rs:
        out += lean_pin(r)
        problems += list(r.problems)
        routines[r.name + ' (pin)'] = dict(getattr(r, 'counts', {}), line=r.line, recognised=not r.problems)
    out += body
    out.append('end Bct.Gen.%s' % mod)
    return {'module': 'BctVerif.Gen.%s' % mod, 'file': '%s.lean' % mod, 'text': '\n'.join(out) + '\n',
            'sources': sorted({r.file for r in rs}), 'routines': routines, 'problems': problems}



MOD_FIELDS = ['params', 'defaults', 'imports', 'pre', 'skipped', 'noneParam', 'noneCount', 'noneTarget', 'elseTarget', 'elseSource', 'post',
              'ret0', 'ret1']


def extract_modq(fn, path):
    """modularity_und / modularity_dir: the statements up to the modularity matrix, the frame of the partition choice, the
    statements after it (Model/CoreIRMod.lean: ModIR); the spectral part in between is counted, not interpreted"""
    r = Routine(fn.name, path)
    r.line = fn.lineno
    a = fn.args
    if a.vararg or a.kwarg or a.kwonlyargs or getattr(a, 'posonlyargs', []):
        r.bad(fn, 'unexpected parameter kinds')
    f = {'params': lst(q(x.arg) for x in a.args), 'defaults': lean_defaults(defaults_of(fn)), 'imports': '[]', 'pre': '[]', 'skipped': '0',
         'noneParam': q('?'), 'noneCount': '0', 'noneTarget': q('?'), 'elseTarget': q('?'), 'elseSource': q('?'), 'post': '[]',
         'ret0': q('?'), 'ret1': q('?')}
    r.fields = f
    body = body_wo_doc(fn)
    r.parts = {'body': lines_of(body)}
    x = ClustX()
    try:
        ifs = [i for i, st in enumerate(body) if isinstance(st, ast.If)]
        if len(ifs) != 1 or not isinstance(body[-1], ast.Return):
            raise Unrec(fn, 'expected exactly one top-level `if` and a final `return`')
        ii = ifs[0]
        br = body[ii]
        t = br.test
        if not (isinstance(t, ast.Compare) and len(t.ops) == 1 and isinstance(t.ops[0], ast.Is) and isinstance(t.left, ast.Name)
                and isinstance(t.comparators[0], ast.Constant) and t.comparators[0].value is None):
            raise Unrec(br, 'expected `if <parameter> is None:`')
        f['noneParam'] = q(t.left.id)
        last = br.body[-1] if br.body else None
        if not (isinstance(last, ast.Assign) and len(last.targets) == 1 and isinstance(last.targets[0], ast.Name)):
            raise Unrec(br, 'expected the `None` branch to end with an assignment to a name')
        f['noneCount'], f['noneTarget'] = '%d' % len(br.body), q(last.targets[0].id)
        e0 = br.orelse[0] if len(br.orelse) == 1 else None
        if not (isinstance(e0, ast.Assign) and len(e0.targets) == 1 and isinstance(e0.targets[0], ast.Name) and isinstance(e0.value, ast.Name)):
            raise Unrec(br, 'expected `else: ci = kci`')
        f['elseTarget'], f['elseSource'] = q(e0.targets[0].id), q(e0.value.id)
        # imports, then the statements the array language understands, then the uninterpreted rest up to the `if`
        imports = {}
        k_ = 0
        while k_ < ii and isinstance(body[k_], ast.ImportFrom) and len(body[k_].names) == 1 and body[k_].level == 0 and body[k_].module:
            al = body[k_].names[0]
            imports[al.asname or al.name] = 'external %s:%s' % (body[k_].module, al.name)
            k_ += 1
        f['imports'] = lean_defaults(sorted(imports.items()))
        pre = []
        while k_ < ii:
            try:
                pre.append(x.stmt(body[k_]))
            except Unrec:
                break
            k_ += 1
        f['pre'] = '[' + ',\n      '.join(pre) + ']'
        f['skipped'] = '%d' % (ii - k_)
        post = []
        for st in body[ii + 1:-1]:
            post.append(x.stmt(st))
        f['post'] = '[' + ',\n      '.join(post) + ']'
        rv = body[-1].value
        if not (isinstance(rv, ast.Tuple) and len(rv.elts) == 2 and all(isinstance(e, ast.Name) for e in rv.elts)):
            raise Unrec(body[-1], 'expected `return ci, q`')
        f['ret0'], f['ret1'] = q(rv.elts[0].id), q(rv.elts[1].id)
        r.counts = {'pre': len(pre), 'skipped': ii - k_, 'post': len(post)}
    except Unrec as e:
        r.bad(e.node if hasattr(e.node, 'lineno') else fn, e.msg)
    return r


AGG_FIELDS = ['dim', 'dimOf', 'newW', 'nz1', 'nz2', 'iVar', 'iN', 'jVar', 'jLo', 'jN', 'tmp', 'sumMat', 'labA', 'idxA', 'offA', 'labB', 'idxB',
              'offB', 'stores', 'rebind', 'qList', 'qAppend', 'qList2', 'qIdx', 'tr', 's1', 'gam', 'dl', 's2', 'dr', 's3']
AGG_DEFAULT = dict({k: q('?') for k in AGG_FIELDS}, jLo='none', tmp='none', offA='99', offB='99', stores='[]', rebind='none', qAppend='99')


def extract_agg(fn, path):
    """the aggregation step and `q[h]` in the body of `while True:` of modularity_louvain_und / _dir (Model/CoreIRMod.lean: AggIR)"""
    r = Routine(fn.name, path)
    r.line = fn.lineno
    f = dict(AGG_DEFAULT)
    r.fields = f

    def nm(node, what):
        if isinstance(node, ast.Name):
            return q(node.id)
        raise Unrec(node, 'expected a name as %s, found %s' % (what, src_of(node)))

    def assign(st, what):
        if isinstance(st, ast.Assign) and len(st.targets) == 1:
            return st.targets[0], st.value
        raise Unrec(st, 'expected `%s`' % what)

    def block_sum(v, what):
        """np.sum(W[np.ix_(m == i + 1, m == j + 1)]) -> fields"""
        sm = np_call(v, 'sum', 1)
        sub = sm[0] if sm and not v.keywords else None
        ix = np_call(sub.slice, 'ix_', 2) if isinstance(sub, ast.Subscript) else None
        if not (ix and not sub.slice.keywords):
            raise Unrec(v, 'expected `%s`' % what)
        out = [nm(sub.value, 'matrix')]
        for c in ix:
            if not (isinstance(c, ast.Compare) and len(c.ops) == 1 and isinstance(c.ops[0], ast.Eq) and isinstance(c.comparators[0], ast.BinOp)
                    and isinstance(c.comparators[0].op, ast.Add) and const_int(c.comparators[0].right) is not None):
                raise Unrec(v, 'expected `%s`' % what)
            out += [nm(c.left, 'labels'), nm(c.comparators[0].left, 'index'), lint(const_int(c.comparators[0].right))]
        return out
    try:
        wl = [st for st in body_wo_doc(fn) if isinstance(st, ast.While)]
        if len(wl) != 1 or not (isinstance(wl[0].test, ast.Constant) and wl[0].test.value is True):
            raise Unrec(fn, 'expected exactly one top-level `while True:`')
        wb = wl[0].body
        start = [k_ for k_, st in enumerate(wb) if isinstance(st, ast.Assign) and np_call(st.value, 'max', 1)]
        if len(start) != 1:
            raise Unrec(wl[0], 'expected exactly one `n = np.max(m)` in the body of `while True:`')
        k0 = start[0]
        end = [k_ for k_, st in enumerate(wb) if k_ > k0 and isinstance(st, ast.Assign) and isinstance(st.targets[0], ast.Subscript)
               and isinstance(st.value, ast.BinOp) and isinstance(st.value.op, ast.Sub) and isinstance(st.value.left, ast.BinOp)
               and np_call(st.value.left.left, 'trace', 1)]
        if len(end) != 1:
            raise Unrec(wl[0], 'expected exactly one `q[h] = np.trace(W) / s - …` after `n = np.max(m)`')
        blk = wb[k0:end[0] + 1]
        r.parts = {'body': lines_of(blk)}
        r.counts = {'statements': len(blk)}
        if len(blk) not in (5, 6):
            raise Unrec(blk[0], 'expected five or six statements from `n = np.max(m)` to `q[h] = …`, found %d' % len(blk))
        t, v = assign(blk[0], 'n = np.max(m)')
        f['dim'], f['dimOf'] = nm(t, 'target'), nm(np_call(v, 'max', 1)[0], 'labels')
        t, v = assign(blk[1], 'W1 = np.zeros((n, n))')
        z = np_call(v, 'zeros', 1)
        if not (z and not v.keywords and isinstance(z[0], ast.Tuple) and len(z[0].elts) == 2):
            raise Unrec(blk[1], 'expected `W1 = np.zeros((n, n))`')
        f['newW'], f['nz1'], f['nz2'] = nm(t, 'target'), nm(z[0].elts[0], 'dimension'), nm(z[0].elts[1], 'dimension')
        lo = blk[2]
        it = lo.iter if isinstance(lo, ast.For) else None
        if not (it is not None and not lo.orelse and isinstance(it, ast.Call) and isinstance(it.func, ast.Name) and it.func.id == 'range'
                and len(it.args) == 1 and not it.keywords and len(lo.body) == 1 and isinstance(lo.body[0], ast.For)):
            raise Unrec(lo, 'expected `for i in range(n):` with one nested loop')
        f['iVar'], f['iN'] = nm(lo.target, 'loop variable'), nm(it.args[0], 'bound')
        li = lo.body[0]
        it = li.iter
        if not (not li.orelse and isinstance(it, ast.Call) and isinstance(it.func, ast.Name) and it.func.id == 'range' and len(it.args) in (1, 2)
                and not it.keywords):
            raise Unrec(li, 'expected `for j in range(i, n):` or `for j in range(n):`')
        f['jVar'] = nm(li.target, 'loop variable')
        if len(it.args) == 2:
            f['jLo'], f['jN'] = '(some %s)' % nm(it.args[0], 'start'), nm(it.args[1], 'bound')
        else:
            f['jLo'], f['jN'] = 'none', nm(it.args[0], 'bound')
        ib = li.body
        stores = []

        def store(st, val):
            t_, v_ = assign(st, 'W1[i, j] = …')
            if not (isinstance(t_, ast.Subscript) and isinstance(t_.slice, ast.Tuple) and len(t_.slice.elts) == 2):
                raise Unrec(st, 'expected `W1[i, j] = …`')
            if val is not None and not (isinstance(v_, ast.Name) and q(v_.id) == val):
                raise Unrec(st, 'expected the stored value to be %s' % val)
            stores.append('(%s, %s, %s)' % (nm(t_.value, 'matrix'), nm(t_.slice.elts[0], 'row'), nm(t_.slice.elts[1], 'column')))
            return v_
        if isinstance(ib[0], ast.Assign) and isinstance(ib[0].targets[0], ast.Name):
            t, v = assign(ib[0], 'wp = np.sum(W[np.ix_(m == i + 1, m == j + 1)])')
            f['tmp'] = '(some %s)' % nm(t, 'target')
            bs = block_sum(v, 'wp = np.sum(W[np.ix_(m == i + 1, m == j + 1)])')
            for st in ib[1:]:
                store(st, nm(t, 'target'))
        else:
            if len(ib) != 1:
                raise Unrec(li, 'expected one store in the inner loop')
            v = store(ib[0], None)
            bs = block_sum(v, 'W1[i, j] = np.sum(W[np.ix_(m == i + 1, m == j + 1)])')
        f['sumMat'], f['labA'], f['idxA'], f['offA'], f['labB'], f['idxB'], f['offB'] = bs
        f['stores'] = '[' + ', '.join(stores) + ']'
        rest = blk[3:]
        if len(rest) == 3:
            t, v = assign(rest[0], 'W = W1')
            f['rebind'] = '(some (%s, %s))' % (nm(t, 'target'), nm(v, 'source'))
            rest = rest[1:]
        ap = rest[0]
        if not (isinstance(ap, ast.Expr) and isinstance(ap.value, ast.Call) and isinstance(ap.value.func, ast.Attribute)
                and ap.value.func.attr == 'append' and len(ap.value.args) == 1 and const_int(ap.value.args[0]) is not None):
            raise Unrec(ap, 'expected `q.append(0)`')
        f['qList'], f['qAppend'] = nm(ap.value.func.value, 'list'), lint(const_int(ap.value.args[0]))
        t, v = assign(rest[1], 'q[h] = np.trace(W) / s - gamma * np.sum(np.dot(W / s, W / s))')
        w_ = 'q[h] = np.trace(W) / s - gamma * np.sum(np.dot(W / s, W / s))'
        if not (isinstance(t, ast.Subscript) and isinstance(v.right, ast.BinOp) and isinstance(v.right.op, ast.Mult)
                and isinstance(v.left.op, ast.Div)):
            raise Unrec(rest[1], 'expected `%s`' % w_)
        f['qList2'], f['qIdx'] = nm(t.value, 'list'), nm(t.slice, 'index')
        f['tr'], f['s1'] = nm(np_call(v.left.left, 'trace', 1)[0], 'matrix'), nm(v.left.right, 'total weight')
        f['gam'] = nm(v.right.left, 'gamma')
        sm = np_call(v.right.right, 'sum', 1)
        dt = np_call(sm[0], 'dot', 2) if sm and not v.right.right.keywords else None
        if not (dt and all(isinstance(d_, ast.BinOp) and isinstance(d_.op, ast.Div) for d_ in dt)):
            raise Unrec(rest[1], 'expected `%s`' % w_)
        f['dl'], f['s2'], f['dr'], f['s3'] = nm(dt[0].left, 'matrix'), nm(dt[0].right, 'total weight'), nm(dt[1].left, 'matrix'), nm(dt[1].right, 'total weight')
    except Unrec as e:
        r.bad(e.node if hasattr(e.node, 'lineno') else fn, e.msg)
    return r


SWEEP_FIELDS = ['name', 'params', 'defaults', 'sT', 'sOf', 'sums', 'copies', 'm', 'mN', 'mOff', 'fl', 'flInit', 'it', 'it0', 'wTest', 'itI', 'itBy',
                'itT', 'itLim', 'exc', 'flR', 'flRVal', 'u', 'rng', 'pn', 'ma', 'maOf', 'maI', 'maOff', 'terms', 'comb', 'z', 'zi', 'zv', 'mx', 'mxOf',
                'tl', 'thrNum', 'thrDen', 'j', 'amOf', 'cols', 'vecs', 'sm', 'smi', 'smv', 'smOff', 'flS', 'flSVal']
SWEEP_NUM = {'mOff', 'it0', 'itBy', 'itLim', 'maOff', 'zv', 'thrNum', 'thrDen', 'smOff'}
SWEEP_BOOL = {'flInit', 'flRVal', 'flSVal'}
SWEEP_LIST = {'sums', 'copies', 'terms', 'cols', 'vecs'}


def sweep_default():
    return {k: ('99' if k in SWEEP_NUM else 'false' if k in SWEEP_BOOL else '[]' if k in SWEEP_LIST else 'none' if k == 'comb' else q('?'))
            for k in SWEEP_FIELDS}


def extract_sweep(fn, path):
    """modularity_louvain_und / _dir: `s = np.sum(W)` and, in the body of `while True:`, the statements from the degree vectors to the end of
    `while flag:` (Model/CoreIRLouv.lean: SweepIR)"""
    X = _TX
    r = Routine(fn.name, path)
    r.line = fn.lineno
    a = fn.args
    f = sweep_default()
    f['name'] = q(fn.name)
    f['params'] = lst(q(x.arg) for x in a.args)
    f['defaults'] = lean_defaults(defaults_of(fn))
    r.fields = f

    def sub(node, what):
        if isinstance(node, ast.Subscript):
            return node.value, node.slice
        raise Unrec(node, 'expected `%s`' % what)

    def boollit(node, what):
        if isinstance(node, ast.Constant) and isinstance(node.value, bool):
            return 'true' if node.value else 'false'
        raise Unrec(node, 'expected `True` or `False` as %s' % what)

    def at2(node, what):
        """A[i, j] -> (A, i, j);  j may be a full slice (returned as None)"""
        v, sl = sub(node, what)
        if isinstance(sl, ast.Tuple) and len(sl.elts) == 2:
            return v, sl.elts[0], sl.elts[1]
        raise Unrec(node, 'expected `%s`' % what)

    def term(st):
        w = 'dQ = (Knm[i, :] - Knm[i, ma] + W[i, i]) - gamma * k[i] * (Km - Km[ma] + k[i]) / s'
        t, v = X.assign(st, w)
        lhs, rhs = X.binop(v, ast.Sub, w)
        l1, wii = X.binop(lhs, ast.Add, w)
        row, cell = X.binop(l1, ast.Sub, w)
        a1, i1, sl = at2(row, w)
        if not full_slice(sl):
            raise Unrec(row, 'expected `%s`' % w)
        a2, i2, ma1 = at2(cell, w)
        wv, wi, wj = at2(wii, w)
        num, sden = X.binop(rhs, ast.Div, w)
        gk, par = X.binop(num, ast.Mult, w)
        g, k1 = X.binop(gk, ast.Mult, w)
        k1v, k1i = sub(k1, w)
        p1, k2 = X.binop(par, ast.Add, w)
        km1, km2m = X.binop(p1, ast.Sub, w)
        km2, ma2 = sub(km2m, w)
        k2v, k2i = sub(k2, w)
        vals = [X.nm(t, 'target'), X.nm(a1, 'matrix'), X.nm(i1, 'node'), X.nm(a2, 'matrix'), X.nm(i2, 'node'), X.nm(ma1, 'module'), X.nm(wv, 'matrix'),
                X.nm(wi, 'node'), X.nm(wj, 'node'), X.nm(g, 'resolution'), X.nm(k1v, 'degrees'), X.nm(k1i, 'node'), X.nm(km1, 'module degrees'),
                X.nm(km2, 'module degrees'), X.nm(ma2, 'module'), X.nm(k2v, 'degrees'), X.nm(k2i, 'node'), X.nm(sden, 'total weight')]
        keys = ['t', 'a1', 'i1', 'a2', 'i2', 'ma1', 'w', 'wi', 'wj', 'g', 'k1', 'k1i', 'km1', 'km2', 'ma2', 'k2', 'k2i', 's']
        return '{ ' + ', '.join('%s := %s' % kv for kv in zip(keys, vals)) + ' }'

    def upd(st):
        """-> ('col' | 'vec', Lean text)"""
        w = 'an update `Knm[:, j] += W[:, i]` / `Km[j] += k[i]`'
        if not (isinstance(st, ast.AugAssign) and isinstance(st.op, (ast.Add, ast.Sub)) and isinstance(st.target, ast.Subscript)):
            raise Unrec(st, 'expected %s, found %s' % (w, src_of(st)))
        plus = 'true' if isinstance(st.op, ast.Add) else 'false'
        tv, ts = sub(st.target, w)
        if isinstance(ts, ast.Tuple):
            if not (len(ts.elts) == 2 and full_slice(ts.elts[0])):
                raise Unrec(st, 'expected %s, found %s' % (w, src_of(st)))
            src = st.value
            row = 'false'
            if isinstance(src, ast.Attribute) and src.attr == 'T':
                sv, si, sl = at2(src.value, w)
                row = 'true'
            else:
                sv, sl, si = at2(src, w)
            if not full_slice(sl):
                raise Unrec(st, 'expected %s, found %s' % (w, src_of(st)))
            return 'col', '{ mat := %s, c := %s, plus := %s, src := %s, si := %s, srcRow := %s }' % (
                X.nm(tv, 'matrix'), X.nm(ts.elts[1], 'module'), plus, X.nm(sv, 'matrix'), X.nm(si, 'node'), row)
        sv, si = sub(st.value, w)
        return 'vec', '{ vec := %s, c := %s, plus := %s, src := %s, si := %s }' % (X.nm(tv, 'vector'), X.nm(ts, 'module'), plus, X.nm(sv, 'vector'), X.nm(si, 'node'))
    try:
        body = body_wo_doc(fn)
        ss = [st for st in body if isinstance(st, ast.Assign) and np_call(st.value, 'sum', 1) and not st.value.keywords]
        if len(ss) != 1:
            raise Unrec(fn, 'expected exactly one `s = np.sum(W)` before `while True:`')
        f['sT'], f['sOf'] = X.nm(ss[0].targets[0], 'target'), X.nm(ss[0].value.args[0], 'matrix')
        wl = [st for st in body if isinstance(st, ast.While)]
        if len(wl) != 1 or not (isinstance(wl[0].test, ast.Constant) and wl[0].test.value is True):
            raise Unrec(fn, 'expected exactly one top-level `while True:`')
        wb = wl[0].body
        inner = [k_ for k_, st in enumerate(wb) if isinstance(st, ast.While)]
        if len(inner) != 1 or not (wb and isinstance(wb[0], ast.If)):
            raise Unrec(wl[0], 'expected the `if h > 300:` guard first and exactly one `while flag:` in the body of `while True:`')
        pre, wf = wb[1:inner[0]], wb[inner[0]]
        r.parts = {'body': lines_of(wb[1:inner[0] + 1])}
        r.counts = {'statements': inner[0]}
        sums, copies = [], []
        k = 0
        while k < len(pre) and isinstance(pre[k], ast.Assign) and np_call(pre[k].value, 'sum', 1):
            w = 'k = np.sum(W, axis=0)'
            t, v = X.assign(pre[k], w)
            e, kw_ = X.np1(v, 'sum', w, ('axis',))
            sums.append('(%s, %s, %s)' % (X.nm(t, 'target'), X.nm(e, 'matrix'), X.nat(kw_['axis'], 'axis')))
            k += 1
        while (k < len(pre) and isinstance(pre[k], ast.Assign) and isinstance(pre[k].value, ast.Call) and isinstance(pre[k].value.func, ast.Attribute)
               and pre[k].value.func.attr == 'copy'):
            w = 'Km = k.copy()'
            t, v = X.assign(pre[k], w)
            if v.args or v.keywords:
                raise Unrec(pre[k], 'expected `%s`' % w)
            copies.append('(%s, %s)' % (X.nm(t, 'target'), X.nm(v.func.value, 'source')))
            k += 1
        f['sums'], f['copies'] = lst(sums), lst(copies)
        if len(pre) - k != 3:
            raise Unrec(wl[0], 'expected `m = np.arange(n) + 1`, `flag = True`, `it = 0` between the copies and `while flag:`, found %d statements' % (len(pre) - k))
        w = 'm = np.arange(n) + 1'
        t, v = X.assign(pre[k], w)
        ar, off = X.binop(v, ast.Add, w)
        f['m'], f['mN'], f['mOff'] = X.nm(t, 'target'), X.nm(X.np1(ar, 'arange', w)[0], 'size'), X.nat(off, 'offset')
        t, v = X.assign(pre[k + 1], 'flag = True')
        f['fl'], f['flInit'] = X.nm(t, 'target'), boollit(v, 'initial value')
        t, v = X.assign(pre[k + 2], 'it = 0')
        f['it'], f['it0'] = X.nm(t, 'target'), X.nat(v, 'initial value')
        if wf.orelse or len(wf.body) != 4:
            raise Unrec(wf, 'expected `while flag:` with four statements')
        f['wTest'] = X.nm(wf.test, 'test')
        b0, b1, b2, lp = wf.body
        if not (isinstance(b0, ast.AugAssign) and isinstance(b0.op, ast.Add)):
            raise Unrec(b0, 'expected `it += 1`')
        f['itI'], f['itBy'] = X.nm(b0.target, 'counter'), X.nat(b0.value, 'increment')
        if not (isinstance(b1, ast.If) and not b1.orelse and len(b1.body) == 1 and isinstance(b1.body[0], ast.Raise) and b1.body[0].cause is None
                and isinstance(b1.body[0].exc, ast.Call) and isinstance(b1.body[0].exc.func, ast.Name) and isinstance(b1.test, ast.Compare)
                and len(b1.test.ops) == 1 and isinstance(b1.test.ops[0], ast.Gt)):
            raise Unrec(b1, 'expected `if it > 1000: raise BCTParamError(…)`')
        f['itT'], f['itLim'], f['exc'] = X.nm(b1.test.left, 'counter'), X.nat(b1.test.comparators[0], 'limit'), q(b1.body[0].exc.func.id)
        t, v = X.assign(b2, 'flag = False')
        f['flR'], f['flRVal'] = X.nm(t, 'target'), boollit(v, 'value')
        it = lp.iter if isinstance(lp, ast.For) else None
        if not (it is not None and not lp.orelse and isinstance(it, ast.Call) and isinstance(it.func, ast.Attribute) and it.func.attr == 'permutation'
                and len(it.args) == 1 and not it.keywords):
            raise Unrec(lp, 'expected `for i in rng.permutation(n):`')
        f['u'], f['rng'], f['pn'] = X.nm(lp.target, 'loop variable'), X.nm(it.func.value, 'generator'), X.nm(it.args[0], 'size')
        lb = list(lp.body)
        w = 'ma = m[i] - 1'
        t, v = X.assign(lb.pop(0), w)
        mi, off = X.binop(v, ast.Sub, w)
        mo, ix = sub(mi, w)
        f['ma'], f['maOf'], f['maI'], f['maOff'] = X.nm(t, 'target'), X.nm(mo, 'labels'), X.nm(ix, 'node'), X.nat(off, 'offset')
        if len(lb) < 4:
            raise Unrec(lp, 'expected the gain statements, `dQ[ma] = 0`, `max_dq = np.max(dQ)` and `if max_dq > 1e-10:`')
        iff, mxs, zs = lb[-1], lb[-2], lb[-3]
        gains = lb[:-3]
        if len(gains) == 1:
            f['terms'] = lst([term(gains[0])])
        elif len(gains) == 3:
            f['terms'] = lst([term(gains[0]), term(gains[1])])
            w = 'dq = (dq_o + dq_i) / 2'
            t, v = X.assign(gains[2], w)
            sm_, cd = X.binop(v, ast.Div, w)
            c1, c2 = X.binop(sm_, ast.Add, w)
            f['comb'] = 'some (%s, %s, %s, %s)' % (X.nm(t, 'target'), X.nm(c1, 'summand'), X.nm(c2, 'summand'), X.nat(cd, 'divisor'))
        else:
            raise Unrec(lp, 'expected one gain statement, or two and their mean, found %d statements' % len(gains))
        w = 'dQ[ma] = 0'
        t, v = X.assign(zs, w)
        zv_, zi_ = sub(t, w)
        f['z'], f['zi'], f['zv'] = X.nm(zv_, 'gain vector'), X.nm(zi_, 'module'), X.nat(v, 'value')
        w = 'max_dq = np.max(dQ)'
        t, v = X.assign(mxs, w)
        f['mx'], f['mxOf'] = X.nm(t, 'target'), X.nm(X.np1(v, 'max', w)[0], 'gain vector')
        if not (isinstance(iff, ast.If) and not iff.orelse and isinstance(iff.test, ast.Compare) and len(iff.test.ops) == 1
                and isinstance(iff.test.ops[0], ast.Gt) and isinstance(iff.test.comparators[0], ast.Constant)
                and type(iff.test.comparators[0].value) in (int, float) and len(iff.body) >= 3):
            raise Unrec(iff, 'expected `if max_dq > 1e-10:`')
        import fractions as _fr
        import decimal as _dec
        thr = _fr.Fraction(_dec.Decimal(repr(iff.test.comparators[0].value)))
        if thr < 0:
            raise Unrec(iff, 'expected a non-negative threshold')
        f['tl'], f['thrNum'], f['thrDen'] = X.nm(iff.test.left, 'tested name'), '%d' % thr.numerator, '%d' % thr.denominator
        ib = list(iff.body)
        w = 'j = np.argmax(dQ)'
        t, v = X.assign(ib.pop(0), w)
        f['j'], f['amOf'] = X.nm(t, 'target'), X.nm(X.np1(v, 'argmax', w)[0], 'gain vector')
        flag_st, lab_st = ib.pop(), ib.pop()
        cols, vecs = [], []
        for st in ib:
            kind, txt = upd(st)
            if kind == 'col' and vecs:
                raise Unrec(st, 'expected the column updates before the vector updates')
            (cols if kind == 'col' else vecs).append(txt)
        f['cols'], f['vecs'] = lst(cols), lst(vecs)
        w = 'm[i] = j + 1'
        t, v = X.assign(lab_st, w)
        mo, ix = sub(t, w)
        jv, off = X.binop(v, ast.Add, w)
        f['sm'], f['smi'], f['smv'], f['smOff'] = X.nm(mo, 'labels'), X.nm(ix, 'node'), X.nm(jv, 'module'), X.nat(off, 'offset')
        t, v = X.assign(flag_st, 'flag = True')
        f['flS'], f['flSVal'] = X.nm(t, 'target'), boollit(v, 'value')
    except Unrec as e:
        r.bad(e.node if hasattr(e.node, 'lineno') else fn, e.msg)
    return r


def modq_extra():
    path = os.path.join(common.REPO, 'bct', 'algorithms', 'modularity.py')
    fns, err = parse_functions(path)
    out, problems, routines = [], [], {}
    for name, ref, link, model in (('modularity_und', 'refUnd', 'link_mod_und', 'modularityUndGiven'),
                                   ('modularity_dir', 'refDir', 'link_mod_dir', 'modularityDirGiven')):
        if name not in fns:
            r = Routine(name, path); r.problems.append('%s: %s' % (name, err or 'function not found in ' + path))
            r.fields = None
        else:
            try:
                r = extract_modq(fns[name], path)
                check_header(r, fns[name], fns)
                r.problems = [p_ for p_ in r.problems if 'which the mapping tables do not know' not in p_]
            except Exception as e:  # noqa — an extractor crash must not look like success
                r = Routine(name, path); r.problems.append('%s: extractor raised %s: %s' % (name, type(e).__name__, e))
                r.fields = None
        f = r.fields or {'params': '[]', 'defaults': '[]', 'imports': '[]', 'pre': '[]', 'skipped': '0', 'noneParam': q('?'), 'noneCount': '0',
                         'noneTarget': q('?'), 'elseTarget': q('?'), 'elseSource': q('?'), 'post': '[]', 'ret0': q('?'), 'ret1': q('?')}
        relb = os.path.basename(path)
        a, b = r.parts.get('body', (r.line, r.line))
        for p in r.problems:
            out.append('-- NOT RECOGNISED: ' + p.replace('\n', ' '))
        out.append('/-- `%s` (%s:%d): the modularity matrix, the frame of the partition choice, `q` -/' % (name, relb, r.line))
        out.append('def ir_%s : Bct.CoreIR.Mod.ModIR :=\n  { name := %s, recognised := %s, origins := %s,\n    %s }\n'
                   % (name, q(name), 'true' if not r.problems else 'false', lean_origins(r), ',\n    '.join('%s := %s' % (k, f[k]) for k in MOD_FIELDS)))
        out.append('theorem %s_ok : Bct.CoreIR.Mod.modOk Bct.CoreIR.Mod.%s ir_%s = true := by\n  first | decide | fail "%s_ok: the statements extracted '
                   'from %s (%s:%d-%d) %s"\n' % (name, ref, name, name, name, relb, a, b,
                                                'were not all recognised by translate/cores.py' if r.problems else 'are not the expected program'))
        out.append('theorem %s_computes {n : Nat} (W : Bct.Modularity.RMat n) (γ : Rat) (c : Fin n → Int) (hs : Bct.Modularity.total W ≠ 0) :\n'
                   '    Bct.CoreIR.Mod.runQ ir_%s (Bct.Cores.Clust.embA W) γ (Bct.Cores.Mod.embC c) = .sc (.num (Bct.Modularity.%s W γ c)) :=\n'
                   '  Bct.Cores.Mod.%s _ %s_ok W γ c hs\n' % (name, name, model, link, name))
        problems += list(r.problems)
        routines[name + ' (matrix and q)'] = dict(getattr(r, 'counts', {}), line=r.line, recognised=not r.problems)
    for name, ref, link, model in (('modularity_louvain_und', 'refAggUnd', 'link_agg_und', 'aggUpper'),
                                   ('modularity_louvain_dir', 'refAggDir', 'link_agg_dir', 'aggFull')):
        if name not in fns:
            r = Routine(name, path); r.problems.append('%s: %s' % (name, err or 'function not found in ' + path))
            r.fields = None
        else:
            try:
                r = extract_agg(fns[name], path)
            except Exception as e:  # noqa — an extractor crash must not look like success
                r = Routine(name, path); r.problems.append('%s: extractor raised %s: %s' % (name, type(e).__name__, e))
                r.fields = None
        f = r.fields or dict(AGG_DEFAULT)
        relb = os.path.basename(path)
        a, b = r.parts.get('body', (r.line, r.line))
        for p in r.problems:
            out.append('-- NOT RECOGNISED: ' + p.replace('\n', ' '))
        out.append('/-- the aggregation step and `q[h]` of `%s` (%s:%d-%d) -/' % (name, relb, a, b))
        out.append('def agg_%s : Bct.CoreIR.Mod.AggIR :=\n  { name := %s, recognised := %s,\n    %s }\n'
                   % (name, q(name), 'true' if not r.problems else 'false', ', '.join('%s := %s' % (k, f[k]) for k in AGG_FIELDS)))
        out.append('theorem %s_agg_ok : Bct.CoreIR.Mod.aggOk Bct.CoreIR.Mod.%s agg_%s = true := by\n  first | decide | fail "%s_agg_ok: the '
                   'statements from `n = np.max(m)` to `q[h] = …` extracted from %s (%s:%d-%d) %s"\n'
                   % (name, ref, name, name, name, relb, a, b,
                      'were not all recognised by translate/cores.py' if r.problems else 'are not the expected program'))
        out.append('theorem %s_agg_computes {n : Nat} (W : Bct.Modularity.RMat n) (m : Bct.Modularity.Lab n) (s γ : Rat) :\n'
                   '    Bct.CoreIR.Mod.runAgg agg_%s "W" "m" "s" "gamma" W (Bct.Cores.Mod.pyLab m) s γ =\n'
                   '      some (Bct.Modularity.%s W m, Bct.Modularity.qTraceDot (Bct.Modularity.%s W m) s γ) :=\n'
                   '  Bct.Cores.Mod.%s _ %s_agg_ok W m s γ\n' % (name, name, model, model, link, name))
        problems += list(r.problems)
        routines[name + ' (aggregation step)'] = dict(getattr(r, 'counts', {}), line=r.line, recognised=not r.problems)
    for name, ref, st, kern, emb, init, linit, lpass in (
            ('modularity_louvain_und', 'refUnd', 'UndSt', 'undKern', 'embU', 'undInitLevel', 'link_init_und', 'link_pass_und'),
            ('modularity_louvain_dir', 'refDir', 'DirSt', 'dirKern', 'embD', 'dirInitLevel', 'link_init_dir', 'link_pass_dir')):
        if name not in fns:
            r = Routine(name, path); r.problems.append('%s: %s' % (name, err or 'function not found in ' + path))
            r.fields = None
        else:
            try:
                r = extract_sweep(fns[name], path)
                name_check(r, fns[name], path, lenient=True)
            except Exception as e:  # noqa — an extractor crash must not look like success
                r = Routine(name, path); r.problems.append('%s: extractor raised %s: %s' % (name, type(e).__name__, e))
                r.fields = None
        f = r.fields or dict(sweep_default(), name=q(name), params='[]', defaults='[]')
        relb = os.path.basename(path)
        a, b = r.parts.get('body', (r.line, r.line))
        for p in r.problems:
            out.append('-- NOT RECOGNISED: ' + p.replace('\n', ' '))
        out.append('/-- the node-moving pass of `%s` (%s:%d-%d): from the degree vectors to the end of `while flag:` -/' % (name, relb, a, b))
        out.append('def sweep_%s : Bct.CoreIR.Louv.SweepIR :=\n  { recognised := %s, origins := %s,\n    %s }\n'
                   % (name, 'true' if not r.problems else 'false', lean_origins(r), ',\n    '.join('%s := %s' % (k, f[k]) for k in SWEEP_FIELDS)))
        out.append('theorem %s_sweep_ok : Bct.CoreIR.Louv.sweepOk Bct.CoreIR.Louv.%s sweep_%s = true := by\n  first | decide | fail "%s_sweep_ok: the '
                   'statements from the degree vectors to the end of `while flag:` extracted from %s (%s:%d-%d) %s"\n'
                   % (name, ref, name, name, name, relb, a, b,
                      'were not all recognised by translate/cores.py' if r.problems else 'are not the expected program'))
        out.append('theorem %s_sweep_init_computes {n : Nat} (W : Bct.Modularity.RMat n) (s γ : Rat) :\n'
                   '    Bct.CoreIR.Louv.runInit sweep_%s W s γ = some (Bct.Cores.Louv.%s (Bct.Modularity.%s W s γ) (Bct.Modularity.idLab n)) :=\n'
                   '  Bct.Cores.Louv.%s _ %s_sweep_ok W s γ\n' % (name, name, emb, init, linit, name))
        out.append('theorem %s_sweep_computes {n : Nat} (x : Bct.Modularity.PSt (Bct.Modularity.%s n) n) (hg : x.g.guide = none) (hs : x.st.s ≠ 0)\n'
                   '    (us : List (Fin n)) :\n'
                   '    Bct.CoreIR.Louv.runPass sweep_%s us (Bct.Cores.Louv.%s x.st x.m, false) =\n'
                   '      some (Bct.Cores.Louv.%s (Bct.Modularity.pass (Bct.Modularity.%s n) n x us).1.st (Bct.Modularity.pass (Bct.Modularity.%s n) n x us).1.m,\n'
                   '            (Bct.Modularity.pass (Bct.Modularity.%s n) n x us).2) :=\n'
                   '  Bct.Cores.Louv.%s _ %s_sweep_ok x hg hs us\n' % (name, st, name, emb, emb, kern, kern, kern, lpass, name))
        problems += list(r.problems)
        routines[name + ' (node-moving pass)'] = dict(getattr(r, 'counts', {}), line=r.line, recognised=not r.problems)
    return {'imports': ['import BctVerif.Props.CoresMod', 'import BctVerif.Props.CoresLouv'], 'lean': out, 'problems': problems, 'routines': routines}


def family_modq():
    return family_pinned('modq', modq_extra)


NULL_FIELDS = ['name', 'params', 'defaults', 'rng', 'rngCallee', 'rngArg', 'guard', 'cpT', 'cpOf', 'cpType', 'nT', 'nOf', 'fdM', 'fdV', 'ap', 'an', 'szOf',
               'nL', 'nR', 'nC', 'wr', 'eff', 'callee', 'cArg1', 'cArg2', 'cKw', 'cSeed', 'apr', 'anr', 'eApr', 'eAp', 'eAnr', 'eAn', 'w0', 'z1', 'z2',
               'sVar', 's1', 's2', 'sTest', 'sEq', 'acur', 'pa', 'arcur', 'par', 'acurE', 'na', 'arcurE', 'nar', 'strs', 'wv', 'wvS', 'wvW', 'wvA',
               'wvTriu', 'iv', 'jv', 'ijA', 'ijTriu', 'lij', 'lijA', 'lijTriu', 'p', 'po1', 'po2', 'fq', 'fqLit', 'oind0', 'as0P', 'as0L', 'w0a',
               'w0aL', 'w0aO', 'w0aS', 'w0aW', 'wsize', 'wsOf', 'period', 'perTy', 'perMin', 'perOne', 'perOf', 'perMax', 'perMaxA', 'perMaxB', 'lq', 'lqA', 'lqB', 'lqC', 'lqTy', 'm', 'mIn',
               'oind', 'asP', 'asL', 'rr', 'rRng', 'rN', 'rM', 'rP', 'qv', 'r1', 'enumOf', 'o', 'oOf', 'oIdx', 'w0b', 'w0bL', 'w0bO', 'w0bS', 'w0bW',
               'w0bR', 'book', 'bigO', 'bigOOf', 'bigOIdx', 'dels', 'symm', 'tailCount']
NULL_NUM = {'fdV', 'nC', 's1', 's2', 'sEq', 'fqLit', 'perOne', 'perMaxB', 'lqB', 'tailCount'}
NULL_BOOL = {'wvTriu', 'ijTriu', 'lijTriu'}
NULL_MASK = {'ap', 'an', 'apr', 'anr'}
NULL_LIST = {'strs', 'book', 'dels'}
NULL_OPT = {'guard', 'symm'}


def null_default():
    md = '{ t := "?", m := "?", gt := true, lit := 99 }'
    return {k: ('99' if k in NULL_NUM else 'false' if k in NULL_BOOL else md if k in NULL_MASK else '[]' if k in NULL_LIST
                else 'none' if k in NULL_OPT else q('?')) for k in NULL_FIELDS}


def extract_null(fn, path):
    """null_model_und_sign / null_model_dir_sign: the whole body except the correlations and the `return` at the end, matched
    positionally (Model/CoreIRNull.lean: NullIR)"""
    X = _TX
    r = Routine(fn.name, path)
    r.line = fn.lineno
    a = fn.args
    if a.vararg or a.kwarg or a.kwonlyargs or getattr(a, 'posonlyargs', []):
        r.bad(fn, 'unexpected parameter kinds')
    f = null_default()
    f['name'] = q(fn.name)
    f['params'] = lst(q(x.arg) for x in a.args)
    f['defaults'] = lean_defaults(defaults_of(fn))
    r.fields = f
    body = body_wo_doc(fn)
    r.parts = {'body': lines_of(body)}
    r.counts = {'body': len(body)}

    def intlit(node, what):
        z = const_int(node)
        if z is None:
            raise Unrec(node, 'expected an integer literal as %s, found %s' % (what, src_of(node)))
        return lint(z)

    def mask(st, what):
        t, v = X.assign(st, what)
        if not (isinstance(v, ast.Compare) and len(v.ops) == 1 and isinstance(v.ops[0], (ast.Gt, ast.Lt))):
            raise Unrec(st, 'expected `%s`' % what)
        return '{ t := %s, m := %s, gt := %s, lit := %s }' % (X.nm(t, 'target'), X.nm(v.left, 'matrix'),
                                                               'true' if isinstance(v.ops[0], ast.Gt) else 'false', intlit(v.comparators[0], 'bound'))

    def name_assign(st, what):
        t, v = X.assign(st, what)
        return X.nm(t, 'target'), X.nm(v, 'source')

    def triu_or_name(node, what):
        """np.triu(A) -> (A, true);  A -> (A, false)"""
        c = np_call(node, 'triu', 1)
        if c and not node.keywords:
            return X.nm(c[0], 'mask'), 'true'
        return X.nm(node, 'mask'), 'false'

    def flat_of(node, what):
        if isinstance(node, ast.Attribute) and node.attr == 'flat':
            return node.value
        raise Unrec(node, 'expected `%s`' % what)

    def sub(node, what):
        """A[B] -> (A, B)"""
        if isinstance(node, ast.Subscript):
            return node.value, node.slice
        raise Unrec(node, 'expected `%s`' % what)

    def argsort(st, what):
        t, v = X.assign(st, what)
        arr, ix = sub(X.np1(v, 'argsort', what)[0], what)
        return X.nm(t, 'target'), X.nm(flat_of(arr, what), 'matrix'), X.nm(ix, 'index array')

    def idx2(node, what):
        """idx[o] -> (idx, o)"""
        a_, b_ = sub(node, what)
        return X.nm(a_, 'index array'), X.nm(b_, 'position')

    def bstmt(st):
        what = 'a bookkeeping statement (`f = 1 - Wv[r] / S[i[o]]`, `P[i[o], :] *= f`, `P[:, i[o]] *= f`, `S[i[o]] -= Wv[r]`)'
        if isinstance(st, ast.Assign) and len(st.targets) == 1 and isinstance(st.targets[0], ast.Name):
            l, rt = X.binop(st.value, ast.Sub, what)
            nu, de = X.binop(rt, ast.Div, what)
            (wv_, r_), (sv, ix) = sub(nu, what), sub(de, what)
            idx, o = idx2(ix, what)
            return '.setF %s %s %s %s %s %s %s' % (q(st.targets[0].id), X.nat(l, 'literal'), X.nm(wv_, 'weights'), X.nm(r_, 'position'),
                                                   X.nm(sv, 'strengths'), idx, o)
        if isinstance(st, ast.AugAssign) and isinstance(st.target, ast.Subscript):
            tv, ts = st.target.value, st.target.slice
            if isinstance(st.op, ast.Mult) and isinstance(ts, ast.Tuple) and len(ts.elts) == 2:
                if full_slice(ts.elts[1]):
                    idx, o = idx2(ts.elts[0], what)
                    return '.scaleRow %s %s %s %s' % (X.nm(tv, 'matrix'), idx, o, X.nm(st.value, 'factor'))
                if full_slice(ts.elts[0]):
                    idx, o = idx2(ts.elts[1], what)
                    return '.scaleCol %s %s %s %s' % (X.nm(tv, 'matrix'), idx, o, X.nm(st.value, 'factor'))
            if isinstance(st.op, ast.Sub):
                idx, o = idx2(ts, what)
                wv_, r_ = sub(st.value, what)
                return '.decr %s %s %s %s %s' % (X.nm(tv, 'strengths'), idx, o, X.nm(wv_, 'weights'), X.nm(r_, 'position'))
        raise Unrec(st, 'expected %s, found %s' % (what, src_of(st)))
    try:
        k = 0

        def nxt(what):
            nonlocal k
            if k >= len(body):
                raise Unrec(fn, 'statement missing: expected `%s`' % what)
            k += 1
            return body[k - 1]
        w = 'rng = get_rng(seed)'
        t, v = X.assign(nxt(w), w)
        if not (isinstance(v, ast.Call) and isinstance(v.func, ast.Name) and len(v.args) == 1 and not v.keywords):
            raise Unrec(v, 'expected `%s`' % w)
        f['rng'], f['rngCallee'], f['rngArg'] = X.nm(t, 'target'), q(v.func.id), X.nm(v.args[0], 'argument')
        if isinstance(body[k], ast.If):
            w = 'if not np.array_equal(W, W.T): raise BCTParamError(…)'
            st = nxt(w)
            c = np_call(st.test.operand, 'array_equal', 2) if isinstance(st.test, ast.UnaryOp) and isinstance(st.test.op, ast.Not) else None
            if not (c and not st.test.operand.keywords and not st.orelse and len(st.body) == 1 and isinstance(st.body[0], ast.Raise)
                    and st.body[0].cause is None and isinstance(st.body[0].exc, ast.Call) and isinstance(st.body[0].exc.func, ast.Name)
                    and not st.body[0].exc.keywords and all(isinstance(x, ast.Constant) and isinstance(x.value, str) for x in st.body[0].exc.args)
                    and isinstance(c[1], ast.Attribute) and c[1].attr == 'T'):
                raise Unrec(st, 'expected `%s`' % w)
            f['guard'] = 'some (%s, %s, %s)' % (X.nm(c[0], 'matrix'), X.nm(c[1].value, 'transposed matrix'), q(st.body[0].exc.func.id))
        w = 'W = W.astype(float)'
        t, v = X.assign(nxt(w), w)
        if not (isinstance(v, ast.Call) and isinstance(v.func, ast.Attribute) and v.func.attr == 'astype' and len(v.args) == 1 and not v.keywords):
            raise Unrec(v, 'expected `%s`' % w)
        f['cpT'], f['cpOf'], f['cpType'] = X.nm(t, 'target'), X.nm(v.func.value, 'matrix'), X.nm(v.args[0], 'type')
        w = 'n = len(W)'
        t, v = X.assign(nxt(w), w)
        f['nT'], f['nOf'] = X.nm(t, 'target'), X.nm(X.len1(v, w), 'matrix')
        w = 'np.fill_diagonal(W, 0)'
        st = nxt(w)
        c = np_call(st.value, 'fill_diagonal', 2) if isinstance(st, ast.Expr) else None
        if not c or st.value.keywords:
            raise Unrec(st, 'expected `%s`' % w)
        f['fdM'], f['fdV'] = X.nm(c[0], 'matrix'), intlit(c[1], 'value')
        f['ap'] = mask(nxt('Ap = (W > 0)'), 'Ap = (W > 0)')
        f['an'] = mask(nxt('An = (W < 0)'), 'An = (W < 0)')
        w = 'if np.size(np.where(Ap.flat)) < (n * (n - 1)): … else: …'
        st = nxt(w)
        if not (isinstance(st, ast.If) and isinstance(st.test, ast.Compare) and len(st.test.ops) == 1 and isinstance(st.test.ops[0], ast.Lt)
                and len(st.body) == 3 and len(st.orelse) == 2):
            raise Unrec(st, 'expected `%s` with three and two statements' % w)
        wh = X.np1(X.np1(st.test.left, 'size', w)[0], 'where', w)[0]
        f['szOf'] = X.nm(flat_of(wh, w), 'mask')
        nl, rest = X.binop(st.test.comparators[0], ast.Mult, w)
        nr, nc = X.binop(rest, ast.Sub, w)
        f['nL'], f['nR'], f['nC'] = X.nm(nl, 'size'), X.nm(nr, 'size'), X.nat(nc, 'literal')
        w = 'W_r, eff = randmio_und_signed(W, bin_swaps, seed=rng)'
        t, v = X.assign(st.body[0], w)
        if not (isinstance(t, ast.Tuple) and len(t.elts) == 2 and isinstance(v, ast.Call) and isinstance(v.func, ast.Name) and len(v.args) == 2
                and len(v.keywords) == 1 and v.keywords[0].arg is not None):
            raise Unrec(st.body[0], 'expected `%s`' % w)
        f['wr'], f['eff'], f['callee'] = X.nm(t.elts[0], 'target'), X.nm(t.elts[1], 'target'), q(v.func.id)
        f['cArg1'], f['cArg2'], f['cKw'], f['cSeed'] = X.nm(v.args[0], 'argument'), X.nm(v.args[1], 'argument'), q(v.keywords[0].arg), X.nm(v.keywords[0].value, 'seed')
        f['apr'] = mask(st.body[1], 'Ap_r = W_r > 0')
        f['anr'] = mask(st.body[2], 'An_r = W_r < 0')
        f['eApr'], f['eAp'] = name_assign(st.orelse[0], 'Ap_r = Ap')
        f['eAnr'], f['eAn'] = name_assign(st.orelse[1], 'An_r = An')
        w = 'W0 = np.zeros((n, n))'
        t, v = X.assign(nxt(w), w)
        z = X.np1(v, 'zeros', w)[0]
        if not (isinstance(z, ast.Tuple) and len(z.elts) == 2):
            raise Unrec(v, 'expected `%s`' % w)
        f['w0'], f['z1'], f['z2'] = X.nm(t, 'target'), X.nm(z.elts[0], 'size'), X.nm(z.elts[1], 'size')
        w = 'for s in (1, -1):'
        lp = nxt(w)
        if not (isinstance(lp, ast.For) and not lp.orelse and isinstance(lp.iter, ast.Tuple) and len(lp.iter.elts) == 2):
            raise Unrec(lp, 'expected `%s`' % w)
        f['sVar'], f['s1'], f['s2'] = X.nm(lp.target, 'loop variable'), intlit(lp.iter.elts[0], 'sign'), intlit(lp.iter.elts[1], 'sign')
        lb = list(lp.body)
        w = 'if s == 1: Acur = Ap; A_rcur = Ap_r else: Acur = An; A_rcur = An_r'
        st = lb.pop(0)
        if not (isinstance(st, ast.If) and isinstance(st.test, ast.Compare) and len(st.test.ops) == 1 and isinstance(st.test.ops[0], ast.Eq)
                and len(st.body) == 2 and len(st.orelse) == 2):
            raise Unrec(st, 'expected `%s`' % w)
        f['sTest'], f['sEq'] = X.nm(st.test.left, 'tested name'), intlit(st.test.comparators[0], 'sign')
        f['acur'], f['pa'] = name_assign(st.body[0], 'Acur = Ap')
        f['arcur'], f['par'] = name_assign(st.body[1], 'A_rcur = Ap_r')
        f['acurE'], f['na'] = name_assign(st.orelse[0], 'Acur = An')
        f['arcurE'], f['nar'] = name_assign(st.orelse[1], 'A_rcur = An_r')
        strs = []
        while lb and isinstance(lb[0], ast.Assign) and np_call(lb[0].value, 'sum', 1):
            w = 'S = np.sum(s * W * Acur, axis=0)'
            t, v = X.assign(lb.pop(0), w)
            e, kw_ = X.np1(v, 'sum', w, ('axis',))
            l2, a_ = X.binop(e, ast.Mult, w)
            s_, w_ = X.binop(l2, ast.Mult, w)
            strs.append('{ t := %s, s := %s, w := %s, a := %s, axis := %s }' % (X.nm(t, 'target'), X.nm(s_, 'sign'), X.nm(w_, 'matrix'),
                                                                               X.nm(a_, 'mask'), X.nat(kw_['axis'], 'axis')))
        f['strs'] = lst(strs)
        if len(lb) != 5:
            raise Unrec(lp, 'expected five statements after the strength vectors (`Wv`, `i, j`, `Lij`, `P`, `if wei_freq == 0:`), found %d' % len(lb))
        w = 'Wv = np.sort(s * W[np.where(np.triu(Acur))])'
        t, v = X.assign(lb[0], w)
        s_, sel = X.binop(X.np1(v, 'sort', w)[0], ast.Mult, w)
        wm, ix = sub(sel, w)
        c = np_call(ix, 'where', 1)
        if c and not ix.keywords:
            a_, tr = triu_or_name(c[0], w)
            if tr != 'true':
                raise Unrec(ix, 'expected `%s`' % w)
        else:
            a_, tr = X.nm(ix, 'mask'), 'false'
        f['wv'], f['wvS'], f['wvW'], f['wvA'], f['wvTriu'] = X.nm(t, 'target'), X.nm(s_, 'sign'), X.nm(wm, 'matrix'), a_, tr
        w = 'i, j = np.where(np.triu(A_rcur))'
        t, v = X.assign(lb[1], w)
        if not (isinstance(t, ast.Tuple) and len(t.elts) == 2):
            raise Unrec(lb[1], 'expected `%s`' % w)
        f['ijA'], f['ijTriu'] = triu_or_name(X.np1(v, 'where', w)[0], w)
        f['iv'], f['jv'] = X.nm(t.elts[0], 'row indices'), X.nm(t.elts[1], 'column indices')
        w = 'Lij, = np.where(np.triu(A_rcur).flat)'
        t, v = X.assign(lb[2], w)
        if not (isinstance(t, ast.Tuple) and len(t.elts) == 1):
            raise Unrec(lb[2], 'expected `%s`' % w)
        f['lijA'], f['lijTriu'] = triu_or_name(flat_of(X.np1(v, 'where', w)[0], w), w)
        f['lij'] = X.nm(t.elts[0], 'flat indices')
        w = 'P = np.outer(S, S)'
        t, v = X.assign(lb[3], w)
        c = np_call(v, 'outer', 2)
        if not c or v.keywords:
            raise Unrec(v, 'expected `%s`' % w)
        f['p'], f['po1'], f['po2'] = X.nm(t, 'target'), X.nm(c[0], 'strengths'), X.nm(c[1], 'strengths')
        w = 'if wei_freq == 0: … else: …'
        st = lb[4]
        if not (isinstance(st, ast.If) and isinstance(st.test, ast.Compare) and len(st.test.ops) == 1 and isinstance(st.test.ops[0], ast.Eq)
                and len(st.body) == 2 and len(st.orelse) == 4):
            raise Unrec(st, 'expected `%s` with two and four statements' % w)
        f['fq'], f['fqLit'] = X.nm(st.test.left, 'tested name'), X.nat(st.test.comparators[0], 'literal')
        f['oind0'], f['as0P'], f['as0L'] = argsort(st.body[0], 'Oind = np.argsort(P.flat[Lij])')
        w = 'W0.flat[Lij[Oind]] = s * Wv'
        t, v = X.assign(st.body[1], w)
        arr, ix = sub(t, w)
        l_, o_ = idx2(ix, w)
        s_, w_ = X.binop(v, ast.Mult, w)
        f['w0a'], f['w0aL'], f['w0aO'], f['w0aS'], f['w0aW'] = X.nm(flat_of(arr, w), 'matrix'), l_, o_, X.nm(s_, 'sign'), X.nm(w_, 'weights')
        e0, e1, e2, e3 = st.orelse
        w = 'wsize = np.size(Wv)'
        t, v = X.assign(e0, w)
        f['wsize'], f['wsOf'] = X.nm(t, 'target'), X.nm(X.np1(v, 'size', w)[0], 'weights')
        w = 'wei_period = int(min(np.round(1 / wei_freq), max(wsize, 1)))'
        t, v = X.assign(e1, w)

        def bcall(node, k):
            if isinstance(node, ast.Call) and isinstance(node.func, ast.Name) and len(node.args) == k and not node.keywords:
                return node.func.id, node.args
            raise Unrec(node, 'expected `%s`' % w)
        ty, (a_,) = bcall(v, 1)
        mn, (rd, mxc) = bcall(a_, 2)
        mx, (ma, mb) = bcall(mxc, 2)
        nu, de = X.binop(X.np1(rd, 'round', w)[0], ast.Div, w)
        f['period'], f['perTy'], f['perMin'], f['perOne'], f['perOf'] = X.nm(t, 'target'), q(ty), q(mn), X.nat(nu, 'literal'), X.nm(de, 'frequency')
        f['perMax'], f['perMaxA'], f['perMaxB'] = q(mx), X.nm(ma, 'number of weights'), X.nat(mb, 'literal')
        w = 'lq = np.arange(wsize, 0, -wei_period, dtype=int)'
        t, v = X.assign(e2, w)
        c = np_call(v, 'arange', 3)
        if not (c and len(v.keywords) == 1 and v.keywords[0].arg == 'dtype' and isinstance(c[2], ast.UnaryOp) and isinstance(c[2].op, ast.USub)):
            raise Unrec(v, 'expected `%s`' % w)
        f['lq'], f['lqA'], f['lqB'], f['lqC'], f['lqTy'] = X.nm(t, 'target'), X.nm(c[0], 'start'), X.nat(c[1], 'stop'), X.nm(c[2].operand, 'step'), X.nm(v.keywords[0].value, 'dtype')
        if not (isinstance(e3, ast.For) and not e3.orelse and len(e3.body) == 8):
            raise Unrec(e3, 'expected `for m in lq:` with eight statements')
        f['m'], f['mIn'] = X.nm(e3.target, 'loop variable'), X.nm(e3.iter, 'iterable')
        f['oind'], f['asP'], f['asL'] = argsort(e3.body[0], 'Oind = np.argsort(P.flat[Lij])')
        w = 'R = rng.permutation(m)[:np.min((m, wei_period))]'
        t, v = X.assign(e3.body[1], w)
        call, sl = sub(v, w)
        if not (isinstance(call, ast.Call) and isinstance(call.func, ast.Attribute) and call.func.attr == 'permutation' and len(call.args) == 1
                and not call.keywords and isinstance(sl, ast.Slice) and sl.lower is None and sl.step is None and sl.upper is not None):
            raise Unrec(v, 'expected `%s`' % w)
        mn = X.np1(sl.upper, 'min', w)[0]
        if not (isinstance(mn, ast.Tuple) and len(mn.elts) == 2):
            raise Unrec(v, 'expected `%s`' % w)
        f['rr'], f['rRng'], f['rN'] = X.nm(t, 'target'), X.nm(call.func.value, 'generator'), X.nm(call.args[0], 'size')
        f['rM'], f['rP'] = X.nm(mn.elts[0], 'size'), X.nm(mn.elts[1], 'period')
        il = e3.body[2]
        w = 'for q, r in enumerate(R):'
        if not (isinstance(il, ast.For) and not il.orelse and isinstance(il.target, ast.Tuple) and len(il.target.elts) == 2
                and isinstance(il.iter, ast.Call) and isinstance(il.iter.func, ast.Name) and il.iter.func.id == 'enumerate' and len(il.iter.args) == 1
                and not il.iter.keywords and len(il.body) >= 2):
            raise Unrec(il, 'expected `%s`' % w)
        f['qv'], f['r1'], f['enumOf'] = X.nm(il.target.elts[0], 'counter'), X.nm(il.target.elts[1], 'position'), X.nm(il.iter.args[0], 'iterable')
        w = 'o = Oind[r]'
        t, v = X.assign(il.body[0], w)
        a_, b_ = sub(v, w)
        f['o'], f['oOf'], f['oIdx'] = X.nm(t, 'target'), X.nm(a_, 'order'), X.nm(b_, 'position')
        w = 'W0.flat[Lij[o]] = s * Wv[r]'
        t, v = X.assign(il.body[1], w)
        arr, ix = sub(t, w)
        l_, o_ = idx2(ix, w)
        s_, wr_ = X.binop(v, ast.Mult, w)
        ww, rr_ = sub(wr_, w)
        f['w0b'], f['w0bL'], f['w0bO'], f['w0bS'], f['w0bW'], f['w0bR'] = X.nm(flat_of(arr, w), 'matrix'), l_, o_, X.nm(s_, 'sign'), X.nm(ww, 'weights'), X.nm(rr_, 'position')
        f['book'] = lst(bstmt(x) for x in il.body[2:])
        w = 'O = Oind[R]'
        t, v = X.assign(e3.body[3], w)
        a_, b_ = sub(v, w)
        f['bigO'], f['bigOOf'], f['bigOIdx'] = X.nm(t, 'target'), X.nm(a_, 'order'), X.nm(b_, 'positions')
        dels = []
        for st2 in e3.body[4:]:
            w = 'Lij = np.delete(Lij, O)'
            t, v = X.assign(st2, w)
            c = np_call(v, 'delete', 2)
            if not c or v.keywords:
                raise Unrec(st2, 'expected `%s`' % w)
            dels.append('(%s, %s, %s)' % (X.nm(t, 'target'), X.nm(c[0], 'array'), X.nm(c[1], 'positions')))
        f['dels'] = lst(dels)
        if (k < len(body) and isinstance(body[k], ast.Assign) and isinstance(body[k].value, ast.BinOp) and isinstance(body[k].value.op, ast.Add)
                and isinstance(body[k].value.right, ast.Attribute) and body[k].value.right.attr == 'T'):
            w = 'W0 = W0 + W0.T'
            t, v = X.assign(nxt(w), w)
            f['symm'] = 'some (%s, %s, %s)' % (X.nm(t, 'target'), X.nm(v.left, 'matrix'), X.nm(v.right.value, 'transposed matrix'))
        f['tailCount'] = '%d' % (len(body) - k)
        if not (body and isinstance(body[-1], ast.Return)):
            raise Unrec(fn, 'expected a final `return`')
    except Unrec as e:
        r.bad(e.node if hasattr(e.node, 'lineno') else fn, e.msg)
    return r


def nullm_extra():
    path = os.path.join(common.REPO, 'bct', 'algorithms', 'reference.py')
    fns, err = parse_functions(path)
    out, problems, routines = [], [], {}
    relb = os.path.basename(path)
    for name, ref, link, und in (('null_model_und_sign', 'refUnd', 'link_null_und', 'true'), ('null_model_dir_sign', 'refDir', 'link_null_dir', 'false')):
        if name not in fns:
            r = Routine(name, path); r.problems.append('%s: %s' % (name, err or 'function not found in ' + path))
            r.fields = None
        else:
            try:
                r = extract_null(fns[name], path)
                check_header(r, fns[name], fns)
            except Exception as e:  # noqa — an extractor crash must not look like success
                r = Routine(name, path); r.problems.append('%s: extractor raised %s: %s' % (name, type(e).__name__, e))
                r.fields = None
        f = r.fields or dict(null_default(), name=q(name), params='[]', defaults='[]')
        a, b = r.parts.get('body', (r.line, r.line))
        for p in r.problems:
            out.append('-- NOT RECOGNISED: ' + p.replace('\n', ' '))
        out.append('/-- `%s` (%s:%d): every statement up to the correlations, one field per name and literal -/' % (name, relb, r.line))
        out.append('def ir_%s : Bct.CoreIR.Null.NullIR :=\n  { recognised := %s, origins := %s,\n    %s }\n'
                   % (name, 'true' if not r.problems else 'false', lean_origins(r), ',\n    '.join('%s := %s' % (k, f[k]) for k in NULL_FIELDS)))
        out.append('theorem %s_ok : Bct.CoreIR.Null.nullOk Bct.CoreIR.Null.%s ir_%s = true := by\n  first | decide | fail "%s_ok: the statements '
                   'extracted from %s (%s:%d-%d) %s"\n' % (name, ref, name, name, name, relb, a, b,
                                                          'were not all recognised by translate/cores.py' if r.problems else 'are not the expected program'))
        out.append('theorem %s_computes {n : Nat} (W : AMat Int n) (binSwaps period : Nat) (orc : List (List Nat)) (ds : List Nat) :\n'
                   '    Bct.CoreIR.Null.runNull ir_%s (Bct.Signed.run %s) W binSwaps (decide (period = 0)) period orc ds =\n'
                   '      Bct.Signed.nullModel %s W binSwaps period orc ds :=\n'
                   '  Bct.Cores.Null.%s _ %s_ok W binSwaps period orc ds\n' % (name, name, und, und, link, name))
        problems += list(r.problems)
        routines[name + ' (interpreted)'] = dict(getattr(r, 'counts', {}), line=r.line, recognised=not r.problems)
    return {'imports': ['import BctVerif.Props.CoresNull'], 'lean': out, 'problems': problems, 'routines': routines}


def family_nullm():
    return family_pinned('nullm', nullm_extra)


T2_FIELDS = ['name', 'params', 'defaults', 't', 'm1', 'm2', 'n1', 'n2', 'l1', 'l2', 'vx', 'vxOf', 'vxDdof', 'vxPtp', 'vxElse', 'vy', 'vyOf',
             'vyDdof', 'vyPtp', 'vyElse', 's', 'a1', 'a1c', 'a1v', 'a2', 'a2c', 'a2v', 'd1', 'd2', 'dc', 'denom', 'dl', 'o1', 'o1n', 'o2', 'o2n',
             'zl', 'zlit', 'zret', 'tl1', 'tv1', 'b1', 'b2', 'tl2', 'tv2', 'c1', 'c2', 'e1', 'e2']
T2_NUM = {'vxDdof', 'vyDdof', 'a1c', 'a2c', 'dc', 'o1', 'o2', 'zlit', 'zret'}
PAIR_FIELDS = ['name', 'params', 'defaults', 'd', 'dA', 'dB', 'n', 'nOf', 'df', 'dfL', 'dfC', 'ss', 'ssD', 'ssM', 'ssPow', 'ssPtp', 'ssElse', 'std',
               'stdNum', 'stdN', 'stdC', 'z', 'zA', 'zB', 'zDen', 't', 'tZ', 'tN', 'tl1', 'tv1', 'r1', 'tl2', 'tv2', 'r2', 'r3']
PAIR_NUM = {'dfC', 'ssPow', 'stdC'}
STAT_FIELDS = ['params', 'defaults', 'tstat', 'zN', 'i', 'iN', 'pTest', 'pT', 'pI', 'pF', 'pA', 'pAi', 'pB', 'pBi', 'pTail', 'uT', 'uI', 'uF', 'uA',
               'uAi', 'uB', 'uBi', 'uTail', 'ind', 'cL', 'cR']


class _TX(object):
    """small readers shared by the three extractors of the nbs t statistics (every one raises Unrec on any other form)"""

    @staticmethod
    def nm(node, what):
        if isinstance(node, ast.Name):
            return q(node.id)
        raise Unrec(node, 'expected a name as %s, found %s' % (what, src_of(node)))

    @staticmethod
    def nat(node, what):
        if isinstance(node, ast.Constant) and type(node.value) is int and node.value >= 0:
            return '%d' % node.value
        raise Unrec(node, 'expected a natural number literal as %s, found %s' % (what, src_of(node)))

    @staticmethod
    def assign(st, what):
        if isinstance(st, ast.Assign) and len(st.targets) == 1:
            return st.targets[0], st.value
        raise Unrec(st, 'expected `%s`' % what)

    @staticmethod
    def np1(node, fn_, what, kws=()):
        """np.<fn_>(<one argument>, <exactly the keywords kws>) -> (argument, {keyword: value})"""
        c = np_call(node, fn_, 1)
        if not c or sorted(k.arg or '' for k in node.keywords) != sorted(kws):
            raise Unrec(node, 'expected `%s`' % what)
        return c[0], {k.arg: k.value for k in node.keywords}

    @staticmethod
    def len1(node, what):
        if (isinstance(node, ast.Call) and isinstance(node.func, ast.Name) and node.func.id == 'len' and len(node.args) == 1
                and not node.keywords):
            return node.args[0]
        raise Unrec(node, 'expected `%s`' % what)

    @staticmethod
    def binop(node, op, what):
        if isinstance(node, ast.BinOp) and isinstance(node.op, op):
            return node.left, node.right
        raise Unrec(node, 'expected `%s`' % what)

    @staticmethod
    def if_eq_ret(st, what, orelse):
        """if <name> == <literal>: return <e>  (else: return <e'> when `orelse`) -> (name node, literal node, e, e')"""
        if not (isinstance(st, ast.If) and isinstance(st.test, ast.Compare) and len(st.test.ops) == 1 and isinstance(st.test.ops[0], ast.Eq)
                and len(st.body) == 1 and isinstance(st.body[0], ast.Return) and st.body[0].value is not None
                and ((not orelse and not st.orelse) or (orelse and len(st.orelse) == 1 and isinstance(st.orelse[0], ast.Return)
                                                        and st.orelse[0].value is not None))):
            raise Unrec(st, 'expected `%s`' % what)
        return st.test.left, st.test.comparators[0], st.body[0].value, (st.orelse[0].value if orelse else None)

    @staticmethod
    def strlit(node, what):
        if isinstance(node, ast.Constant) and isinstance(node.value, str):
            return q(node.value)
        raise Unrec(node, 'expected a string literal as %s, found %s' % (what, src_of(node)))

    @staticmethod
    def header(r, fn, fields, num):
        a = fn.args
        if a.vararg or a.kwarg or a.kwonlyargs or getattr(a, 'posonlyargs', []):
            r.bad(fn, 'unexpected parameter kinds')
        if fn.decorator_list:
            r.bad(fn, 'unexpected decorator')
        f = {k: ('99' if k in num else q('?')) for k in fields}
        f['name'] = q(fn.name)
        f['params'] = lst(q(x.arg) for x in a.args)
        f['defaults'] = lean_defaults(defaults_of(fn))
        return f


def extract_t2(fn, path):
    """the nested function ttest2_stat_only of nbs_bct: nine statements matched positionally (Model/CoreIRNbs.lean: T2IR)"""
    X = _TX
    r = Routine(fn.name, path)
    r.line = fn.lineno
    f = X.header(r, fn, T2_FIELDS, T2_NUM)
    r.fields = f
    body = body_wo_doc(fn)
    r.parts = {'body': lines_of(body)}
    r.counts = {'body': len(body)}

    def var_or(st, what):
        t, v = X.assign(st, what)
        if not isinstance(v, ast.IfExp):
            raise Unrec(st, 'expected `%s`' % what)
        p, _ = X.np1(v.test, 'ptp', what)
        a, kw_ = X.np1(v.body, 'var', what, ('ddof',))
        if not (isinstance(v.orelse, ast.Constant) and type(v.orelse.value) in (int, float)):
            raise Unrec(st, 'expected `%s`' % what)
        return X.nm(t, 'target'), X.nm(a, 'sample'), X.nat(kw_['ddof'], 'ddof'), X.nm(p, 'sample'), q(ast.unparse(v.orelse))
    try:
        if len(body) != 9:
            raise Unrec(fn, 'expected exactly 9 statements, found %d' % len(body))
        w = 't = np.mean(x) - np.mean(y)'
        t, v = X.assign(body[0], w)
        l, r_ = X.binop(v, ast.Sub, w)
        f['t'], f['m1'], f['m2'] = X.nm(t, 'target'), X.nm(X.np1(l, 'mean', w)[0], 'sample'), X.nm(X.np1(r_, 'mean', w)[0], 'sample')
        w = 'n1, n2 = len(x), len(y)'
        t, v = X.assign(body[1], w)
        if not (isinstance(t, ast.Tuple) and isinstance(v, ast.Tuple) and len(t.elts) == 2 and len(v.elts) == 2):
            raise Unrec(body[1], 'expected `%s`' % w)
        f['n1'], f['n2'] = X.nm(t.elts[0], 'target'), X.nm(t.elts[1], 'target')
        f['l1'], f['l2'] = X.nm(X.len1(v.elts[0], w), 'sample'), X.nm(X.len1(v.elts[1], w), 'sample')
        f['vx'], f['vxOf'], f['vxDdof'], f['vxPtp'], f['vxElse'] = var_or(body[2], 'vx = np.var(x, ddof=1) if np.ptp(x) else 0.0')
        f['vy'], f['vyOf'], f['vyDdof'], f['vyPtp'], f['vyElse'] = var_or(body[3], 'vy = np.var(y, ddof=1) if np.ptp(y) else 0.0')
        w = 's = np.sqrt(((n1 - 1) * vx + (n2 - 1) * vy) / (n1 + n2 - 2))'
        t, v = X.assign(body[4], w)
        num, den = X.binop(X.np1(v, 'sqrt', w)[0], ast.Div, w)
        p1, p2 = X.binop(num, ast.Add, w)
        (s1, v1), (s2, v2) = X.binop(p1, ast.Mult, w), X.binop(p2, ast.Mult, w)
        (a1, c1), (a2, c2) = X.binop(s1, ast.Sub, w), X.binop(s2, ast.Sub, w)
        dsum, dc = X.binop(den, ast.Sub, w)
        d1, d2 = X.binop(dsum, ast.Add, w)
        f['s'] = X.nm(t, 'target')
        f['a1'], f['a1c'], f['a1v'] = X.nm(a1, 'sample size'), X.nat(c1, 'literal'), X.nm(v1, 'variance')
        f['a2'], f['a2c'], f['a2v'] = X.nm(a2, 'sample size'), X.nat(c2, 'literal'), X.nm(v2, 'variance')
        f['d1'], f['d2'], f['dc'] = X.nm(d1, 'sample size'), X.nm(d2, 'sample size'), X.nat(dc, 'literal')
        w = 'denom = s * np.sqrt(1 / n1 + 1 / n2)'
        t, v = X.assign(body[5], w)
        dl, sq = X.binop(v, ast.Mult, w)
        q1, q2 = X.binop(X.np1(sq, 'sqrt', w)[0], ast.Add, w)
        (o1, o1n), (o2, o2n) = X.binop(q1, ast.Div, w), X.binop(q2, ast.Div, w)
        f['denom'], f['dl'] = X.nm(t, 'target'), X.nm(dl, 'factor')
        f['o1'], f['o1n'], f['o2'], f['o2n'] = X.nat(o1, 'literal'), X.nm(o1n, 'sample size'), X.nat(o2, 'literal'), X.nm(o2n, 'sample size')
        zl, zlit, zret, _ = X.if_eq_ret(body[6], 'if denom == 0: return 0', False)
        f['zl'], f['zlit'], f['zret'] = X.nm(zl, 'tested name'), X.nat(zlit, 'literal'), X.nat(zret, 'returned literal')
        w = "if tail == 'both': return np.abs(t / denom)"
        tl, tv, e, _ = X.if_eq_ret(body[7], w, False)
        b1, b2 = X.binop(X.np1(e, 'abs', w)[0], ast.Div, w)
        f['tl1'], f['tv1'], f['b1'], f['b2'] = X.nm(tl, 'tested name'), X.strlit(tv, 'tail'), X.nm(b1, 'numerator'), X.nm(b2, 'denominator')
        w = "if tail == 'left': return -t / denom else: return t / denom"
        tl, tv, e, e2 = X.if_eq_ret(body[8], w, True)
        c1, c2 = X.binop(e, ast.Div, w)
        if not (isinstance(c1, ast.UnaryOp) and isinstance(c1.op, ast.USub)):
            raise Unrec(body[8], 'expected `%s`' % w)
        e1, e2_ = X.binop(e2, ast.Div, w)
        f['tl2'], f['tv2'], f['c1'], f['c2'] = X.nm(tl, 'tested name'), X.strlit(tv, 'tail'), X.nm(c1.operand, 'numerator'), X.nm(c2, 'denominator')
        f['e1'], f['e2'] = X.nm(e1, 'numerator'), X.nm(e2_, 'denominator')
    except Unrec as e:
        r.bad(e.node if hasattr(e.node, 'lineno') else fn, e.msg)
    return r


def extract_pair(fn, path):
    """the nested function ttest_paired_stat_only of nbs_bct: nine statements matched positionally (Model/CoreIRNbs.lean: PairIR)"""
    X = _TX
    r = Routine(fn.name, path)
    r.line = fn.lineno
    f = X.header(r, fn, PAIR_FIELDS, PAIR_NUM)
    r.fields = f
    body = body_wo_doc(fn)
    r.parts = {'body': lines_of(body)}
    r.counts = {'body': len(body)}
    try:
        if len(body) != 9:
            raise Unrec(fn, 'expected exactly 9 statements, found %d' % len(body))
        w = 'd = A - B'
        t, v = X.assign(body[0], w)
        a, b = X.binop(v, ast.Sub, w)
        f['d'], f['dA'], f['dB'] = X.nm(t, 'target'), X.nm(a, 'sample'), X.nm(b, 'sample')
        w = 'n = len(d)'
        t, v = X.assign(body[1], w)
        f['n'], f['nOf'] = X.nm(t, 'target'), X.nm(X.len1(v, w), 'differences')
        w = 'df = n - 1'
        t, v = X.assign(body[2], w)
        a, b = X.binop(v, ast.Sub, w)
        f['df'], f['dfL'], f['dfC'] = X.nm(t, 'target'), X.nm(a, 'sample size'), X.nat(b, 'literal')
        w = 'sample_ss = np.sum((d - np.mean(d))**2) if np.ptp(d) else 0.0'
        t, v = X.assign(body[3], w)
        if not (isinstance(v, ast.IfExp) and isinstance(v.orelse, ast.Constant) and type(v.orelse.value) in (int, float)):
            raise Unrec(body[3], 'expected `%s`' % w)
        base, pw = X.binop(X.np1(v.body, 'sum', w)[0], ast.Pow, w)
        a, b = X.binop(base, ast.Sub, w)
        f['ss'], f['ssD'], f['ssM'], f['ssPow'] = X.nm(t, 'target'), X.nm(a, 'differences'), X.nm(X.np1(b, 'mean', w)[0], 'differences'), X.nat(pw, 'exponent')
        f['ssPtp'], f['ssElse'] = X.nm(X.np1(v.test, 'ptp', w)[0], 'differences'), q(ast.unparse(v.orelse))
        w = 'unbiased_std = np.sqrt(sample_ss / (n - 1))'
        t, v = X.assign(body[4], w)
        a, b = X.binop(X.np1(v, 'sqrt', w)[0], ast.Div, w)
        b1, b2 = X.binop(b, ast.Sub, w)
        f['std'], f['stdNum'], f['stdN'], f['stdC'] = X.nm(t, 'target'), X.nm(a, 'sum of squares'), X.nm(b1, 'sample size'), X.nat(b2, 'literal')
        w = 'z = np.mean(A - B) / unbiased_std'
        t, v = X.assign(body[5], w)
        a, b = X.binop(v, ast.Div, w)
        a1, a2 = X.binop(X.np1(a, 'mean', w)[0], ast.Sub, w)
        f['z'], f['zA'], f['zB'], f['zDen'] = X.nm(t, 'target'), X.nm(a1, 'sample'), X.nm(a2, 'sample'), X.nm(b, 'denominator')
        w = 't = z * np.sqrt(n)'
        t, v = X.assign(body[6], w)
        a, b = X.binop(v, ast.Mult, w)
        f['t'], f['tZ'], f['tN'] = X.nm(t, 'target'), X.nm(a, 'factor'), X.nm(X.np1(b, 'sqrt', w)[0], 'sample size')
        w = "if tail == 'both': return np.abs(t)"
        tl, tv, e, _ = X.if_eq_ret(body[7], w, False)
        f['tl1'], f['tv1'], f['r1'] = X.nm(tl, 'tested name'), X.strlit(tv, 'tail'), X.nm(X.np1(e, 'abs', w)[0], 'returned value')
        w = "if tail == 'left': return -t else: return t"
        tl, tv, e, e2 = X.if_eq_ret(body[8], w, True)
        if not (isinstance(e, ast.UnaryOp) and isinstance(e.op, ast.USub)):
            raise Unrec(body[8], 'expected `%s`' % w)
        f['tl2'], f['tv2'], f['r2'], f['r3'] = X.nm(tl, 'tested name'), X.strlit(tv, 'tail'), X.nm(e.operand, 'returned value'), X.nm(e2, 'returned value')
    except Unrec as e:
        r.bad(e.node if hasattr(e.node, 'lineno') else fn, e.msg)
    return r


def extract_stat(fn, path):
    """nbs_bct: the statements that compute `t_stat` and `ind_t` (statements 15-17 of the body), Model/CoreIRNbs.lean: StatIR;
    -> (Routine, nested FunctionDef or None, nested FunctionDef or None)"""
    X = _TX
    r = Routine(fn.name, path)
    r.line = fn.lineno
    a = fn.args
    if a.vararg or a.kwarg or a.kwonlyargs or getattr(a, 'posonlyargs', []):
        r.bad(fn, 'unexpected parameter kinds')
    f = {k: q('?') for k in STAT_FIELDS}
    f['params'] = lst(q(x.arg) for x in a.args)
    f['defaults'] = lean_defaults(defaults_of(fn))
    r.fields = f
    body = body_wo_doc(fn)
    r.parts = {'body': lines_of(body[14:17]) if len(body) >= 17 else lines_of(body)}
    r.counts = {'statements': len(body)}
    n2 = body[1] if len(body) > 2 and isinstance(body[1], ast.FunctionDef) else None
    npair = body[2] if len(body) > 2 and isinstance(body[2], ast.FunctionDef) else None

    def call(st, what):
        """T[i] = F(A[i, :], B[i, :], tail)"""
        t, v = X.assign(st, what)
        if not (isinstance(t, ast.Subscript) and isinstance(v, ast.Call) and isinstance(v.func, ast.Name) and len(v.args) == 3 and not v.keywords):
            raise Unrec(st, 'expected `%s`' % what)

        def row(e):
            if (isinstance(e, ast.Subscript) and isinstance(e.slice, ast.Tuple) and len(e.slice.elts) == 2 and full_slice(e.slice.elts[1])):
                return X.nm(e.value, 'matrix'), X.nm(e.slice.elts[0], 'row index')
            raise Unrec(e, 'expected a row `M[i, :]`, found %s' % src_of(e))
        (a_, ai), (b_, bi) = row(v.args[0]), row(v.args[1])
        return X.nm(t.value, 'target'), X.nm(t.slice, 'index'), q(v.func.id), a_, ai, b_, bi, X.nm(v.args[2], 'tail argument')
    try:
        if n2 is None or npair is None:
            raise Unrec(fn, 'expected the two nested function definitions as second and third statement')
        if len(body) < 17:
            raise Unrec(fn, 'expected at least 17 statements, found %d' % len(body))
        s0, s1, s2 = body[14:17]
        w = 't_stat = np.zeros((m,))'
        t, v = X.assign(s0, w)
        z = X.np1(v, 'zeros', w)[0]
        if not (isinstance(z, ast.Tuple) and len(z.elts) == 1):
            raise Unrec(s0, 'expected `%s`' % w)
        f['tstat'], f['zN'] = X.nm(t, 'target'), X.nm(z.elts[0], 'length')
        it = s1.iter if isinstance(s1, ast.For) else None
        if not (it is not None and not s1.orelse and isinstance(it, ast.Call) and isinstance(it.func, ast.Name) and it.func.id == 'range'
                and len(it.args) == 1 and not it.keywords and len(s1.body) == 1 and isinstance(s1.body[0], ast.If)
                and len(s1.body[0].body) == 1 and len(s1.body[0].orelse) == 1):
            raise Unrec(s1, 'expected `for i in range(m):` with one `if paired: … else: …` of one statement each')
        f['i'], f['iN'], f['pTest'] = X.nm(s1.target, 'loop variable'), X.nm(it.args[0], 'bound'), X.nm(s1.body[0].test, 'test')
        (f['pT'], f['pI'], f['pF'], f['pA'], f['pAi'], f['pB'], f['pBi'], f['pTail']) = call(
            s1.body[0].body[0], 't_stat[i] = ttest_paired_stat_only(xmat[i, :], ymat[i, :], tail)')
        (f['uT'], f['uI'], f['uF'], f['uA'], f['uAi'], f['uB'], f['uBi'], f['uTail']) = call(
            s1.body[0].orelse[0], 't_stat[i] = ttest2_stat_only(xmat[i, :], ymat[i, :], tail)')
        w = 'ind_t, = np.where(t_stat > thresh)'
        t, v = X.assign(s2, w)
        c = X.np1(v, 'where', w)[0]
        if not (isinstance(t, ast.Tuple) and len(t.elts) == 1 and isinstance(c, ast.Compare) and len(c.ops) == 1 and isinstance(c.ops[0], ast.Gt)):
            raise Unrec(s2, 'expected `%s`' % w)
        f['ind'], f['cL'], f['cR'] = X.nm(t.elts[0], 'target'), X.nm(c.left, 'left side'), X.nm(c.comparators[0], 'right side')
    except Unrec as e:
        r.bad(e.node if hasattr(e.node, 'lineno') else fn, e.msg)
    return r, n2, npair


def nbs_extra():
    path = os.path.join(common.REPO, 'bct', 'nbs.py')
    fns, err = parse_functions(path)
    name = 'nbs_bct'
    out, problems, routines = [], [], {}
    relb = os.path.basename(path)
    n2 = npair = None
    if name not in fns:
        r = Routine(name, path); r.problems.append('%s: %s' % (name, err or 'function not found in ' + path))
        r.fields = None
    else:
        try:
            r, n2, npair = extract_stat(fns[name], path)
            for d in fns[name].decorator_list:
                ok = (isinstance(d, ast.Call) and isinstance(d.func, ast.Attribute) and d.func.attr == 'dcite'
                      and isinstance(d.func.value, ast.Name) and d.func.value.id == 'due')
                if not ok:
                    r.bad(d, 'unrecognised decorator %s' % src_of(d))
            if name in getattr(fns, 'rebound', {}):
                r.bad(fns[name], 'the module binds the name %s again at top level (line %s)' % (name, fns.rebound[name]))
            name_check(r, fns[name], path, lenient=True)
        except Exception as e:  # noqa — an extractor crash must not look like success
            r = Routine(name, path); r.problems.append('%s: extractor raised %s: %s' % (name, type(e).__name__, e))
            r.fields = None
    parts = []
    for nd, ex_, fields, num, typ, okf, lean_name in ((n2, extract_t2, T2_FIELDS, T2_NUM, 'T2IR', 't2Ok', 'ttest2_stat_only'),
                                                      (npair, extract_pair, PAIR_FIELDS, PAIR_NUM, 'PairIR', 'pairOk', 'ttest_paired_stat_only')):
        if nd is None:
            rr = Routine(lean_name, path); rr.problems.append('%s: nested function not found in nbs_bct' % lean_name)
            rr.fields = None
        else:
            try:
                rr = ex_(nd, path)
            except Exception as e:  # noqa
                rr = Routine(lean_name, path); rr.problems.append('%s: extractor raised %s: %s' % (lean_name, type(e).__name__, e))
                rr.fields = None
        ff = rr.fields or dict({k: ('99' if k in num else q('?')) for k in fields}, params='[]', defaults='[]')
        a, b = rr.parts.get('body', (rr.line, rr.line))
        for p in rr.problems:
            out.append('-- NOT RECOGNISED: ' + p.replace('\n', ' '))
        out.append('/-- the nested function `%s` of `nbs_bct` (%s:%d): every statement, one field per name and literal -/' % (lean_name, relb, rr.line))
        out.append('def ir_%s : Bct.CoreIR.Nbs.%s :=\n  { recognised := %s,\n    %s }\n'
                   % (lean_name, typ, 'true' if not rr.problems else 'false', ',\n    '.join('%s := %s' % (k, ff[k]) for k in fields)))
        out.append('theorem %s_ok : Bct.CoreIR.Nbs.%s ir_%s = true := by\n  first | decide | fail "%s_ok: the statements extracted from the nested '
                   'function %s of nbs_bct (%s:%d-%d) %s"\n'
                   % (lean_name, okf, lean_name, lean_name, lean_name, relb, a, b,
                      'were not all recognised by translate/cores.py' if rr.problems else 'are not the expected program'))
        problems += list(rr.problems)
        routines['nbs_bct.' + lean_name] = dict(getattr(rr, 'counts', {}), line=rr.line, recognised=not rr.problems)
    f = r.fields or dict({k: q('?') for k in STAT_FIELDS}, params='[]', defaults='[]')
    a, b = r.parts.get('body', (r.line, r.line))
    for p in r.problems:
        out.append('-- NOT RECOGNISED: ' + p.replace('\n', ' '))
    out.append('/-- the statements of `nbs_bct` that compute `t_stat` and `ind_t` (%s:%d-%d) -/' % (relb, a, b))
    out.append('def ir_nbs_bct_tstat : Bct.CoreIR.Nbs.StatIR :=\n  { recognised := %s, origins := %s,\n    %s }\n'
               % ('true' if not r.problems else 'false', lean_origins(r), ',\n    '.join('%s := %s' % (k, f[k]) for k in STAT_FIELDS)))
    out.append('theorem nbs_bct_tstat_ok : Bct.CoreIR.Nbs.statOk ir_nbs_bct_tstat = true := by\n  first | decide | fail "nbs_bct_tstat_ok: the '
               'statements `t_stat = …`, `for i in range(m): …`, `ind_t, = …` extracted from nbs_bct (%s:%d-%d) %s"\n'
               % (relb, a, b, 'were not all recognised by translate/cores.py' if r.problems else 'are not the expected program'))
    out.append('theorem nbs_bct_tstat_computes (paired : Bool) (x y : List Rat) (thr : Rat) (tail : Bct.Nbs.Tail)\n'
               '    (hx : 2 ≤ x.length) (hy : 2 ≤ y.length) (hxy : paired = true → x.length = y.length) :\n'
               '    Bct.CoreIR.Nbs.runStat Bct.Cores.Nbs.realOps ir_nbs_bct_tstat ir_ttest2_stat_only ir_ttest_paired_stat_only paired\n'
               '        (Bct.Cores.Nbs.castL x) (Bct.Cores.Nbs.castL y) (Bct.Cores.Nbs.tailStr tail) (thr : ℝ) =\n'
               '      some (Bct.Nbs.exceeds paired x y thr tail) :=\n'
               '  Bct.Cores.Nbs.link_tstat _ _ _ nbs_bct_tstat_ok ttest2_stat_only_ok ttest_paired_stat_only_ok paired x y thr tail hx hy hxy\n')
    problems += list(r.problems)
    routines['nbs_bct (t statistics)'] = dict(getattr(r, 'counts', {}), line=r.line, recognised=not r.problems)
    return {'imports': ['import BctVerif.Props.CoresNbs'], 'lean': out, 'problems': problems, 'routines': routines}


def family_nbs():
    return family_pinned('nbs', nbs_extra)



RING_FIELDS = ['params', 'defaults', 'rng', 'rngCallee', 'rngArg', 'cij', 'z1', 'z2', 'ones', 'o1', 'o2', 'kk', 'kk0', 'count', 'count0', 'seq',
               'seqLo', 'seqHi', 'seq2', 's2Hi', 's2HiOff', 's2Lo', 's2Step', 'wL', 'wR', 'incVar', 'incBy', 'd1', 'd1a', 'd1b', 'd2', 'd2a',
               'd2b', 'dT', 'm1', 'm2', 'm3', 'm4', 'clip', 'augL', 'augR', 'kkT', 'kkOf', 'over', 'overL', 'overR', 'overTest', 'wi', 'wj',
               'whereOf', 'rp', 'rpRng', 'rpOf', 'ii', 'iiN', 'setMat', 'si', 'srp1', 'sii1', 'sj', 'srp2', 'sii2', 'setVal', 'ret']
RING_NUM = {'kk0', 'count0', 'seqLo', 's2HiOff', 's2Lo', 's2Step', 'incBy', 'clip', 'setVal'}
RING_TRIU = {'d1a', 'd1b', 'd2a', 'd2b'}


def extract_ring(fn, path):
    """makeringlatticeCIJ: statements matched positionally (Model/CoreIRSynth.lean: RingIR)"""
    r = Routine(fn.name, path)
    r.line = fn.lineno
    a = fn.args
    if a.vararg or a.kwarg or a.kwonlyargs or getattr(a, 'posonlyargs', []):
        r.bad(fn, 'unexpected parameter kinds')
    tz = '{ mat := "?", seq := "?", cnt := "?", off := 99, plus := 99 }'
    f = {k: ('99' if k in RING_NUM else tz if k in RING_TRIU else q('?')) for k in RING_FIELDS}
    f['params'] = lst(q(x.arg) for x in a.args)
    f['defaults'] = lean_defaults(defaults_of(fn))
    r.fields = f
    body = body_wo_doc(fn)
    r.parts = {'body': lines_of(body)}
    r.counts = {'body': len(body)}

    def nm(node, what):
        if isinstance(node, ast.Name):
            return q(node.id)
        raise Unrec(node, 'expected a name as %s, found %s' % (what, src_of(node)))

    def nat(node, what):
        z = const_int(node)
        if z is None or z < 0:
            raise Unrec(node, 'expected a natural number as %s, found %s' % (what, src_of(node)))
        return '%d' % z

    def assign(st, what):
        if isinstance(st, ast.Assign) and len(st.targets) == 1:
            return st.targets[0], st.value
        raise Unrec(st, 'expected `%s`' % what)

    def square(v, fn_, what):
        c = np_call(v, fn_, 1)
        if not (c and not v.keywords and isinstance(c[0], ast.Tuple) and len(c[0].elts) == 2):
            raise Unrec(v, 'expected `%s`' % what)
        return nm(c[0].elts[0], 'dimension'), nm(c[0].elts[1], 'dimension')

    def triu(node):
        """np.triu(M, seq[count - off] (+ plus)) -> Lean Triu"""
        c = np_call(node, 'triu', 2)
        if not c or node.keywords:
            raise Unrec(node, 'expected `np.triu(M, seq[count - 1])`')
        e, plus = c[1], 0
        if isinstance(e, ast.BinOp) and isinstance(e.op, ast.Add) and const_int(e.right) is not None and const_int(e.right) >= 0:
            e, plus = e.left, const_int(e.right)
        if not (isinstance(e, ast.Subscript) and isinstance(e.slice, ast.BinOp) and isinstance(e.slice.op, ast.Sub)
                and const_int(e.slice.right) is not None and const_int(e.slice.right) >= 0):
            raise Unrec(node, 'expected `np.triu(M, seq[count - 1])`')
        return '{ mat := %s, seq := %s, cnt := %s, off := %d, plus := %d }' % (nm(c[0], 'matrix'), nm(e.value, 'range'),
                                                                             nm(e.slice.left, 'counter'), const_int(e.slice.right), plus)

    def diff(st, what):
        t, v = assign(st, what)
        if not (isinstance(v, ast.BinOp) and isinstance(v.op, ast.Sub)):
            raise Unrec(st, 'expected `%s`' % what)
        return nm(t, 'target'), triu(v.left), triu(v.right)

    def idx2(node):
        """i[rp[ii]] -> (i, rp, ii)"""
        if (isinstance(node, ast.Subscript) and isinstance(node.slice, ast.Subscript)):
            return nm(node.value, 'index array'), nm(node.slice.value, 'permutation'), nm(node.slice.slice, 'loop variable')
        raise Unrec(node, 'expected `i[rp[ii]]`')
    try:
        if len(body) != 11:
            raise Unrec(fn, 'expected exactly 11 statements, found %d' % len(body))
        s0, s1, s2, s3, s4, s5, s6, s7, s8, s9, s10 = body
        t, v = assign(s0, 'rng = get_rng(seed)')
        if not (isinstance(v, ast.Call) and isinstance(v.func, ast.Name) and len(v.args) == 1 and not v.keywords):
            raise Unrec(s0, 'expected `rng = get_rng(seed)`')
        f['rng'], f['rngCallee'], f['rngArg'] = nm(t, 'target'), q(v.func.id), nm(v.args[0], 'argument')
        t, v = assign(s1, 'CIJ = np.zeros((n, n))')
        f['cij'] = nm(t, 'target'); f['z1'], f['z2'] = square(v, 'zeros', 'CIJ = np.zeros((n, n))')
        t, v = assign(s2, 'CIJ1 = np.ones((n, n))')
        f['ones'] = nm(t, 'target'); f['o1'], f['o2'] = square(v, 'ones', 'CIJ1 = np.ones((n, n))')
        t, v = assign(s3, 'kk = 0'); f['kk'], f['kk0'] = nm(t, 'target'), nat(v, 'initial value')
        t, v = assign(s4, 'count = 0'); f['count'], f['count0'] = nm(t, 'target'), nat(v, 'initial value')
        t, v = assign(s5, 'seq = range(1, n)')
        if not (isinstance(v, ast.Call) and isinstance(v.func, ast.Name) and v.func.id == 'range' and len(v.args) == 2 and not v.keywords):
            raise Unrec(s5, 'expected `seq = range(1, n)`')
        f['seq'], f['seqLo'], f['seqHi'] = nm(t, 'target'), nat(v.args[0], 'start'), nm(v.args[1], 'stop')
        t, v = assign(s6, 'seq2 = range(n - 1, 0, -1)')
        if not (isinstance(v, ast.Call) and isinstance(v.func, ast.Name) and v.func.id == 'range' and len(v.args) == 3 and not v.keywords
                and isinstance(v.args[0], ast.BinOp) and isinstance(v.args[0].op, ast.Sub) and const_int(v.args[2]) is not None):
            raise Unrec(s6, 'expected `seq2 = range(n - 1, 0, -1)`')
        f['seq2'], f['s2Hi'], f['s2HiOff'] = nm(t, 'target'), nm(v.args[0].left, 'start'), nat(v.args[0].right, 'offset')
        f['s2Lo'], f['s2Step'] = nat(v.args[1], 'stop'), lint(const_int(v.args[2]))
        if not (isinstance(s7, ast.While) and not s7.orelse and isinstance(s7.test, ast.Compare) and len(s7.test.ops) == 1
                and isinstance(s7.test.ops[0], ast.Lt) and len(s7.body) == 6):
            raise Unrec(s7, 'expected `while kk < k:` with six statements')
        f['wL'], f['wR'] = nm(s7.test.left, 'left side'), nm(s7.test.comparators[0], 'right side')
        b0, b1, b2, b3, b4, b5 = s7.body
        if not (isinstance(b0, ast.AugAssign) and isinstance(b0.op, ast.Add)):
            raise Unrec(b0, 'expected `count += 1`')
        f['incVar'], f['incBy'] = nm(b0.target, 'target'), nat(b0.value, 'increment')
        f['d1'], f['d1a'], f['d1b'] = diff(b1, 'dCIJ = np.triu(CIJ1, seq[count - 1]) - np.triu(CIJ1, seq[count - 1] + 1)')
        f['d2'], f['d2a'], f['d2b'] = diff(b2, 'dCIJ2 = np.triu(CIJ1, seq2[count - 1]) - np.triu(CIJ1, seq2[count - 1] + 1)')
        w3 = 'dCIJ = np.minimum(dCIJ + dCIJ.T + dCIJ2 + dCIJ2.T, 1)'
        t, v = assign(b3, w3)
        mn = np_call(v, 'minimum', 2)
        e = mn[0] if mn and not v.keywords else None

        def tr(x_):
            if isinstance(x_, ast.Attribute) and x_.attr == 'T':
                return nm(x_.value, 'transposed matrix')
            raise Unrec(x_, 'expected `%s`' % w3)
        if not (isinstance(e, ast.BinOp) and isinstance(e.op, ast.Add) and isinstance(e.left, ast.BinOp) and isinstance(e.left.op, ast.Add)
                and isinstance(e.left.left, ast.BinOp) and isinstance(e.left.left.op, ast.Add)):
            raise Unrec(b3, 'expected `%s`' % w3)
        f['dT'], f['m1'], f['m2'], f['m3'], f['m4'] = nm(t, 'target'), nm(e.left.left.left, 'summand'), tr(e.left.left.right), nm(e.left.right, 'summand'), tr(e.right)
        f['clip'] = nat(mn[1], 'bound')
        if not (isinstance(b4, ast.AugAssign) and isinstance(b4.op, ast.Add)):
            raise Unrec(b4, 'expected `CIJ += dCIJ`')
        f['augL'], f['augR'] = nm(b4.target, 'target'), nm(b4.value, 'summand')
        t, v = assign(b5, 'kk = int(np.sum(CIJ))')
        sm = np_call(v.args[0], 'sum', 1) if (isinstance(v, ast.Call) and isinstance(v.func, ast.Name) and v.func.id == 'int'
                                                and len(v.args) == 1 and not v.keywords) else None
        if not (sm and not v.args[0].keywords):
            raise Unrec(b5, 'expected `kk = int(np.sum(CIJ))`')
        f['kkT'], f['kkOf'] = nm(t, 'target'), nm(sm[0], 'summed matrix')
        t, v = assign(s8, 'overby = kk - k')
        if not (isinstance(v, ast.BinOp) and isinstance(v.op, ast.Sub)):
            raise Unrec(s8, 'expected `overby = kk - k`')
        f['over'], f['overL'], f['overR'] = nm(t, 'target'), nm(v.left, 'minuend'), nm(v.right, 'subtrahend')
        if not (isinstance(s9, ast.If) and not s9.orelse and len(s9.body) == 3):
            raise Unrec(s9, 'expected `if overby:` with three statements and no `else`')
        f['overTest'] = nm(s9.test, 'test')
        c0, c1, c2 = s9.body
        t, v = assign(c0, 'i, j = np.where(dCIJ)')
        wh = np_call(v, 'where', 1)
        if not (isinstance(t, ast.Tuple) and len(t.elts) == 2 and wh and not v.keywords):
            raise Unrec(c0, 'expected `i, j = np.where(dCIJ)`')
        f['wi'], f['wj'], f['whereOf'] = nm(t.elts[0], 'row indices'), nm(t.elts[1], 'column indices'), nm(wh[0], 'matrix')
        t, v = assign(c1, 'rp = rng.permutation(np.size(i))')
        sz = np_call(v.args[0], 'size', 1) if (isinstance(v, ast.Call) and isinstance(v.func, ast.Attribute) and v.func.attr == 'permutation'
                                                 and len(v.args) == 1 and not v.keywords) else None
        if not (sz and not v.args[0].keywords):
            raise Unrec(c1, 'expected `rp = rng.permutation(np.size(i))`')
        f['rp'], f['rpRng'], f['rpOf'] = nm(t, 'target'), nm(v.func.value, 'generator'), nm(sz[0], 'index array')
        it = c2.iter if isinstance(c2, ast.For) else None
        if not (it is not None and not c2.orelse and isinstance(it, ast.Call) and isinstance(it.func, ast.Name) and it.func.id == 'range'
                and len(it.args) == 1 and not it.keywords and len(c2.body) == 1):
            raise Unrec(c2, 'expected `for ii in range(overby):` with one statement')
        f['ii'], f['iiN'] = nm(c2.target, 'loop variable'), nm(it.args[0], 'bound')
        t, v = assign(c2.body[0], 'CIJ[i[rp[ii]], j[rp[ii]]] = 0')
        if not (isinstance(t, ast.Subscript) and isinstance(t.slice, ast.Tuple) and len(t.slice.elts) == 2 and const_int(v) is not None):
            raise Unrec(c2.body[0], 'expected `CIJ[i[rp[ii]], j[rp[ii]]] = 0`')
        f['setMat'] = nm(t.value, 'matrix')
        f['si'], f['srp1'], f['sii1'] = idx2(t.slice.elts[0])
        f['sj'], f['srp2'], f['sii2'] = idx2(t.slice.elts[1])
        f['setVal'] = lint(const_int(v))
        if not (isinstance(s10, ast.Return) and s10.value is not None):
            raise Unrec(s10, 'expected `return CIJ`')
        f['ret'] = nm(s10.value, 'returned value')
    except Unrec as e:
        r.bad(e.node if hasattr(e.node, 'lineno') else fn, e.msg)
    return r


DF_FIELDS = ['params', 'defaults', 'rng', 'rngCallee', 'rngArg', 'dim', 'dimOf', 'tot', 'totOf', 'inArr', 'inLen', 'inDtype', 'outArr', 'outLen',
             'outDtype', 'iIn', 'iIn0', 'iOut', 'iOut0', 'fVar', 'fN', 'f1', 'f2', 'a1Var', 'a1Vec', 'a1Idx', 'a2Var', 'a2Vec', 'a2Idx', 'cij',
             'eyeN', 'edges', 'edge0', 'edge1', 'permRng', 'permN', 'mVar', 'mN', 'occupied', 'tried', 'lenOf', 'lenEq', 'exc', 'sw', 'swRng',
             'swN', 'wIn', 'wSet', 'sw2', 'sw2Rng', 'sw2N', 'free1', 'free2', 'accept', 'ltL', 'ltR', 'ltBody', 'swap', 'addSet', 'addVal',
             'elseStores', 'subL', 'subEyeN', 'ret']
DF_NUM = {'iIn0', 'iOut0'}
DF_LIST = {'accept', 'ltBody', 'swap', 'elseStores'}
DF_SLICE = {'f1', 'f2'}
DF_CELL = {'occupied', 'free1', 'free2'}


def df_default():
    er = '{ arr := "?", row := 99, idx := "?" }'
    cell = '{ mat := "?", r := %s, c := %s }' % (er, er)
    sl = '{ arr := "?", lo := "?", lo2 := "?", vec := "?", idx := "?", val := "?" }'
    return {k: ('99' if k in DF_NUM else '[]' if k in DF_LIST else sl if k in DF_SLICE else cell if k in DF_CELL else q('?')) for k in DF_FIELDS}


def extract_df(fn, path):
    """makerandCIJdegreesfixed: statements matched positionally (Model/CoreIRSynth.lean: DfIR)"""
    r = Routine(fn.name, path)
    r.line = fn.lineno
    a = fn.args
    if a.vararg or a.kwarg or a.kwonlyargs or getattr(a, 'posonlyargs', []):
        r.bad(fn, 'unexpected parameter kinds')
    f = df_default()
    f['params'] = lst(q(x.arg) for x in a.args)
    f['defaults'] = lean_defaults(defaults_of(fn))
    r.fields = f
    body = body_wo_doc(fn)
    r.parts = {'body': lines_of(body)}
    r.counts = {'body': len(body)}

    def nm(node, what):
        if isinstance(node, ast.Name):
            return q(node.id)
        raise Unrec(node, 'expected a name as %s, found %s' % (what, src_of(node)))

    def nat(node, what):
        z = const_int(node)
        if z is None or z < 0:
            raise Unrec(node, 'expected a natural number as %s, found %s' % (what, src_of(node)))
        return '%d' % z

    def assign(st, what):
        if isinstance(st, ast.Assign) and len(st.targets) == 1:
            return st.targets[0], st.value
        raise Unrec(st, 'expected `%s`' % what)

    def call1(v, what, attr=None):
        """f(x) or g.attr(x), one positional argument, no keywords -> (f or g, x)"""
        if isinstance(v, ast.Call) and len(v.args) == 1 and not v.keywords:
            if attr is None and isinstance(v.func, ast.Name):
                return v.func, v.args[0]
            if attr is not None and isinstance(v.func, ast.Attribute) and v.func.attr == attr:
                return v.func.value, v.args[0]
        raise Unrec(v, 'expected `%s`' % what)

    def npc(v, fn_, what):
        c = np_call(v, fn_, 1)
        if not c or v.keywords:
            raise Unrec(v, 'expected `%s`' % what)
        return c[0]

    def zeros(st, what):
        t, v = assign(st, what)
        c = np_call(v, 'zeros', 1)
        if not (c and len(v.keywords) == 1 and v.keywords[0].arg == 'dtype' and isinstance(c[0], ast.Tuple) and len(c[0].elts) == 1):
            raise Unrec(st, 'expected `%s`' % what)
        return nm(t, 'target'), nm(c[0].elts[0], 'length'), nm(v.keywords[0].value, 'dtype')

    def eref(node):
        """edges[row, idx]"""
        if (isinstance(node, ast.Subscript) and isinstance(node.slice, ast.Tuple) and len(node.slice.elts) == 2
                and const_int(node.slice.elts[0]) is not None and const_int(node.slice.elts[0]) >= 0):
            return '{ arr := %s, row := %d, idx := %s }' % (nm(node.value, 'edge array'), const_int(node.slice.elts[0]),
                                                            nm(node.slice.elts[1], 'edge index'))
        raise Unrec(node, 'expected `edges[0, i]` (row literal, index name), found %s' % src_of(node))

    def cell(node):
        """CIJ[edges[a, x], edges[b, y]]"""
        if isinstance(node, ast.Subscript) and isinstance(node.slice, ast.Tuple) and len(node.slice.elts) == 2:
            return '{ mat := %s, r := %s, c := %s }' % (nm(node.value, 'matrix'), eref(node.slice.elts[0]), eref(node.slice.elts[1]))
        raise Unrec(node, 'expected `CIJ[edges[0, i], edges[1, i]]`, found %s' % src_of(node))

    def estmt(st):
        t, v = assign(st, 'a store into CIJ or edges')
        if isinstance(t, ast.Name):
            return '.load %s %s' % (q(t.id), eref(v))
        if isinstance(t, ast.Subscript) and isinstance(t.slice, ast.Tuple) and len(t.slice.elts) == 2:
            if isinstance(t.slice.elts[0], ast.Subscript):
                z = const_int(v)
                if z is None:
                    raise Unrec(st, 'expected an integer literal stored into the matrix, found %s' % src_of(v))
                return '.setCell %s %s' % (cell(t), lint(z))
            if isinstance(v, ast.Name):
                return '.store %s %s' % (eref(t), q(v.id))
            return '.copyE %s %s' % (eref(t), eref(v))
        raise Unrec(st, 'expected a store into CIJ or edges, found %s' % src_of(st))

    def estmts(sts):
        return lst(estmt(x) for x in sts)

    def slice_set(st, what):
        t, v = assign(st, what)
        sl = t.slice if isinstance(t, ast.Subscript) else None
        if not (isinstance(sl, ast.Slice) and sl.step is None and sl.lower is not None and isinstance(sl.upper, ast.BinOp)
                and isinstance(sl.upper.op, ast.Add) and isinstance(sl.upper.right, ast.Subscript)):
            raise Unrec(st, 'expected `%s`' % what)
        return ('{ arr := %s, lo := %s, lo2 := %s, vec := %s, idx := %s, val := %s }'
                % (nm(t.value, 'array'), nm(sl.lower, 'slice start'), nm(sl.upper.left, 'slice stop'), nm(sl.upper.right.value, 'degree vector'),
                   nm(sl.upper.right.slice, 'index'), nm(v, 'stored value')))

    def aug(st, what):
        if not (isinstance(st, ast.AugAssign) and isinstance(st.op, ast.Add) and isinstance(st.value, ast.Subscript)):
            raise Unrec(st, 'expected `%s`' % what)
        return nm(st.target, 'target'), nm(st.value.value, 'degree vector'), nm(st.value.slice, 'index')

    def for_range(st, nbody, what):
        it = st.iter if isinstance(st, ast.For) else None
        if not (it is not None and not st.orelse and isinstance(it, ast.Call) and isinstance(it.func, ast.Name) and it.func.id == 'range'
                and len(it.args) == 1 and not it.keywords and len(st.body) == nbody):
            raise Unrec(st, 'expected `%s`' % what)
        return nm(st.target, 'loop variable'), nm(it.args[0], 'bound')

    def randint(v, what):
        g, x = call1(v, what, 'randint')
        return nm(g, 'generator'), nm(x, 'bound')
    try:
        if len(body) != 13:
            raise Unrec(fn, 'expected exactly 13 statements, found %d' % len(body))
        s0, s1, s2, s3, s4, s5, s6, s7, s8, s9, s10, s11, s12 = body
        t, v = assign(s0, 'rng = get_rng(seed)')
        g, x = call1(v, 'rng = get_rng(seed)')
        f['rng'], f['rngCallee'], f['rngArg'] = nm(t, 'target'), q(g.id), nm(x, 'argument')
        t, v = assign(s1, 'n = len(inv)')
        g, x = call1(v, 'n = len(inv)')
        if g.id != 'len':
            raise Unrec(s1, 'expected `n = len(inv)`')
        f['dim'], f['dimOf'] = nm(t, 'target'), nm(x, 'argument')
        t, v = assign(s2, 'k = np.sum(inv)')
        f['tot'], f['totOf'] = nm(t, 'target'), nm(npc(v, 'sum', 'k = np.sum(inv)'), 'argument')
        f['inArr'], f['inLen'], f['inDtype'] = zeros(s3, 'in_inv = np.zeros((k,), dtype=int)')
        f['outArr'], f['outLen'], f['outDtype'] = zeros(s4, 'out_inv = np.zeros((k,), dtype=int)')
        t, v = assign(s5, 'i_in = 0'); f['iIn'], f['iIn0'] = nm(t, 'target'), nat(v, 'initial value')
        t, v = assign(s6, 'i_out = 0'); f['iOut'], f['iOut0'] = nm(t, 'target'), nat(v, 'initial value')
        f['fVar'], f['fN'] = for_range(s7, 4, 'for i in range(n):` with four statements')
        f['f1'] = slice_set(s7.body[0], 'in_inv[i_in:i_in + inv[i]] = i')
        f['f2'] = slice_set(s7.body[1], 'out_inv[i_out:i_out + outv[i]] = i')
        f['a1Var'], f['a1Vec'], f['a1Idx'] = aug(s7.body[2], 'i_in += inv[i]')
        f['a2Var'], f['a2Vec'], f['a2Idx'] = aug(s7.body[3], 'i_out += outv[i]')
        t, v = assign(s8, 'CIJ = np.eye(n)')
        f['cij'], f['eyeN'] = nm(t, 'target'), nm(npc(v, 'eye', 'CIJ = np.eye(n)'), 'dimension')
        w9 = 'edges = np.array((out_inv, in_inv[rng.permutation(k)]))'
        t, v = assign(s9, w9)
        tp = npc(v, 'array', w9)
        if not (isinstance(tp, ast.Tuple) and len(tp.elts) == 2 and isinstance(tp.elts[1], ast.Subscript)):
            raise Unrec(s9, 'expected `%s`' % w9)
        g, x = call1(tp.elts[1].slice, w9, 'permutation')
        f['edges'], f['edge0'], f['edge1'] = nm(t, 'target'), nm(tp.elts[0], 'first row'), nm(tp.elts[1].value, 'second row')
        f['permRng'], f['permN'] = nm(g, 'generator'), nm(x, 'permutation size')
        f['mVar'], f['mN'] = for_range(s10, 1, 'for i in range(k):` with one `if … else`')
        iff = s10.body[0]
        if not (isinstance(iff, ast.If) and len(iff.body) == 2 and len(iff.orelse) >= 1):
            raise Unrec(iff, 'expected `if CIJ[edges[0, i], edges[1, i]]:` with two statements and an `else`')
        f['occupied'] = cell(iff.test)
        t, v = assign(iff.body[0], 'tried = set()')
        if not (isinstance(v, ast.Call) and isinstance(v.func, ast.Name) and v.func.id == 'set' and not v.args and not v.keywords):
            raise Unrec(iff.body[0], 'expected `tried = set()`')
        f['tried'] = nm(t, 'target')
        wh = iff.body[1]
        if not (isinstance(wh, ast.While) and not wh.orelse and isinstance(wh.test, ast.Constant) and wh.test.value is True and len(wh.body) == 5):
            raise Unrec(wh, 'expected `while True:` with five statements')
        w0, w1, w2, w3, w4 = wh.body
        ww = 'if len(tried) == k: raise BCTParamError(…)'
        if not (isinstance(w0, ast.If) and not w0.orelse and len(w0.body) == 1 and isinstance(w0.test, ast.Compare) and len(w0.test.ops) == 1
                and isinstance(w0.test.ops[0], ast.Eq) and isinstance(w0.body[0], ast.Raise) and w0.body[0].cause is None
                and isinstance(w0.body[0].exc, ast.Call) and isinstance(w0.body[0].exc.func, ast.Name)):
            raise Unrec(w0, 'expected `%s`' % ww)
        g, x = call1(w0.test.left, ww)
        if g.id != 'len':
            raise Unrec(w0, 'expected `%s`' % ww)
        f['lenOf'], f['lenEq'], f['exc'] = nm(x, 'argument'), nm(w0.test.comparators[0], 'right side'), q(w0.body[0].exc.func.id)
        for x in w0.body[0].exc.args:
            if not (isinstance(x, ast.Constant) and isinstance(x.value, str)):
                raise Unrec(x, 'expected a string literal as the message of the exception')
        if w0.body[0].exc.keywords:
            raise Unrec(w0, 'expected `%s`' % ww)
        t, v = assign(w1, 'switch = rng.randint(k)')
        f['sw'] = nm(t, 'target'); f['swRng'], f['swN'] = randint(v, 'switch = rng.randint(k)')
        if not (isinstance(w2, ast.While) and not w2.orelse and len(w2.body) == 1 and isinstance(w2.test, ast.Compare) and len(w2.test.ops) == 1
                and isinstance(w2.test.ops[0], ast.In)):
            raise Unrec(w2, 'expected `while switch in tried:` with one statement')
        f['wIn'], f['wSet'] = nm(w2.test.left, 'left side'), nm(w2.test.comparators[0], 'right side')
        t, v = assign(w2.body[0], 'switch = rng.randint(k)')
        f['sw2'] = nm(t, 'target'); f['sw2Rng'], f['sw2N'] = randint(v, 'switch = rng.randint(k)')
        w3w = 'if not (CIJ[edges[0, i], edges[1, switch]] or CIJ[edges[0, switch], edges[1, i]]):'
        if not (isinstance(w3, ast.If) and not w3.orelse and isinstance(w3.test, ast.UnaryOp) and isinstance(w3.test.op, ast.Not)
                and isinstance(w3.test.operand, ast.BoolOp) and isinstance(w3.test.operand.op, ast.Or) and len(w3.test.operand.values) == 2
                and len(w3.body) >= 2 and isinstance(w3.body[-1], ast.Break)):
            raise Unrec(w3, 'expected `%s` … `break`' % w3w)
        f['free1'], f['free2'] = cell(w3.test.operand.values[0]), cell(w3.test.operand.values[1])
        lt = [j for j, x in enumerate(w3.body) if isinstance(x, ast.If)]
        if len(lt) != 1:
            raise Unrec(w3, 'expected exactly one `if switch < i:` among the statements of the accepted switch')
        ifl = w3.body[lt[0]]
        if not (not ifl.orelse and isinstance(ifl.test, ast.Compare) and len(ifl.test.ops) == 1 and isinstance(ifl.test.ops[0], ast.Lt)):
            raise Unrec(ifl, 'expected `if switch < i:` without `else`')
        f['accept'] = estmts(w3.body[:lt[0]])
        f['ltL'], f['ltR'] = nm(ifl.test.left, 'left side'), nm(ifl.test.comparators[0], 'right side')
        f['ltBody'] = estmts(ifl.body)
        f['swap'] = estmts(w3.body[lt[0] + 1:-1])
        ad = w4.value if isinstance(w4, ast.Expr) else None
        g, x = call1(ad, 'tried.add(switch)', 'add') if ad is not None else (None, None)
        if g is None:
            raise Unrec(w4, 'expected `tried.add(switch)`')
        f['addSet'], f['addVal'] = nm(g, 'set'), nm(x, 'element')
        f['elseStores'] = estmts(iff.orelse)
        if not (isinstance(s11, ast.AugAssign) and isinstance(s11.op, ast.Sub)):
            raise Unrec(s11, 'expected `CIJ -= np.eye(n)`')
        f['subL'], f['subEyeN'] = nm(s11.target, 'target'), nm(npc(s11.value, 'eye', 'CIJ -= np.eye(n)'), 'dimension')
        if not (isinstance(s12, ast.Return) and s12.value is not None):
            raise Unrec(s12, 'expected `return CIJ`')
        f['ret'] = nm(s12.value, 'returned value')
    except Unrec as e:
        r.bad(e.node if hasattr(e.node, 'lineno') else fn, e.msg)
    return r


def synth_df():
    path = os.path.join(common.REPO, 'bct', 'algorithms', 'reference.py')
    fns, err = parse_functions(path)
    name = 'makerandCIJdegreesfixed'
    if name not in fns:
        r = Routine(name, path); r.problems.append('%s: %s' % (name, err or 'function not found in ' + path))
        r.fields = None
    else:
        try:
            r = extract_df(fns[name], path)
            check_header(r, fns[name], fns)
        except Exception as e:  # noqa — an extractor crash must not look like success
            r = Routine(name, path); r.problems.append('%s: extractor raised %s: %s' % (name, type(e).__name__, e))
            r.fields = None
    f = r.fields or dict(df_default(), params='[]', defaults='[]')
    relb = os.path.basename(path)
    a, b = r.parts.get('body', (r.line, r.line))
    out = []
    for p in r.problems:
        out.append('-- NOT RECOGNISED: ' + p.replace('\n', ' '))
    out.append('/-- `makerandCIJdegreesfixed` (%s:%d): every statement, one field per name and literal -/' % (relb, r.line))
    out.append('def ir_makerandCIJdegreesfixed : Bct.CoreIR.Synth.DfIR :=\n  { recognised := %s, origins := %s,\n    %s }\n'
               % ('true' if not r.problems else 'false', lean_origins(r), ',\n    '.join('%s := %s' % (k, f[k]) for k in DF_FIELDS)))
    out.append('theorem makerandCIJdegreesfixed_ok : Bct.CoreIR.Synth.dfOk ir_makerandCIJdegreesfixed = true := by\n  first | decide | fail '
               '"makerandCIJdegreesfixed_ok: the statements extracted from makerandCIJdegreesfixed (%s:%d-%d) %s"\n'
               % (relb, a, b, 'were not all recognised by translate/cores.py' if r.problems else 'are not the expected program'))
    out.append('theorem makerandCIJdegreesfixed_computes {n : Nat} (inv outv : Fin n → Nat) (ds : List Nat) :\n'
               '    Bct.CoreIR.Synth.runDf ir_makerandCIJdegreesfixed inv outv ds = Bct.Synth.degreesFixed inv outv ds :=\n'
               '  Bct.Cores.Synth.link_degreesfixed _ makerandCIJdegreesfixed_ok inv outv ds\n')
    return {'lean': out, 'problems': list(r.problems), 'routines': {name: dict(getattr(r, 'counts', {}), line=r.line, recognised=not r.problems)}}


def synth_extra():
    path = os.path.join(common.REPO, 'bct', 'algorithms', 'reference.py')
    fns, err = parse_functions(path)
    name = 'makeringlatticeCIJ'
    if name not in fns:
        r = Routine(name, path); r.problems.append('%s: %s' % (name, err or 'function not found in ' + path))
        r.fields = None
    else:
        try:
            r = extract_ring(fns[name], path)
            check_header(r, fns[name], fns)
        except Exception as e:  # noqa — an extractor crash must not look like success
            r = Routine(name, path); r.problems.append('%s: extractor raised %s: %s' % (name, type(e).__name__, e))
            r.fields = None
    tz = '{ mat := "?", seq := "?", cnt := "?", off := 99, plus := 99 }'
    f = r.fields or dict({k: ('99' if k in RING_NUM else tz if k in RING_TRIU else q('?')) for k in RING_FIELDS}, params='[]', defaults='[]')
    relb = os.path.basename(path)
    a, b = r.parts.get('body', (r.line, r.line))
    out = []
    for p in r.problems:
        out.append('-- NOT RECOGNISED: ' + p.replace('\n', ' '))
    out.append('/-- `makeringlatticeCIJ` (%s:%d): every statement, one field per name and literal -/' % (relb, r.line))
    out.append('def ir_makeringlatticeCIJ : Bct.CoreIR.Synth.RingIR :=\n  { recognised := %s, origins := %s,\n    %s }\n'
               % ('true' if not r.problems else 'false', lean_origins(r), ',\n    '.join('%s := %s' % (k, f[k]) for k in RING_FIELDS)))
    out.append('theorem makeringlatticeCIJ_ok : Bct.CoreIR.Synth.ringOk ir_makeringlatticeCIJ = true := by\n  first | decide | fail '
               '"makeringlatticeCIJ_ok: the statements extracted from makeringlatticeCIJ (%s:%d-%d) %s"\n'
               % (relb, a, b, 'were not all recognised by translate/cores.py' if r.problems else 'are not the expected program'))
    out.append('theorem makeringlatticeCIJ_computes {n : Nat} (k : Nat) (ds : List Nat) :\n'
               '    Bct.CoreIR.Synth.runRing (n := n) ir_makeringlatticeCIJ n k ds = Bct.Synth.ringLattice n k ds :=\n'
               '  Bct.Cores.Synth.link_makeringlattice _ makeringlatticeCIJ_ok k ds\n')
    d = synth_df()
    return {'imports': ['import BctVerif.Props.CoresSynth'], 'lean': out + d['lean'], 'problems': list(r.problems) + d['problems'],
            'routines': dict({name: dict(getattr(r, 'counts', {}), line=r.line, recognised=not r.problems)}, **d['routines'])}


def family_synth():
    return family_pinned('synth', synth_extra)


def _pin_only(fam):
    def f():
        return family_pinned(fam)
    f.__name__ = 'family_' + fam
    return f


# ====================================================================== canonical local names
#
# The function-local names of every routine that is read, in the order of their first binding, at the reference revision
# of /repo (`python cores.py --canon-locals` prints this table).  See `canonicalise_locals`.

CANON_LOCALS = {
    'bct/algorithms/centrality.py:betweenness_bin': ['n', 'I', 'd', 'NPd', 'NSPd', 'NSP', 'L', 'DP', 'diam', 'DPd1'],
    'bct/algorithms/centrality.py:betweenness_wei': ['n', 'BC', 'u', 'D', 'NP', 'S', 'P', 'Q', 'q', 'G1', 'V', 'v', 'W', 'w', 'Duw', 'DP', 'w', 'v'],
    'bct/algorithms/centrality.py:diversity_coef_sign': ['n', '_', 'm', 'entropy', 'S', 'Snm', 'i', 'pnm', 'Hpos', 'Hneg'],
    'bct/algorithms/centrality.py:edge_betweenness_bin': ['n', 'BC', 'EBC', 'u', 'D', 'NP', 'P', 'Q', 'q', 'Gu', 'V', 'v', 'W', 'w', 'DP', 'w', 'v',
        'DPvw'],
    'bct/algorithms/centrality.py:edge_betweenness_wei': ['n', 'BC', 'EBC', 'u', 'D', 'NP', 'S', 'P', 'Q', 'q', 'G1', 'V', 'v', 'W', 'w', 'Duw',
        'DP', 'w', 'v', 'DPvw'],
    'bct/algorithms/centrality.py:eigenvector_centrality_und': ['n', 'vals', 'vecs', 'i'],
    'bct/algorithms/centrality.py:flow_coef_bd': ['N', 'fc', 'total_flo', 'max_flo', 'v', 'nb', 'CIJflo', 'i', 'j', 'FC'],
    'bct/algorithms/centrality.py:gateway_coef_sign': ['_', 'n', 'gcoef', 'nr_modules', 's', 'Gc', 'ks', 'kjs', 'cs', 'cent', 'max_centrality', 'i',
        'centrality', 'kj', 'j', 'in_mod_nodes', 'neighbs', 'ksm', 'centm', 'gs', 'sm', 'Gw', 'G_pos', 'G_neg'],
    'bct/algorithms/centrality.py:kcoreness_centrality_bd': ['N', 'coreness', 'kn', 'k', 'CIJkcore', 'ss'],
    'bct/algorithms/centrality.py:kcoreness_centrality_bu': ['N', 'CIJund', 'coreness', 'kn', 'k', 'CIJkcore', 'ss'],
    'bct/algorithms/centrality.py:module_degree_zscore': ['_', 'n', 'Z', 'i', 'Koi'],
    'bct/algorithms/centrality.py:pagerank_centrality': ['N', 'norm_falff', 'deg', 'D1', 'B', 'b', 'r'],
    'bct/algorithms/centrality.py:participation_coef': ['_', 'n', 'Ko', 'Gc', 'Kc2', 'i', 'P'],
    'bct/algorithms/centrality.py:participation_coef_sign': ['_', 'n', 'pcoef', 'S', 'Gc', 'Sc2', 'i', 'P', 'Ppos', 'Pneg'],
    'bct/algorithms/centrality.py:subgraph_centrality': ['vals', 'vecs', 'Cs'],
    'bct/algorithms/clustering.py:agreement': ['n_nodes', 'n_partitions', 'ind', 'D', 'a', 'b', 'i', 'j', 'y'],
    'bct/algorithms/clustering.py:agreement_weighted': ['m', 'n', 'D', 'i', 'd'],
    'bct/algorithms/clustering.py:clustering_coef_bd': ['S', 'K', 'cyc3', 'CYC3', 'C'],
    'bct/algorithms/clustering.py:clustering_coef_bu': ['n', 'C', 'u', 'V', 'k', 'S'],
    'bct/algorithms/clustering.py:clustering_coef_wd': ['A', 'S', 'K', 'cyc3', 'CYC3', 'C'],
    'bct/algorithms/clustering.py:clustering_coef_wu': ['K', 'ws', 'cyc3', 'C'],
    'bct/algorithms/clustering.py:clustering_coef_wu_sign': ['n', 'W_pos', 'K_pos', 'ws_pos', 'cyc3_pos', 'C_pos', 'W_neg', 'K_neg', 'ws_neg',
        'cyc3_neg', 'C_neg', 'cyc2_pos', 'cyc2_neg', 'i', 'j', 'q', 'cyc3', 'cyc2', 'i', 'j', 'q', 'C'],
    'bct/algorithms/clustering.py:consensus_und': ['rng', 'unique_partitions', 'n', 'r', 'ci_tmp', 'i', 'j', 'u', 'ciu', 'c', 'dup', 'flag', 'dt',
        '_', 'nu'],
    'bct/algorithms/clustering.py:get_components': ['n', 'edge_map', 'u', 'v', 'union_sets', 'item', 'temp', 's', 'comps', 'i', 'comp_sizes'],
    'bct/algorithms/clustering.py:number_of_components': ['_', 'csizes'],
    'bct/algorithms/clustering.py:transitivity_bd': ['S', 'K', 'cyc3', 'CYC3'],
    'bct/algorithms/clustering.py:transitivity_bu': ['tri3', 'tri2'],
    'bct/algorithms/clustering.py:transitivity_wd': ['A', 'S', 'K', 'cyc3', 'CYC3'],
    'bct/algorithms/clustering.py:transitivity_wu': ['K', 'ws', 'cyc3'],
    'bct/algorithms/core.py:assortativity_bin': ['deg', 'i', 'j', 'K', 'degi', 'degj', 'id', 'od', 'term1', 'term2', 'term3', 'r'],
    'bct/algorithms/core.py:assortativity_wei': ['str', 'i', 'j', 'K', 'stri', 'strj', 'ist', 'ost', 'term1', 'term2', 'term3', 'r'],
    'bct/algorithms/core.py:core_periphery_dir': ['rng', 'n', 'C', 's', 'p', 'b', 'B', 'cix', 'ncix', 'q', 'flag', 'it', 'ixes', 'Ct', 'Qt', 'ctix',
        'nctix', 'q0', 'max_Qt', 'u'],
    'bct/algorithms/core.py:kcore_bd': ['peelorder', 'peellevel', 'iter', 'CIJkcore', 'id', 'od', 'deg', 'ff', 'kn'],
    'bct/algorithms/core.py:kcore_bu': ['peelorder', 'peellevel', 'iter', 'CIJkcore', 'deg', 'ff', 'kn'],
    'bct/algorithms/core.py:rich_club_bd': ['id', 'od', 'deg', 'R', 'Nk', 'Ek', 'k', 'SmallNodes', 'subCIJ'],
    'bct/algorithms/core.py:rich_club_bu': ['deg', 'R', 'Nk', 'Ek', 'k', 'SmallNodes', 'subCIJ'],
    'bct/algorithms/core.py:rich_club_wd': ['nr_nodes', 'deg', 'Rw', 'wrank', 'k', 'SmallNodes', 'cutCIJ', 'Wr', 'Er', 'wrank_r'],
    'bct/algorithms/core.py:rich_club_wu': ['nr_nodes', 'deg', 'Rw', 'wrank', 'k', 'SmallNodes', 'cutCIJ', 'Wr', 'Er', 'wrank_r'],
    'bct/algorithms/core.py:score_wu': ['CIJscore', 'str', 'ff', 'sn'],
    'bct/algorithms/degree.py:degrees_dir': ['id', 'od', 'deg'],
    'bct/algorithms/degree.py:jdegree': ['n', 'id', 'od', 'szJ', 'J', 'i', 'J_od', 'J_id', 'J_bl'],
    'bct/algorithms/degree.py:strengths_dir': ['istr', 'ostr'],
    'bct/algorithms/degree.py:strengths_und_sign': ['n', 'Spos', 'Sneg', 'vpos', 'vneg'],
    'bct/algorithms/distance.py:breadth': ['n', 'white', 'gray', 'black', 'color', 'distance', 'branch', 'Q', 'u', 'ns', 'v'],
    'bct/algorithms/distance.py:breadthdist': ['n', 'D', 'i', '_', 'R'],
    'bct/algorithms/distance.py:charpath': ['Dv', 'lambda_', 'efficiency', 'ecc', 'radius', 'diameter'],
    'bct/algorithms/distance.py:distance_bin': ['D', 'n', 'nPATH', 'L'],
    'bct/algorithms/distance.py:distance_wei': ['n', 'D', 'B', 'u', 'S', 'G1', 'V', 'v', 'W', 'td', 'd', 'wi', 'ind', 'minD'],
    'bct/algorithms/distance.py:distance_wei_floyd': ['SPL', 'n', 'hops', 'Pmat', 'k', 'i2k_k2j', 'path', 'i', 'j', 'I'],
    'bct/algorithms/distance.py:findpaths': ['n', 'k', 'pths', 'Pq', 'util', 'q', 'j', 'i', 'i_s', '_', 'nrp', 'allpths', 'npthscnt', 'len_npths',
        'npths', 'endp', 'i', 'pb', 'nendp', 'j', 'pb_temp', 'pbx', 'npx', 'qstop', 'tpath', 'plq'],
    'bct/algorithms/distance.py:findwalks': ['n', 'Wq', 'CIJpwr', 'q', 'twalk', 'wlq'],
    'bct/algorithms/distance.py:mean_first_passage_time': ['P', 'n', 'D', 'V', 'aux', 'index', 'w', 'W', 'I', 'Z', 'mfpt'],
    'bct/algorithms/distance.py:navigation_wu': ['n', 'PL_bin', 'PL_wei', 'PL_dis', 'paths', 'i', 'j', 'curr_node', 'last_node', 'target',
        'curr_paths', 'pl_bin', 'pl_wei', 'pl_dis', 'neighbors', 'min_ix', 'next_node', 'inf_ixes', 'sr'],
    'bct/algorithms/distance.py:reachdist': ['reachdist2', 'id', 'od', 'id0', 'od0'],
    'bct/algorithms/distance.py:retrieve_shortest_path': ['path_length', 'path', 'ind'],
    'bct/algorithms/efficiency.py:diffusion_efficiency': ['n', 'mfpt', 'ediff', 'gediff'],
    'bct/algorithms/efficiency.py:efficiency_bin': ['distance_inv', 'D', 'n', 'nPATH', 'L', 'E', 'u', 'V', 'e', 'se', 'sa', 'numer', 'denom'],
    'bct/algorithms/efficiency.py:efficiency_wei': ['distance_inv_wei', 'n', 'D', 'u', 'S', 'G1', 'V', 'v', 'W', 'td', 'minD', 'Gl', 'A', 'E', 'sw',
        'e', 'se', 'numer', 'sa', 'denom'],
    'bct/algorithms/efficiency.py:rout_efficiency': ['n', 'Erout', '_', 'GErout', 'Eloc', 'u', 'Gu', 'nGu', 'e'],
    'bct/algorithms/generative.py:evaluate_generative_model': ['m', 'n', 'xk', 'xc', 'xb', 'xe', 'B', 'nB', 'K', 'kstats', 'bin_edges', 'bin_x', '_',
        'bin_y', 'sum_x', 'sum_y', 'cdfsamp_x', 'cdfsamp_y', 'delta_cdf', 'ib', 'Bc', 'yk', 'yc', 'yb', 'ye'],
    'bct/algorithms/generative.py:generative_model': ['rng', 'n', 'nparams', 'B', 'k_avg', 'k_diff', 'k_max', 'k_min', 'k_prod', 's_avg', 's_diff',
        's_min', 's_max', 's_prod', 'x_avg', 'nr_ixes', 'Ksc', 'Kix', 'x_diff', 'x_max', 'x_min', 'x_prod', 'Ka', 'Kb', 'clu_gen', 'mseed', 'mv1',
        'mv2', 'Fd', 'Fk', 'c', 'k', 'Ff', 'u', 'v', 'i', 'C', 'r', 'uu', 'vv', 'bu', 'bv', 'su', 'sv', 'bth', 'k_result', 'deg_gen', 'P', 'b',
        'matching_gen', 'ii', 'updateuu', 'c1', 'j', 'c2', 'use', 'ncon', 'updatevv', 'neighbors_gen', 'x', 'y', 'euclidean_gen', 'Kseed', 'ep',
        'gp', 'ep', 'gp', 'ep', 'gp', 'ep', 'gp', 'ep', 'gp', 'ep', 'gp', 'ep', 'gp', 'ep', 'gp', 'ep', 'gp', 'ep', 'gp', 'ep', 'gp', 'mi', '_',
        'ep', 'gp', 'ep'],
    'bct/algorithms/modularity.py:_safe_squeeze': ['out'],
    'bct/algorithms/modularity.py:ci2ls': ['_', 'nr_indices', 'ls', 'c', 'i', 'x'],
    'bct/algorithms/modularity.py:community_louvain': ['rng', 'n', 's', '_', 'Mb', 'renormalize', 'W0', 's0', 'B0', 'W1', 's1', 'B1', 'Hnm', 'm',
        'H', 'Hm', 'q0', 'q', 'first_iteration', 'it', 'flag', 'u', 'ma', 'dQ', 'max_dq', 'mb', 'M0', 'u', 'b1', 'i', 'j', 'bm'],
    'bct/algorithms/modularity.py:link_communities': ['n', 'No', 'Ni', 'Jo', 'Ji', 'b', 'c', 'Do', 'Di', 'A', 'B', 'm', 'Ln', 'Lw', 'i', 'ES', 'j',
        'a', 'C', 'Nc', 'Mc', 'Dc', 'U', 'j', 'ixes', 'links', 'nodes', 'nodulo', 'nc', 'mc', 'min_mc', 'dc', 'u1', 'u2', 'wehr', 'uc', 'ud', 'ugl',
        'ug_rows', 'unq_rows', 'row', 'V', 'j', 'x', 'M', 'j'],
    'bct/algorithms/modularity.py:ls2ci': ['nr_indices', 'ci', 'z', 'i', 'x', 'j', 'y'],
    'bct/algorithms/modularity.py:modularity_dir': ['n', 'ki', 'ko', 'm', 'b', 'B', 'init_mod', 'modules', 'recur', 'modmat', 'vals', 'vecs',
        'rlvals', 'max_eigvec', 'mod_asgn', 'q', 'qmax', 'it', 'mod_asgn_iter', 'q_iter', 'imax', 'mod1', 'mod2', 'ci', 's'],
    'bct/algorithms/modularity.py:modularity_finetune_dir': ['rng', 'n', '_', 's', 'knm_o', 'knm_i', 'm', 'k_o', 'k_i', 'km_o', 'km_i', 'flag', 'u',
        'ma', 'dq_o', 'dq_i', 'dq', 'max_dq', 'mb', 'w', 'u', 'v', 'q'],
    'bct/algorithms/modularity.py:modularity_finetune_und': ['rng', 'n', '_', 's', 'knm', 'm', 'k', 'km', 'flag', 'u', 'ma', 'dq', 'max_dq', 'mb',
        'w', 'u', 'v', 'wm', 'q'],
    'bct/algorithms/modularity.py:modularity_finetune_und_sign': ['rng', 'n', '_', 'W0', 'W1', 's0', 's1', 'Knm0', 'Knm1', 'm', 'Kn0', 'Kn1', 'Km0',
        'Km1', 'd0', 'd1', 'flag', 'h', 'u', 'ma', 'dq0', 'dq1', 'dq', 'max_dq', 'mb', 'q0', 'q1', 'q'],
    'bct/algorithms/modularity.py:modularity_louvain_dir': ['rng', 'n', 's', 'h', 'ci', 'q', 'n0', 'k_o', 'k_i', 'km_o', 'km_i', 'knm_o', 'knm_i',
        'm', 'flag', 'it', 'u', 'ma', 'dq_o', 'dq_i', 'dq', 'max_dq', 'mb', '_', 'i', 'W1', 'i', 'j'],
    'bct/algorithms/modularity.py:modularity_louvain_und': ['rng', 'n', 's', 'h', 'ci', 'q', 'n0', 'k', 'Km', 'Knm', 'm', 'flag', 'it', 'i', 'ma',
        'dQ', 'max_dq', 'j', '_', 'i', 'W1', 'i', 'wp'],
    'bct/algorithms/modularity.py:modularity_louvain_und_sign': ['rng', 'n', 'W0', 'W1', 's0', 's1', 'd0', 'd1', 'h', 'nh', 'ci', 'q', 'kn0', 'kn1',
        'km0', 'km1', 'knm0', 'knm1', 'm', 'flag', 'it', 'u', 'ma', 'dQ0', 'dQ1', 'dQ', 'max_dQ', 'mb', '_', 'u', 'wn0', 'wn1', 'u', 'v', 'q0', 'q1',
        'ci_ret'],
    'bct/algorithms/modularity.py:modularity_probtune_und_sign': ['rng', 'n', '_', 'W0', 'W1', 's0', 's1', 'Knm0', 'Knm1', 'm', 'Kn0', 'Kn1', 'Km0',
        'Km1', 'd0', 'd1', 'u', 'ma', 'r', 'mb', 'dq0', 'dq1', 'dq', 'max_dq', 'q0', 'q1', 'q'],
    'bct/algorithms/modularity.py:modularity_und': ['n', 'k', 'm', 'B', 'init_mod', 'modules', 'recur', 'modmat', 'vals', 'vecs', 'rlvals',
        'max_eigvec', 'mod_asgn', 'q', 'qmax', 'it', 'mod_asgn_iter', 'q_iter', 'imax', 'mod1', 'mod2', 'ci', 's'],
    'bct/algorithms/modularity.py:modularity_und_sign': ['n', '_', 'W0', 'W1', 's0', 's1', 'Knm0', 'Knm1', 'm', 'Kn0', 'Kn1', 'Km0', 'Km1', 'd0',
        'd1', 'q0', 'q1', 'q'],
    'bct/algorithms/modularity.py:partition_distance': ['n', '_', 'cxy', 'Px', 'Py', 'Pxy', 'Hx', 'Hy', 'Hxy', 'Vin', 'Min'],
    'bct/algorithms/physical_connectivity.py:density_dir': ['n', 'k', 'kden'],
    'bct/algorithms/physical_connectivity.py:density_und': ['n', 'k', 'kden'],
    'bct/algorithms/physical_connectivity.py:rentian_scaling': ['rng', 'm', 'xyzn', 'nmax', 'nmin', 'count', 'N', 'E', 'randx', 'l1', 'l2', 'l3',
        'l4', 'l5', 'l6', 'L'],
    'bct/algorithms/reference.py:latmio_dir': ['rng', 'n', 'ind_rp', 'un', 'um', 'u', 'v', 'i', 'j', 'k', 'max_attempts', 'eff', 'it', 'att', 'e1',
        'e2', 'a', 'b', 'c', 'd', 'ind_rp_reverse', 'Rlatt'],
    'bct/algorithms/reference.py:latmio_dir_connected': ['rng', 'n', 'ind_rp', 'un', 'um', 'u', 'v', 'i', 'j', 'k', 'max_attempts', 'eff', 'it',
        'att', 'rewire', 'e1', 'e2', 'a', 'b', 'c', 'd', 'P', 'PN', 'ind_rp_reverse', 'Rlatt'],
    'bct/algorithms/reference.py:latmio_und': ['rng', 'n', 'ind_rp', 'un', 'um', 'u', 'v', 'i', 'j', 'k', 'max_attempts', 'eff', 'it', 'att', 'e1',
        'e2', 'a', 'b', 'c', 'd', 'ind_rp_reverse', 'Rlatt'],
    'bct/algorithms/reference.py:latmio_und_connected': ['rng', 'n', 'ind_rp', 'un', 'um', 'u', 'v', 'i', 'j', 'k', 'max_attempts', 'eff', 'it',
        'att', 'rewire', 'e1', 'e2', 'a', 'b', 'c', 'd', 'P', 'PN', 'ind_rp_reverse', 'Rlatt'],
    'bct/algorithms/reference.py:makeevenCIJ': ['rng', 'mx_lvl', 't', 'Nlvl', 's', 'CIJ', 'lvl', 'grp1', 'grp2', 'ix1', 'ix2', 'CIJp', 'rem_k', 'a',
        'b', 'rp', 'ai', 'bi'],
    'bct/algorithms/reference.py:makefractalCIJ': ['rng', 't', 'n', 's', 'CIJ', 'lvl', 'grp1', 'grp2', 'ix1', 'ix2', 'ee', 'prob', 'k'],
    'bct/algorithms/reference.py:makerandCIJ_dir': ['rng', 'ix', 'rp', 'CIJ'],
    'bct/algorithms/reference.py:makerandCIJ_und': ['rng', 'ix', 'rp', 'CIJ'],
    'bct/algorithms/reference.py:makerandCIJdegreesfixed': ['rng', 'n', 'k', 'in_inv', 'out_inv', 'i_in', 'i_out', 'i', 'CIJ', 'edges', 'i', 'tried',
        'switch', 't'],
    'bct/algorithms/reference.py:makeringlatticeCIJ': ['rng', 'CIJ', 'CIJ1', 'kk', 'count', 'seq', 'seq2', 'dCIJ', 'dCIJ2', 'overby', 'i', 'j', 'rp',
        'ii'],
    'bct/algorithms/reference.py:maketoeplitzCIJ': ['rng', 'pf', 'template', 'CIJ', 'itr'],
    'bct/algorithms/reference.py:null_model_dir_sign': ['rng', 'n', 'Ap', 'An', 'W_r', '_', 'Ap_r', 'An_r', 'W0', 's', 'Acur', 'A_rcur', 'Si', 'So',
        'Wv', 'i', 'j', 'Lij', 'P', 'Oind', 'wsize', 'wei_period', 'lq', 'm', 'R', 'q', 'r', 'o', 'f', 'O', 'rpos_in', 'rpos_ou', 'rneg_in',
        'rneg_ou'],
    'bct/algorithms/reference.py:null_model_und_sign': ['rng', 'n', 'Ap', 'An', 'W_r', 'eff', 'Ap_r', 'An_r', 'W0', 's', 'Acur', 'A_rcur', 'S', 'Wv',
        'i', 'j', 'Lij', 'P', 'Oind', 'wsize', 'wei_period', 'lq', 'm', 'R', 'q', 'r', 'o', 'f', 'O', 'rpos_in', 'rpos_ou', 'rneg_in', 'rneg_ou'],
    'bct/algorithms/reference.py:randmio_dir': ['rng', 'n', 'i', 'j', 'k', 'max_attempts', 'eff', 'it', 'att', 'e1', 'e2', 'a', 'b', 'c', 'd'],
    'bct/algorithms/reference.py:randmio_dir_connected': ['rng', 'n', 'i', 'j', 'k', 'max_attempts', 'eff', 'it', 'att', 'rewire', 'e1', 'e2', 'a',
        'b', 'c', 'd', 'P', 'PN'],
    'bct/algorithms/reference.py:randmio_dir_signed': ['rng', 'n', 'max_attempts', 'eff', 'it', 'att', 'a', 'b', 'c', 'd', 'r0_ab', 'r0_cd', 'r0_ad',
        'r0_cb'],
    'bct/algorithms/reference.py:randmio_und': ['rng', 'n', 'i', 'j', 'k', 'max_attempts', 'eff', 'it', 'att', 'e1', 'e2', 'a', 'b', 'c', 'd'],
    'bct/algorithms/reference.py:randmio_und_connected': ['rng', 'n', 'i', 'j', 'k', 'max_attempts', 'eff', 'it', 'att', 'rewire', 'e1', 'e2', 'a',
        'b', 'c', 'd', 'P', 'PN'],
    'bct/algorithms/reference.py:randmio_und_signed': ['rng', 'n', 'max_attempts', 'eff', 'it', 'att', 'a', 'b', 'c', 'd', 'r0_ab', 'r0_cd', 'r0_ad',
        'r0_cb'],
    'bct/algorithms/reference.py:randomize_graph_partial_und': ['rng', 'i', 'j', 'm', 'nswap', 'e1', 'e2', 'a', 'b', 'c', 'd'],
    'bct/algorithms/reference.py:randomizer_bin_und': ['rng', 'ax', 'nr_poss_edges', 'savediag', 'i', 'j', 'k', 'swap', 'fullnodes', 'it', 'a', 'b',
        'alliholes', 'alljholes', 'i_intersect', 'ii', 'jj', 'nummates', 'mate', 'c', 'd', 'm'],
    'bct/algorithms/similarity.py:edge_nei_overlap_bd': ['ik', 'jk', 'lel', 'n', '_', 'deg', 'ec', 'degij', 'e', 'neiik', 'neijk', 'EC'],
    'bct/algorithms/similarity.py:edge_nei_overlap_bu': ['ik', 'jk', 'lel', 'n', 'deg', 'ec', 'degij', 'e', 'neiik', 'neijk', 'EC'],
    'bct/algorithms/similarity.py:matching_ind': ['n', 'Min', 'Mout', 'Mall', 'i', 'j', 'c1i', 'c2i', 'usei', 'nconi', 'c1o', 'c2o', 'useo', 'ncono',
        'c1a', 'c2a', 'usea', 'ncona'],
    'bct/algorithms/similarity.py:matching_ind_und': ['K', 'n', 'R', 'N', 'xR', 'CIJ', 'I', 'M', 'i', 'c1', 'use', 'ncon1', 'ncon2', 'ncon', 'M0',
        'yR'],
    'bct/nbs.py:nbs_bct': ['rng', 'ttest2_stat_only', 't', 'n1', 'n2', 'vx', 'vy', 's', 'denom', 'ttest_paired_stat_only', 'd', 'n', 'df',
        'sample_ss', 'unbiased_std', 'z', 'ix', 'jx', 'nx', 'iy', 'jy', 'ny', 'ixes', 'm', 'xmat', 'ymat', 'i', 'i', 't_stat', 'i', 'ind_t', 'adj',
        'a', 'sz', 'ind_sz', 'nr_components', 'sz_links', 'i', 'nodes', 'max_sz', 'null', 'hit', 'u', 'indperm', 't_stat_perm', 'i', 'adj_perm',
        'nr_components_perm', 'sz_links_perm', 'i', 'pvals', 'i'],
    'bct/utils/miscellaneous_utilities.py:dummyvar': ['n', 'm', 'r', 'i', 'nnz', 'ix', 's_cis', 'mask', 'indptr', 'dv'],
    'bct/utils/miscellaneous_utilities.py:get_rng': ['rstate'],
    'bct/utils/miscellaneous_utilities.py:pick_four_unique_nodes_quickly': ['rng', 'k', 'a', 'b', 'c', 'd'],
    'bct/utils/other.py:autofix': ['u'],
    'bct/utils/other.py:invert': ['E'],
    'bct/utils/other.py:threshold_proportional': ['n', 'ud', 'ind', 'I', 'en'],
}


# ====================================================================== entry points

FAMILIES = {'floyd': family_floyd, 'peel': family_peel, 'util': family_util, 'comp': family_comp, 'dijk': family_dijk, 'path': family_path, 'bin': family_bin, 'bfs': family_bfs, 'reach': family_reach, 'betw': family_betw, 'clust': family_clust, 'char': family_char, 'eff': family_eff, 'walks': family_walks, 'modq': family_modq, 'nullm': family_nullm, 'nbs': family_nbs, 'synth': family_synth}
FAMILIES.update({f_: _pin_only(f_) for f_ in ('pinrew', 'pinmod', 'pinpart', 'pindist', 'pinmeas', 'pinwalk', 'pingen', 'pinutil')})


def write_if_changed(path, text):
    os.makedirs(os.path.dirname(path), exist_ok=True)
    old = open(path).read() if os.path.exists(path) else None
    if old != text:
        tmp = path + '.tmp%d' % os.getpid()
        open(tmp, 'w').write(text)
        os.replace(tmp, path)
    return old != text


def generate(lean_dir=None, families=None):
    """Re-extract from the current source and (re)write <lean_dir>/BctVerif/Gen/Cores<Family>.lean for the requested
    families (default: all).  Returns {'families': {fam: {'module', 'file', 'changed', 'sources', 'routines', 'problems'}},
    'modules': [...], 'problems': [...all...]}."""
    lean_dir = lean_dir or common.LEAN
    _SCOPES.clear()
    _NP_SCAN.clear()
    out = {'families': {}, 'modules': [], 'problems': []}
    for fam in (families or sorted(FAMILIES)):
        try:
            res = FAMILIES[fam]()
        except Exception as e:  # noqa
            out['problems'].append('family %s: extractor raised %s: %s' % (fam, type(e).__name__, e))
            continue
        path = os.path.join(lean_dir, 'BctVerif', 'Gen', res['file'])
        changed = write_if_changed(path, res.pop('text'))
        res['file'] = path
        res['changed'] = changed
        out['families'][fam] = res
        out['modules'].append(res['module'])
        out['problems'] += res['problems']
    return out


if __name__ == '__main__':
    if len(sys.argv) > 2 and sys.argv[1] == '--print':
        sys.stdout.write(FAMILIES[sys.argv[2]]()['text'])
    elif len(sys.argv) > 1 and sys.argv[1] == '--canon-locals':
        sys.stdout.write(canon_locals_text())
    elif len(sys.argv) > 2 and sys.argv[1] == '--pin-references':
        # --pin-references <lean dir> [--only name,name,…]
        print('\n'.join(write_pin_references(sys.argv[2], sys.argv[4].split(',') if len(sys.argv) > 4 and sys.argv[3] == '--only' else None)))
    else:
        print(json.dumps(generate(sys.argv[1] if len(sys.argv) > 1 else None), indent=1))
