"""AST -> literal swap kernels of the twelve rewiring routines of bct/algorithms/reference.py (T-gen, C01/C06/C11).

Run on every check run (`generate()`), it re-reads /repo's *current* source (path from common.REPO), recovers for
each routine, from the accepted-swap block,

  * the literal cell assignments `R[x,y] = R[z,w] | <int literal> | <saved name>` in program order,
  * the edge-list rewrites `i[e] = v` / `j[e] = v`,
  * the optional orientation flip (`i[e2] = d; j[e2] = c; c = i[e2]; d = j[e2]`),
  * the guard cells (`not (R[a,d] or R[c,b] [or B[a,d] or B[c,b] or B[d,a] or B[b,c]])`), lattice products, sign comparisons,
  * the bindings `a = i[e1] …` and the four-distinct-endpoints test,

and writes them as data into lean/BctVerif/Gen/Kernels.lean together with one obligation per routine
(`theorem kernel_<routine>_ok : kernelOk kernel_<routine> = true := by decide`) and the instantiated link theorem
(`kernel_<routine>_computes`: the extracted statements compute exactly Rewire.swapDir / swapUnd / …).

Tolerated, because they cannot change what a routine computes (normalised away before anything is matched, see
`canonicalise`): a consistent renaming of function-local variables (the locals in first-binding order are renamed back
to the pinned list `CANON_LOCALS` — only when the count is the same and no canonical name is otherwise in use; never
parameters, imports, globals, builtins), `if not c: X else: Y` for `if c: Y else: X`, `pass`, docstrings and other
bare-string statements.  The result is alpha-equivalent to the source that was read, so every real slip (D2, an index,
a guard cell) is still there after it.

Conservative by construction: every statement of the accepted-swap block, every write to the rewired matrix or to the
edge arrays inside the rewiring loop and every rebinding of a/b/c/d must be *recognised*; anything else marks the routine
`recognised := false`, which makes its obligation unprovable (the build fails naming `kernel_<routine>_ok`) and is
listed under `problems` in the summary.  Nothing is skipped silently.  The expected behaviour is *not* in this file:
it lives in Lean (`Bct.Kernel.expected`, `kernelOk`), so this translator only has to be trusted to read, not to judge.
"""
import ast
import os
import sys

try:
    import common
except ImportError:  # stand-alone use
    sys.path.insert(0, os.path.join(os.path.dirname(os.path.dirname(os.path.abspath(__file__))), 'harness'))
    import common

SYM = ('a', 'b', 'c', 'd')
KINDS = {
    'randmio_dir': 'dir', 'randmio_dir_connected': 'dir', 'latmio_dir': 'dir', 'latmio_dir_connected': 'dir',
    'randmio_und': 'und', 'randmio_und_connected': 'und', 'latmio_und': 'und', 'latmio_und_connected': 'und',
    'randomize_graph_partial_und': 'und',
    'randmio_dir_signed': 'dirSigned', 'randmio_und_signed': 'undSigned',
    'randomizer_bin_und': 'binUnd',
}
LINK = {'dir': ('link_dir', 'Bct.Rewire.swapDir'), 'und': ('link_und', 'Bct.Rewire.swapUnd'),
        'dirSigned': ('link_dirSigned', 'swapDirSigned'), 'undSigned': ('link_undSigned', 'swapUndSigned'),
        'binUnd': ('link_binUnd', 'swapBinUnd')}


class K:
    """extraction result of one routine"""

    def __init__(self, name):
        self.name = name; self.kind = KINDS[name]; self.line = 0; self.matrix = None; self.mask = None
        self.binds = []; self.distinct = []; self.flip = []; self.rebind = []; self.guard = []; self.mask_guard = []
        self.sign_guard = []; self.lat_lhs = []; self.lat_rhs = []; self.assigns = []; self.edges = []; self.incr = 0
        self.tests = []; self.problems = []

    def bad(self, node, msg):
        self.problems.append('%s: line %s: %s' % (self.name, getattr(node, 'lineno', '?'), msg))


# ------------------------------------------------------------------ shape recognisers

def cell(node):
    """M[x, y] with x, y in {a,b,c,d} -> (M, x, y)"""
    if (isinstance(node, ast.Subscript) and isinstance(node.value, ast.Name) and isinstance(node.slice, ast.Tuple)
            and len(node.slice.elts) == 2):
        x, y = node.slice.elts
        if isinstance(x, ast.Name) and isinstance(y, ast.Name) and x.id in SYM and y.id in SYM:
            return (node.value.id, x.id, y.id)
    return None


def edge_ref(node):
    """i[e1] / j[e2] -> ('i', 'e1')"""
    if (isinstance(node, ast.Subscript) and isinstance(node.value, ast.Name) and node.value.id in ('i', 'j')
            and isinstance(node.slice, ast.Name) and node.slice.id in ('e1', 'e2')):
        return (node.value.id, node.slice.id)
    return None


def is_setflags(st):
    return (isinstance(st, ast.Expr) and isinstance(st.value, ast.Call) and isinstance(st.value.func, ast.Attribute)
            and st.value.func.attr == 'setflags' and isinstance(st.value.func.value, ast.Name)
            and st.value.func.value.id in ('i', 'j'))


def is_coin(test):
    """rng.random_sample() > .5"""
    return (isinstance(test, ast.Compare) and len(test.ops) == 1 and isinstance(test.ops[0], ast.Gt)
            and isinstance(test.left, ast.Call) and isinstance(test.left.func, ast.Attribute)
            and test.left.func.attr == 'random_sample' and isinstance(test.comparators[0], ast.Constant)
            and test.comparators[0].value == .5)


def stores(node):
    """all (statement, target) pairs below node that store into a subscript or a name"""
    for st in ast.walk(node):
        if isinstance(st, ast.Assign):
            for t in st.targets:
                for u in (t.elts if isinstance(t, ast.Tuple) else [t]):
                    yield st, u
        elif isinstance(st, ast.AugAssign):
            yield st, st.target


def base_name(t):
    while isinstance(t, ast.Subscript):
        t = t.value
    return t.id if isinstance(t, ast.Name) else None


# ------------------------------------------------------------------ harmless-edit normalisation

# renameable locals of each routine in first-binding order at the reference revision (`python translate/kernels.py --canon`)
CANON_LOCALS = {
    'randmio_dir': ['rng', 'n', 'i', 'j', 'k', 'max_attempts', 'eff', 'it', 'att', 'e1', 'e2', 'a', 'b', 'c', 'd'],
    'randmio_dir_connected': ['rng', 'n', 'i', 'j', 'k', 'max_attempts', 'eff', 'it', 'att', 'rewire', 'e1', 'e2', 'a', 'b', 'c', 'd', 'P',
        'PN'],
    'latmio_dir': ['rng', 'n', 'ind_rp', 'un', 'um', 'u', 'v', 'i', 'j', 'k', 'max_attempts', 'eff', 'it', 'att', 'e1', 'e2', 'a', 'b',
        'c', 'd', 'ind_rp_reverse', 'Rlatt'],
    'latmio_dir_connected': ['rng', 'n', 'ind_rp', 'un', 'um', 'u', 'v', 'i', 'j', 'k', 'max_attempts', 'eff', 'it', 'att', 'rewire', 'e1',
        'e2', 'a', 'b', 'c', 'd', 'P', 'PN', 'ind_rp_reverse', 'Rlatt'],
    'randmio_und': ['rng', 'n', 'i', 'j', 'k', 'max_attempts', 'eff', 'it', 'att', 'e1', 'e2', 'a', 'b', 'c', 'd'],
    'randmio_und_connected': ['rng', 'n', 'i', 'j', 'k', 'max_attempts', 'eff', 'it', 'att', 'rewire', 'e1', 'e2', 'a', 'b', 'c', 'd', 'P',
        'PN'],
    'latmio_und': ['rng', 'n', 'ind_rp', 'un', 'um', 'u', 'v', 'i', 'j', 'k', 'max_attempts', 'eff', 'it', 'att', 'e1', 'e2', 'a', 'b',
        'c', 'd', 'ind_rp_reverse', 'Rlatt'],
    'latmio_und_connected': ['rng', 'n', 'ind_rp', 'un', 'um', 'u', 'v', 'i', 'j', 'k', 'max_attempts', 'eff', 'it', 'att', 'rewire', 'e1',
        'e2', 'a', 'b', 'c', 'd', 'P', 'PN', 'ind_rp_reverse', 'Rlatt'],
    'randomize_graph_partial_und': ['rng', 'i', 'j', 'm', 'nswap', 'e1', 'e2', 'a', 'b', 'c', 'd'],
    'randmio_dir_signed': ['rng', 'n', 'max_attempts', 'eff', 'it', 'att', 'a', 'b', 'c', 'd', 'r0_ab', 'r0_cd', 'r0_ad', 'r0_cb'],
    'randmio_und_signed': ['rng', 'n', 'max_attempts', 'eff', 'it', 'att', 'a', 'b', 'c', 'd', 'r0_ab', 'r0_cd', 'r0_ad', 'r0_cb'],
    'randomizer_bin_und': ['rng', 'ax', 'nr_poss_edges', 'savediag', 'i', 'j', 'k', 'swap', 'fullnodes', 'it', 'a', 'b', 'alliholes',
        'alljholes', 'i_intersect', 'ii', 'jj', 'nummates', 'mate', 'c', 'd', 'm'],
}


def _cores():
    """the scope analysis of translate/cores.py (`_pin_renameable`, `_drop_noops`, `_rename_locals`, `_names_used`);
    None if unavailable — then nothing is renamed (a renamed source fails its obligation: the conservative direction)"""
    try:
        here = os.path.dirname(os.path.abspath(__file__))
        if here not in sys.path:
            sys.path.insert(0, here)
        import cores
        for nm in ('_pin_renameable', '_drop_noops', '_rename_locals', '_names_used'):
            getattr(cores, nm)
        return cores
    except Exception:  # noqa
        return None


def norm_ifs(fn):
    """`if not c: X else: Y`  ->  `if c: Y else: X` (in place; only when there is an else branch)"""
    for nd in ast.walk(fn):
        if isinstance(nd, ast.If):
            while nd.orelse and isinstance(nd.test, ast.UnaryOp) and isinstance(nd.test.op, ast.Not):
                nd.test = nd.test.operand
                nd.body, nd.orelse = nd.orelse, nd.body


def renameable_locals(fn2, cores):
    """renameable locals of the normalised function in the order of their first binding *in the normalised text*
    (the tree is printed and re-read so that positions follow the normalised statement order)"""
    return cores._pin_renameable(ast.parse(ast.unparse(fn2)).body[0])


def canonicalise(fn, name, canon_table=None):
    """-> a deep copy of `fn` without `pass` / bare strings, with negated two-branch ifs turned round and with a
    consistent local renaming undone.  Line numbers are kept.  Alpha-equivalent to `fn` by construction: the renaming is
    a bijection between names that `_pin_renameable` proves local (bound in the routine, every occurrence resolving
    there, not a parameter / import / global), applied only when no target name is otherwise used in the routine."""
    import copy
    canon_table = CANON_LOCALS if canon_table is None else canon_table
    cores = _cores()
    fn2 = copy.deepcopy(fn)
    if cores is None:
        return fn2
    fn2.body = cores._drop_noops(fn2.body)
    norm_ifs(fn2)
    try:
        cur = renameable_locals(fn2, cores)
    except Exception:  # noqa
        return fn2
    canon = canon_table.get(name)
    if canon is None or cur is None or len(cur) != len(canon) or cur == canon:
        return fn2
    if set(canon) & (cores._names_used(fn2) - set(cur)):
        return fn2
    cores._rename_locals(fn2, dict(zip(cur, canon)))
    return fn2


def canon_locals_text(src_path=None):
    """the table CANON_LOCALS for the current source (run on the reference revision of /repo)"""
    src_path = src_path or os.path.join(common.REPO, 'bct', 'algorithms', 'reference.py')
    tree = ast.parse(open(src_path).read())
    fns = {f.name: f for f in tree.body if isinstance(f, ast.FunctionDef)}
    cores = _cores()
    out = []
    for name in KINDS:
        fn2 = canonicalise(fns[name], name, {})
        out.append('    %r: %r,' % (name, renameable_locals(fn2, cores)))
    return '\n'.join(out)


# ------------------------------------------------------------------ one routine

def extract(fn, name):
    k = K(name)
    k.line = fn.lineno
    parent = {}
    for p in ast.walk(fn):
        for ch in ast.iter_child_nodes(p):
            parent[ch] = p
    # 1. the accepted-swap block: the unique `if` whose own body assigns to cells M[x,y], x,y in {a,b,c,d}
    blocks = [nd for nd in ast.walk(fn) if isinstance(nd, ast.If)
              and any(isinstance(st, ast.Assign) and any(cell(t) for t in st.targets) for st in nd.body)]
    if len(blocks) != 1:
        k.bad(fn, 'expected exactly one accepted-swap block, found %d' % len(blocks)); return k
    blk = blocks[0]
    k.line = blk.lineno
    recognised = set()     # ids of statements accounted for
    saved = {}
    # 2. enclosing tests up to the rewiring loop
    chain, nd = [blk], blk
    while True:
        p = parent.get(nd)
        if p is None or isinstance(p, ast.FunctionDef):
            k.bad(blk, 'accepted-swap block is not inside a loop'); return k
        if isinstance(p, (ast.While, ast.For)):
            loop = p; break
        if isinstance(p, ast.If):
            if nd not in p.body:
                k.bad(p, 'accepted-swap block sits in an else branch')
            chain.append(p)
        else:
            k.bad(p, 'unexpected construct %s around the accepted-swap block' % type(p).__name__)
        nd = p
    root = chain[-1]
    if root not in loop.body:
        k.bad(root, 'guard is not a direct statement of the rewiring loop')
    # 3. statements of the loop body before the guard: bindings, distinctness test, saved values, flip
    m_names = {cell(t)[0] for st in blk.body if isinstance(st, ast.Assign) for t in st.targets if cell(t)}
    if len(m_names) != 1:
        k.bad(blk, 'cell assignments address several arrays %s' % sorted(m_names)); return k
    k.matrix = M = m_names.pop()
    pre = []
    for st in loop.body:
        if st is root:
            break
        pre.append(st)
    flip_if = None
    for st in pre:
        for sub in ast.walk(st):
            if isinstance(sub, ast.If) and is_coin(sub.test) and k.kind != 'binUnd':
                if sub is not st:
                    k.bad(sub, 'orientation coin is nested'); continue
                if flip_if is not None:
                    k.bad(sub, 'second orientation coin')
                flip_if = sub
    for st in pre:
        if st is flip_if:
            continue
        for sub in ast.walk(st):
            if isinstance(sub, ast.Assign) and len(sub.targets) == 1:
                t, v = sub.targets[0], sub.value
                if isinstance(t, ast.Name) and t.id in SYM:
                    er = edge_ref(v)
                    if er and k.kind in ('dir', 'und'):
                        k.binds.append((t.id,) + er); recognised.add(id(sub))
                    elif k.kind == 'binUnd' and isinstance(v, ast.Subscript) and base_name(v) in ('i', 'j'):
                        recognised.add(id(sub))      # a = i[it]; b = j[it]
                    else:
                        k.bad(sub, 'unrecognised binding of %s' % t.id)
                elif isinstance(t, ast.Tuple) and any(isinstance(e, ast.Name) and e.id in SYM for e in t.elts):
                    names = [e.id if isinstance(e, ast.Name) else '?' for e in t.elts]
                    if (names == list(SYM) and isinstance(v, ast.Call) and isinstance(v.func, ast.Name)
                            and v.func.id == 'pick_four_unique_nodes_quickly' and k.kind in ('dirSigned', 'undSigned')):
                        recognised.add(id(sub))
                    else:
                        k.bad(sub, 'unrecognised tuple binding %s' % names)
                elif isinstance(t, ast.Name) and cell(v) and cell(v)[0] == M:
                    saved[t.id] = cell(v)[1:]
            if isinstance(sub, ast.If) and isinstance(sub.test, ast.BoolOp) and isinstance(sub.test.op, ast.And) \
                    and all(isinstance(c, ast.Compare) and len(c.ops) == 1 and isinstance(c.ops[0], ast.NotEq)
                            and isinstance(c.left, ast.Name) and isinstance(c.comparators[0], ast.Name) for c in sub.test.values) \
                    and len(sub.body) == 1 and isinstance(sub.body[0], ast.Break):
                pairs = [(c.left.id, c.comparators[0].id) for c in sub.test.values]
                if all(x in SYM and y in SYM for x, y in pairs):
                    k.distinct += pairs
    if flip_if is not None:
        if flip_if.orelse:
            k.bad(flip_if, 'orientation flip has an else branch')
        phase = 0
        for st in flip_if.body:
            if is_setflags(st):
                continue
            ok = False
            if isinstance(st, ast.Assign) and len(st.targets) == 1:
                t, v = st.targets[0], st.value
                if edge_ref(t) and isinstance(v, ast.Name) and v.id in SYM and phase == 0:
                    k.flip.append(edge_ref(t) + (v.id,)); ok = True
                elif isinstance(t, ast.Name) and t.id in SYM and edge_ref(v):
                    phase = 1; k.rebind.append((t.id,) + edge_ref(v)); ok = True
            if ok:
                recognised.add(id(st))
            else:
                k.bad(st, 'unrecognised statement in the orientation flip: %s' % ast.unparse(st)[:60])
    # 4. the tests
    for t_if in reversed(chain):
        classify_test(k, t_if, M, saved)
    # 5. the block itself
    seen_cell = False
    for st in blk.body:
        if is_setflags(st) or isinstance(st, ast.Break):
            continue
        if isinstance(st, ast.AugAssign) and isinstance(st.target, ast.Name) and isinstance(st.op, ast.Add) \
                and isinstance(st.value, ast.Constant) and st.value.value == 1 and st.target.id in ('eff', 'nswap'):
            k.incr += 1; continue
        if isinstance(st, ast.Assign):
            v = st.value
            kinds = []
            for t in st.targets:
                c = cell(t)
                if c and c[0] == M:
                    src = None
                    if cell(v) and cell(v)[0] == M:
                        src = ('cell',) + cell(v)[1:]
                    elif isinstance(v, ast.Constant) and type(v.value) is int:
                        src = ('const', v.value)
                    elif isinstance(v, ast.Name) and v.id in saved:
                        src = ('saved',) + saved[v.id]
                    if src is None or (src[0] == 'cell' and len(st.targets) > 1):
                        k.bad(st, 'unrecognised right-hand side: %s' % ast.unparse(st)[:60]); kinds.append('bad'); continue
                    k.assigns.append((c[1:], src)); seen_cell = True; kinds.append('cell')
                elif edge_ref(t) and isinstance(v, ast.Name) and v.id in SYM and len(st.targets) == 1:
                    k.edges.append(edge_ref(t) + (v.id,)); kinds.append('edge')
                elif (k.kind == 'binUnd' and isinstance(t, ast.Name) and t.id not in SYM + ('i', 'j', M, 'e1', 'e2')
                      and not seen_cell):
                    kinds.append('local')        # nummates = …; mate = …
                else:
                    k.bad(st, 'unrecognised assignment in the accepted-swap block: %s' % ast.unparse(st)[:60]); kinds.append('bad')
            if 'bad' not in kinds:
                recognised.add(id(st))
            continue
        if k.kind == 'binUnd' and isinstance(st, ast.If) and is_coin(st.test) and not seen_cell:
            # random orientation of the mate: both branches bind exactly c and d from the mate list
            okb = True
            for br in (st.body, st.orelse):
                names = sorted(s.targets[0].id for s in br if isinstance(s, ast.Assign) and len(s.targets) == 1
                               and isinstance(s.targets[0], ast.Name))
                if names != ['c', 'd'] or len(br) != 2:
                    okb = False
            if okb:
                for br in (st.body, st.orelse):
                    for s in br:
                        recognised.add(id(s))
            else:
                k.bad(st, 'unrecognised mate orientation')
            continue
        if k.kind == 'binUnd' and isinstance(st, ast.For) and seen_cell:
            # the edge-index update loop: may write i / j only
            for s, t in stores(st):
                if isinstance(t, ast.Subscript) and base_name(t) in ('i', 'j'):
                    recognised.add(id(s))
                elif isinstance(t, ast.Subscript) or (isinstance(t, ast.Name) and t.id in SYM):
                    k.bad(s, 'edge-index update loop writes %s' % ast.unparse(t))
            continue
        k.bad(st, 'unrecognised statement in the accepted-swap block: %s' % ast.unparse(st)[:60])
    # 6. nothing else in the rewiring loop may write the matrix, the edge arrays or the four names
    for s, t in stores(loop):
        if id(s) in recognised:
            continue
        bn = base_name(t)
        if isinstance(t, ast.Subscript) and bn in (M, 'i', 'j'):
            k.bad(s, 'unaccounted write to %s inside the rewiring loop: %s' % (bn, ast.unparse(s)[:60]))
        if isinstance(t, ast.Name) and t.id in SYM + ('i', 'j', M):
            k.bad(s, 'unaccounted rebinding of %s inside the rewiring loop: %s' % (t.id, ast.unparse(s)[:60]))
    # 7. conservative: a call that receives the matrix / an edge array itself (or a method on it other than
    #    setflags) could mutate it in place — not understood, so not accepted
    for nd2 in ast.walk(loop):
        if isinstance(nd2, ast.Call):
            args = list(nd2.args) + [kw.value for kw in nd2.keywords]
            if any(isinstance(x, ast.Name) and x.id in (M, 'i', 'j') for x in args):
                k.bad(nd2, 'call receives %s whole inside the rewiring loop: %s' % ('/'.join((M, 'i', 'j')), ast.unparse(nd2)[:60]))
            f = nd2.func
            if isinstance(f, ast.Attribute) and isinstance(f.value, ast.Name) and f.value.id in (M, 'i', 'j') and f.attr != 'setflags':
                k.bad(nd2, 'method call on %s inside the rewiring loop: %s' % (f.value.id, ast.unparse(nd2)[:60]))
    return k


def prod_cells(node, M, k):
    """D[x,y] * R[z,w] + … -> [((x,y),(z,w)), …] or None"""
    if isinstance(node, ast.BinOp) and isinstance(node.op, ast.Add):
        l, r = prod_cells(node.left, M, k), prod_cells(node.right, M, k)
        return None if l is None or r is None else l + r
    if isinstance(node, ast.BinOp) and isinstance(node.op, ast.Mult):
        x, y = cell(node.left), cell(node.right)
        if x and y and x[0] == 'D' and y[0] == M:
            return [(x[1:], y[1:])]
    return None


def classify_test(k, t_if, M, saved):
    t = t_if.test
    if isinstance(t, ast.Name) and t.id == 'rewire':
        k.tests.append('rewire'); return
    if isinstance(t, ast.UnaryOp) and isinstance(t.op, ast.Not) and isinstance(t.operand, ast.BoolOp) \
            and isinstance(t.operand.op, ast.Or) and all(cell(v) for v in t.operand.values):
        for v in t.operand.values:
            c = cell(v)
            if c[0] == M:
                k.guard.append(c[1:])
            else:
                if k.mask not in (None, c[0]):
                    k.bad(t_if, 'two mask arrays')
                k.mask = c[0]; k.mask_guard.append(c[1:])
        k.tests.append('empty'); return
    if isinstance(t, ast.Compare) and len(t.ops) == 1 and isinstance(t.ops[0], ast.GtE):
        l, r = prod_cells(t.left, M, k), prod_cells(t.comparators[0], M, k)
        if l is not None and r is not None and not k.lat_lhs:
            k.lat_lhs, k.lat_rhs = l, r; k.tests.append('lattice'); return
    if isinstance(t, ast.BoolOp) and isinstance(t.op, ast.And) and k.kind in ('dirSigned', 'undSigned'):
        out = []
        for c in t.values:
            def sg(x):
                if (isinstance(x, ast.Call) and isinstance(x.func, ast.Attribute) and x.func.attr == 'sign'
                        and len(x.args) == 1 and isinstance(x.args[0], ast.Name) and x.args[0].id in saved):
                    return saved[x.args[0].id]
                return None
            if isinstance(c, ast.Compare) and len(c.ops) == 1 and isinstance(c.ops[0], (ast.Eq, ast.NotEq)) \
                    and sg(c.left) and sg(c.comparators[0]):
                out.append((sg(c.left), sg(c.comparators[0]), isinstance(c.ops[0], ast.Eq)))
            else:
                out = None; break
        if out is not None:
            k.sign_guard += out; k.tests.append('sign'); return
    if k.kind == 'binUnd' and isinstance(t, ast.Call) and ast.unparse(t) == 'np.size(ii)':
        k.tests.append('mates'); return
    k.bad(t_if, 'unrecognised test guarding the accepted swap: %s' % ast.unparse(t)[:80])


# ------------------------------------------------------------------ Lean emission

def lc(c):
    return '(%s, %s)' % c


def lean_kernel(k):
    def src(s):
        return '.const %d' % s[1] if s[0] == 'const' else '.%s %s' % (s[0], lc(s[1:]))
    def ew(w):
        return '⟨.%s, .%s, %s⟩' % w
    def bd(b_):
        return '⟨%s, .%s, .%s⟩' % b_
    def lst(xs):
        return '[' + ', '.join(xs) + ']'
    rec = 'true' if not k.problems else 'false'
    return ('def kernel_%s : Kernel :=\n'
            '  { kind := .%s, recognised := %s,\n'
            '    binds := %s,\n    distinct := %s,\n    flip := %s, rebind := %s,\n'
            '    guard := %s, maskGuard := %s,\n    signGuard := %s,\n    latLhs := %s, latRhs := %s,\n'
            '    assigns := %s,\n    edges := %s, incr := %d }\n') % (
        k.name, k.kind, rec, lst(map(bd, k.binds)), lst(lc(p) for p in k.distinct), lst(map(ew, k.flip)), lst(map(bd, k.rebind)),
        lst(map(lc, k.guard)), lst(map(lc, k.mask_guard)),
        lst('(%s, %s, %s)' % (lc(x), lc(y), 'true' if e else 'false') for x, y, e in k.sign_guard),
        lst('(%s, %s)' % (lc(x), lc(y)) for x, y in k.lat_lhs), lst('(%s, %s)' % (lc(x), lc(y)) for x, y in k.lat_rhs),
        lst('⟨%s, %s⟩' % (lc(dst), src(s)) for dst, s in k.assigns), lst(map(ew, k.edges)), k.incr)


def lean_file(ks, src_path):
    out = ['import BctVerif.Props.C01Kernel',
           '/-!',
           '# GENERATED by translate/kernels.py — do not edit.  Re-emitted from the current source on every check run.',
           'source: %s' % src_path,
           '',
           'One `Kernel` value per rewiring routine (the literal statements of its accepted-swap block, program order),',
           'one obligation `kernel_<routine>_ok` closed by `decide`, and the link theorem instantiated at it.',
           '-/',
           'namespace Bct.Gen.Kernels',
           'open Bct Bct.Kernel Bct.C01Kernel',
           '']
    for k in ks:
        out.append('/-- `%s` (block at reference.py:%d; matrix `%s`%s; tests: %s) -/' % (
            k.name, k.line, k.matrix, ', mask `%s`' % k.mask if k.mask else '', ', '.join(k.tests) or 'none'))
        for p in k.problems:
            out.append('-- NOT RECOGNISED: ' + p.replace('\n', ' '))
        out.append(lean_kernel(k))
        out.append('theorem kernel_%s_ok : kernelOk kernel_%s = true := by\n  first | decide | fail "kernel_%s_ok: the statements extracted from %s '
                   '(reference.py:%d) %s"\n' % (k.name, k.name, k.name, k.name, k.line,
                                                 'were not all recognised by translate/kernels.py' if k.problems else
                                                 'do not implement the expected cell permutation / edge-list rewrite / guard'))
        th, fn = LINK[k.kind]
        out.append('theorem kernel_%s_computes {n : Nat} (R : AMat Int n) (na nb nc nd : Fin n)\n'
                   '    (hab : na ≠ nb) (hac : na ≠ nc) (had : na ≠ nd) (hbc : nb ≠ nc) (hbd : nb ≠ nd) (hcd : nc ≠ nd) :\n'
                   '    conExec (place na nb nc nd) kernel_%s.assigns R = %s R na nb nc nd :=\n'
                   '  %s kernel_%s rfl kernel_%s_ok R na nb nc nd hab hac had hbc hbd hcd\n' % (k.name, k.name, fn, th, k.name, k.name))
        if k.kind in ('dir', 'und'):
            out.append('theorem kernel_%s_block {n k : Nat} (s : Bct.Rewire.St n k) (e1 e2 : Fin k)\n'
                       '    (hab : s.iv e1 ≠ s.jv e1) (hac : s.iv e1 ≠ s.iv e2) (had : s.iv e1 ≠ s.jv e2)\n'
                       '    (hbc : s.jv e1 ≠ s.iv e2) (hbd : s.jv e1 ≠ s.jv e2) (hcd : s.iv e2 ≠ s.jv e2) :\n'
                       '    conAccepted kernel_%s s e1 e2 = Bct.RewireInv.afterSwap %s s e1 e2 :=\n'
                       '  link_state_%s kernel_%s rfl kernel_%s_ok s e1 e2 hab hac had hbc hbd hcd\n' % (
                           k.name, k.name, 'true' if k.kind == 'und' else 'false', k.kind, k.name, k.name))
        if k.name.startswith('latmio'):
            out.append('theorem kernel_%s_lattice : kernel_%s.latLhs = stdLatLhs ∧ kernel_%s.latRhs = stdLatRhs := by decide\n' % (k.name, k.name, k.name))
        if k.name == 'randomize_graph_partial_und':
            out.append('theorem kernel_%s_mask : cellsEq kernel_%s.maskGuard stdMaskGuard = true := by\n  first | decide | fail "kernel_%s_mask: %s (reference.py:%d) does not test the mask in exactly the cells (a,d), (c,b), (d,a), (b,c)"\n' % (k.name, k.name, k.name, k.name, k.line))
    out.append('end Bct.Gen.Kernels')
    return '\n'.join(out) + '\n'


# ------------------------------------------------------------------ entry points

def extract_all(src_path=None):
    src_path = src_path or os.path.join(common.REPO, 'bct', 'algorithms', 'reference.py')
    ks = []
    try:
        tree = ast.parse(open(src_path).read())
        fns = {f.name: f for f in tree.body if isinstance(f, ast.FunctionDef)}
        err = None
    except (OSError, SyntaxError) as e:
        fns, err = {}, '%s: %s' % (type(e).__name__, e)
    for name in KINDS:
        if name not in fns:
            k = K(name); k.problems.append('%s: %s' % (name, err or 'function not found in ' + src_path))
        else:
            try:
                k = extract(canonicalise(fns[name], name), name)
            except Exception as e:  # noqa — an extractor crash must not look like success
                k = K(name); k.problems.append('%s: extractor raised %s: %s' % (name, type(e).__name__, e))
        ks.append(k)
    return ks, src_path


def generate(lean_dir=None):
    """Re-extract from the current source and (re)write <lean_dir>/BctVerif/Gen/Kernels.lean.
    Returns a summary: {'file', 'changed', 'routines': {name: {...counts...}}, 'problems': [...]}."""
    lean_dir = lean_dir or common.LEAN
    ks, src_path = extract_all()
    text = lean_file(ks, src_path)
    path = os.path.join(lean_dir, 'BctVerif', 'Gen', 'Kernels.lean')
    os.makedirs(os.path.dirname(path), exist_ok=True)
    old = open(path).read() if os.path.exists(path) else None
    if old != text:
        tmp = path + '.tmp%d' % os.getpid()
        open(tmp, 'w').write(text)
        os.replace(tmp, path)
    return {'file': path, 'source': src_path, 'changed': old != text,
            'routines': {k.name: {'kind': k.kind, 'line': k.line, 'recognised': not k.problems, 'assignments': len(k.assigns),
                                  'edge_writes': len(k.edges), 'flip_writes': len(k.flip), 'guard_cells': len(k.guard) + len(k.mask_guard),
                                  'tests': k.tests} for k in ks},
            'problems': [p for k in ks for p in k.problems]}


if __name__ == '__main__':
    import json
    if len(sys.argv) > 1 and sys.argv[1] == '--canon':
        print(canon_locals_text())
    elif len(sys.argv) > 1 and sys.argv[1] == '--print':
        ks, sp = extract_all()
        sys.stdout.write(lean_file(ks, sp))
    else:
        print(json.dumps(generate(sys.argv[1] if len(sys.argv) > 1 else None), indent=1))
