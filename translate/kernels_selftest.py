"""Self-test of translate/kernels.py: harmless edits must keep `kernelOk`, every mutant must lose it.

Each case edits the *text* of the current /repo/bct/algorithms/reference.py in memory (nothing is written to /repo), the
extractor runs on the edited text, and the extracted `Kernel` values are put into one throw-away Lean file of
`example : kernelOk <kernel> = <expected> := by decide`, elaborated once with `lake env lean` in the lake project given by
BCT_LEAN (needs BctVerif.Props.C01Kernel built there).  Exit 0 iff every expectation holds.

    BCT_LEAN=/root/scratch/<copy>/lean /venv/bin/python translate/kernels_selftest.py
"""
import ast
import os
import re
import subprocess
import sys
import tempfile

sys.path.insert(0, os.path.dirname(os.path.abspath(__file__)))
import kernels  # noqa: E402
from kernels import common  # noqa: E402

SRC = os.path.join(common.REPO, 'bct', 'algorithms', 'reference.py')


def fn_span(text, name):
    tree = ast.parse(text)
    for f in tree.body:
        if isinstance(f, ast.FunctionDef) and f.name == name:
            lines = text.split('\n')
            return f.lineno - 1, f.end_lineno, lines
    raise KeyError(name)


def in_fn(text, name, edit):
    """apply edit(str)->str to the source text of one function"""
    a, b, lines = fn_span(text, name)
    body = '\n'.join(lines[a:b])
    new = edit(body)
    assert new != body, 'edit did not apply in ' + name
    return '\n'.join(lines[:a] + new.split('\n') + lines[b:])


def rename(mapping):
    def ed(body):
        for old, new in mapping.items():
            body = re.sub(r'(?<![\w.])%s\b' % re.escape(old), new, body)
        return body
    return ed


def repl(old, new, count=1):
    def ed(body):
        assert old in body, 'pattern not found: ' + old
        return body.replace(old, new, count)
    return ed


def chain(*eds):
    def ed(body):
        for e in eds:
            body = e(body)
        return body
    return ed


H11 = {'i': 'src', 'j': 'tgt', 'k': 'n_edges', 'it': 'sweep', 'att': 'attempt', 'e1': 'edge1', 'e2': 'edge2'}
ORIENT = ('            if rng.random_sample() > .5:\n                c = i_intersect[ii[mate]]\n                d = i_intersect[jj[mate]]\n'
          '            else:\n                d = i_intersect[ii[mate]]\n                c = i_intersect[jj[mate]]\n')
ORIENT_NOT = ('            if not rng.random_sample() > .5:\n                d = i_intersect[ii[mate]]\n                c = i_intersect[jj[mate]]\n'
              '            else:\n                c = i_intersect[ii[mate]]\n                d = i_intersect[jj[mate]]\n')
MASK4 = 'if not (A[a, d] or A[c, b] or B[a, d] or B[c, b]\n                or B[d, a] or B[b, c]):'

# (label, routine, edit, expected kernelOk)
CASES = [
    # ---- harmless: must stay true
    ('baseline randmio_dir', 'randmio_dir', None, True),
    ('H1-1 local rename i/j/k/it/att/e1/e2', 'randmio_dir', rename(H11), True),
    ('H1-7 if-not orientation + if-not complement', 'randomizer_bin_und',
     chain(repl(ORIENT, ORIENT_NOT),
           repl('    if k > nr_poss_edges / 2:\n        swap = True\n        R = np.logical_not(R).astype(float)\n        np.fill_diagonal(R, np.inf)\n'
                '        i, j = np.where(np.triu(R, 1))\n        k = len(i)\n    else:\n        swap = False\n',
                '    if not k > nr_poss_edges / 2:\n        swap = False\n    else:\n        swap = True\n        R = np.logical_not(R).astype(float)\n'
                '        np.fill_diagonal(R, np.inf)\n        i, j = np.where(np.triu(R, 1))\n        k = len(i)\n')), True),
    ('pass + bare string + comment in the block', 'randmio_und',
     repl('                R[a, d] = R[a, b]\n', '                pass\n                "move a-b to a-d"\n                R[a, d] = R[a, b]  # moved\n'), True),
    ('rename a,b,c,d,e1,e2 (connected latticiser)', 'latmio_und_connected',
     rename({'a': 'u1', 'b': 'v1', 'c': 'u2', 'd': 'v2', 'e1': 'p', 'e2': 'q', 'rewire': 'go'}), True),
    ('rename i,j,m,nswap (partial_und)', 'randomize_graph_partial_und', rename({'i': 'rows', 'j': 'cols', 'm': 'ne', 'nswap': 'done'}), True),
    ('rename saved values (signed)', 'randmio_und_signed', rename({'r0_ab': 'wab', 'r0_cd': 'wcd', 'r0_ad': 'wad', 'r0_cb': 'wcb'}), True),
    ('rename i,j + pass (und)', 'randmio_und',
     chain(rename({'i': 'src', 'j': 'tgt'}),
           repl('R[a, d] = R[a, b]\n', 'R[a, d] = R[a, b]\n                pass\n')), True),
    # ---- mutants: must become false
    ('D2 slip i[e1] = d', 'randmio_dir', repl('j[e1] = d', 'i[e1] = d'), False),
    ('D2 slip under the H1-1 renaming', 'randmio_dir', chain(rename(H11), repl('tgt[edge1] = d', 'src[edge1] = d')), False),
    ('index R[c, d] = 0 -> R[d, c] = 0', 'randmio_dir', repl('R[c, d] = 0', 'R[d, c] = 0'), False),
    ('index mutation under renaming', 'latmio_und_connected',
     chain(rename({'a': 'u1', 'b': 'v1', 'c': 'u2', 'd': 'v2'}), repl('R[v1, u2] = R[v2, u2]', 'R[v1, u2] = R[u2, v2]')), False),
    ('read after clear (reorder)', 'randmio_und',
     repl('                R[d, a] = R[b, a]\n                R[b, a] = 0\n', '                R[b, a] = 0\n                R[d, a] = R[b, a]\n'), False),
    ('flip writes i[e2] = c', 'latmio_und_connected', repl('i[e2] = d', 'i[e2] = c'), False),
    ('extra write R[a, 0] = 1', 'randmio_dir_connected', repl('                    R[c, d] = 0\n', '                    R[a, 0] = 1\n                    R[c, d] = 0\n'), False),
    ('bin R[d, b] = 1 -> R[d, a] = 1', 'randomizer_bin_und', repl('R[d, b] = 1', 'R[d, a] = 1'), False),
    ('bin mutation under if-not', 'randomizer_bin_und', chain(repl(ORIENT, ORIENT_NOT), repl('R[c, a] = 1', 'R[c, b] = 1')), False),
    ('signed r0_cb -> r0_cd', 'randmio_und_signed', repl('R[c, d] = R[d, c] = r0_cb', 'R[c, d] = R[d, c] = r0_cd'), False),
    ('mask guard: only two cells (pre-d35fde9)', 'randomize_graph_partial_und', repl(MASK4, 'if not (A[a, d] or A[c, b] or B[a, d] or B[c, b]):'), False),
    ('mask guard: three cells', 'randomize_graph_partial_und', repl(' or B[b, c]', ''), False),
    ('guard cell R[c, b] -> R[b, c]', 'randmio_dir', repl('if not (R[a, d] or R[c, b]):', 'if not (R[a, d] or R[b, c]):'), False),
    ('guard negation dropped', 'randmio_dir', repl('if not (R[a, d] or R[c, b]):', 'if (R[a, d] or R[c, b]):'), False),
    ('lattice D[c, b] -> D[b, c]', 'latmio_dir', repl('D[c, b] * R[c, d]', 'D[b, c] * R[c, d]'), False),
    ('binding b = j[e2]', 'randmio_dir', repl('b = j[e1]', 'b = j[e2]'), False),
    ('edge arrays swapped: j, i = np.where(R)', 'randmio_dir', repl('i, j = np.where(R)', 'j, i = np.where(R)'), False),
    ('in-place call np.fill_diagonal(R, 1)', 'randmio_und', repl('                eff += 1\n', '                np.fill_diagonal(R, 1)\n                eff += 1\n'), False),
    ('inconsistent rename (one occurrence)', 'randmio_dir', repl('j[e2] = b', 'tgt[e2] = b'), False),
    ('rename onto a parameter (R)', 'randmio_dir', rename({'j': 'R'}), False),
    ('eff += 1 twice', 'randmio_dir', repl('                eff += 1\n', '                eff += 1\n                eff += 1\n'), False),
    ('accepted block moved to else of inverted guard', 'randmio_dir',
     repl('            if not (R[a, d] or R[c, b]):\n', '            if (R[a, d] or R[c, b]):\n                att += 0\n            else:\n'), False),
]


def main():
    base = open(SRC).read()
    out = ['import BctVerif.Props.C01Kernel', 'open Bct Bct.Kernel', '']
    meta = []
    for n, (label, routine, edit, expect) in enumerate(CASES):
        text = base if edit is None else in_fn(base, routine, edit)
        with tempfile.NamedTemporaryFile('w', suffix='.py', delete=False) as f:
            f.write(text); path = f.name
        try:
            ks, _ = kernels.extract_all(path)
        finally:
            os.unlink(path)
        k = [x for x in ks if x.name == routine][0]
        others = [x.name for x in ks if x.name != routine and x.problems]
        assert not others, 'edit of %s disturbed %s' % (routine, others)
        k.name = 't%d' % n
        out.append('-- %s (%s): expect %s%s' % (label, routine, expect, ''.join('\n--   ' + p for p in k.problems)))
        out.append(kernels.lean_kernel(k))
        out.append('example : kernelOk kernel_t%d = %s := by decide\n' % (n, 'true' if expect else 'false'))
        meta.append((label, routine, expect, len(k.problems)))
    d = os.path.join(common.LEAN, '.lake', 'audit'); os.makedirs(d, exist_ok=True)
    f = os.path.join(d, 'KernelSelfTest_%d.lean' % os.getpid())
    open(f, 'w').write('\n'.join(out) + '\n')
    p = subprocess.run(['lake', 'env', 'lean', f], cwd=common.LEAN, capture_output=True, text=True, timeout=900)
    txt = p.stdout + p.stderr
    bad_lines = {int(m.group(1)) for m in re.finditer(r':(\d+):\d+: error', txt)}
    src_lines = open(f).read().split('\n')
    os.unlink(f)
    failed = set()
    for ln in bad_lines:
        for back in range(ln, 0, -1):
            m = re.match(r'example : kernelOk kernel_t(\d+) ', src_lines[back - 1]) or re.match(r'def kernel_t(\d+) ', src_lines[back - 1])
            if m:
                failed.add(int(m.group(1))); break
    for n, (label, routine, expect, nprob) in enumerate(meta):
        print('%-4s %-52s %-30s kernelOk=%s%s' % ('FAIL' if n in failed else 'ok', label, routine, expect if n not in failed else (not expect),
                                                 ' (%d unrecognised)' % nprob if nprob else ''))
    if p.returncode != 0 and not failed:
        print(txt[-2000:]); sys.exit(2)
    print('%d cases, %d failed' % (len(meta), len(failed)))
    sys.exit(1 if failed else 0)


if __name__ == '__main__':
    main()
