#!/usr/bin/env python
"""translate/effects.py -- Python `ast` -> RNG-effect IR (C05) and alias/write IR (C13).

Run on every check of C05 / C13 over the *current* source of the repository (common.REPO).  It never imports bct:
everything is read from the .py files.  It writes

    <lean>/BctVerif/Gen/EffectsRng.lean     skeleton table + `theorem <fn>_ok   : RngIR.ok table "<fn>" = true`
    <lean>/BctVerif/Gen/EffectsAlias.lean   IR table      + `theorem <fn>_safe : AliasIR.safe table fuel <id> = true`

TRUSTED: this translator (the abstraction AST -> IR, i.e. the tables below saying which NumPy operation returns a
view, a fresh array, or writes in place, and which calls are random draws) is part of the trusted base.  It is biased
to *fail*: every construct without a rule becomes `draw unknown` / `unknown x ys`, which the Lean checkers reject as
soon as a random effect / a caller-owned array is involved.  It is validated dynamically by harness/props/c05.py and
c13.py.

One walker produces one event tree per function; two projections give the two IRs.
"""
import ast, os, re, sys, json

# ----------------------------------------------------------------------------------------------- tables (trusted)

# every public method of numpy.random.RandomState / numpy.random.Generator and function of `random`: a call of such a
# method on something that is not a known module or a known non-generator is a random draw of unknown provenance
DRAW_METHODS = set('''beta binomial bytes chisquare choice dirichlet exponential f gamma geometric gumbel
 hypergeometric laplace logistic lognormal logseries multinomial multivariate_normal negative_binomial
 noncentral_chisquare noncentral_f normal pareto permutation permuted poisson power rand randint randn random
 random_integers random_sample ranf rayleigh sample seed set_state shuffle standard_cauchy standard_exponential
 standard_gamma standard_normal standard_t tomaxint triangular uniform vonmises wald weibull zipf integers
 betavariate choices expovariate gammavariate gauss getrandbits lognormvariate normalvariate paretovariate
 randbytes randrange triangular vonmisesvariate weibullvariate rvs'''.split())
# draw-method names that are also ordinary ndarray / container methods: on a receiver that is not a generator they are
# not draws (x.choice is not an ndarray method, but x.sort etc. never were in the list; keep this list minimal)
AMBIGUOUS_DRAWS = {'f', 'power', 'gamma', 'beta', 'sample', 'bytes', 'seed', 'normal', 'uniform', 'random', 'choice',
                   'binomial', 'exponential', 'geometric', 'logistic', 'poisson', 'triangular', 'pareto', 'wald', 'zipf'}
ENTROPY_FUNCS = {'os.urandom', 'os.getrandom', 'time.time', 'time.time_ns', 'time.perf_counter', 'time.monotonic',
                 'uuid.uuid1', 'uuid.uuid4', 'secrets.randbits', 'secrets.token_bytes', 'secrets.choice',
                 'secrets.randbelow', 'os.getpid'}

NP_FRESH = set('''abs absolute add all allclose amax amin any append arange argmax argmin argsort argwhere around array
 array_equal average bincount bool_ ceil clip column_stack concatenate copy corrcoef cos count_nonzero cov cross cumprod
 cumsum delete diag_indices diag_indices_from diff divide dot dstack einsum empty empty_like equal errstate exp eye finfo
 flatnonzero float32 float64 floor full full_like greater greater_equal histogram hstack identity iinfo inner insert
 int32 int64 int8 int16 uint8 uint16 uint32 uint64 intersect1d isclose isfinite isinf isnan isscalar ix_ kron less
 less_equal lexsort linspace log log10 log2 log1p logical_and logical_not logical_or logical_xor matmul max maximum
 mean median min minimum mod multiply nan_to_num nanmax nanmean nanmin nansum ndim nonzero not_equal ones ones_like
 outer percentile power prod ptp repeat roll round round_ searchsorted select setdiff1d seterr shape sign sin size sort
 sqrt square stack std subtract sum take tanh tensordot tile trace tril tril_indices triu triu_indices union1d unique
 unravel_index var vstack where zeros zeros_like cbrt floor_divide remainder true_divide negative reciprocal
 issubdtype result_type dtype in1d isin iscomplexobj isrealobj array_str array_repr
 add.outer subtract.outer multiply.outer arccos arcsin arctan arctan2 sinh cosh hypot deg2rad rad2deg
 linalg.eig linalg.eigh linalg.eigvals linalg.eigvalsh linalg.inv linalg.pinv linalg.solve linalg.norm linalg.det
 linalg.svd linalg.lstsq linalg.matrix_power linalg.matrix_rank linalg.cholesky linalg.qr linalg.slogdet'''.split())
# return a view of (or the very object of) one of their arguments
NP_VIEW = set('''asarray asanyarray ascontiguousarray asfortranarray atleast_1d atleast_2d atleast_3d ravel reshape
 squeeze transpose swapaxes moveaxis rollaxis diagonal diag real imag flip fliplr flipud rot90 expand_dims broadcast_to
 broadcast_arrays split array_split hsplit vsplit dsplit nditer ndenumerate require asmatrix mat matrix
 ma.masked_array ma.masked_where ma.array ma.masked_invalid ma.getdata ma.masked_equal ma.asarray
 lib.stride_tricks.as_strided'''.split())
# write into the argument at this position
NP_INPLACE = {'fill_diagonal': 0, 'put': 0, 'place': 0, 'putmask': 0, 'copyto': 0, 'put_along_axis': 0,
              'add.at': 0, 'subtract.at': 0, 'multiply.at': 0, 'maximum.at': 0, 'minimum.at': 0,
              'random.shuffle': 0, 'ndarray.sort': 0}
# position of the positional `out` argument (ufuncs: after the inputs): a positional argument there is written
_UN = 'abs absolute sqrt exp log log2 log10 log1p sign floor ceil square negative reciprocal isnan isinf isfinite logical_not cos sin tanh cbrt arccos arcsin arctan sinh cosh deg2rad rad2deg'
_BIN = 'add subtract multiply divide true_divide floor_divide power mod remainder maximum minimum logical_and logical_or logical_xor equal not_equal less greater less_equal greater_equal arctan2 hypot'
NP_POS_OUT = dict([(u, 1) for u in _UN.split()] + [(b, 2) for b in _BIN.split()] +
                  [('dot', 2), ('outer', 2), ('matmul', 2), ('sum', 3), ('nansum', 3), ('mean', 3), ('nanmean', 3), ('prod', 3), ('std', 3),
                   ('var', 3), ('cumsum', 3), ('cumprod', 3), ('max', 2), ('min', 2), ('amax', 2), ('amin', 2), ('nanmax', 2), ('nanmin', 2),
                   ('any', 2), ('all', 2), ('argmax', 2), ('argmin', 2), ('round', 2), ('round_', 2), ('around', 2), ('clip', 3), ('trace', 5),
                   ('take', 3), ('concatenate', 2), ('stack', 2), ('hstack', 9), ('vstack', 9), ('median', 2), ('percentile', 3),
                   ('einsum', 99), ('tensordot', 99), ('kron', 99)])
# position of a positional `copy` / `overwrite` flag: an argument there (unless literally True for copy) => unknown
NP_POS_COPY = {'nan_to_num': 1, 'array': 2}
METHOD_POS_COPY = {'astype': 4}
METHOD_POS_OUT = {'sum': 2, 'mean': 2, 'prod': 2, 'std': 2, 'var': 2, 'cumsum': 2, 'cumprod': 2, 'max': 1, 'min': 1, 'any': 1, 'all': 1,
                  'argmax': 1, 'argmin': 1, 'round': 1, 'clip': 2, 'dot': 1, 'trace': 4, 'take': 2, 'choose': 1, 'compress': 2, 'ptp': 1}
SCIPY_FRESH_PREFIX = ('scipy.linalg.', 'scipy.stats.', 'scipy.special.', 'scipy.sparse.csgraph.', 'scipy.io.loadmat',
                      'scipy.io.savemat', 'scipy.spatial.', 'scipy.optimize.')
EXT_FRESH = {'os.path.join', 'os.path.dirname', 'os.path.exists', 'os.path.abspath', 'os.path.realpath',
             'multiprocessing.cpu_count', 'logging.getLogger', 'datetime.datetime.utcnow', 'datetime.utcnow',
             'warnings.warn', 'itertools.product', 'itertools.combinations', 'itertools.permutations',
             'math.sqrt', 'math.log', 'math.exp', 'math.floor', 'math.ceil', 'math.factorial', 'copy.deepcopy'}

# optional third-party plotting library (not installed here).  A public function that hands its arguments to it cannot
# be analysed: it gets NO static obligation and is reported as `not_covered_static` (it is still exercised dynamically)
EXT_OPAQUE_PREFIX = ('mayavi.',)

METHOD_FRESH = set('''copy astype sum mean max min any all nonzero flatten tolist dot argsort argmax argmin cumsum cumprod
 round conj conjugate toarray todense item trace std var prod clip repeat take compress choose searchsorted tobytes
 tostring dump dumps count index format join split rsplit strip lstrip rstrip zfill strftime lower upper startswith
 endswith replace encode decode isdisjoint union intersection difference symmetric_difference issubset issuperset
 keys error warning info debug close terminate tocsr tocsc tocoo multiply outer getLogger cite dcite
 ptp nbytes max_ isoformat total_seconds'''.split())
METHOD_VIEW = set('''ravel reshape squeeze transpose view swapaxes diagonal get values items pop popitem filled
 compressed __getitem__ setdefault most_common'''.split())
METHOD_INPLACE = set('''sort fill resize itemset partition put setfield byteswap remove clear reverse write writelines
 __setitem__ __iadd__ __isub__ __imul__ discard'''.split())
METHOD_STORE = {'append', 'extend', 'insert', 'add', 'update', 'appendleft', 'extendleft', 'push'}   # x.m(y): x keeps y
METHOD_FLAGS = {'setflags'}   # changes array flags only (not elements / dtype / shape): outside C13's statement

BUILTIN_FRESH = set('''len range int float str bool abs min max sum round isinstance issubclass type print hasattr any all
 repr id divmod pow ord chr hash callable format bin hex oct complex bytes bytearray open input slice object super
 dir'''.split())
# run arbitrary code on / hand out references to every local name: no rule can bound what they reach
BUILTIN_OPAQUE = {'exec', 'eval', 'compile', 'locals', 'vars', 'globals', '__import__', 'delattr', 'breakpoint', 'memoryview'}
BUILTIN_VIEW = set('''list tuple set frozenset dict sorted enumerate zip map filter reversed iter next getattr'''.split())
VIEW_ATTRS = {'T', 'flat', 'real', 'imag', 'data', 'base', 'mask', 'A', 'A1', 'H', 'mT'}
SCALAR_ATTRS = {'shape', 'size', 'ndim', 'dtype', 'nnz', 'itemsize', 'nbytes', 'flags', 'strides', 'descr', 'name',
                '__name__', 'start', 'stop', 'step'}
SCALAR_DOC = re.compile(r"^\s*(int|float|bool|str|string|number|scalar|enum|hashable|real|\{|'|None or enum|integer)", re.I)
ARRAY_DOC = re.compile(r'array|matrix|vector|list|tuple|\bN\b|NxN|Nx|sequence', re.I)


# ----------------------------------------------------------------------------------------------- package loading

class Mod:
    def __init__(self, name, path, is_pkg, src=None):
        self.name, self.path, self.is_pkg = name, path, is_pkg
        self.tree = ast.parse(open(path).read() if src is None else src, path)
        self.defs, self.stars, self.modalias, self.objalias = {}, [], {}, {}
        pkg = name if is_pkg else name.rsplit('.', 1)[0]
        for st in self.tree.body:
            if isinstance(st, ast.FunctionDef):
                self.defs[st.name] = st
            elif isinstance(st, (ast.Import, ast.ImportFrom)):
                read_import(st, pkg, self.modalias, self.objalias, self.stars)
        self.all = None
        for st in self.tree.body:
            if isinstance(st, ast.Assign) and any(isinstance(t, ast.Name) and t.id == '__all__' for t in st.targets):
                try:
                    self.all = list(ast.literal_eval(st.value))
                except Exception:
                    self.all = None


def read_import(st, pkg, modalias, objalias, stars):
    """record what an import statement binds; pkg = dotted package of the importing module"""
    if isinstance(st, ast.Import):
        for a in st.names:
            if a.asname:
                modalias[a.asname] = a.name
            else:
                modalias[a.name.split('.')[0]] = a.name.split('.')[0]
        return
    base = st.module or ''
    if st.level:
        parts = pkg.split('.')
        parts = parts[:len(parts) - (st.level - 1)]
        base = '.'.join(parts + ([st.module] if st.module else []))
    for a in st.names:
        if a.name == '*':
            stars.append(base)
        else:
            objalias[a.asname or a.name] = (base, a.name)


class Package:
    def __init__(self, repo):
        self.repo = repo
        self.mods = {}
        root = os.path.join(repo, 'bct')
        for dp, dn, fn in os.walk(root):
            dn[:] = [d for d in dn if d != '__pycache__']
            for f in sorted(fn):
                if not f.endswith('.py'):
                    continue
                rel = os.path.relpath(os.path.join(dp, f), repo)[:-3].replace(os.sep, '.')
                is_pkg = rel.endswith('.__init__')
                name = rel[:-9] if is_pkg else rel
                try:
                    self.mods[name] = Mod(name, os.path.join(dp, f), is_pkg)
                except SyntaxError as e:
                    raise SystemExit('cannot parse %s: %s' % (f, e))
        self._exp = {}

    def exports(self, modname, seen=()):
        """name -> (module, funcname) of every *function* visible as attribute of module `modname`"""
        if modname in self._exp:
            return self._exp[modname]
        m = self.mods.get(modname)
        out = {}
        if m is None or modname in seen:
            return out
        for st in m.tree.body:     # in source order, later bindings override
            if isinstance(st, ast.FunctionDef):
                out[st.name] = (modname, st.name)
            elif isinstance(st, ast.ImportFrom):
                tmp_ma, tmp_oa, tmp_st = {}, {}, []
                read_import(st, modname if m.is_pkg else modname.rsplit('.', 1)[0], tmp_ma, tmp_oa, tmp_st)
                for s in tmp_st:
                    sub = self.exports(s, seen + (modname,))
                    sm = self.mods.get(s)
                    for k, v in sub.items():
                        if (sm is not None and sm.all is not None and k not in sm.all) or k.startswith('_'):
                            continue
                        out[k] = v
                for k, (b, n) in tmp_oa.items():
                    tgt = self.resolve_obj(b, n, seen + (modname,))
                    if tgt:
                        out[k] = tgt
        self._exp[modname] = out
        return out

    def resolve_obj(self, base, name, seen=()):
        if base in self.mods:
            return self.exports(base, seen).get(name)
        return None

    def public(self):
        """functions of the `bct` namespace (what `import bct; bct.<name>` reaches), name -> key"""
        return {k: v for k, v in self.exports('bct').items() if not k.startswith('_')}

    def lookup_global(self, modname, name):
        """what a bare global name in module `modname` refers to: ('func', key) | ('mod', dotted) | ('obj', dotted) | None"""
        m = self.mods[modname]
        if name in m.defs:
            return ('func', (modname, name))
        if name in m.objalias:
            b, n = m.objalias[name]
            if b in self.mods or b.startswith('bct'):
                t = self.resolve_obj(b, n)
                if t:
                    return ('func', t)
                if b + '.' + n in self.mods:
                    return ('mod', b + '.' + n)
                return ('obj', b + '.' + n)
            return ('obj', b + '.' + n)
        if name in m.modalias:
            return ('mod', m.modalias[name])
        for s in m.stars:
            t = self.exports(s).get(name)
            if t:
                return ('func', t)
        return None

    def fdef(self, key):
        return self.mods[key[0]].defs[key[1]]


# ----------------------------------------------------------------------------------------------- per-function facts

def doc_types(fd):
    doc = ast.get_docstring(fd) or ''
    m = re.search(r'Parameters\s*\n\s*-+\s*\n(.*?)(\n\s*Returns\s*\n|\n\s*Notes\s*\n|\Z)', doc, re.S)
    found = {}
    for line in (m.group(1) if m else '').split('\n'):
        mm = re.match(r'\s*([A-Za-z_][A-Za-z0-9_, ]*?)\s*:\s*(.+)$', line)
        if mm:
            for nm in mm.group(1).split(','):
                found[nm.strip()] = mm.group(2).strip()
    return found


def all_params(fd):
    a = fd.args
    return [x.arg for x in a.posonlyargs + a.args] + [x.arg for x in a.kwonlyargs]


def scalar_params(fd):
    """parameters documented as immutable Python scalars (int/float/bool/str/enum/hashable) -- plus `seed` and `copy`.
    TRUSTED: the numpydoc type is taken as the function's domain (C13 quantifies over array arguments)."""
    dt = doc_types(fd)
    low = {k.lower(): v for k, v in dt.items()}
    out = set()
    for p in all_params(fd):
        t = dt.get(p, low.get(p.lower()))
        if p in ('seed', 'copy'):
            out.add(p)
        elif t is not None and SCALAR_DOC.match(t) and not ARRAY_DOC.search(t):
            out.add(p)
    return out


def default_of(fd, pname):
    a = fd.args
    pos = a.posonlyargs + a.args
    defaults = [None] * (len(pos) - len(a.defaults)) + list(a.defaults)
    for p, d in zip(pos, defaults):
        if p.arg == pname:
            return d
    for p, d in zip(a.kwonlyargs, a.kw_defaults):
        if p.arg == pname:
            return d
    return None


def local_names(fd):
    """names local to function fd (not descending into nested defs / lambdas / classes)"""
    names, decl = set(all_params(fd)), set()
    if fd.args.vararg:
        names.add(fd.args.vararg.arg)
    if fd.args.kwarg:
        names.add(fd.args.kwarg.arg)

    def walk(n):
        for c in ast.iter_child_nodes(n):
            if isinstance(c, (ast.FunctionDef, ast.AsyncFunctionDef, ast.ClassDef)):
                names.add(c.name)
                continue
            if isinstance(c, ast.Lambda):
                continue
            if isinstance(c, ast.Name) and isinstance(c.ctx, (ast.Store, ast.Del)):
                names.add(c.id)
            elif isinstance(c, (ast.Global, ast.Nonlocal)):
                decl.update(c.names)
            elif isinstance(c, (ast.Import, ast.ImportFrom)):
                for a in c.names:
                    if a.name != '*':
                        names.add((a.asname or a.name).split('.')[0])
            elif isinstance(c, ast.ExceptHandler) and c.name:
                names.add(c.name)
            walk(c)
    walk(fd)
    return names - decl


def own_nodes(fd):
    """all AST nodes of fd's body excluding nested function bodies"""
    stack = list(fd.body)
    while stack:
        n = stack.pop()
        yield n
        for c in ast.iter_child_nodes(n):
            if isinstance(c, (ast.FunctionDef, ast.AsyncFunctionDef, ast.ClassDef, ast.Lambda)):
                yield c
                continue
            stack.append(c)


def has_jump(st):
    """does statement st contain a break/continue that leaves st (i.e. belongs to an enclosing loop)?"""
    if isinstance(st, (ast.Break, ast.Continue)):
        return True
    if isinstance(st, (ast.For, ast.While, ast.FunctionDef, ast.AsyncFunctionDef, ast.ClassDef)):
        # jumps in the body belong to this loop; only the orelse can jump out
        return any(has_jump(s) for s in getattr(st, 'orelse', [])) if not isinstance(st, (ast.FunctionDef, ast.ClassDef)) else False
    for f in ('body', 'orelse', 'finalbody'):
        if any(has_jump(s) for s in getattr(st, f, []) or []):
            return True
    for h in getattr(st, 'handlers', []) or []:
        if any(has_jump(s) for s in h.body):
            return True
    return False


# ----------------------------------------------------------------------------------------------- the walker

RET = '<ret>'
GEN_CTORS = {'RandomState', 'default_rng', 'Generator', 'SeedSequence', 'BitGenerator', 'MT19937', 'PCG64', 'Philox',
             'SFC64', 'Random', 'SystemRandom'}
INDEX_ARRAY_FUNCS = set('''where nonzero flatnonzero argwhere ix_ triu_indices tril_indices diag_indices arange argsort
 unique setdiff1d intersect1d union1d logical_and logical_or logical_not logical_xor isnan isinf isfinite array zeros
 ones lexsort in1d isin'''.split())


class Scope:
    def __init__(self, fd, parent, tag):
        self.fd, self.parent, self.tag = fd, parent, tag
        self.locals = local_names(fd)
        self.nested = {c.name: c for c in own_nodes(fd) if isinstance(c, ast.FunctionDef)}
        self.ret = RET if parent is None else 'ret@%s' % tag
        self.modalias, self.objalias = {}, {}
        self.kind = {}      # pyname -> 'rng' | 'grng' | 'unkgen' | 'scalar'
        self.funcs = {}     # pyname -> list of ('nested', FunctionDef, Scope) | ('top', key)
        self.arrays = set()  # pynames that certainly hold ndarrays (never containers)
        self.index_arrays = set()
        self.recursive = False

    def ir(self, name):
        return name if self.parent is None else '%s@%s' % (name, self.tag)


class Walker:
    """translate one top-level function (one `copy` variant) into an event tree"""

    def __init__(self, pkg, key, variant):
        self.pkg, self.key, self.variant = pkg, key, variant
        self.mod = pkg.mods[key[0]]
        self.fd = pkg.fdef(key)
        self.n = 0
        self.unknowns = []          # (lineno, what)
        self.opaque_ext = []        # (lineno, dotted) calls into EXT_OPAQUE_PREFIX
        self.calls = set()          # bct functions called (key, variantflag)
        self.inline_active = {}     # FunctionDef -> Scope of the instance being inlined
        self.top = Scope(self.fd, None, '')
        ps = all_params(self.fd)
        self.seed = 'seed' if 'seed' in ps else None
        self.seed_tainted = False
        if self.seed:
            for n in ast.walk(self.fd):
                if isinstance(n, ast.Name) and n.id == self.seed and isinstance(n.ctx, (ast.Store, ast.Del)):
                    self.seed_tainted = True
                if isinstance(n, ast.FunctionDef) and n is not self.fd and self.seed in all_params(n):
                    self.seed_tainted = True     # a nested def shadows it: give up on precision
        self.copy_param = 'copy' in ps and not any(
            isinstance(n, ast.Name) and n.id == 'copy' and isinstance(n.ctx, (ast.Store, ast.Del)) for n in ast.walk(self.fd))
        rebound = set()
        for n in ast.walk(self.fd):
            if isinstance(n, ast.AugAssign):
                continue
            for c in ast.iter_child_nodes(n):
                if isinstance(c, ast.Name) and isinstance(c.ctx, ast.Store) and not isinstance(n, ast.AugAssign):
                    rebound.add(c.id)
                elif isinstance(c, (ast.Tuple, ast.List, ast.Starred)) and isinstance(getattr(c, 'ctx', None), ast.Store):
                    rebound.update(x.id for x in ast.walk(c) if isinstance(x, ast.Name))
        for p in scalar_params(self.fd):
            if p not in rebound or p in ('seed', 'copy'):
                self.top.kind[p] = 'scalar'     # documented immutable scalar that is never rebound to something else
        dt = doc_types(self.fd)
        for p in ps:
            if p in dt and re.search(r'ndarray|ndaray|narray|np\.array\b', dt[p]) and 'None' not in dt[p] and '|' not in dt[p]:
                self.top.arrays.add(p)
        self.prepass(self.top)
        self.has_c = set(cn(self.top.ir(p)) for p in ps)
        self.cur = []
        for dec in self.fd.decorator_list:
            # TRUSTED: duecredit's `due.dcite(...)` returns the function unchanged; any other decorator has no rule
            if not ast.unparse(dec).startswith('due.dcite('):
                self.emit(('draw', 'unknown', 'decorator ' + ast.unparse(dec)[:40]))
                self.unknown(dec, [x for p in ps for x in (self.top.ir(p), cn(self.top.ir(p)))], 'decorator ' + ast.unparse(dec)[:40])
        self.block(self.fd.body, self.top)
        self.tree = ('seq', self.cur)
        self.rng_tree = self.tree        # the RNG skeleton expresses recursion by `call <self>`; no merged-frame loop needed
        if self.top.recursive:
            self.tree = ('loop', weaken(self.tree))
        self.tree = share_stores(self.tree)

    # ---- plumbing
    def tmp(self, what='t'):
        self.n += 1
        return '%s#%d' % (what, self.n)

    def emit(self, node):
        self.cur.append(node)

    def sub(self, f):
        save, self.cur = self.cur, []
        try:
            f()
            return self.cur
        finally:
            self.cur = save

    def unknown(self, node, bases, what):
        t = self.tmp('u')
        self.unknowns.append((getattr(node, 'lineno', 0), what))
        self.emit(('unknown', t, uniq(bases), what, getattr(node, 'lineno', 0)))
        return ([t], [t])

    def write(self, bases, node, why):
        for b in uniq(bases):
            self.emit(('write', b, why, getattr(node, 'lineno', 0)))

    # ---- name resolution
    def resolve(self, name, sc):
        s = sc
        while s is not None:
            if name in s.locals:
                return ('local', s)
            s = s.parent
        s = sc
        while s is not None:      # function-level imports
            if name in s.modalias:
                return ('mod', s.modalias[name])
            if name in s.objalias:
                b, n = s.objalias[name]
                t = self.pkg.resolve_obj(b, n) if b in self.pkg.mods else None
                return ('func', t) if t else ('obj', b + '.' + n)
            s = s.parent
        return self.pkg.lookup_global(self.mod.name, name)

    def dotted(self, e, sc):
        """'numpy.random.rand' for an attribute chain rooted at a module / imported object, else None"""
        parts = []
        while isinstance(e, ast.Attribute):
            parts.append(e.attr)
            e = e.value
        if not isinstance(e, ast.Name):
            return None
        r = self.resolve(e.id, sc)
        if r is None or r[0] not in ('mod', 'obj'):
            return None
        # a function-level import makes the name local in Python; we resolved it through modalias first on purpose
        return '.'.join([r[1]] + parts[::-1])

    def kind_of(self, name, sc):
        r = self.resolve(name, sc)
        if r and r[0] == 'local':
            return r[1].kind.get(name)
        return None

    def irname(self, name, sc):
        r = self.resolve(name, sc)
        if r and r[0] == 'local':
            return r[1].ir(name)
        return None

    # ---- pre-pass: generator kinds, function-level imports, array-kind names
    def gen_class(self, v, sc):
        """classify an assigned value as generator: 'rng' | 'grng' | 'unkgen' | None"""
        d = self.dotted(v, sc) if isinstance(v, (ast.Attribute, ast.Name)) else None
        if d in ('numpy.random', 'numpy.random.mtrand._rand', 'numpy.random.mtrand'):
            return 'grng'
        if isinstance(v, ast.Name):
            k = self.kind_of(v.id, sc)
            return k if k in ('rng', 'grng', 'unkgen') else None
        if isinstance(v, ast.Call):
            d = self.dotted(v.func, sc)
            if d and (d.startswith('numpy.random.') or d.startswith('random.')) and d.split('.')[-1] in GEN_CTORS:
                return 'unkgen'
            if isinstance(v.func, ast.Name):
                r = self.resolve(v.func.id, sc)
                if r and r[0] == 'func' and r[1] and r[1][1] == 'get_rng':
                    args = list(v.args) + [k.value for k in v.keywords]
                    if v.keywords and any(k.arg not in ('seed',) for k in v.keywords):
                        return 'unkgen'
                    if not args:
                        return 'grng'
                    a = args[0]
                    if isinstance(a, ast.Constant) and a.value is None:
                        return 'grng'
                    if self.dotted(a, sc) == 'numpy.random':
                        return 'grng'
                    if isinstance(a, ast.Name):
                        if self.is_seed(a, sc):
                            return 'rng'
                        k = self.kind_of(a.id, sc)
                        if k in ('rng', 'grng', 'unkgen'):
                            return k
                    return 'unkgen'
        return None

    def is_seed(self, e, sc):
        if not (isinstance(e, ast.Name) and self.seed and e.id == self.seed and not self.seed_tainted):
            return False
        r = self.resolve(e.id, sc)
        return bool(r and r[0] == 'local' and r[1] is self.top)

    def prepass(self, sc):
        for n in own_nodes(sc.fd):
            if isinstance(n, (ast.Import, ast.ImportFrom)):
                pkgname = self.mod.name if self.mod.is_pkg else self.mod.name.rsplit('.', 1)[0]
                st = []
                read_import(n, pkgname, sc.modalias, sc.objalias, st)
                for a in n.names:       # imported names are resolved through modalias/objalias, not as locals
                    sc.locals.discard((a.asname or a.name).split('.')[0])
        stores = {}
        for n in own_nodes(sc.fd):
            if isinstance(n, ast.Assign):
                for t in n.targets:
                    if isinstance(t, ast.Name):
                        stores.setdefault(t.id, []).append(('v', n.value))
                    else:
                        for x in ast.walk(t):
                            if isinstance(x, ast.Name) and isinstance(x.ctx, ast.Store):
                                stores.setdefault(x.id, []).append(('u', n.value))
            elif isinstance(n, ast.Name) and isinstance(n.ctx, ast.Store):
                stores.setdefault(n.id, [])
            elif isinstance(n, (ast.For, ast.comprehension)):
                for x in ast.walk(n.target):
                    if isinstance(x, ast.Name):
                        stores.setdefault(x.id, []).append(('o', None))
            elif isinstance(n, ast.AugAssign) and isinstance(n.target, ast.Name):
                stores.setdefault(n.target.id, []).append(('a', n.value))
            elif isinstance(n, (ast.With,)):
                for it in n.items:
                    if it.optional_vars is not None:
                        for x in ast.walk(it.optional_vars):
                            if isinstance(x, ast.Name):
                                stores.setdefault(x.id, []).append(('o', None))
        for _ in range(3):
            for name, vs in stores.items():
                if name not in sc.locals or sc.kind.get(name) == 'scalar':
                    continue
                cls = [self.gen_class(v, sc) if k == 'v' else None for k, v in vs]
                if cls and all(c == 'rng' for c in cls):
                    sc.kind[name] = 'rng'
                elif cls and all(c == 'grng' for c in cls):
                    sc.kind[name] = 'grng'
                elif any(c is not None for c in cls):
                    sc.kind[name] = 'unkgen'
        params = set(all_params(sc.fd))
        for _ in range(3):
            for name, vs in stores.items():
                if name in params or not vs:
                    continue
                if all(k in ('v', 'a') and self.arrayish(v, sc) or (k == 'u' and self.tuple_of_arrays(v, sc)) for k, v in vs):
                    sc.arrays.add(name)
                if all((k == 'v' and self.index_array(v, sc)) or (k == 'u' and self.tuple_of_index(v, sc)) for k, v in vs):
                    sc.index_arrays.add(name)

    def np_tail(self, call, sc):
        d = self.dotted(call.func, sc) if isinstance(call, ast.Call) else None
        return d[6:] if d and d.startswith('numpy.') else None

    def arrayish(self, v, sc):
        """value is certainly an ndarray or a scalar (never a list / dict / tuple holding arrays)"""
        if isinstance(v, (ast.BinOp, ast.UnaryOp, ast.Compare)):
            return not (isinstance(v, ast.BinOp) and isinstance(v.op, (ast.Add, ast.Mult)) and
                        any(isinstance(x, (ast.List, ast.Tuple, ast.ListComp)) for x in (v.left, v.right)))
        if isinstance(v, ast.Constant):
            return not isinstance(v.value, (str, bytes)) or True
        if isinstance(v, ast.Call):
            t = self.np_tail(v, sc)
            if t is not None:
                return t not in ('where', 'nonzero', 'meshgrid', 'ix_', 'histogram', 'linalg.eig', 'linalg.eigh', 'unique',
                                 'broadcast_arrays', 'split', 'array_split', 'triu_indices', 'tril_indices', 'diag_indices',
                                 'linalg.svd', 'linalg.qr', 'linalg.lstsq', 'linalg.slogdet', 'unravel_index')
            if isinstance(v.func, ast.Attribute) and v.func.attr in ('copy', 'astype', 'flatten', 'squeeze', 'ravel', 'reshape',
                                                                      'sum', 'mean', 'max', 'min', 'dot', 'transpose', 'toarray'):
                return True
            if isinstance(v.func, ast.Attribute) and isinstance(v.func.value, ast.Name) and \
                    self.kind_of(v.func.value.id, sc) in ('rng', 'grng'):
                return True
            if isinstance(v.func, ast.Name) and v.func.id in ('len', 'int', 'float', 'abs', 'round', 'bool') and \
                    self.resolve(v.func.id, sc) is None:
                return True
            return False
        if isinstance(v, ast.Attribute) and v.attr in ('T', 'real', 'imag', 'shape', 'size', 'ndim'):
            return True
        if isinstance(v, ast.Subscript):
            return isinstance(v.value, ast.Name) and self.is_array_name(v.value.id, sc)
        if isinstance(v, ast.Name):
            return self.is_array_name(v.id, sc)
        return False

    def tuple_of_arrays(self, v, sc):
        t = self.np_tail(v, sc) if isinstance(v, ast.Call) else None
        if t in ('where', 'nonzero', 'unique', 'linalg.eig', 'linalg.eigh', 'meshgrid', 'histogram', 'triu_indices',
                 'tril_indices', 'diag_indices', 'unravel_index', 'linalg.svd', 'linalg.qr'):
            return True
        if isinstance(v, ast.Attribute) and v.attr == 'shape':
            return True
        if isinstance(v, ast.Call) and isinstance(v.func, ast.Attribute) and v.func.attr in ('nonzero',):
            return True
        if isinstance(v, ast.Tuple):
            return all(self.arrayish(e, sc) for e in v.elts)
        return False

    def is_array_name(self, name, sc):
        r = self.resolve(name, sc)
        return bool(r and r[0] == 'local' and name in r[1].arrays)

    def index_array(self, v, sc):
        """value is certainly an index *array* (boolean mask / integer array / tuple of them): indexing with it copies"""
        if isinstance(v, ast.Compare):
            return True
        if isinstance(v, ast.UnaryOp) and isinstance(v.op, (ast.Invert, ast.Not)):
            return self.index_array(v.operand, sc)
        if isinstance(v, ast.BinOp) and isinstance(v.op, (ast.BitAnd, ast.BitOr, ast.BitXor)):
            return self.index_array(v.left, sc) or self.index_array(v.right, sc)
        if isinstance(v, (ast.List, ast.ListComp)):
            return True
        if isinstance(v, ast.Call):
            t = self.np_tail(v, sc)
            if t is not None:
                return t in INDEX_ARRAY_FUNCS
            if isinstance(v.func, ast.Attribute) and isinstance(v.func.value, ast.Name) and \
                    self.kind_of(v.func.value.id, sc) in ('rng', 'grng') and v.func.attr == 'permutation':
                return True
            if isinstance(v.func, ast.Attribute) and v.func.attr in ('astype', 'copy', 'nonzero'):
                return self.index_array(v.func.value, sc)
            return False
        if isinstance(v, ast.Name):
            r = self.resolve(v.id, sc)
            return bool(r and r[0] == 'local' and v.id in r[1].index_arrays)
        if isinstance(v, ast.Subscript):    # a slice / fancy selection of an index array is an index array, an element is not
            return self.index_array(v.value, sc) and (isinstance(v.slice, ast.Slice) or self.index_array(v.slice, sc))
        return False

    def tuple_of_index(self, v, sc):
        t = self.np_tail(v, sc) if isinstance(v, ast.Call) else None
        return t in ('where', 'nonzero', 'triu_indices', 'tril_indices', 'diag_indices')

    def fancy(self, sl, sc):
        """subscript certainly uses advanced indexing (result is a copy)"""
        if isinstance(sl, ast.Tuple):
            return any(self.index_array(e, sc) for e in sl.elts)
        return self.index_array(sl, sc)

    # ---- values: a pair (S, C).  S = names whose *object* the value may be (the array itself or a view of it);
    #      C = names whose *contents* (arrays held by reference inside a list / tuple / dict) the value may hold.
    #      Every Python name x has two IR names, `x` (the object) and `x.c` (what the object contains, transitively).
    #      This keeps `lst.append(row)` (a mutation of the local list object) apart from `lst[0][:] = 0` (a write into
    #      an array the list holds).

    # ---- statements
    def block(self, sts, sc):
        for i, st in enumerate(sts):
            self.stmt(st, sc)
            if has_jump(st) and i + 1 < len(sts):
                rest = self.sub(lambda: self.block(sts[i + 1:], sc))
                self.emit(('branch', ('seq', []), ('seq', rest)))    # a break/continue skips the rest of the body
                return

    def set_name(self, x, S, C, keep=False):
        S, C = uniq(S), uniq(C)
        if S:
            self.emit(('alias', x, S, keep))
        elif not keep:
            self.emit(('fresh', x))
        if C:
            self.has_c.add(cn(x))
            self.emit(('alias', cn(x), C, keep))
        elif not keep and cn(x) in self.has_c:
            self.emit(('fresh', cn(x)))

    def bind(self, target, val, sc, value=None):
        """target = <value val>"""
        S, C = val
        if isinstance(target, ast.Starred):
            target = target.value
        if isinstance(target, ast.Name):
            r = self.resolve(target.id, sc)
            if not (r and r[0] == 'local'):
                # store to a module-level name: afterwards the value is reachable through something the IR does not
                # track, so it must not be (derived from) a caller's array
                if S or C:
                    self.unknown(target, uniq(S + C), 'store to global ' + target.id)
                return
            x = r[1].ir(target.id)
            if value is not None:
                fr = self.func_targets(value, sc)
                if fr:
                    r[1].funcs.setdefault(target.id, [])
                    for t in fr:
                        if t not in r[1].funcs[target.id]:
                            r[1].funcs[target.id].append(t)
            if r[1].kind.get(target.id) == 'scalar':
                self.emit(('fresh', x))
            else:
                self.set_name(x, S, C)
        elif isinstance(target, (ast.Tuple, ast.List)):
            for e in target.elts:
                self.bind(e, (S + C, C), sc)        # an element of the container / a row of the array
        elif isinstance(target, (ast.Subscript, ast.Attribute)):
            if isinstance(target, ast.Subscript):
                self.ev(target.slice, sc)
            tv = self.ev(target.value, sc)
            self.write(tv[0], target, 'store')
            if (S or C) and not self.arrayish(target.value, sc):
                for b in uniq(tv[0]):
                    self.has_c.add(cn(b))
                    self.emit(('alias', cn(b), uniq(S + C), True))      # the container keeps a reference

    def stmt(self, st, sc):
        if isinstance(st, ast.Assign):
            if len(st.targets) == 1 and isinstance(st.targets[0], (ast.Tuple, ast.List)) and \
                    isinstance(st.value, (ast.Tuple, ast.List)) and len(st.targets[0].elts) == len(st.value.elts) and \
                    not any(isinstance(e, ast.Starred) for e in st.targets[0].elts + st.value.elts):
                tmps = []
                for v in st.value.elts:      # all right-hand sides are evaluated before any target is bound
                    S, C = self.ev(v, sc)
                    t = self.tmp()
                    self.set_name(t, S, C)
                    tmps.append((t, S, C, v))
                for tg, (t, S, C, v) in zip(st.targets[0].elts, tmps):
                    self.bind(tg, ([t] if S else [], [cn(t)] if C else []), sc, v)
                return
            g = self.gen_class(st.value, sc)
            if g is not None and all(isinstance(t, ast.Name) for t in st.targets):
                self.gen_assign(st, sc, g)
                return
            val = self.ev(st.value, sc)
            if len(st.targets) > 1 and (val[0] or val[1]):      # a = b = value: both see the same sources
                t = self.tmp()
                self.set_name(t, val[0], val[1])
                val = ([t] if val[0] else [], [cn(t)] if val[1] else [])
            for tg in st.targets:
                self.bind(tg, val, sc, st.value)
        elif isinstance(st, ast.AnnAssign):
            if st.value is not None:
                self.bind(st.target, self.ev(st.value, sc), sc, st.value)
        elif isinstance(st, ast.AugAssign):
            val = self.ev(st.value, sc)
            t = st.target
            if isinstance(t, ast.Name):
                r = self.resolve(t.id, sc)
                if r and r[0] == 'local':
                    x = r[1].ir(t.id)
                    if r[1].kind.get(t.id) == 'scalar':
                        self.emit(('fresh', x))
                    else:
                        self.write([x], st, 'augassign')
                        if (val[0] or val[1]) and not self.is_array_name(t.id, sc):
                            self.has_c.add(cn(x))
                            self.emit(('alias', cn(x), uniq(val[0] + val[1]), True))    # lst += [W]
                else:
                    self.unknown(st, uniq(val[0] + val[1]) + self.all_param_names(), 'augmented assignment to global ' + t.id)
            else:
                if isinstance(t, ast.Subscript):
                    self.ev(t.slice, sc)
                self.write(self.ev(t.value, sc)[0], st, 'augassign-store')
        elif isinstance(st, ast.Expr):
            self.ev(st.value, sc)
        elif isinstance(st, ast.Return):
            if st.value is not None:
                S, C = self.ev(st.value, sc)
                if S or C:
                    self.emit(('alias', sc.ret, uniq(S + C), True))
        elif isinstance(st, ast.If):
            cv = self.copy_test(st.test, sc)
            if cv is not None and self.variant is not None:
                self.block(st.body if cv == self.variant else st.orelse, sc)
                return
            self.ev(st.test, sc)
            a = self.sub(lambda: self.block(st.body, sc))
            b = self.sub(lambda: self.block(st.orelse, sc))
            self.emit(('branch', ('seq', a), ('seq', b)))
        elif isinstance(st, (ast.For, ast.AsyncFor)):
            S, C = self.ev(st.iter, sc)

            def body():
                self.bind(st.target, (S + C, C), sc)
                self.block(st.body, sc)
            self.emit(('loop', ('seq', self.sub(body))))
            self.block(st.orelse, sc)
        elif isinstance(st, ast.While):
            def body():
                self.ev(st.test, sc)
                self.block(st.body, sc)
            self.emit(('loop', ('seq', self.sub(body))))
            self.ev(st.test, sc)
            self.block(st.orelse, sc)
        elif isinstance(st, (ast.With, ast.AsyncWith)):
            for it in st.items:
                v = self.ev(it.context_expr, sc)
                if it.optional_vars is not None:
                    self.bind(it.optional_vars, v, sc)
            self.block(st.body, sc)
        elif isinstance(st, ast.Try) or type(st).__name__ == 'TryStar':
            body = self.sub(lambda: self.block(st.body, sc))
            orelse = self.sub(lambda: self.block(st.orelse, sc))
            hs = []
            for h in st.handlers:
                def hb(h=h):
                    if h.type is not None:
                        self.ev(h.type, sc)
                    if h.name:
                        r = self.resolve(h.name, sc)
                        if r and r[0] == 'local':
                            self.emit(('fresh', r[1].ir(h.name)))
                    self.block(h.body, sc)
                hs.append(('branch', ('seq', []), ('seq', self.sub(hb))))
            # an exception may leave the body after any prefix: every node of the body is optional on that path
            opt = [('branch', ('seq', []), n) for n in body]
            self.emit(('branch', ('seq', body + orelse), ('seq', opt + hs)))
            self.block(st.finalbody, sc)
        elif isinstance(st, ast.Raise):
            if st.exc is not None:
                self.ev(st.exc, sc)
            if st.cause is not None:
                self.ev(st.cause, sc)
        elif isinstance(st, ast.Assert):
            self.ev(st.test, sc)
            if st.msg is not None:
                self.ev(st.msg, sc)
        elif isinstance(st, ast.Delete):
            for t in st.targets:
                for x in (t.elts if isinstance(t, (ast.Tuple, ast.List)) else [t]):
                    if isinstance(x, (ast.Subscript, ast.Attribute)):       # del lst[0] / del obj.attr modify the object
                        if isinstance(x, ast.Subscript):
                            self.ev(x.slice, sc)
                        self.write(self.ev(x.value, sc)[0], st, 'del')
        elif isinstance(st, (ast.Pass, ast.Break, ast.Continue, ast.Global, ast.Nonlocal, ast.Import, ast.ImportFrom,
                             ast.FunctionDef)):
            pass        # nested defs are inlined where they are called; imports were read by the pre-pass
        else:
            # class definitions, match statements, async constructs ...: no rule
            self.emit(('draw', 'unknown', 'statement ' + type(st).__name__))
            self.unknown(st, self.all_param_names(), 'statement ' + type(st).__name__)

    def all_local_names(self, sc):
        out = []
        while sc is not None:
            for n in sorted(sc.locals):
                if sc.kind.get(n) not in ('scalar', 'rng', 'grng', 'unkgen'):
                    out += [sc.ir(n), cn(sc.ir(n))]
            sc = sc.parent
        return out

    def all_param_names(self):
        out = []
        for p in all_params(self.fd):
            if self.top.kind.get(p) != 'scalar':
                out += [self.top.ir(p), cn(self.top.ir(p))]
        return out

    def copy_test(self, test, sc):
        """`if copy:` / `if not copy:` on the function's own (never reassigned) copy parameter -> True / False / None"""
        neg = False
        while isinstance(test, ast.UnaryOp) and isinstance(test.op, ast.Not):
            neg, test = not neg, test.operand
        if self.copy_param and isinstance(test, ast.Name) and test.id == 'copy':
            r = self.resolve('copy', sc)
            if r and r[0] == 'local' and r[1] is self.top:
                return not neg
        return None

    def gen_assign(self, st, sc, g):
        """name = get_rng(..) / np.random / RandomState(..)"""
        v = st.value
        if isinstance(v, ast.Call):
            for a in list(v.args) + [k.value for k in v.keywords]:
                if not self.is_seed(a, sc):
                    self.ev(a, sc)
        if g == 'rng' and isinstance(v, ast.Call):
            self.emit(('bind',))
        for t in st.targets:
            r = self.resolve(t.id, sc)
            if r and r[0] == 'local':
                self.emit(('fresh', r[1].ir(t.id)))
                k = r[1].kind.get(t.id)
                if k not in ('rng', 'grng', 'unkgen'):
                    r[1].kind[t.id] = 'unkgen'

    # ---- expressions: emit the effects, return the value (S, C)
    def func_targets(self, e, sc):
        """if expression e denotes a (nested or bct) function *value*, the candidates"""
        if isinstance(e, ast.Name):
            r = self.resolve(e.id, sc)
            if r and r[0] == 'local':
                if e.id in r[1].nested:
                    return [('nested', r[1].nested[e.id], r[1])]
                return list(r[1].funcs.get(e.id, []))
            if r and r[0] == 'func' and r[1]:
                return [('top', r[1])]
        if isinstance(e, ast.IfExp):
            return self.func_targets(e.body, sc) + self.func_targets(e.orelse, sc)
        return []

    def ev(self, e, sc):
        if e is None:
            return EMPTY
        m = getattr(self, 'ev_' + type(e).__name__, None)
        if m is None:
            self.emit(('draw', 'unknown', 'expression ' + type(e).__name__))
            return self.unknown(e, self.all_param_names(), 'expression ' + type(e).__name__)
        return m(e, sc)

    def ev_Constant(self, e, sc):
        return EMPTY

    def ev_JoinedStr(self, e, sc):
        for v in e.values:
            self.ev(v, sc)
        return EMPTY

    def ev_FormattedValue(self, e, sc):
        self.ev(e.value, sc)
        return EMPTY

    def ev_Name(self, e, sc):
        r = self.resolve(e.id, sc)
        if r is None:
            return EMPTY                # builtins, module-level constants
        if r[0] == 'local':
            s = r[1]
            if e.id in s.nested or s.funcs.get(e.id):
                return self.funcref(e, sc)
            if s.kind.get(e.id) in ('scalar', 'rng', 'grng', 'unkgen'):
                return EMPTY
            x = s.ir(e.id)
            return ([x], [cn(x)])
        if r[0] == 'func':
            return self.funcref(e, sc)
        d = r[1]
        if d in ('numpy.random', 'random') or d.startswith('numpy.random.') or d.startswith('random.'):
            self.emit(('draw', 'unknown', 'reference to ' + d))
        return EMPTY

    def funcref(self, e, sc):
        """a function used as a value where no rule tracks it (callback handed to something else): its body may run
        any number of times, with parameters that may reach any of the caller's arrays"""
        allp = self.all_param_names()
        for t in self.func_targets(e, sc):
            if t[0] == 'top':
                info = FN.get(t[1])
                if t[1][1] in HAND_MODELLED:
                    continue
                n = 2 * len(info.aparams) if info else 0
                self.calls.add((t[1], None))
                for v in ([True, False] if info and info.has_copy else [None]):
                    self.calls.add((t[1], v))
                    self.emit(('call', t[1], v, 'other', self.tmp(), [allp] * n, getattr(e, 'lineno', 0)))
            else:
                _, fdn, defsc = t
                if fdn in self.inline_active:
                    continue
                body = self.sub(lambda: self.inline(fdn, defsc, None, sc, allp))
                self.emit(('loop', ('seq', body)))
        return EMPTY

    def ev_Attribute(self, e, sc):
        d = self.dotted(e, sc)
        if d is not None:
            if d in ('numpy.random', 'random') or d.startswith('numpy.random.') or d.startswith('random.'):
                self.emit(('draw', 'unknown', 'reference to ' + d))
            return EMPTY
        v = self.ev(e.value, sc)
        if e.attr in SCALAR_ATTRS:
            return EMPTY
        return v            # .T, .flat, ... and every unknown attribute: may be a view

    def ev_Subscript(self, e, sc):
        self.ev(e.slice, sc)
        S, C = self.ev(e.value, sc)
        if self.fancy(e.slice, sc):
            return EMPTY    # advanced indexing copies
        return (uniq(S + C), C)     # basic slicing: a view of the array / an element of the container

    def ev_Slice(self, e, sc):
        for x in (e.lower, e.upper, e.step):
            self.ev(x, sc)
        return EMPTY

    def ev_Starred(self, e, sc):
        return self.ev(e.value, sc)

    def ev_BinOp(self, e, sc):
        a, b = self.ev(e.left, sc), self.ev(e.right, sc)
        if isinstance(e.op, (ast.Add, ast.Mult)) and any(isinstance(x, (ast.List, ast.Tuple, ast.ListComp)) for x in (e.left, e.right)):
            return ([], uniq(a[0] + a[1] + b[0] + b[1]))    # list concatenation / repetition keeps the element references
        return EMPTY        # arithmetic on arrays / scalars gives a fresh value

    def ev_UnaryOp(self, e, sc):
        self.ev(e.operand, sc)
        return EMPTY

    def ev_Compare(self, e, sc):
        self.ev(e.left, sc)
        for c in e.comparators:
            self.ev(c, sc)
        return EMPTY

    def ev_BoolOp(self, e, sc):
        return join([self.ev(v, sc) for v in e.values])         # `a or b` returns one of its operands

    def ev_IfExp(self, e, sc):
        self.ev(e.test, sc)
        out = []
        ta = self.sub(lambda: out.append(self.ev(e.body, sc)))
        tb = self.sub(lambda: out.append(self.ev(e.orelse, sc)))
        if ta or tb:
            self.emit(('branch', ('seq', ta), ('seq', tb)))
        return join(out)

    def ev_Tuple(self, e, sc):
        return container([self.ev(x, sc) for x in e.elts])

    ev_List = ev_Tuple
    ev_Set = ev_Tuple

    def ev_Dict(self, e, sc):
        for k in e.keys:
            self.ev(k, sc)
        return container([self.ev(v, sc) for v in e.values])

    def ev_NamedExpr(self, e, sc):
        v = self.ev(e.value, sc)
        self.bind(e.target, v, sc, e.value)
        return v

    def ev_Lambda(self, e, sc):
        # the body may run any number of times later; its parameters are not locals of ours (resolve() finds nothing
        # or an outer name of the same spelling -- the latter only adds effects)
        b = self.sub(lambda: self.ev(e.body, sc))
        if b:
            self.emit(('loop', ('seq', b)))
        return EMPTY

    def comp(self, e, elts, sc):
        out = []

        def gen(i):
            if i == len(e.generators):
                for x in elts:
                    out.append(self.ev(x, sc))
                return
            g = e.generators[i]
            S, C = self.ev(g.iter, sc)

            def body():
                self.bind(g.target, (S + C, C), sc)
                for c in g.ifs:
                    self.ev(c, sc)
                gen(i + 1)
            self.emit(('loop', ('seq', self.sub(body))))
        gen(0)
        return container(out)

    def ev_ListComp(self, e, sc):
        return self.comp(e, [e.elt], sc)

    ev_SetComp = ev_ListComp
    ev_GeneratorExp = ev_ListComp

    def ev_DictComp(self, e, sc):
        return self.comp(e, [e.key, e.value], sc)

    # ---- calls
    def args_of(self, node, sc):
        """evaluate positional and keyword arguments in order -> ([value per positional], {kw: value}, star?)"""
        A, K, star = [], {}, False
        for a in node.args:
            if isinstance(a, ast.Starred):
                star = True
            A.append(self.ev(a, sc))
        for k in node.keywords:
            if k.arg is None:
                star = True
                K['**'] = self.ev(k.value, sc)
            else:
                K[k.arg] = self.ev(k.value, sc)
        return A, K, star

    def ev_Call(self, e, sc):
        f = e.func
        d = self.dotted(f, sc)
        if d is not None:
            return self.call_ext(d, e, sc)
        if isinstance(f, ast.Name):
            r = self.resolve(f.id, sc)
            if r is None:
                return self.call_builtin(f.id, e, sc)
            if r[0] == 'local':
                cands = self.func_targets(f, sc)
                if cands:
                    return self.call_candidates(cands, e, sc)
                A, K, _ = self.args_of(e, sc)
                self.emit(('draw', 'unknown', 'call of local callable ' + f.id))
                return self.unknown(e, flat(A + list(K.values())), 'call of local callable ' + f.id)
            if r[0] == 'func':
                if r[1][1] == 'get_rng':
                    g = self.gen_class(e, sc)
                    for a in list(e.args) + [k.value for k in e.keywords]:
                        if not self.is_seed(a, sc):
                            self.ev(a, sc)
                    if g == 'rng':
                        self.emit(('bind',))
                    return EMPTY    # used anonymously (get_rng(seed).rand()): the draw is classified by call_method
                return self.call_bct(r[1], e, sc)
        if isinstance(f, ast.Attribute):
            return self.call_method(e, sc)
        fv = self.ev(f, sc)
        A, K, _ = self.args_of(e, sc)
        self.emit(('draw', 'unknown', 'call of computed callable'))
        return self.unknown(e, flat([fv] + A + list(K.values())), 'call of computed callable')

    def call_candidates(self, cands, e, sc):
        out, alts = [], []
        for c in cands:
            if c[0] == 'top':
                alts.append(self.sub(lambda c=c: out.append(self.call_bct(c[1], e, sc))))
            else:
                alts.append(self.sub(lambda c=c: out.append(self.inline(c[1], c[2], e, sc))))
        node = ('seq', alts[-1])
        for a in alts[-2::-1]:
            node = ('branch', ('seq', a), node)
        self.emit(node)
        return join(out)

    def call_builtin(self, name, e, sc):
        A, K, _ = self.args_of(e, sc)
        vals = A + list(K.values())
        if name in BUILTIN_OPAQUE:
            self.emit(('draw', 'unknown', 'builtin ' + name))
            return self.unknown(e, flat(vals) + self.all_param_names() + self.all_local_names(sc), 'builtin %s()' % name)
        if name in BUILTIN_FRESH or name.endswith('Error') or name.endswith('Exception') or name.endswith('Warning') or \
                name in ('KeyboardInterrupt', 'StopIteration', 'SystemExit') or \
                any(isinstance(s, ast.ClassDef) and s.name == name for s in self.mod.tree.body):
            return EMPTY
        if name in BUILTIN_VIEW:
            if name in ('map', 'filter') and e.args:
                self.funcref(e.args[0], sc)
            if name in ('next', 'getattr'):
                return viewval(vals)
            return container(vals)          # a new container holding the same elements (rows of an array are views)
        if name == 'setattr':
            self.write(A[0][0] if A else [], e, 'setattr')
            return EMPTY
        return self.unknown(e, flat(vals), 'call of unknown global ' + name)

    def risky_kw(self, e, view_ok=False):
        """keywords that turn a read-only operation into an in-place / aliasing one: copy= (unless literally True),
        inplace= / overwrite_*= (unless literally False), order-changing `subok` is harmless"""
        for k in e.keywords:
            a = k.arg or ''
            lit = k.value.value if isinstance(k.value, ast.Constant) else '?'
            if a == 'copy' and lit is not True and not view_ok:
                return 'copy=' + ast.unparse(k.value)
            if (a in ('inplace', 'in_place') or a.startswith('overwrite')) and lit is not False:
                return a + '=' + ast.unparse(k.value)
        return None

    def call_ext(self, d, e, sc):
        A, K, star = self.args_of(e, sc)
        vals = A + list(K.values())
        tail = d.split('.')[-1]
        if 'out' in K:
            self.write(uniq(K['out'][0] + K['out'][1]), e, 'out=')
        is_rand = d.startswith('numpy.random.') or d.startswith('random.') or d in ENTROPY_FUNCS or tail == 'rvs'
        is_bct = d.startswith('bct.') or d.split('.')[0] == 'bct'
        if star and not is_bct:
            # arguments cannot be matched to positions (np.fill_diagonal(*args)): may write / alias any of them
            if is_rand:
                self.emit(('draw', 'globalRng' if d.startswith('numpy.') else ('pyRandom' if d.startswith('random.') else 'unknown'), d))
            return self.unknown(e, flat(vals), 'call of %s with */** arguments' % d)
        rk = self.risky_kw(e, view_ok=d in ('numpy.array', 'numpy.asarray', 'numpy.asanyarray'))
        if rk and not is_bct and not is_rand:
            return self.unknown(e, flat(vals), 'call of %s with %s' % (d, rk))
        if d.startswith('bct.') or d.split('.')[0] == 'bct':
            modn, fn = d.rsplit('.', 1)
            t = self.pkg.exports(modn).get(fn) if modn in self.pkg.mods else None
            if t:
                return self.call_bct(t, e, sc, pre=(A, K, star))
            if any(isinstance(st, ast.ClassDef) and st.name == fn for m in self.pkg.mods.values() for st in m.tree.body):
                return EMPTY    # BCTParamError(...) and the like
            return self.unknown(e, flat(vals), 'call of ' + d)
        if d.startswith('numpy.random.') or d.startswith('random.'):
            if tail in GEN_CTORS:
                if d.startswith('random.'):
                    self.emit(('draw', 'unknown', d))
                return EMPTY
            self.emit(('draw', 'globalRng' if d.startswith('numpy.') else 'pyRandom', d))
            if tail == 'shuffle' and A:
                self.write(A[0][0], e, d)
            return EMPTY
        if d in ENTROPY_FUNCS:
            self.emit(('draw', 'unknown', d))
            return EMPTY
        if tail == 'rvs':
            self.emit(('draw', 'globalRng', d))
            return EMPTY
        if d.startswith('numpy.'):
            x = d[6:]
            if x in NP_INPLACE:
                i = NP_INPLACE[x]
                tgt = A[i] if i < len(A) else K.get('a', K.get('arr', K.get('dst', (flat(vals), []))))
                self.write(tgt[0], e, 'np.' + x)
                return EMPTY
            if x in NP_POS_COPY and len(e.args) > NP_POS_COPY[x]:
                pc = e.args[NP_POS_COPY[x]]
                if not (isinstance(pc, ast.Constant) and pc.value is True):
                    return self.unknown(e, flat(vals), 'np.%s with positional copy=%s' % (x, ast.unparse(pc)))
            if x == 'array':
                cp = next((k.value for k in e.keywords if k.arg == 'copy'), None)
                if cp is not None and not (isinstance(cp, ast.Constant) and cp.value is True):
                    return viewval(vals)
                return EMPTY
            if x in NP_FRESH:
                if x in NP_POS_OUT and len(A) > NP_POS_OUT[x]:
                    for a in A[NP_POS_OUT[x]:]:
                        self.write(uniq(a[0] + a[1]), e, 'positional out of np.' + x)
                return EMPTY
            if x in NP_VIEW:
                return viewval(vals)
            return self.unknown(e, flat(vals), 'np.' + x)
        if d.startswith('scipy.sparse.') and not d.startswith('scipy.sparse.csgraph.') and not d.startswith('scipy.sparse.linalg.'):
            return viewval(vals)        # sparse constructors may share the data arrays
        if any(d.startswith(p) for p in SCIPY_FRESH_PREFIX):
            if any((k.arg or '').startswith('overwrite') for k in e.keywords):
                return self.unknown(e, flat(vals), d + ' with overwrite_*')
            if d.startswith('scipy.linalg.') and (len(e.args) > 2 or any(isinstance(x, ast.Constant) and isinstance(x.value, bool) for x in e.args)):
                return self.unknown(e, flat(vals), d + ' with positional flags (overwrite_a ... may be among them)')
            return EMPTY
        if d in EXT_FRESH:
            return EMPTY
        if any(d.startswith(p) for p in EXT_OPAQUE_PREFIX):
            self.opaque_ext.append((getattr(e, 'lineno', 0), d))
        return self.unknown(e, flat(vals), 'call of ' + d)

    def call_method(self, e, sc):
        f = e.func
        m = f.attr
        recv = f.value
        gk = None
        if isinstance(recv, ast.Name):
            gk = self.kind_of(recv.id, sc)
        elif isinstance(recv, ast.Call):
            gk = self.gen_class(recv, sc)        # get_rng(seed).rand(), np.random.RandomState(3).rand()
        if gk in ('rng', 'grng', 'unkgen'):
            if isinstance(recv, ast.Call):
                self.ev(recv, sc)
            A, K, _ = self.args_of(e, sc)
            self.emit(('draw', {'rng': 'localRng', 'grng': 'globalRng', 'unkgen': 'unknown'}[gk], m))
            if m == 'shuffle' and A:
                self.write(A[0][0], e, 'rng.shuffle')
            if 'out' in K:
                self.write(uniq(K['out'][0] + K['out'][1]), e, 'out=')
            return EMPTY
        rv = self.ev(recv, sc)
        A, K, star = self.args_of(e, sc)
        vals = A + list(K.values())
        if 'out' in K:
            self.write(uniq(K['out'][0] + K['out'][1]), e, 'out=')
        rk = self.risky_kw(e, view_ok=(m == 'astype'))
        if (star and m not in METHOD_STORE and m not in METHOD_INPLACE) or rk:
            if m in DRAW_METHODS:
                self.emit(('draw', 'unknown', 'method .%s on an object that is not a known generator' % m))
            return self.unknown(e, flat([rv] + vals), 'method .%s with %s' % (m, rk or '*/** arguments'))
        if m in DRAW_METHODS:
            self.emit(('draw', 'unknown', 'method .%s on an object that is not a known generator' % m))
            if m == 'shuffle' and A:
                self.write(A[0][0], e, '.shuffle')
            return EMPTY
        if m in METHOD_FLAGS:
            return EMPTY
        if m in METHOD_POS_COPY and len(e.args) > METHOD_POS_COPY[m]:
            return self.unknown(e, flat([rv] + vals), 'method .%s with positional copy flag' % m)
        if m == 'astype':
            cp = next((k.value for k in e.keywords if k.arg == 'copy'), None)
            if cp is not None and not (isinstance(cp, ast.Constant) and cp.value is True):
                return rv
            return EMPTY
        if m in METHOD_FRESH:
            if m in METHOD_POS_OUT and len(A) > METHOD_POS_OUT[m]:
                for a in A[METHOD_POS_OUT[m]:]:
                    self.write(uniq(a[0] + a[1]), e, 'positional out of .%s()' % m)
            return EMPTY
        if m in METHOD_VIEW:
            return viewval([rv] + vals)
        if m in METHOD_INPLACE:
            self.write(rv[0], e, '.%s()' % m)
            return EMPTY
        if m in METHOD_STORE:
            self.write(rv[0], e, '.%s()' % m)       # the container object itself is modified ...
            if flat(vals):
                for b in uniq(rv[0]):
                    self.has_c.add(cn(b))
                    self.emit(('alias', cn(b), flat(vals), True))   # ... and now holds the arguments
            return EMPTY
        if m == 'map' and e.args:          # pool.map(f, xs) and the like
            self.funcref(e.args[0], sc)
        return self.unknown(e, flat([rv] + vals), 'method .%s' % m)

    def call_bct(self, key2, e, sc, pre=None):
        info = FN.get(key2)
        A, K, star = pre if pre is not None else self.args_of(e, sc)
        vals = A + list(K.values())
        if info is None:
            self.emit(('draw', 'unknown', 'call of %s: unknown signature' % key2[1]))
            return self.unknown(e, flat(vals), 'call of %s: unknown signature' % key2[1])
        ps = info.params
        extra = len(e.args) > len(ps) or any(k.arg not in ps for k in e.keywords)
        if star or extra:
            # arguments cannot be matched to parameters: for the RNG skeleton the seed argument is `other`
            # (unless the callee takes none), for the alias IR the call is an unknown operation on all arguments
            self.calls.add((key2, None))
            self.emit(('call', key2, None, 'other' if info.has_seed else 'absent', None, [], getattr(e, 'lineno', 0), 'rng-only'))
            return self.unknown(e, flat(vals), 'call of %s with */** or surplus arguments' % key2[1])

        def arg_expr(p):
            i = ps.index(p)
            if i < len(e.args):
                return e.args[i]
            for k in e.keywords:
                if k.arg == p:
                    return k.value
            return None

        def arg_val(p):
            i = ps.index(p)
            if i < len(A):
                return A[i]
            return K.get(p, EMPTY)
        # seed argument
        seedarg = 'absent'
        if info.has_seed:
            a = arg_expr('seed')
            if a is None:
                seedarg = 'absent'
            elif isinstance(a, ast.Constant) and a.value is None:
                seedarg = 'noneLit'
            elif self.is_seed(a, sc):
                seedarg = 'seedParam'
            elif isinstance(a, ast.Name) and self.kind_of(a.id, sc) == 'rng':
                seedarg = 'rngObj'
            elif isinstance(a, ast.Name) and self.kind_of(a.id, sc) == 'grng':
                seedarg = 'noneLit'
            else:
                seedarg = 'other'
        # copy argument -> variant(s) of the callee
        variants = [None]
        if info.has_copy:
            a = arg_expr('copy')
            if a is None:
                dv = default_of(self.pkg.fdef(key2), 'copy')
                variants = [bool(dv.value)] if isinstance(dv, ast.Constant) else [True, False]
            elif isinstance(a, ast.Constant) and isinstance(a.value, (bool, int)):
                variants = [bool(a.value)]
            elif self.copy_test(a, sc) is not None and self.variant is not None:
                variants = [self.copy_test(a, sc) == self.variant]
            else:
                variants = [True, False]
        args = []
        for p in info.aparams:
            S, C = arg_val(p)
            args += [uniq(S), uniq(C)]
        if key2 == self.key:
            # direct recursion of the function being translated: re-enter the same frame (see `weaken`)
            self.top.recursive = True
            self.calls.add((key2, self.variant if info.has_copy else None))
            self.emit(('call', key2, None, seedarg, None, [], getattr(e, 'lineno', 0), 'rng-only'))
            for i, p in enumerate(info.aparams):
                self.set_name(self.top.ir(p), args[2 * i], args[2 * i + 1], keep=True)
            return ([RET], [RET])
        t = self.tmp('r')
        nodes = []
        for v in variants:
            self.calls.add((key2, v))
            nodes.append(('call', key2, v, seedarg, t, args, getattr(e, 'lineno', 0)))
        node = nodes[-1]
        for n in nodes[-2::-1]:
            node = ('branch', n, node)
        self.emit(node)
        return ([t], [t])

    def inline(self, fdn, defsc, e, sc, anyparam=None):
        """inline a nested def at its call site (e = the Call node; e None: parameters may reach `anyparam`)"""
        if fdn in self.inline_active:               # recursion: re-enter the active instance
            act = self.inline_active[fdn]
            act.recursive = True
            if e is not None:
                A, K, _ = self.args_of(e, sc)
                ps = all_params(fdn)
                for i, p in enumerate(ps):
                    S, C = A[i] if i < len(A) else K.get(p, EMPTY)
                    if (S or C) and act.kind.get(p) != 'scalar':
                        self.set_name(act.ir(p), S, C, keep=True)
            return ([act.ret], [act.ret])
        self.n += 1
        ns = Scope(fdn, defsc, '%s%d' % (fdn.name, self.n))
        ps = all_params(fdn)
        if e is not None:
            A, K, star = self.args_of(e, sc)
            for i, p in enumerate(ps):
                ae = e.args[i] if i < len(e.args) else next((k.value for k in e.keywords if k.arg == p), None)
                S, C = A[i] if i < len(A) else K.get(p, EMPTY)
                if ae is None:
                    dv = default_of(fdn, p)
                    S, C = self.ev(dv, defsc) if dv is not None else EMPTY
                else:
                    ft = self.func_targets(ae, sc)
                    if ft:
                        ns.funcs[p] = ft
                    if isinstance(ae, ast.Name) and self.kind_of(ae.id, sc) in ('rng', 'grng', 'unkgen', 'scalar'):
                        ns.kind[p] = self.kind_of(ae.id, sc)
                    if isinstance(ae, ast.Name) and self.is_array_name(ae.id, sc):
                        ns.arrays.add(p)
                self.set_name(ns.ir(p), S, C)
            if star:
                self.unknown(e, flat(A + list(K.values())), 'nested call with */** arguments')
        else:
            for p in ps:
                self.set_name(ns.ir(p), list(anyparam or []), list(anyparam or []))
        self.prepass(ns)
        self.inline_active[fdn] = ns
        try:
            body = self.sub(lambda: self.block(fdn.body, ns))
        finally:
            del self.inline_active[fdn]
        self.emit(('loop', weaken(('seq', body))) if ns.recursive else ('seq', body))
        return ([ns.ret], [ns.ret])


EMPTY = ([], [])


def cn(x):
    """IR name of the contents of x"""
    return x if x.endswith('.c') else x + '.c'


def join(vals):
    return (uniq(sum((v[0] for v in vals), [])), uniq(sum((v[1] for v in vals), [])))


def flat(vals):
    return uniq(sum((list(v[0]) + list(v[1]) for v in vals), []))


def container(vals):
    """a new list / tuple / dict holding these values"""
    return ([], flat(vals))


def viewval(vals):
    """a view of (or an element of) one of these values"""
    return (flat(vals), uniq(sum((v[1] for v in vals), [])))


def share_stores(tree):
    """Two names may be bound to the same mutable container (`b = a`): a store through one (`b[0] = W`, IR
    `alias b.c [W ..] keep`) must be visible through the other.  Alias classes are computed flow-insensitively over the
    whole function (union of x with every source of every `alias x ys _`); every accumulating store into a contents name
    is replicated for all contents names of its class."""
    parent = {}

    def find(x):
        while parent.setdefault(x, x) != x:
            parent[x] = parent[parent[x]]
            x = parent[x]
        return x

    def collect(n):
        k = n[0]
        if k == 'seq':
            for c in n[1]:
                collect(c)
        elif k == 'branch':
            collect(n[1]); collect(n[2])
        elif k == 'loop':
            collect(n[1])
        elif k == 'alias' and not n[3]:
            for y in n[2]:
                parent[find(n[1])] = find(y)
    collect(tree)
    classes = {}
    for x in list(parent):
        classes.setdefault(find(x), []).append(x)

    def rewrite(n):
        k = n[0]
        if k == 'seq':
            return ('seq', [rewrite(c) for c in n[1]])
        if k == 'branch':
            return ('branch', rewrite(n[1]), rewrite(n[2]))
        if k == 'loop':
            return ('loop', rewrite(n[1]))
        if k == 'alias' and n[3] and n[1].endswith('.c') and n[1] in parent:
            others = [z for z in classes[find(n[1])] if z != n[1] and z.endswith('.c')]
            if others:
                return ('seq', [n] + [('alias', z, n[2], True) for z in others])
        return n
    return rewrite(tree)


def weaken(node):
    """A recursive function is modelled by re-entering one merged frame (its body under a `loop`, parameters
    additionally bound to the arguments of the recursive call).  Merging frames is sound only if no binding is
    *strong*: an inner activation's `x = fresh` must not hide that the outer activation's `x` still reaches a
    caller's array.  So inside a recursive body every rebinding becomes a weak update."""
    k = node[0]
    if k == 'seq':
        return ('seq', [weaken(c) for c in node[1]])
    if k == 'branch':
        return ('branch', weaken(node[1]), weaken(node[2]))
    if k == 'loop':
        return ('loop', weaken(node[1]))
    if k == 'fresh':
        return ('seq', [])
    if k == 'alias':
        return ('alias', node[1], node[2], True)
    return node


def uniq(xs):
    out = []
    for x in xs:
        if x not in out:
            out.append(x)
    return out


class FnInfo:
    def __init__(self, pkg, key):
        fd = pkg.fdef(key)
        self.key = key
        self.params = all_params(fd)
        self.scalars = scalar_params(fd)
        self.aparams = [p for p in self.params if p not in self.scalars]     # array-capable parameters, in order
        self.has_seed = 'seed' in self.params
        self.has_copy = 'copy' in self.params
        self.varargs = bool(fd.args.vararg or fd.args.kwarg)
        self.lineno = fd.lineno


FN = {}


# ----------------------------------------------------------------------------------------------- projections

def simp(node):
    """flatten nested seq, drop empty structure"""
    k = node[0]
    if k == 'seq':
        out = []
        for c in node[1]:
            c = simp(c)
            if c[0] == 'seq':
                out.extend(c[1])
            else:
                out.append(c)
        return ('seq', out)
    if k == 'branch':
        a, b = simp(node[1]), simp(node[2])
        if a == ('seq', []) and b == ('seq', []):
            return ('seq', [])
        if a == b:
            return a
        return ('branch', a, b)
    if k == 'loop':
        b = simp(node[1])
        if b == ('seq', []):
            return ('seq', [])
        return ('loop', b)
    return node


def proj_rng(node, names):
    k = node[0]
    if k == 'seq':
        return ('seq', [proj_rng(c, names) for c in node[1]])
    if k == 'branch':
        return ('branch', proj_rng(node[1], names), proj_rng(node[2], names))
    if k == 'loop':
        return ('loop', proj_rng(node[1], names))
    if k == 'bind':
        return ('bindRng',)
    if k == 'draw':
        return ('draw', node[1])
    if k == 'call':
        return ('call', names[node[1]], node[3])
    return ('seq', [])


def proj_alias(node, ids):
    k = node[0]
    if k == 'seq':
        return ('seq', [proj_alias(c, ids) for c in node[1]])
    if k == 'branch':
        return ('branch', proj_alias(node[1], ids), proj_alias(node[2], ids))
    if k == 'loop':
        return ('loop', proj_alias(node[1], ids))
    if k == 'fresh':
        return ('fresh', node[1])
    if k == 'alias':
        return ('alias', node[1], list(node[2]), node[3])
    if k == 'unknown':
        return ('unknown', node[1], list(node[2]), node[3], node[4])
    if k == 'write':
        return node
    if k == 'call':
        if len(node) > 7:
            return ('seq', [])      # recursion marker for the RNG skeleton only
        return ('call', node[4], ids[(node[1], node[2])], [list(a) for a in node[5]], node[6])
    return ('seq', [])


def drop_dead_fresh(node):
    """`fresh t` / `alias t [] _` of names never read again could be dropped; we keep them (they are cheap)"""
    return node


# ---- reference implementation of the two Lean checkers (diagnostics only; the verdict is Lean's)

def rng_ok(node, seedful, table):
    """-> list of reasons why the skeleton is not disciplined"""
    k = node[0]
    if k == 'seq':
        return sum((rng_ok(c, seedful, table) for c in node[1]), [])
    if k == 'branch':
        return rng_ok(node[1], seedful, table) + rng_ok(node[2], seedful, table)
    if k == 'loop':
        return rng_ok(node[1], seedful, table)
    if k == 'bindRng':
        return [] if seedful else ['get_rng(seed) in a function without seed parameter']
    if k == 'draw':
        return [] if (seedful and node[1] == 'localRng') else ['draw from %s' % node[1]]
    if k == 'call':
        d = table.get(node[1])
        if d is None:
            return ['call of %s (not in table)' % node[1]]
        if d[0]:
            return [] if (seedful and node[2] in ('rngObj', 'seedParam')) else ['call of %s with seed argument %s' % (node[1], node[2])]
        return [] if node[2] == 'absent' else ['call of seedless %s with %s' % (node[1], node[2])]
    return []


class FlowFail(Exception):
    pass


_RANK = {'fresh': 0, 'used': 1, 'done': 2}


def rng_flow(node, q, table):
    """mirror of RngIR.flow (restart safety): with an int seed every get_rng(seed) -- the function's own and the one in a
    callee that is handed `seed=seed` -- makes a new generator at position 0, with a RandomState they are one object"""
    k = node[0]
    j = lambda a, b: a if _RANK[a] >= _RANK[b] else b
    if k == 'bindRng':
        if q != 'fresh':
            raise FlowFail('get_rng(seed) after the seeded stream was already consumed (int seed restarts, RandomState continues)')
        return 'fresh'
    if k == 'draw':
        if q == 'done':
            raise FlowFail('draw after the seed parameter was forwarded to a callee')
        return 'used'
    if k == 'call':
        d = table.get(node[1])
        if d is None:
            raise FlowFail('call of %s (not in table)' % node[1])
        if not d[0]:
            return q
        if node[2] == 'seedParam':
            if q != 'fresh':
                raise FlowFail('seed parameter forwarded to %s after the seeded stream was consumed / forwarded before '
                               '(an int seed restarts the stream in the callee, a RandomState continues it)' % node[1])
            return 'done'
        if q == 'done':
            raise FlowFail('call of %s after the seed parameter was forwarded' % node[1])
        return 'used'
    if k == 'seq':
        for c in node[1]:
            q = rng_flow(c, q, table)
        return q
    if k == 'branch':
        return j(rng_flow(node[1], q, table), rng_flow(node[2], q, table))
    if k == 'loop':
        q1 = rng_flow(node[1], q, table)
        i1 = j(q, q1)
        i2 = j(i1, rng_flow(node[1], i1, table))
        q3 = rng_flow(node[1], i2, table)
        if _RANK[q3] > _RANK[i2]:
            raise FlowFail('loop not stable')
        return i2
    return q


def rng_fails(skel, has_seed, table):
    out = uniq(rng_ok(skel, has_seed, table))
    if has_seed:
        try:
            rng_flow(skel, 'fresh', table)
        except FlowFail as ex:
            out.append(str(ex))
    return out


class AliasFail(Exception):
    pass


def alias_analyze(node, T, table, depth=0):
    """mirror of AliasIR.analyze; T: set of names; raises AliasFail(reason)"""
    k = node[0]
    if k == 'fresh':
        return T - {node[1]}
    if k == 'alias':
        if any(y in T for y in node[2]):
            return T | {node[1]}
        return T if node[3] else T - {node[1]}
    if k == 'unknown':
        if any(y in T for y in node[2]):
            raise AliasFail('line %s: no rule for %s applied to a caller-owned array (%s)' % (node[4], node[3], ','.join(y for y in node[2] if y in T)))
        return T - {node[1]}
    if k == 'write':
        if node[1] in T:
            raise AliasFail('line %s: in-place write (%s) through %s which may be a caller-owned array' % (node[3], node[2], node[1]))
        return T
    if k == 'call':
        params, body = table[node[2]]
        T0 = {p for p, a in zip(params, node[3]) if any(y in T for y in a)}
        if not T0:
            return T - {node[1]}
        if depth > 40:
            raise AliasFail('call depth')
        try:
            Tc = alias_analyze(body, T0, table, depth + 1)
        except AliasFail as ex:
            raise AliasFail('line %s: call -> %s' % (node[4], ex))
        for p, a in zip(params, node[3]):       # AliasIR.taintBack: the callee may have stored into what it was handed
            if p in Tc:
                T = T | set(a)
        return (T | {node[1]}) if RET in Tc else T - {node[1]}
    if k == 'seq':
        for c in node[1]:
            T = alias_analyze(c, T, table, depth)
        return T
    if k == 'branch':
        return alias_analyze(node[1], T, table, depth) | alias_analyze(node[2], T, table, depth)
    if k == 'loop':
        inv = set(T)
        for _ in range(16):
            t2 = alias_analyze(node[1], inv, table, depth)
            if t2 <= inv:
                return inv
            inv |= t2
        raise AliasFail('loop invariant not reached in 16 passes')
    raise AssertionError(k)


def count_nodes(node):
    k = node[0]
    if k == 'seq':
        return 1 + sum(count_nodes(c) for c in node[1])
    if k == 'branch':
        return 1 + count_nodes(node[1]) + count_nodes(node[2])
    if k == 'loop':
        return 1 + count_nodes(node[1])
    return 1


def depth_nodes(node):
    """fuel needed by AliasIR.analyze for this term alone (a seq of k statements needs k + 1 levels)"""
    k = node[0]
    if k == 'seq':
        d, n = 1, len(node[1])
        for i, c in enumerate(node[1]):
            d = max(d, i + 1 + depth_nodes(c))
        return max(d, n + 1)
    if k == 'branch':
        return 1 + max(depth_nodes(node[1]), depth_nodes(node[2]))
    if k == 'loop':
        return 1 + depth_nodes(node[1])
    return 1



# ----------------------------------------------------------------------------------------------- translator self-test

SELFTEST_MODULE = 'bct._selftest'
# Synthetic functions translated on every run next to the real source.  `st_rej_*` modify (or may modify) an argument /
# break the RNG discipline and MUST be rejected by the generated obligation; `st_acc_*` are controls that must be
# accepted.  A self-test function whose verdict is not the expected one is a break of the check (the translator lost
# its bias to fail), whatever the real source looks like.
SELFTEST_SRC = """
import random
import numpy as np
from numpy.random import rand as _imported_rand
from bct.utils import binarize, get_rng
from bct.algorithms.reference import randmio_und

_ZZ = None

def _st_put(box, W):
    box.append(W)

def st_rej_rng_helper_draws():
    return np.random.rand()

# ---- alias / write: must be rejected
def st_rej_nan_to_num(W):
    np.nan_to_num(W, copy=False)
    return W

def st_rej_two_names(W):
    a = [0]
    b = a
    b[0] = W
    a[0][0, 0] = 7

def st_rej_del(ci):
    del ci[0]

def st_rej_callee_appends(W):
    box = []
    _st_put(box, W)
    box[0][0, 0] = 5

def st_rej_global(W):
    global _ZZ
    _ZZ = W
    _ZZ[0, 0] = 3

def st_rej_star_args(W):
    args = (W, 0)
    np.fill_diagonal(*args)

def st_rej_fill_diagonal(W):
    np.fill_diagonal(W, 0)

def st_rej_view(W):
    V = W.T
    V[0, 0] = 1

def st_rej_out_kw(W):
    np.abs(W, out=W)

def st_rej_out_pos(W):
    np.multiply(W, 2, W)

def st_rej_ufunc_at(W):
    np.add.at(W, 0, 1)

def st_rej_sort(W):
    W.sort()

def st_rej_rows(W):
    for row in W:
        row[0] = 1

def st_rej_elem_aug(W):
    x = W[0]
    x += 1

def st_rej_lambda(W):
    f = lambda: W.fill(0)
    f()

def st_rej_getattr(W):
    getattr(W, 'fill')(0)

def st_rej_comprehension(W):
    [r.fill(0) for r in W]

def st_rej_try(W):
    try:
        W = W.copy()
    except Exception:
        pass
    W[0, 0] = 1

def st_rej_copy_false(W):
    binarize(W, copy=False)

def st_rej_astype_nocopy(W):
    V = W.astype(float, copy=False)
    V[0, 0] = 1

def st_rej_matmul(W):
    W @= W

def st_rej_copyto(W):
    np.copyto(W, 0)

def st_rej_nested(W):
    def clear():
        W[0, 0] = 0
    clear()

def st_rej_shuffle(W, seed=None):
    rng = get_rng(seed)
    rng.shuffle(W)

def st_rej_inplace_kw(W):
    W.byteswap(inplace=True)

def st_rej_setitem(W):
    W.__setitem__(0, 0)

def st_rej_unknown_np(W):
    np.lib.stride_tricks.sliding_window_view(W, 2, writeable=True)[0] = 0

def st_rej_out_tuple(W):
    np.abs(W, out=(W,))

def st_rej_positional_copy(W):
    np.nan_to_num(W, False)

def st_rej_exec(W):
    exec("W[0, 0] = 1")

def st_rej_locals(W):
    locals()['W'][0, 0] = 1

def st_rej_vars_alias(W):
    V = W
    vars()['V'][0, 0] = 1

def st_rej_break(W, k):
    for i in range(k):
        X = W
        if i > 2:
            break
        X = np.zeros(3)
    X[0] = 1

# ---- alias / write: must be accepted
def st_acc_copy(W):
    W = W.copy()
    W[0, 0] = 1
    np.fill_diagonal(W, 0)
    return W

def st_acc_fresh(W):
    A = np.zeros((3, 3))
    A[0] = W[0, 0] * 2
    return A + W

def st_acc_list_of_copies(W):
    lst = []
    lst.append(W.copy())
    lst[0][0, 0] = 1
    return lst

def st_acc_callee_appends_copy(W):
    box = []
    _st_put(box, W.copy())
    box[0][0, 0] = 5

def st_acc_binarize(W):
    B = binarize(W, copy=True)
    B[0, 0] = 0
    return B

# ---- RNG discipline: must be rejected
def st_rej_rng_global(n, seed=None):
    rng = get_rng(seed)
    return rng.rand(n) + np.random.rand(n)

def st_rej_rng_pyrandom(n, seed=None):
    rng = get_rng(seed)
    return rng.rand(n) + random.random()

def st_rej_rng_noseed_call(R, seed=None):
    rng = get_rng(seed)
    return randmio_und(R, 1)

def st_rej_rng_none_call(R, seed=None):
    return randmio_und(R, 1, seed=None)

def st_rej_rng_forgot(n, seed=None):
    rng = get_rng()
    return rng.rand(n)

def st_rej_rng_reassigned(n, seed=None):
    seed = None if n < 0 else seed
    rng = get_rng(seed)
    return rng.rand(n)

def st_rej_rng_private_state(n, seed=None):
    rng = np.random.RandomState()
    return rng.rand(n)

def st_acc_rng_helper_caller(n, seed=None):
    # accepted on its own: the obligation that fails is the helper's (a seedless helper must not draw), and with it `okTable`
    rng = get_rng(seed)
    return rng.rand(n) + st_rej_rng_helper_draws()

def st_rej_rng_imported(n, seed=None):
    rng = get_rng(seed)
    return _imported_rand(n)

def st_rej_rng_reseed(n, seed=None):
    np.random.seed(1)
    return get_rng(seed).rand(n)

def st_rej_rng_star(R, *a, seed=None):
    return randmio_und(R, *a)

def st_rej_rng_seed_twice(R, seed=None):
    # int seed: the callee restarts stream k; RandomState(k): the callee continues it => int != RandomState(int)
    rng = get_rng(seed)
    x = rng.rand()
    return x, randmio_und(R, 1, seed=seed)

def st_rej_rng_seed_two_calls(R, seed=None):
    return randmio_und(R, 1, seed=seed), randmio_und(R, 1, seed=seed)

def st_rej_rng_seed_in_loop(R, seed=None):
    return [randmio_und(R, 1, seed=seed) for _ in range(3)]

def st_rej_rng_rebind_after_draw(n, seed=None):
    rng = get_rng(seed)
    a = rng.rand(n)
    rng = get_rng(seed)
    return a, rng.rand(n)

# ---- RNG discipline: must be accepted
def st_acc_rng_forward_rng(R, seed=None):
    rng = get_rng(seed)
    x = rng.rand()
    return randmio_und(R, 1, seed=rng)

def st_acc_rng_forward_seed(R, seed=None):
    return randmio_und(R, 1, seed=seed)

def st_acc_rng_anonymous(n, seed=None):
    return get_rng(seed).rand(n)
"""

# ----------------------------------------------------------------------------------------------- driver

SKIP_MODULES = {'bct.nbs_parallel': 'not part of the bct namespace (never imported by bct/__init__); dispatches through '
                                    'multiprocessing.Pool.map, which the IR cannot express; covered dynamically only',
                'bct.due': 'duecredit stub, no numerical code', 'bct.citations': 'strings only', 'bct.version': 'strings only'}
HAND_MODELLED = {'get_rng'}


def lean_ident(s):
    return re.sub(r'\W', '_', s)


def translate(repo):
    pkg = Package(repo)
    pkg.mods[SELFTEST_MODULE] = Mod(SELFTEST_MODULE, '<selftest>', False, src=SELFTEST_SRC)
    FN.clear()
    for mn, m in pkg.mods.items():
        for fn in m.defs:
            FN[(mn, fn)] = FnInfo(pkg, (mn, fn))
    public = pkg.public()
    res = {'repo': repo, 'public': sorted(public), 'skipped_modules': SKIP_MODULES, 'unknown_constructs': []}
    walkers = {}

    def walker(key, variant):
        k = (key, variant)
        if k not in walkers:
            walkers[k] = Walker(pkg, key, variant)
        return walkers[k]

    # ------------------------------------------------ C05
    seedful = [k for k, i in FN.items() if i.has_seed and k[1] not in HAND_MODELLED and k[0] not in SKIP_MODULES
               and k[0] != SELFTEST_MODULE]
    todo, rng_set = list(seedful), []
    while todo:
        k = todo.pop()
        if k in rng_set or k[1] in HAND_MODELLED:
            continue
        rng_set.append(k)
        for (c, _v) in walker(k, None).calls:
            if c not in rng_set:
                todo.append(c)
    rng_set.sort(key=lambda k: (k[0], FN[k].lineno))
    cnt = {}
    for k in rng_set:
        cnt[k[1]] = cnt.get(k[1], 0) + 1
    rng_names = {k: (k[1] if cnt[k[1]] == 1 else lean_ident(k[0].split('.')[-1] + '_' + k[1])) for k in rng_set}
    for k in FN:
        rng_names.setdefault(k, k[1])
    rng = {}
    for k in rng_set:
        w = walker(k, None)
        rng[rng_names[k]] = {'key': k, 'has_seed': FN[k].has_seed, 'skel': simp(proj_rng(w.rng_tree, rng_names)),
                             'why': [n for n in flat_draws(w.tree)]}
    table = {n: (d['has_seed'], d['skel']) for n, d in rng.items()}
    for n, d in rng.items():
        d['fails'] = rng_fails(d['skel'], d['has_seed'], table)
    res['rng'] = rng
    # self-test skeletons: a separate table = real table + the synthetic functions (and what they call)
    st_keys = [k for k in FN if k[0] == SELFTEST_MODULE and 'rng' in k[1]]
    st_rng = {}
    for k in st_keys:
        w = walker(k, None)
        st_rng[k[1]] = {'key': k, 'has_seed': FN[k].has_seed, 'skel': simp(proj_rng(w.rng_tree, rng_names)),
                        'expect': 'reject' if k[1].startswith('st_rej') else ('accept' if k[1].startswith('st_acc') else None)}
    st_table = dict(table)
    st_table.update({n: (d['has_seed'], d['skel']) for n, d in st_rng.items()})
    res['selftest_failures'] = []
    for n, d in st_rng.items():
        d['fails'] = rng_fails(d['skel'], d['has_seed'], st_table)
        if d['expect'] == 'reject' and not d['fails']:
            res['selftest_failures'].append('RNG self-test %s was accepted (must be rejected)' % n)
        if d['expect'] == 'accept' and d['fails']:
            res['selftest_failures'].append('RNG self-test %s was rejected (%s)' % (n, d['fails']))
    res['selftest_rng'] = st_rng
    # seedless public functions that draw from a process-global generator (outside C05: they accept no seed)
    other = []
    for name, k in sorted(public.items()):
        if k in rng_set or k[1] in HAND_MODELLED:
            continue
        try:
            w = walker(k, None)
        except RecursionError:
            continue
        if any(d[1] != 'localRng' for d in flat_draws(w.tree)):
            other.append(name)
    res['seedless_public_functions_with_global_draws'] = other

    # ------------------------------------------------ C13
    def variants_of(key):
        return [True, False] if FN[key].has_copy else [None]
    todo = [(k, v) for k in public.values() for v in variants_of(k)]
    todo += [(k, None) for k in FN if k[0] == SELFTEST_MODULE and k[1].startswith('st_') and 'rng' not in k[1]]
    alias_set = []
    while todo:
        kv = todo.pop()
        if kv in alias_set:
            continue
        alias_set.append(kv)
        w = walker(*kv)
        for (c, v) in w.calls:
            for vv in ([v] if v is not None or not FN[c].has_copy else [True, False]):
                vv = vv if FN[c].has_copy else None
                if (c, vv) not in alias_set:
                    todo.append((c, vv))
    alias_set.sort(key=lambda kv: (kv[0][0], FN[kv[0]].lineno, kv[1] is False))
    ids = {kv: i + 1 for i, kv in enumerate(alias_set)}
    for kv in list(ids):        # a call that did not fix the copy flag was recorded per variant already
        pass
    pubkeys = set(public.values())
    alias = {}
    for kv in alias_set:
        key, v = kv
        w = walker(key, v)
        nm = key[1] + ('_nocopy' if v is False else '')
        if sum(1 for k2, v2 in alias_set if k2[1] == key[1] and v2 == v) > 1:
            nm = lean_ident(key[0].split('.')[-1] + '_' + nm)
        ir = simp(proj_alias(w.tree, ids))
        alias[nm] = {'key': key, 'variant': v, 'id': ids[kv], 'params': sum(([p, cn(p)] for p in FN[key].aparams), []), 'ir': ir,
                     'public': key in pubkeys and public.get(key[1]) == key, 'unknowns': list(w.unknowns),
                     'nodes': count_nodes(ir),
                     'selftest': (('reject' if key[1].startswith('st_rej') else 'accept') if key[0] == SELFTEST_MODULE and key[1].startswith('st_') else None)}
    atable = {d['id']: (d['params'], d['ir']) for d in alias.values()}
    w_of = {nm: walker(d['key'], d['variant']) for nm, d in alias.items()}
    res['not_covered_static'] = {}
    for nm, d in alias.items():
        T0 = set(d['params'])
        if d['variant'] is False:
            T0 = set(d['params'][1:])
        try:
            alias_analyze(d['ir'], T0, atable)
            d['fails'] = []
        except AliasFail as ex:
            d['fails'] = [str(ex)]
        except RecursionError:
            d['fails'] = ['analysis recursion limit']
        if d['selftest'] == 'reject' and not d['fails']:
            res['selftest_failures'].append('alias self-test %s was accepted (must be rejected)' % nm)
        if d['selftest'] == 'accept' and d['fails']:
            res['selftest_failures'].append('alias self-test %s was rejected (%s)' % (nm, d['fails'][0]))
        if d['key'][0] == SELFTEST_MODULE:
            continue
        for ln, what in d['unknowns']:
            res['unknown_constructs'].append('%s:%s %s' % (d['key'][1], ln, what))
        d['opaque'] = ['%s:%s' % (ln, what) for ln, what in w_of[nm].opaque_ext]
        if d['opaque'] and d['public']:
            res['not_covered_static'][nm] = 'hands its arguments to an optional external library: ' + ', '.join(d['opaque'])
    res['alias'] = alias
    dmax = max([depth_nodes(d['ir']) for d in alias.values()] + [1])
    res['alias_fuel'] = 20 * dmax + 100      # term depth x call depth (bct call chains are at most 4 deep)
    return res


def flat_draws(node):
    k = node[0]
    if k == 'seq':
        for c in node[1]:
            yield from flat_draws(c)
    elif k == 'branch':
        yield from flat_draws(node[1])
        yield from flat_draws(node[2])
    elif k == 'loop':
        yield from flat_draws(node[1])
    elif k == 'draw':
        yield node


# ---- Lean emission

def lean_rng(node, ind=2):
    k = node[0]
    if k == 'seq':
        if not node[1]:
            return '.seq []'
        pad = ' ' * ind
        return '.seq [\n' + ',\n'.join(pad + lean_rng(c, ind + 2) for c in node[1]) + ']'
    if k == 'branch':
        return '.branch (%s) (%s)' % (lean_rng(node[1], ind + 2), lean_rng(node[2], ind + 2))
    if k == 'loop':
        return '.loop (%s)' % lean_rng(node[1], ind + 2)
    if k == 'bindRng':
        return '.bindRng'
    if k == 'draw':
        return '.draw .%s' % node[1]
    if k == 'call':
        return '.call "%s" .%s' % (node[1], node[2])
    raise AssertionError(k)


def emit_rng(res, path):
    L = ['import BctVerif.Props.C05',
         '/-! GENERATED by translate/effects.py from the bct sources -- do not edit; rewritten by every run of `./check C05`.',
         '    One RNG-effect skeleton per function with a `seed` parameter and per helper such a function calls,',
         '    and one obligation per function.  Meta-theorems: BctVerif/Props/C05.lean. -/',
         'namespace Bct.Gen.EffectsRng', 'open Bct.RngIR', '']
    for n, d in res['rng'].items():
        L.append('/-- %s.%s -/' % d['key'])
        L.append('def skel_%s : Stmt :=\n  %s\n' % (n, lean_rng(d['skel'], 4)))
    L.append('def table : Table := [')
    L.append(',\n'.join('  ("%s", ⟨%s, skel_%s⟩)' % (n, 'true' if d['has_seed'] else 'false', n) for n, d in res['rng'].items()) + ']')
    L.append('')
    for n in res['rng']:
        L.append('theorem %s_ok : ok table "%s" = true := by decide +kernel' % (n, n))
    L.append('')
    L.append('/-- hypothesis of the meta-theorems: every function of the table is disciplined -/')
    L.append('theorem table_ok : okTable table = true := by decide +kernel')
    L.append('')
    L.append('/-- the meta-theorems of Props/C05.lean instantiated for the table generated from the current source -/')
    L.append('theorem all_seeded_sound {f : String} {d : FnDecl} (hf : lookup table f = some d) (hs : d.hasSeed = true)')
    L.append('    {w w\' : World} (h : Exec table .priv d.body w w\') : w\' = w := Bct.C05.disciplined_sound table_ok hf hs h')
    L.append('theorem all_int_eq_randomState {f : String} {d : FnDecl} (hf : lookup table f = some d) (hs : d.hasSeed = true)')
    L.append('    (σ : SeedStreams) (ctl : List Nat → Nat → Bool) (n k : Nat) (st : St) :')
    L.append('    Bct.C05.RelO Bct.C05.SameButPriv (runSeed table σ ctl n (.int k) d.body st) (runSeed table σ ctl n (.randomState k 0) d.body st) :=')
    L.append('  Bct.C05.runSeed_int_eq_randomState table_ok hf hs σ ctl n k st')
    L.append('theorem all_unseeded_sound {f : String} {d : FnDecl} (hf : lookup table f = some d) (hs : d.hasSeed = true)')
    L.append('    {w w\' : World} (h : Exec table .glob d.body w w\') : w\'.pyGlobal = w.pyGlobal ∧ w\'.untracked = w.untracked :=')
    L.append('  Bct.C05.unseeded_sound table_ok hf hs h')
    L.append('')
    L.append('/-! translator self-test: synthetic functions (translate/effects.py SELFTEST_SRC) translated with the same rules;')
    L.append('    `st_rej_*` must be rejected, `st_acc_*` accepted -/')
    for n, d in res['selftest_rng'].items():
        L.append('def skel_%s : Stmt :=\n  %s\n' % (n, lean_rng(d['skel'], 4)))
    L.append('def selftestTable : Table := table ++ [')
    L.append(',\n'.join('  ("%s", ⟨%s, skel_%s⟩)' % (n, 'true' if d['has_seed'] else 'false', n) for n, d in res['selftest_rng'].items()) + ']')
    L.append('')
    for n, d in res['selftest_rng'].items():
        if d['expect']:
            L.append('theorem selftest_%s : ok selftestTable "%s" = %s := by decide +kernel' % (n, n, 'false' if d['expect'] == 'reject' else 'true'))
    L.append('theorem selftest_table_rejected : okTable selftestTable = false := by decide +kernel')
    L.append('')
    L.append('end Bct.Gen.EffectsRng')
    write_if_changed(path, '\n'.join(L) + '\n')


def lean_alias(node, num, ind=2):
    k = node[0]
    nl = lambda ys: '[' + ', '.join(str(num(y)) for y in ys) + ']'
    if k == 'seq':
        if not node[1]:
            return '.seq []'
        pad = ' ' * ind
        return '.seq [\n' + ',\n'.join(pad + lean_alias(c, num, ind + 2) for c in node[1]) + ']'
    if k == 'branch':
        return '.branch (%s) (%s)' % (lean_alias(node[1], num, ind + 2), lean_alias(node[2], num, ind + 2))
    if k == 'loop':
        return '.loop (%s)' % lean_alias(node[1], num, ind + 2)
    if k == 'fresh':
        return '.fresh %d' % num(node[1])
    if k == 'alias':
        return '.alias %d %s %s' % (num(node[1]), nl(node[2]), 'true' if node[3] else 'false')
    if k == 'unknown':
        return '.unknown %d %s' % (num(node[1]), nl(node[2]))
    if k == 'write':
        return '.write %d' % num(node[1])
    if k == 'call':
        return '.call %d %d [%s]' % (num(node[1]), node[2], ', '.join(nl(a) for a in node[3]))
    raise AssertionError(k)


def emit_alias(res, path):
    L = ['import BctVerif.Props.C13',
         '/-! GENERATED by translate/effects.py from the bct sources -- do not edit; rewritten by every run of `./check C13`.',
         '    One alias/write IR term per function of the bct namespace (and per helper / `copy` variant they call),',
         '    names numbered per function (0 = return value, parameters first).  Meta-theorem: BctVerif/Props/C13.lean. -/',
         'namespace Bct.Gen.EffectsAlias', 'open Bct.AliasIR', '']
    for n, d in res['alias'].items():
        names = {RET: 0}
        for p in d['params']:
            names.setdefault(p, len(names))

        def num(x, names=names):
            if x not in names:
                names[x] = len(names)
            return names[x]
        body = lean_alias(d['ir'], num, 4)
        d['param_ids'] = [names[p] for p in d['params']]
        L.append('/-- %s.%s%s; id %d; parameters %s -/' % (d['key'][0], d['key'][1], '' if d['variant'] is not False else ' (copy=False path)',
                                                          d['id'], ', '.join('%s=%d' % (p, names[p]) for p in d['params'])))
        L.append('def ir_%s : Stmt :=\n  %s\n' % (n, body))
    L.append('def table : Table := [')
    L.append(',\n'.join('  (%d, ⟨[%s], ir_%s⟩)' % (d['id'], ', '.join(map(str, d['param_ids'])), n) for n, d in res['alias'].items()) + ']')
    L.append('')
    L.append('def fuel : Nat := %d' % res['alias_fuel'])
    L.append('')
    sem = []
    for n, d in res['alias'].items():
        if d.get('selftest'):
            L.append('theorem selftest_%s : safe table fuel %d = %s := by decide +kernel' % (n, d['id'], 'false' if d['selftest'] == 'reject' else 'true'))
            continue
        if not d['public'] or n in res['not_covered_static']:
            continue
        if d['variant'] is False:
            L.append('theorem %s_safe_others : safeExcept table fuel %d [0] = true := by decide +kernel' % (n, d['id']))
            sem.append('theorem %s_writes_only_first : Bct.C13.NoCallerWriteExcept table %d [0] := Bct.C13.noCallerWriteExcept_of_safeExcept %s_safe_others' % (n, d['id'], n))
        else:
            L.append('theorem %s_safe : safe table fuel %d = true := by decide +kernel' % (n, d['id']))
            sem.append('theorem %s_no_caller_write : Bct.C13.NoCallerWrite table %d := Bct.C13.noCallerWrite_of_safe %s_safe' % (n, d['id'], n))
    L.append('')
    L.append('/-! the meta-theorem of Props/C13.lean instantiated for every function of the table generated from the current source:')
    L.append('    in every execution of the body (completed or left by an exception), from every frame in which caller-owned arrays are')
    L.append('    reachable only through the parameters, no write hits a caller-owned location -/')
    L.append('theorem all_safe_sound {f : Nat} (h : safe table fuel f = true) : Bct.C13.NoCallerWrite table f := Bct.C13.noCallerWrite_of_safe h')
    L += sem
    L.append('')
    L.append('end Bct.Gen.EffectsAlias')
    write_if_changed(path, '\n'.join(L) + '\n')


def write_if_changed(path, txt):
    os.makedirs(os.path.dirname(path), exist_ok=True)
    if os.path.exists(path) and open(path).read() == txt:
        return False
    tmp = path + '.tmp%d' % os.getpid()
    open(tmp, 'w').write(txt)
    os.replace(tmp, path)
    return True


def summary(res):
    a, r = res['alias'], res['rng']
    return {'rng_functions': len(r), 'rng_seedful': sum(1 for d in r.values() if d['has_seed']),
            'rng_failing': {n: d['fails'] for n, d in r.items() if d['fails']},
            'alias_functions': sum(1 for d in a.values() if d['key'][0] != SELFTEST_MODULE),
            'alias_public_obligations': sum(1 for n, d in a.items() if d['public'] and n not in res['not_covered_static']),
            'alias_failing': {n: d['fails'] for n, d in a.items() if d['fails'] and d['public'] and n not in res['not_covered_static']},
            'alias_nodes': sum(d['nodes'] for d in a.values()), 'alias_fuel': res['alias_fuel'],
            'unknown_constructs': len(res['unknown_constructs']),
            'selftest_failures': res['selftest_failures'],
            'selftests': sum(1 for d in a.values() if d.get('selftest')) + sum(1 for d in res['selftest_rng'].values() if d['expect']),
            'not_covered_static': res['not_covered_static'],
            'seedless_public_functions_with_global_draws': res['seedless_public_functions_with_global_draws']}


def main(argv):
    repo = argv[1] if len(argv) > 1 else os.environ.get('BCT_REPO', '/repo')
    lean = argv[2] if len(argv) > 2 else os.environ.get('BCT_LEAN', os.path.join(os.path.dirname(os.path.dirname(os.path.abspath(__file__))), 'lean'))
    sys.setrecursionlimit(20000)
    res = translate(repo)
    emit_rng(res, os.path.join(lean, 'BctVerif', 'Gen', 'EffectsRng.lean'))
    emit_alias(res, os.path.join(lean, 'BctVerif', 'Gen', 'EffectsAlias.lean'))
    s = summary(res)
    if '-v' in argv:
        s['unknown_list'] = res['unknown_constructs']
    print(json.dumps(s, indent=1))


if __name__ == '__main__':
    main(sys.argv)
