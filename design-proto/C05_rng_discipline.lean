/-! prototype: RNG-discipline IR, abstract semantics, meta-theorem, decide on generated skeleton -/
inductive Gen | localRng | globalRng | pyRandom | unknown
  deriving DecidableEq, Repr

inductive SeedArg | rngObj | seedParam | noneLit | absent | other
  deriving DecidableEq, Repr

inductive Stmt
  | bindRng                       -- rng = get_rng(seed)
  | draw (g : Gen)                -- g.randint / random_sample / permutation ...
  | call (callee : String) (a : SeedArg)  -- nested seed-accepting bct call
  | seq (ss : List Stmt)
  | branch (a b : Stmt)
  | loop (body : Stmt)
  deriving Repr

/-- abstract world: how many draws hit the process-global generator, and whether any draw
    came from a source that is not determined by (args, seed). -/
structure World where
  globalDraws : Nat
  untracked   : Bool
  deriving DecidableEq, Repr

mutual
def ok : Stmt → Bool
  | .bindRng => true
  | .draw g => g == .localRng
  | .call _ a => a == .rngObj || a == .seedParam
  | .seq ss => okL ss
  | .branch a b => ok a && ok b
  | .loop b => ok b
def okL : List Stmt → Bool
  | [] => true
  | s :: ss => ok s && okL ss
end

/-- one possible execution = a choice of branch directions / loop counts, given as fuel-indexed
    relation; `seeded = true` means the caller supplied a seed (so localRng is a fresh private stream,
    and callee(rngObj|seedParam) is itself seeded). `calleeOk` = callees satisfy the contract. -/
inductive Exec (seeded : Bool) : Stmt → World → World → Prop
  | bind (w) : Exec seeded .bindRng w w
  | drawLocal (w) : Exec seeded (.draw .localRng) w
      (if seeded then w else { w with globalDraws := w.globalDraws + 1 })
  | drawGlobal (w) : Exec seeded (.draw .globalRng) w { w with globalDraws := w.globalDraws + 1 }
  | drawPy (w) : Exec seeded (.draw .pyRandom) w { w with untracked := true }
  | drawUnk (w) : Exec seeded (.draw .unknown) w { w with untracked := true }
  | callGood (c a w) (h : a = .rngObj ∨ a = .seedParam) : Exec seeded (.call c a) w
      (if seeded then w else { w with globalDraws := w.globalDraws + 1 })
  | callBad (c a w) (h : ¬ (a = .rngObj ∨ a = .seedParam)) : Exec seeded (.call c a) w
      { w with globalDraws := w.globalDraws + 1 }
  | seqNil (w) : Exec seeded (.seq []) w w
  | seqCons (s ss w1 w2 w3) : Exec seeded s w1 w2 → Exec seeded (.seq ss) w2 w3 → Exec seeded (.seq (s :: ss)) w1 w3
  | brL (a b w1 w2) : Exec seeded a w1 w2 → Exec seeded (.branch a b) w1 w2
  | brR (a b w1 w2) : Exec seeded b w1 w2 → Exec seeded (.branch a b) w1 w2
  | loop0 (b w) : Exec seeded (.loop b) w w
  | loopS (b w1 w2 w3) : Exec seeded b w1 w2 → Exec seeded (.loop b) w2 w3 → Exec seeded (.loop b) w1 w3

theorem disciplined_sound (s : Stmt) (w w' : World) (h : Exec true s w w') :
    ok s = true → w' = w := by
  induction h with
  | bind => intro _; rfl
  | drawLocal => intro _; simp
  | drawGlobal => intro h; simp [ok] at h
  | drawPy => intro h; simp [ok] at h
  | drawUnk => intro h; simp [ok] at h
  | callGood => intro _; simp
  | callBad c a w hb => intro h; simp [ok] at h; exact absurd h hb
  | seqNil => intro _; rfl
  | seqCons s ss w1 w2 w3 _ _ ih1 ih2 =>
      intro h; simp [ok, okL] at h
      have h2 : ok (.seq ss) = true := by simp [ok, h.2]
      rw [ih2 h2, ih1 h.1]
  | brL a b w1 w2 _ ih => intro h; simp [ok] at h; exact ih h.1
  | brR a b w1 w2 _ ih => intro h; simp [ok] at h; exact ih h.2
  | loop0 => intro _; rfl
  | loopS b w1 w2 w3 _ _ ih1 ih2 =>
      intro h
      have hb : ok b = true := by simpa [ok] using h
      rw [ih2 h, ih1 hb]

-- a "generated" skeleton (what the translator would emit for randmio_und)
def skel_randmio_und : Stmt := .seq [ .bindRng,
  .loop (.loop (.seq [ .loop (.seq [.draw .localRng, .loop (.draw .localRng)]), .draw .localRng ])) ]
theorem skel_randmio_und_ok : ok skel_randmio_und = true := by decide
def skel_bad : Stmt := .seq [ .bindRng, .loop (.draw .globalRng) ]
example : ok skel_bad = false := by decide
#print axioms disciplined_sound
#print axioms skel_randmio_und_ok
