"""scratch prototype of translate/kernels.py: extract the literal cell assignments of each rewiring routine"""
import ast, sys, textwrap
src=open(sys.argv[1] if len(sys.argv)>1 else '/repo/bct/algorithms/reference.py').read()
tree=ast.parse(src)
SYM={'a','b','c','d'}
def cell(node):
    # R[x, y] with x,y in {a,b,c,d}
    if isinstance(node,ast.Subscript) and isinstance(node.value,ast.Name) and isinstance(node.slice,ast.Tuple) and len(node.slice.elts)==2:
        x,y=node.slice.elts
        if isinstance(x,ast.Name) and isinstance(y,ast.Name) and {x.id,y.id}<=SYM: return (node.value.id,x.id,y.id)
    return None
def rhs(node):
    c=cell(node)
    if c: return ('cell',)+c
    if isinstance(node,ast.Constant) and node.value==0: return ('zero',)
    if isinstance(node,ast.Name): return ('var',node.id)
    return ('other',ast.dump(node)[:40])
out={}
for fn in tree.body:
    if not isinstance(fn,ast.FunctionDef): continue
    blocks=[]
    for node in ast.walk(fn):
        if isinstance(node,(ast.If,)):
            assigns=[]; edge=[]
            for st in node.body:
                if isinstance(st,ast.Assign):
                    for t in st.targets:
                        c=cell(t)
                        if c: assigns.append((c[1:],rhs(st.value)))
                        # multiple targets R[a,d] = R[d,a] = x
                        elif isinstance(t,ast.Subscript) and isinstance(t.value,ast.Name) and t.value.id in('i','j') and isinstance(t.slice,ast.Name):
                            edge.append((t.value.id,t.slice.id,rhs(st.value)))
            if len(assigns)>=4: blocks.append((node.lineno,assigns,edge))
    if blocks: out[fn.name]=blocks
for k,v in out.items():
    for ln,assigns,edge in v:
        print(f"{k} @line {ln}:")
        print("   cells:", '; '.join(f"R[{d[0]},{d[1]}]="+( 'R[%s,%s]'%r[2:] if r[0]=='cell' else ('0' if r[0]=='zero' else r[1])) for d,r in assigns))
        print("   edges:", '; '.join(f"{a}[{e}]={r[1] if r[0]=='var' else r}" for a,e,r in edge))
