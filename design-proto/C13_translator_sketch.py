"""scratch prototype of translate/effects.py (alias/write IR) + the same analysis as the Lean `analyze`."""
import ast, sys, inspect, importlib, os
sys.path.insert(0,'/repo')
FRESH_CALLS={'copy','zeros','ones','eye','array','arange','zeros_like','ones_like','tile','outer','dot','sum','mean','max','min','abs','sqrt','log','exp','where','nonzero','unique','sort','argsort','triu','tril','diag','logical_not','logical_and','logical_or','any','all','cumsum','append','hstack','vstack','dstack','stack','repeat','delete','setdiff1d','intersect1d','union1d','histogram','corrcoef','trace','square','sign','isnan','isinf','around','round','floor','ceil','mod','inner','prod','std','var','size','shape','len','int','float','range','list','tuple','set','sorted','enumerate','zip','argmax','argmin','ix_','diag_indices','tril_indices','triu_indices','meshgrid','linspace','full','empty','astype','tolist','item','nansum','isclose','allclose','array_equal','add','subtract','multiply','divide','power','maximum','minimum','count_nonzero','flatnonzero','bincount','searchsorted','percentile','median','cov','solve','inv','eig','eigh','expm','toeplitz','pdf','log2','log10','kron','matrix_power','cbrt','randint','random_sample','rand','permutation','choice','get_rng','RandomState','normalize','BCTParamError','print','str','format','isinstance','type','bool','sum_','min_','max_'}
VIEW_ATTRS={'T','flat','real','imag'}
VIEW_CALLS={'ravel','reshape','squeeze','asarray','atleast_1d','atleast_2d','transpose','view','swapaxes','diagonal','asanyarray','ma','masked_array','masked_where'}
INPLACE_FUNCS={'fill_diagonal':0,'put':0,'place':0,'copyto':0,'shuffle':0}
INPLACE_METHODS={'sort','fill','resize','itemset','partition'}
def base_name(node):
    """name through which an expression reaches an array (views), or None if fresh/unknown-fresh"""
    if isinstance(node,ast.Name): return [node.id]
    if isinstance(node,ast.Attribute):
        if node.attr in VIEW_ATTRS: return base_name(node.value)
        return base_name(node.value)  # conservative
    if isinstance(node,ast.Subscript):
        # basic slicing -> view; fancy/boolean/ix_ -> copy.  conservative: index made only of slices/ints/names?? treat slices as view
        sl=node.slice
        def basic(s):
            if isinstance(s,ast.Slice): return True
            if isinstance(s,ast.Constant) and isinstance(s.value,int): return True
            if isinstance(s,ast.Tuple): return all(basic(e) or isinstance(e,(ast.Name,ast.BinOp,ast.UnaryOp)) for e in s.elts) and any(isinstance(e,ast.Slice) for e in s.elts)
            return False
        if basic(sl): return base_name(node.value)
        # integer-name indexing of a list/array element: could be element of a container -> alias
        if isinstance(sl,(ast.Name,ast.Constant,ast.BinOp)): return base_name(node.value)
        return []
    if isinstance(node,ast.Call):
        f=node.func; fname=f.attr if isinstance(f,ast.Attribute) else (f.id if isinstance(f,ast.Name) else None)
        if fname in VIEW_CALLS:
            srcs=[]
            if isinstance(f,ast.Attribute) and not (isinstance(f.value,ast.Name) and f.value.id in('np','numpy','linalg','sp')): srcs+=base_name(f.value)
            for a in node.args: srcs+=base_name(a)
            return srcs
        if fname in FRESH_CALLS: return []
        # unknown call: may return any of its array args (e.g. binarize(W, copy=False))
        srcs=[]
        if isinstance(f,ast.Attribute) and not (isinstance(f.value,ast.Name) and f.value.id in('np','numpy','linalg','sp','stats','rng')): srcs+=base_name(f.value)
        for a in node.args: srcs+=base_name(a)
        return ['?UNKNOWN:'+str(fname)]+srcs
    if isinstance(node,(ast.Tuple,ast.List)):
        out=[]
        for e in node.elts: out+=base_name(e)
        return out
    if isinstance(node,ast.IfExp): return base_name(node.body)+base_name(node.orelse)
    return []   # BinOp, Compare, Constant ... fresh
class Ana:
    def __init__(self,fn,params,copy_true=True):
        self.T=set(params); self.flags=[]; self.copy_true=copy_true; self.fn=fn
    def targets(self,t):
        if isinstance(t,ast.Name): return [('bind',t.id)]
        if isinstance(t,(ast.Tuple,ast.List)):
            out=[]
            for e in t.elts: out+=self.targets(e)
            return out
        if isinstance(t,(ast.Subscript,ast.Attribute)):
            return [('write',n) for n in base_name(t.value)]
        return []
    def write(self,names,node,why):
        for n in names:
            if n in self.T: self.flags.append((self.fn,node.lineno,why,n))
    def stmt(self,s):
        if isinstance(s,(ast.Assign,ast.AnnAssign)):
            tg=s.targets if isinstance(s,ast.Assign) else [s.target]
            srcs=[x for x in base_name(s.value) if not x.startswith('?')] if s.value is not None else []
            self.expr_effects(s.value)
            for t in tg:
                for kind,n in self.targets(t):
                    if kind=='bind':
                        if any(x in self.T for x in srcs): self.T.add(n)
                        else: self.T.discard(n)
                    else: self.write([n],s,'subscript-store')
        elif isinstance(s,ast.AugAssign):
            self.expr_effects(s.value)
            if isinstance(s.target,ast.Name): self.write([s.target.id],s,'augassign')
            else: self.write(base_name(s.target.value),s,'augassign-sub')
        elif isinstance(s,ast.Expr): self.expr_effects(s.value)
        elif isinstance(s,(ast.If,)):
            # specialise `if copy:` to the then-branch
            if self.copy_true and isinstance(s.test,ast.Name) and s.test.id=='copy':
                for x in s.body: self.stmt(x)
                return
            self.expr_effects(s.test)
            T0=set(self.T)
            for x in s.body: self.stmt(x)
            T1=self.T; self.T=set(T0)
            for x in s.orelse: self.stmt(x)
            self.T|=T1
        elif isinstance(s,(ast.For,ast.While)):
            for _ in range(3):   # iterate to a fixpoint (names only grow)
                before=set(self.T)
                if isinstance(s,ast.For):
                    srcs=[x for x in base_name(s.iter) if not x.startswith('?')]
                    for kind,n in self.targets(s.target):
                        if kind=='bind':
                            if any(x in self.T for x in srcs): self.T.add(n)
                            else: self.T.discard(n)
                for x in s.body+s.orelse: self.stmt(x)
                self.T|=before
                if self.T==before: break
        elif isinstance(s,(ast.With,)):
            for x in s.body: self.stmt(x)
        elif isinstance(s,ast.Try):
            for x in s.body+[y for h in s.handlers for y in h.body]+s.orelse+s.finalbody: self.stmt(x)
        elif isinstance(s,ast.FunctionDef):
            # nested def: analysed in place as a loop body, its params aliased to nothing (conservative: closure names keep taint)
            for _ in range(2):
                for x in s.body: self.stmt(x)
        elif isinstance(s,ast.Return): self.expr_effects(s.value)
    def expr_effects(self,e):
        if e is None: return
        for node in ast.walk(e):
            if isinstance(node,ast.Call):
                f=node.func; fname=f.attr if isinstance(f,ast.Attribute) else (f.id if isinstance(f,ast.Name) else None)
                if fname in INPLACE_FUNCS and node.args:
                    self.write(base_name(node.args[0]),node,'np.'+fname)
                if isinstance(f,ast.Attribute) and fname in INPLACE_METHODS:
                    self.write(base_name(f.value),node,'.'+fname+'()')
                for kw in node.keywords:
                    if kw.arg=='out': self.write(base_name(kw.value),node,'out=')
                    if kw.arg=='copy' and isinstance(kw.value,ast.Constant) and kw.value.value is False:
                        for a in node.args[:1]: self.write(base_name(a),node,'callee copy=False')
                if fname in ('append','extend','insert') and isinstance(f,ast.Attribute):
                    # container grows: x.append(y)  => x may reach y
                    srcs=[]
                    for a in node.args: srcs+=[x for x in base_name(a) if not x.startswith('?')]
                    for n in base_name(f.value):
                        if any(x in self.T for x in srcs): self.T.add(n)
import bct
res={}
for nm,f in sorted(vars(bct).items()):
    if not inspect.isfunction(f) or not f.__module__.startswith('bct') or nm.startswith('_'): continue
    try: src=inspect.getsource(f)
    except Exception: continue
    import textwrap
    tree=ast.parse(textwrap.dedent(src)); fd=tree.body[0]
    params=[a.arg for a in fd.args.args if a.arg not in('seed','copy','gamma','itr','k','thr','p','d','tau','reps','local','flag','hierarchy','qtype','transform','verbose','tail','paired','thresh','lamb','alpha','maxswap','bin_swaps','wei_freq','nr_steps','klevel','peel','degree','coef_type','centrality_type','source','n','m','s','sz_cl','mx_lvl','E','include_diagonal','include_infinite','ensure_binary','has_memory','max_hops','no_depend','savepths','qmax','buffsz','wcm','model_type','model_var','epsilon','eta','B_','cq_thr','H','Texp','T0','Hbrk','cost','dfun','tube','fname','directed','avgdeg','zeroindexed','return_sparse')]
    a=Ana(nm,params)
    for s in fd.body: a.stmt(s)
    if a.flags: res[nm]=a.flags
for k,v in res.items(): print(k, sorted(set((ln,why,n) for _,ln,why,n in v)))
print(len(res),'functions flagged')
