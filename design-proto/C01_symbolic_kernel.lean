/-! prototype: verified symbolic executor for source-extracted swap kernels (core Lean only) -/

abbrev Sym := Fin 4            -- 0=a 1=b 2=c 3=d
abbrev Cell := Sym × Sym

/-- one extracted statement `R[dst] = R[src]` or `R[dst] = 0` -/
structure Assign where
  dst : Cell
  src : Option Cell
  deriving DecidableEq, Repr

inductive Val | tok (c : Cell) | zero
  deriving DecidableEq, Repr

abbrev SymState := Cell → Val

def symStep (S : SymState) (a : Assign) : SymState :=
  let v := match a.src with | none => Val.zero | some s => S s
  fun c => if c = a.dst then v else S c

def symExec (as : List Assign) : SymState := as.foldl symStep (fun c => Val.tok c)

/-- concrete matrices over ℤ indexed by `Fin n` -/
abbrev Mat (n : Nat) := Fin n → Fin n → Int

def upd {n} (R : Mat n) (i j : Fin n) (v : Int) : Mat n :=
  fun i' j' => if i' = i ∧ j' = j then v else R i' j'

def conStep {n} (ρ : Sym → Fin n) (R : Mat n) (a : Assign) : Mat n :=
  let v := match a.src with | none => 0 | some s => R (ρ s.1) (ρ s.2)
  upd R (ρ a.dst.1) (ρ a.dst.2) v

def conExec {n} (ρ : Sym → Fin n) (as : List Assign) (R : Mat n) : Mat n := as.foldl (conStep ρ) R

def evalVal {n} (ρ : Sym → Fin n) (R : Mat n) : Val → Int
  | .tok c => R (ρ c.1) (ρ c.2)
  | .zero => 0

/-- generalised lifting lemma: running the assignments concretely from `R'` where `R'` is described
    symbolically by `S` over base matrix `R`. -/
theorem lift_aux {n} (ρ : Sym → Fin n) (hρ : Function.Injective ρ) (R : Mat n) :
    ∀ (as : List Assign) (S : SymState) (R' : Mat n),
      (∀ c : Cell, R' (ρ c.1) (ρ c.2) = evalVal ρ R (S c)) →
      (∀ i j, (¬ ∃ c : Cell, ρ c.1 = i ∧ ρ c.2 = j) → R' i j = R i j) →
      (∀ c : Cell, conExec ρ as R' (ρ c.1) (ρ c.2) = evalVal ρ R (as.foldl symStep S c)) ∧
      (∀ i j, (¬ ∃ c : Cell, ρ c.1 = i ∧ ρ c.2 = j) → conExec ρ as R' i j = R i j) := by
  intro as
  induction as with
  | nil => intro S R' h1 h2; exact ⟨h1, h2⟩
  | cons a as ih =>
    intro S R' h1 h2
    simp only [conExec, List.foldl_cons]
    apply ih (symStep S a) (conStep ρ R' a)
    · intro c
      simp only [conStep, upd, symStep]
      by_cases hc : c = a.dst
      · subst hc
        simp only [and_self, if_true]
        cases hs : a.src with
        | none => simp [evalVal]
        | some s => simp [h1 s]
      · have : ¬ (ρ c.1 = ρ a.dst.1 ∧ ρ c.2 = ρ a.dst.2) := by
          intro ⟨e1, e2⟩
          exact hc (Prod.ext (hρ e1) (hρ e2))
        simp [this, hc, h1 c]
    · intro i j hij
      simp only [conStep, upd]
      have : ¬ (i = ρ a.dst.1 ∧ j = ρ a.dst.2) := by
        intro ⟨e1, e2⟩; exact hij ⟨a.dst, e1.symm, e2.symm⟩
      simp [this, h2 i j hij]

theorem lift {n} (ρ : Sym → Fin n) (hρ : Function.Injective ρ) (R : Mat n) (as : List Assign) :
    (∀ c : Cell, conExec ρ as R (ρ c.1) (ρ c.2) = evalVal ρ R (symExec as c)) ∧
    (∀ i j, (¬ ∃ c : Cell, ρ c.1 = i ∧ ρ c.2 = j) → conExec ρ as R i j = R i j) :=
  lift_aux ρ hρ R as (fun c => Val.tok c) R (by intro c; rfl) (by intro i j _; rfl)

/- what the translator would emit for randmio_dir (reference.py:1265-1268) -/
def a : Sym := 0
def b : Sym := 1
def c : Sym := 2
def d : Sym := 3
def kernel_randmio_dir : List Assign :=
  [⟨(a,d), some (a,b)⟩, ⟨(a,b), none⟩, ⟨(c,b), some (c,d)⟩, ⟨(c,d), none⟩]

/-- expected result of a degree-preserving directed swap, as a symbolic state -/
def expectedDir : SymState := fun x =>
  if x = (a,d) then .tok (a,b) else if x = (a,b) then .zero
  else if x = (c,b) then .tok (c,d) else if x = (c,d) then .zero else .tok x

/-- decidable equality of symbolic states = equality on all 16 cells -/
def symEq (S T : SymState) : Bool := (List.finRange 4).all fun i => (List.finRange 4).all fun j => S (i,j) == T (i,j)

theorem kernel_randmio_dir_ok : symEq (symExec kernel_randmio_dir) expectedDir = true := by decide

-- a mutated kernel (wrong index) is rejected
def kernel_bad : List Assign :=
  [⟨(a,d), some (a,b)⟩, ⟨(a,b), none⟩, ⟨(c,b), some (c,d)⟩, ⟨(d,c), none⟩]
example : symEq (symExec kernel_bad) expectedDir = false := by decide

#print axioms lift
#print axioms kernel_randmio_dir_ok
