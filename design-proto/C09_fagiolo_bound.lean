import Mathlib.Algebra.BigOperators.Group.Finset.Basic
import Mathlib.Algebra.BigOperators.Ring.Finset
import Mathlib.Algebra.Order.BigOperators.Group.Finset
import Mathlib.Data.Fintype.BigOperators
import Mathlib.Tactic

/-! prototype C09: Fagiolo's bound, hence clustering_coef_bd ∈ [0,1] on 0/1 matrices with empty diagonal -/
open Finset
variable {n : ℕ}

theorem fagiolo_bound (a : Fin n → Fin n → ℤ) (h01 : ∀ i j, a i j = 0 ∨ a i j = 1)
    (hdiag : ∀ i, a i i = 0) (i : Fin n) :
    let s : Fin n → Fin n → ℤ := fun x y => a x y + a y x
    let K : ℤ := ∑ j, s i j
    ∑ j, ∑ k, s i j * s j k * s k i ≤ 2 * (K * (K - 1) - 2 * ∑ j, a i j * a j i) := by
  intro s K
  have hs_nonneg : ∀ x y, 0 ≤ s x y := by
    intro x y; simp only [s]; rcases h01 x y with h | h <;> rcases h01 y x with h' | h' <;> simp [h, h']
  have hs_le : ∀ x y, s x y ≤ 2 := by
    intro x y; simp only [s]; rcases h01 x y with h | h <;> rcases h01 y x with h' | h' <;> simp [h, h']
  have hs_symm : ∀ x y, s x y = s y x := by intro x y; simp only [s]; ring
  have hs_diag : ∀ x, s x x = 0 := by intro x; simp [s, hdiag]
  have hsq : ∀ x y, a x y * a x y = a x y := by
    intro x y; rcases h01 x y with h | h <;> simp [h]
  -- each term is bounded: s_jk ≤ 2 off the diagonal, = 0 on it
  have step1 : ∑ j, ∑ k, s i j * s j k * s k i
      ≤ ∑ j, ∑ k, (if j = k then 0 else 2 * (s i j * s i k)) := by
    refine Finset.sum_le_sum (fun j _ => Finset.sum_le_sum (fun k _ => ?_))
    by_cases hjk : j = k
    · subst hjk; simp [hs_diag]
    · simp only [hjk, if_false]
      rw [hs_symm k i]
      have h1 : 0 ≤ s i j * s i k := mul_nonneg (hs_nonneg _ _) (hs_nonneg _ _)
      nlinarith [hs_le j k, hs_nonneg j k]
  -- Σ_{j≠k} s_ij s_ik = K² − Σ_j s_ij²
  have step2 : ∑ j, ∑ k, (if j = k then 0 else 2 * (s i j * s i k))
      = 2 * (K * K - ∑ j, s i j * s i j) := by
    have : ∀ j, ∑ k, (if j = k then 0 else 2 * (s i j * s i k))
        = 2 * (s i j * K) - 2 * (s i j * s i j) := by
      intro j
      have e : ∀ k, (if j = k then (0:ℤ) else 2 * (s i j * s i k))
          = 2 * (s i j * s i k) - (if j = k then 2 * (s i j * s i k) else 0) := by
        intro k; by_cases h : j = k <;> simp [h]
      simp only [e, Finset.sum_sub_distrib]
      simp only [Finset.sum_ite_eq, Finset.mem_univ, if_true]
      simp only [K, Finset.mul_sum]
    simp only [this, Finset.sum_sub_distrib, ← Finset.mul_sum, ← Finset.sum_mul]
    ring
  -- Σ_j s_ij² = K + 2 Σ_j a_ij a_ji
  have step3 : ∑ j, s i j * s i j = K + 2 * ∑ j, a i j * a j i := by
    simp only [K, s, Finset.mul_sum, ← Finset.sum_add_distrib]
    refine Finset.sum_congr rfl (fun j _ => ?_)
    have := hsq i j; have := hsq j i
    nlinarith [hsq i j, hsq j i]
  calc ∑ j, ∑ k, s i j * s j k * s k i
      ≤ 2 * (K * K - ∑ j, s i j * s i j) := by rw [← step2]; exact step1
    _ = 2 * (K * (K - 1) - 2 * ∑ j, a i j * a j i) := by rw [step3]; ring
#print axioms fagiolo_bound
