import sys, subprocess, numpy as np
repo=sys.argv[1]; sys.path.insert(0,repo)
import os; os.chdir(repo)
import bct
assert bct.__file__.startswith(repo), bct.__file__
sys.path.insert(0,'/root/scratch'); from tmo import call
class Rec(np.random.RandomState):
    def __init__(self,seed): super().__init__(seed); self.log=[]
    def randint(self,low,high=None,size=None,dtype=int):
        v=super().randint(low,high,size,dtype); self.log.extend(np.atleast_1d(v).ravel().tolist()); return v
    def random_sample(self,size=None):
        v=super().random_sample(size); self.log.append(('u',v)); return v
rs=np.random.RandomState(int(sys.argv[2]) if len(sys.argv)>2 else 0)
cases=[]; lines=[]
for t in range(int(sys.argv[3]) if len(sys.argv)>3 else 3000):
    n=rs.randint(4,9); A=(rs.rand(n,n)<rs.choice([.2,.35,.5,.8])).astype(float); np.fill_diagonal(A,0); A*=rs.randint(1,10,size=(n,n))
    if (A!=0).sum()<2: continue
    itr=int(rs.randint(0,4)); rec=Rec(t)
    st,r=call(bct.randmio_dir,A,itr,seed=rec,t=2)
    if st!='ok': continue
    R,eff=r
    cases.append((A,itr,R,eff,len(rec.log)))
    lines.append(f"{n} {itr} {','.join(str(int(x)) for x in A.ravel())} {','.join(map(str,rec.log)) if rec.log else '-'}")
open('/root/scratch/e2e_cases.txt','w').write('\n'.join(lines)+'\n')
out=subprocess.run('cd /root/scratch/lt && timeout 120 lake env lean --run RwMain.lean < /root/scratch/e2e_cases.txt',shell=True,capture_output=True,text=True).stdout.strip().split('\n')
assert len(out)==len(cases),(len(out),len(cases),out[:3])
agree=0; dis=[]; swaps=0
for (A,itr,R,eff,nd),o in zip(cases,out):
    exp=f"R={','.join(str(int(x)) for x in R.ravel())} eff={eff} left=0"
    if o==exp: agree+=1
    else: dis.append((A,itr,o,exp))
    swaps+=eff
print('repo',repo,'cases',len(cases),'agree',agree,'disagree',len(dis),'total accepted swaps',swaps)
if dis: print('first disagreement:\n model:',dis[0][2][:120],'\n impl :',dis[0][3][:120])
