import Mathlib.Algebra.BigOperators.Group.Finset.Basic
import Mathlib.Data.Fintype.BigOperators
import Mathlib.Logic.Equiv.Basic
import Mathlib.Tactic

/-! prototype C06: the directed signed 4-cell exchange keeps every row's and column's count of
    positive and of negative cells -/
open Finset
variable {n : ℕ}
abbrev Mat (n : ℕ) := Fin n → Fin n → ℤ

def upd (R : Mat n) (i j : Fin n) (v : ℤ) : Mat n :=
  fun i' j' => if i' = i ∧ j' = j then v else R i' j'

/-- randmio_dir_signed, lines 1463-1466: the four cells exchange their saved values -/
def signedSwap (R : Mat n) (a b c d : Fin n) : Mat n :=
  let ab := R a b; let cd := R c d; let ad := R a d; let cb := R c b
  upd (upd (upd (upd R a d ab) a b ad) c b cd) c d cb

def rowPos (R : Mat n) (r : Fin n) : ℕ := ∑ j, if 0 < R r j then 1 else 0
def rowNeg (R : Mat n) (r : Fin n) : ℕ := ∑ j, if R r j < 0 then 1 else 0
def colPos (R : Mat n) (c : Fin n) : ℕ := ∑ i, if 0 < R i c then 1 else 0
def colNeg (R : Mat n) (c : Fin n) : ℕ := ∑ i, if R i c < 0 then 1 else 0

theorem signedSwap_apply (R : Mat n) (a b c d : Fin n) (hac : a ≠ c) (hbd : b ≠ d) (i j : Fin n) :
    signedSwap R a b c d i j = R i (if i = a ∨ i = c then Equiv.swap b d j else j) := by
  simp only [signedSwap, upd]
  by_cases hia : i = a <;> by_cases hic : i = c <;> by_cases hjb : j = b <;> by_cases hjd : j = d <;>
    simp_all [Equiv.swap_apply_def]

theorem rowPos_swap (R : Mat n) (a b c d r : Fin n) (hac : a ≠ c) (hbd : b ≠ d) :
    rowPos (signedSwap R a b c d) r = rowPos R r := by
  unfold rowPos; simp only [signedSwap_apply R a b c d hac hbd]
  by_cases h : r = a ∨ r = c
  · simp only [h, if_true]; exact Equiv.sum_comp (Equiv.swap b d) (fun j => if 0 < R r j then 1 else 0)
  · simp only [h, if_false]

/-- columns: under the sign guard, the sign pattern of column x after the swap is the old one with
    rows a and c exchanged -/
theorem colPos_swap (R : Mat n) (a b c d x : Fin n) (hac : a ≠ c) (hbd : b ≠ d)
    (h1 : Int.sign (R a b) = Int.sign (R c d)) (h2 : Int.sign (R a d) = Int.sign (R c b)) :
    colPos (signedSwap R a b c d) x = colPos R x := by
  unfold colPos
  have pos_iff : ∀ u v : ℤ, Int.sign u = Int.sign v → (0 < u ↔ 0 < v) := by
    intro u v h; rw [← Int.sign_eq_one_iff_pos, ← Int.sign_eq_one_iff_pos, h]
  have hp1 : 0 < R a b ↔ 0 < R c d := pos_iff _ _ h1
  have hp2 : 0 < R a d ↔ 0 < R c b := pos_iff _ _ h2
  clear h1 h2
  have key : ∀ i, (if 0 < signedSwap R a b c d i x then 1 else 0 : ℕ)
      = (fun i => if 0 < R i x then 1 else 0) (if x = b ∨ x = d then Equiv.swap a c i else i) := by
    intro i
    rw [signedSwap_apply R a b c d hac hbd]
    by_cases hxb : x = b
    · subst hxb
      by_cases hia : i = a
      · subst hia; simp [Equiv.swap_apply_def, hp2]
      · by_cases hic : i = c
        · subst hic; simp [Equiv.swap_apply_def, hac.symm, hp1]
        · simp [Equiv.swap_apply_def, hia, hic]
    · by_cases hxd : x = d
      · subst hxd
        by_cases hia : i = a
        · subst hia; simp [Equiv.swap_apply_def, hbd.symm, hp1]
        · by_cases hic : i = c
          · subst hic; simp [Equiv.swap_apply_def, hac.symm, hbd.symm, hp2]
          · simp [Equiv.swap_apply_def, hia, hic]
      · simp [Equiv.swap_apply_def, hxb, hxd]
  simp only [key]
  by_cases h : x = b ∨ x = d
  · simp only [h, if_true]; exact Equiv.sum_comp (Equiv.swap a c) (fun i => if 0 < R i x then 1 else 0)
  · simp only [h, if_false]
#print axioms colPos_swap
