import Mathlib.Order.WithBot
import Mathlib.Algebra.Order.Monoid.WithTop
import Mathlib.Algebra.Order.Field.Rat
import Mathlib.Data.List.Chain
import Mathlib.Tactic

/-! prototype: distance spec, certificate hub lemma, Floyd triangle invariant -/

variable {n : ℕ}

abbrev Len := WithTop ℚ
abbrev LMat (n : ℕ) := Fin n → Fin n → Len      -- ⊤ = no connection

/-- length of the walk `i :: p` (vertex list), following consecutive vertices -/
def walkLen (L : LMat n) : Fin n → List (Fin n) → Len
  | _, [] => 0
  | i, j :: p => L i j + walkLen L j p

/-- last vertex of the walk `i :: p` -/
def walkEnd : Fin n → List (Fin n) → Fin n
  | i, [] => i
  | _, j :: p => walkEnd j p

structure IsDist (L : LMat n) (D : LMat n) : Prop where
  lower : ∀ i p, D i (walkEnd i p) ≤ walkLen L i p
  attained : ∀ i j, D i j < ⊤ → ∃ p, walkEnd i p = j ∧ walkLen L i p = D i j

/-- certificate hub: zero diagonal + edge feasibility ⇒ D is a lower bound on every walk -/
theorem lower_of_feasible (L D : LMat n) (h0 : ∀ i, D i i ≤ 0)
    (hf : ∀ i k j, D i j ≤ D i k + L k j) :
    ∀ i p, D i (walkEnd i p) ≤ walkLen L i p := by
  -- generalise: D s (end of walk from i) ≤ D s i + len
  have gen : ∀ (p : List (Fin n)) (s i : Fin n), D s (walkEnd i p) ≤ D s i + walkLen L i p := by
    intro p
    induction p with
    | nil => intro s i; simp [walkEnd, walkLen]
    | cons j p ih =>
      intro s i
      simp only [walkEnd, walkLen]
      calc D s (walkEnd j p) ≤ D s j + walkLen L j p := ih s j
        _ ≤ (D s i + L i j) + walkLen L j p := by gcongr; exact hf s i j
        _ = D s i + (L i j + walkLen L j p) := by rw [add_assoc]
  intro i p
  calc D i (walkEnd i p) ≤ D i i + walkLen L i p := gen p i i
    _ ≤ 0 + walkLen L i p := by gcongr; exact h0 i
    _ = walkLen L i p := by simp

theorem isDist_unique (L D D' : LMat n) (h : IsDist L D) (h' : IsDist L D') : D = D' := by
  funext i j
  apply le_antisymm
  · by_cases hj : D' i j < ⊤
    · obtain ⟨p, hp, hl⟩ := h'.attained i j hj
      rw [← hl, ← hp]; exact h.lower i p
    · simp only [not_lt, top_le_iff] at hj; rw [hj]; exact le_top
  · by_cases hj : D i j < ⊤
    · obtain ⟨p, hp, hl⟩ := h.attained i j hj
      rw [← hl, ← hp]; exact h'.lower i p
    · simp only [not_lt, top_le_iff] at hj; rw [hj]; exact le_top

/-- one vectorised Floyd stage (all updates read the old matrix) -/
def fwStage (D : LMat n) (k : Fin n) : LMat n := fun i j => min (D i j) (D i k + D k j)

/-- triangle inequality through the processed set is preserved, purely algebraically -/
theorem fwStage_triangle (D : LMat n) (S : Fin n → Prop) (m : Fin n)
    (hnn : ∀ i j, 0 ≤ D i j)
    (hS : ∀ k, S k → ∀ i j, D i j ≤ D i k + D k j) :
    ∀ k, (S k ∨ k = m) → ∀ i j, fwStage D m i j ≤ fwStage D m i k + fwStage D m k j := by
  intro k hk i j
  simp only [fwStage]
  rcases hk with hk | rfl
  · -- old processed node k
    have T := hS k hk
    rw [min_le_iff, ]
    by_cases h1 : D i k ≤ D i m + D m k <;> by_cases h2 : D k j ≤ D k m + D m j
    · left; rw [min_eq_left h1, min_eq_left h2]; exact T i j
    · right; rw [min_eq_left h1, min_eq_right (le_of_not_ge h2)]
      calc D i m + D m j ≤ (D i k + D k m) + D m j := by gcongr; exact T i m
        _ = D i k + (D k m + D m j) := by rw [add_assoc]
    · right; rw [min_eq_right (le_of_not_ge h1), min_eq_left h2]
      calc D i m + D m j ≤ D i m + (D m k + D k j) := by gcongr; exact T m j
        _ = D i m + D m k + D k j := by rw [add_assoc]
    · right; rw [min_eq_right (le_of_not_ge h1), min_eq_right (le_of_not_ge h2)]
      calc D i m + D m j ≤ D i m + (D m k + D k m) + D m j := by
              gcongr
              calc D i m = D i m + 0 := by simp
                _ ≤ D i m + (D m k + D k m) := by gcongr; exact add_nonneg (hnn _ _) (hnn _ _)
        _ = D i m + D m k + (D k m + D m j) := by simp only [add_assoc]
  · -- the node being processed
    rw [min_le_iff]; right
    have e1 : min (D i k) (D i k + D k k) = D i k := min_eq_left (by
      calc D i k = D i k + 0 := by simp
        _ ≤ D i k + D k k := by gcongr; exact hnn _ _)
    have e2 : min (D k j) (D k k + D k j) = D k j := min_eq_left (by
      calc D k j = 0 + D k j := by simp
        _ ≤ D k k + D k j := by gcongr; exact hnn _ _)
    rw [e1, e2]

#print axioms lower_of_feasible
#print axioms isDist_unique
#print axioms fwStage_triangle
