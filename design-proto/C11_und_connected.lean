import Mathlib.Logic.Relation
import Mathlib.Tactic

open Relation

variable {V : Type} [DecidableEq V]

def isE (x y u v : V) : Prop := (u = x ∧ v = y) ∨ (u = y ∧ v = x)

/-- graph minus the two edges being removed -/
def G' (adj : V → V → Prop) (a b c d : V) (u v : V) : Prop := adj u v ∧ ¬ isE a b u v ∧ ¬ isE c d u v
/-- graph after the swap -/
def G'' (adj : V → V → Prop) (a b c d : V) (u v : V) : Prop := G' adj a b c d u v ∨ isE a d u v ∨ isE c b u v

def Conn (r : V → V → Prop) : Prop := ∀ u v, ReflTransGen r u v

theorem G'_symm (adj : V → V → Prop) (hs : ∀ u v, adj u v → adj v u) (a b c d u v : V) :
    G' adj a b c d u v → G' adj a b c d v u := by
  intro ⟨h1, h2, h3⟩
  refine ⟨hs _ _ h1, ?_, ?_⟩
  · intro h; apply h2; unfold isE at *; tauto
  · intro h; apply h3; unfold isE at *; tauto

theorem reach_symm (r : V → V → Prop) (hs : ∀ u v, r u v → r v u) {u v : V}
    (h : ReflTransGen r u v) : ReflTransGen r v u := by
  induction h with
  | refl => exact ReflTransGen.refl
  | tail _ hbc ih => exact ReflTransGen.head (hs _ _ hbc) ih

theorem und_swap_connected (adj : V → V → Prop) (hs : ∀ u v, adj u v → adj v u)
    (a b c d : V) (hconn : Conn adj)
    (htest : ReflTransGen (G' adj a b c d) a b ∨ ReflTransGen (G' adj a b c d) a c ∨
             ReflTransGen (G' adj a b c d) d c ∨ ReflTransGen (G' adj a b c d) d b) :
    Conn (G'' adj a b c d) := by
  have sub : ∀ {u v}, ReflTransGen (G' adj a b c d) u v → ReflTransGen (G'' adj a b c d) u v :=
    fun {u v} h => (ReflTransGen.mono (fun _ _ h => Or.inl h)) u v h
  have symR := fun {u v} (h : ReflTransGen (G' adj a b c d) u v) =>
    reach_symm (G' adj a b c d) (G'_symm adj hs a b c d) h
  have ad : ReflTransGen (G'' adj a b c d) a d := ReflTransGen.single (Or.inr (Or.inl (Or.inl ⟨rfl, rfl⟩)))
  have da : ReflTransGen (G'' adj a b c d) d a := ReflTransGen.single (Or.inr (Or.inl (Or.inr ⟨rfl, rfl⟩)))
  have cb : ReflTransGen (G'' adj a b c d) c b := ReflTransGen.single (Or.inr (Or.inr (Or.inl ⟨rfl, rfl⟩)))
  have bc : ReflTransGen (G'' adj a b c d) b c := ReflTransGen.single (Or.inr (Or.inr (Or.inr ⟨rfl, rfl⟩)))
  -- the two removed edges are simulated by paths in the new graph
  have hab : ReflTransGen (G'' adj a b c d) a b ∧ ReflTransGen (G'' adj a b c d) c d := by
    rcases htest with h | h | h | h
    · exact ⟨sub h, cb.trans ((sub (symR h)).trans ad)⟩
    · exact ⟨(sub h).trans cb, (sub (symR h)).trans ad⟩
    · exact ⟨ad.trans ((sub h).trans cb), sub (symR h)⟩
    · exact ⟨ad.trans (sub h), cb.trans (sub (symR h))⟩
  have hba : ReflTransGen (G'' adj a b c d) b a ∧ ReflTransGen (G'' adj a b c d) d c := by
    have s'' : ∀ u v, G'' adj a b c d u v → G'' adj a b c d v u := by
      intro u v h
      rcases h with h | h | h
      · exact Or.inl (G'_symm adj hs a b c d u v h)
      · right; left; unfold isE at *; tauto
      · right; right; unfold isE at *; tauto
    exact ⟨reach_symm _ s'' hab.1, reach_symm _ s'' hab.2⟩
  -- every old edge is simulated
  have step : ∀ u v, adj u v → ReflTransGen (G'' adj a b c d) u v := by
    intro u v huv
    by_cases h1 : isE a b u v
    · rcases h1 with ⟨rfl, rfl⟩ | ⟨rfl, rfl⟩
      · exact hab.1
      · exact hba.1
    · by_cases h2 : isE c d u v
      · rcases h2 with ⟨rfl, rfl⟩ | ⟨rfl, rfl⟩
        · exact hab.2
        · exact hba.2
      · exact ReflTransGen.single (Or.inl ⟨huv, h1, h2⟩)
  intro u v
  have := hconn u v
  induction this with
  | refl => exact ReflTransGen.refl
  | tail _ hbc ih => exact ih.trans (step _ _ hbc)

#print axioms und_swap_connected
