import Mathlib.Algebra.BigOperators.Group.Finset.Basic
import Mathlib.Algebra.BigOperators.Ring.Finset
import Mathlib.Data.Fintype.BigOperators
import Mathlib.Algebra.Order.Field.Rat
import Mathlib.Tactic

open Finset

variable {n : ℕ}

/-- objective: sum of B over ordered pairs of nodes with equal labels -/
def Qobj (B : Fin n → Fin n → ℚ) (c : Fin n → ℕ) : ℚ :=
  ∑ i, ∑ j, if c i = c j then B i j else 0

/-- node-to-module sum as the code keeps it: Hnm[u,m] = Σ_{j : c j = m} B u j -/
def Hnm (B : Fin n → Fin n → ℚ) (c : Fin n → ℕ) (u : Fin n) (m : ℕ) : ℚ :=
  ∑ j, if c j = m then B u j else 0

/-- the code's gain: dQ[mb] = Hnm[u,mb] − Hnm[u,ma] + B[u,u] -/
def dq (B : Fin n → Fin n → ℚ) (c : Fin n → ℕ) (u : Fin n) (mb : ℕ) : ℚ :=
  Hnm B c u mb - Hnm B c u (c u) + B u u

theorem move_gain_obj (B : Fin n → Fin n → ℚ) (hB : ∀ i j, B i j = B j i)
    (c : Fin n → ℕ) (u : Fin n) (mb : ℕ) (hne : c u ≠ mb) :
    Qobj B (Function.update c u mb) - Qobj B c = 2 * dq B c u mb := by
  classical
  set c' := Function.update c u mb with hc'
  have hcu : c' u = mb := by simp [hc']
  have hco : ∀ i, i ≠ u → c' i = c i := by intro i hi; simp [hc', hi]
  -- split the double sum into the four blocks (i = u?, j = u?)
  have split : ∀ (f : Fin n → Fin n → ℚ), (∑ i, ∑ j, f i j)
      = f u u + (∑ j ∈ univ.erase u, f u j) + (∑ i ∈ univ.erase u, f i u)
        + ∑ i ∈ univ.erase u, ∑ j ∈ univ.erase u, f i j := by
    intro f
    rw [← Finset.add_sum_erase univ _ (mem_univ u)]
    rw [← Finset.add_sum_erase univ (fun j => f u j) (mem_univ u)]
    have : ∑ i ∈ univ.erase u, ∑ j, f i j
        = ∑ i ∈ univ.erase u, f i u + ∑ i ∈ univ.erase u, ∑ j ∈ univ.erase u, f i j := by
      rw [← Finset.sum_add_distrib]
      refine Finset.sum_congr rfl (fun i _ => ?_)
      rw [← Finset.add_sum_erase univ (fun j => f i j) (mem_univ u)]
    rw [this]; ring
  unfold Qobj
  rw [split (fun i j => if c' i = c' j then B i j else 0), split (fun i j => if c i = c j then B i j else 0)]
  -- the (≠u, ≠u) block is unchanged
  have blk : (∑ i ∈ univ.erase u, ∑ j ∈ univ.erase u, if c' i = c' j then B i j else 0)
      = ∑ i ∈ univ.erase u, ∑ j ∈ univ.erase u, if c i = c j then B i j else 0 := by
    refine Finset.sum_congr rfl (fun i hi => Finset.sum_congr rfl (fun j hj => ?_))
    rw [hco i (ne_of_mem_erase hi), hco j (ne_of_mem_erase hj)]
  -- the column block equals the row block by symmetry
  have colrow' : (∑ i ∈ univ.erase u, if c' i = c' u then B i u else 0)
      = ∑ j ∈ univ.erase u, if c' u = c' j then B u j else 0 := by
    refine Finset.sum_congr rfl (fun i _ => ?_); rw [hB i u]; simp [eq_comm]
  have colrow : (∑ i ∈ univ.erase u, if c i = c u then B i u else 0)
      = ∑ j ∈ univ.erase u, if c u = c j then B u j else 0 := by
    refine Finset.sum_congr rfl (fun i _ => ?_); rw [hB i u]; simp [eq_comm]
  rw [blk, colrow', colrow]
  -- rewrite row blocks in terms of Hnm
  have rowb' : (∑ j ∈ univ.erase u, if c' u = c' j then B u j else 0) = Hnm B c u mb := by
    unfold Hnm
    rw [← Finset.add_sum_erase univ (fun j => if c j = mb then B u j else 0) (mem_univ u)]
    simp only [hne, if_false, zero_add]
    refine Finset.sum_congr rfl (fun j hj => ?_)
    rw [hcu, hco j (ne_of_mem_erase hj)]; simp [eq_comm]
  have rowb : (∑ j ∈ univ.erase u, if c u = c j then B u j else 0) = Hnm B c u (c u) - B u u := by
    unfold Hnm
    rw [← Finset.add_sum_erase univ (fun j => if c j = c u then B u j else 0) (mem_univ u)]
    simp only [if_true]
    have : (∑ j ∈ univ.erase u, if c u = c j then B u j else 0)
        = ∑ j ∈ univ.erase u, if c j = c u then B u j else 0 :=
      Finset.sum_congr rfl (fun j _ => by simp [eq_comm])
    rw [this]; ring
  rw [rowb', rowb]
  unfold dq
  simp only [if_true]
  ring

#print axioms move_gain_obj
