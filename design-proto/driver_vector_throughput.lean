/-! scratch: driver throughput with Vector-backed matrices -/
abbrev AMat (n : Nat) := Vector (Vector Int n) n

@[inline] def AMat.get {n} (A : AMat n) (i j : Fin n) : Int := A[i][j]
@[inline] def AMat.set {n} (A : AMat n) (i j : Fin n) (v : Int) : AMat n := Vector.set A i (Vector.set A[i] j v)

theorem AMat.get_set {n} (A : AMat n) (i j i' j' : Fin n) (v : Int) :
    (A.set i j v).get i' j' = if i' = i ∧ j' = j then v else A.get i' j' := by
  unfold AMat.get AMat.set
  by_cases hi : i' = i
  · subst hi
    by_cases hj : j' = j
    · subst hj; simp
    · have : (j : Nat) ≠ j' := fun h => hj (Fin.ext h.symm)
      simp [hj, Vector.getElem_set, this]
  · have : (i : Nat) ≠ i' := fun h => hi (Fin.ext h.symm)
    simp [hi, Vector.getElem_set, this]

def swapDir {n} (R : AMat n) (a b c d : Fin n) : AMat n :=
  let R1 := R.set a d (R.get a b)
  let R2 := R1.set a b 0
  let R3 := R2.set c b (R2.get c d)
  R3.set c d 0

def parseMat (n : Nat) (s : String) : AMat n :=
  let xs : Array Int := ((s.splitOn ",").map String.toInt!).toArray
  Vector.ofFn fun i => Vector.ofFn fun j => xs[i.val * n + j.val]!

def showMat {n} (R : AMat n) : String :=
  ",".intercalate ((List.finRange n).flatMap fun i => (List.finRange n).map fun j => toString (R.get i j))

def go {n} (h : 0 < n) (R : AMat n) : List Nat → AMat n
  | a :: b :: c :: d :: rest =>
    let f (x : Nat) : Fin n := ⟨x % n, Nat.mod_lt _ h⟩
    let (a,b,c,d) := (f a, f b, f c, f d)
    if a ≠ c ∧ a ≠ d ∧ b ≠ c ∧ b ≠ d ∧ R.get a b ≠ 0 ∧ R.get c d ≠ 0 ∧ R.get a d = 0 ∧ R.get c b = 0
    then go h (swapDir R a b c d) rest else go h R rest
  | _ => R

def step (line : String) : String :=
  match line.trimAscii.toString.splitOn " " with
  | [ns, rs, ds] =>
    match ns.toNat? with
    | some n =>
      if h : 0 < n then
        showMat (go h (parseMat n rs) ((ds.splitOn ",").map String.toNat!))
      else "error=protocol"
    | none => "error=protocol"
  | _ => "error=protocol"

partial def loop (h : IO.FS.Stream) : IO Unit := do
  let line ← h.getLine
  if line.isEmpty then return ()
  IO.println (step line)
  loop h

def main : IO Unit := do loop (← IO.getStdin)
