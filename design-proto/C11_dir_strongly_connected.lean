import Mathlib.Logic.Relation
import Mathlib.Tactic

/-! prototype C11 (directed): the accepted swap keeps the digraph strongly connected -/
open Relation
variable {V : Type}

/-- digraph after the swap: rows a and c lose b resp. d and gain d resp. b -/
def Gd (adj : V → V → Prop) (a b c d : V) (u v : V) : Prop :=
  (adj u v ∧ ¬ (u = a ∧ v = b) ∧ ¬ (u = c ∧ v = d)) ∨ (u = a ∧ v = d) ∨ (u = c ∧ v = b)

def SConn (r : V → V → Prop) : Prop := ∀ u v, ReflTransGen r u v

theorem dir_swap_strongly_connected (adj : V → V → Prop) (a b c d : V) (hconn : SConn adj)
    (h0 : ReflTransGen (Gd adj a b c d) a b ∨ ReflTransGen (Gd adj a b c d) a c)
    (h1 : ReflTransGen (Gd adj a b c d) c d ∨ ReflTransGen (Gd adj a b c d) c a) :
    SConn (Gd adj a b c d) := by
  have ad : ReflTransGen (Gd adj a b c d) a d := ReflTransGen.single (Or.inr (Or.inl ⟨rfl, rfl⟩))
  have cb : ReflTransGen (Gd adj a b c d) c b := ReflTransGen.single (Or.inr (Or.inr ⟨rfl, rfl⟩))
  -- the two removed arcs are simulated by paths of the new digraph
  have hab : ReflTransGen (Gd adj a b c d) a b := by
    rcases h0 with h | h
    · exact h
    · exact h.trans cb
  have hcd : ReflTransGen (Gd adj a b c d) c d := by
    rcases h1 with h | h
    · exact h
    · exact h.trans ad
  have step : ∀ u v, adj u v → ReflTransGen (Gd adj a b c d) u v := by
    intro u v huv
    by_cases e1 : u = a ∧ v = b
    · obtain ⟨rfl, rfl⟩ := e1; exact hab
    · by_cases e2 : u = c ∧ v = d
      · obtain ⟨rfl, rfl⟩ := e2; exact hcd
      · exact ReflTransGen.single (Or.inl ⟨huv, e1, e2⟩)
  intro u v
  have := hconn u v
  induction this with
  | refl => exact ReflTransGen.refl
  | tail _ hbc ih => exact ih.trans (step _ _ hbc)
#print axioms dir_swap_strongly_connected
