import Lt.FloydModel
import Mathlib.Order.WithBot
import Mathlib.Algebra.Order.Monoid.WithTop
import Mathlib.Algebra.Order.Field.Rat
import Mathlib.Tactic

/-! proof layer: identify `Ext` with `WithTop ℚ`, lift the stage to the function level -/
abbrev Len := WithTop ℚ

def Ext.toLen : Ext → Len
  | .fin q => (q : ℚ)
  | .inf => ⊤

theorem Ext.toLen_add (a b : Ext) : (a + b).toLen = a.toLen + b.toLen := by
  cases a <;> cases b <;> simp [Ext.toLen, HAdd.hAdd, Add.add, Ext.add] <;> rfl

theorem Ext.lt_iff (a b : Ext) : Ext.lt a b = true ↔ a.toLen < b.toLen := by
  cases a <;> cases b <;> simp [Ext.lt, Ext.toLen]

variable {n : ℕ}
def toFun (A : AMat n) : Fin n → Fin n → Len := fun i j => (A.get i j).toLen

/-- the executable stage refines the function-level stage `min (D i j) (D i k + D k j)` -/
theorem toFun_floydStage (D : AMat n) (k : Fin n) :
    toFun (floydStage D k) = fun i j => min (toFun D i j) (toFun D i k + toFun D k j) := by
  funext i j
  simp only [toFun, AMat.get_floydStage]
  by_cases h : Ext.lt (D.get i k + D.get k j) (D.get i j) = true
  · simp only [h, if_true]
    have := (Ext.lt_iff _ _).mp h
    rw [Ext.toLen_add] at this ⊢
    exact (min_eq_right (le_of_lt this)).symm
  · simp only [h]
    have : ¬ (D.get i k + D.get k j).toLen < (D.get i j).toLen := fun hh => h ((Ext.lt_iff _ _).mpr hh)
    rw [Ext.toLen_add] at this
    simp only [Bool.false_eq_true, if_false]
    exact (min_eq_left (not_lt.mp this)).symm
#print axioms toFun_floydStage
