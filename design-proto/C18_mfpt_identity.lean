import Mathlib.Data.Matrix.Basic
import Mathlib.Data.Matrix.Mul
import Mathlib.Algebra.BigOperators.Field
import Mathlib.Algebra.Order.Field.Rat
import Mathlib.Tactic

/-! prototype C18: the fundamental-matrix formula of mean_first_passage_time satisfies the
    first-passage recurrence, over any field -/
open Finset Matrix

variable {n : ℕ} {K : Type} [Field K]

theorem mfpt_eq (P Z A : Matrix (Fin n) (Fin n) K) (w : Fin n → K)
    (hP : ∀ i, ∑ k, P i k = 1)                       -- row-stochastic
    (hw : ∀ j, ∑ k, w k * P k j = w j)               -- stationary
    (hw1 : ∑ k, w k = 1)
    (hA : ∀ i j, A i j = (if i = j then 1 else 0) - P i j + w j)   -- A = I − P + 1·wᵀ
    (hZ : A * Z = 1)                                  -- Z = A⁻¹
    (i j : Fin n) (hij : i ≠ j) (hwj : w j ≠ 0) :
    (Z j j - Z i j) / w j = 1 + ∑ k ∈ univ.erase j, P i k * ((Z j j - Z k j) / w j) := by
  classical
  have hZ' : ∀ q c, ∑ r, A q r * Z r c = if q = c then 1 else 0 := by
    intro q c
    have := congrFun (congrFun hZ q) c
    simpa [Matrix.mul_apply, Matrix.one_apply] using this
  -- wᵀ A = wᵀ
  have hwA : ∀ c, ∑ r, w r * A r c = w c := by
    intro c
    simp only [hA, mul_add, mul_sub, Finset.sum_add_distrib, Finset.sum_sub_distrib]
    rw [hw c, ← Finset.sum_mul, hw1]
    simp
  -- hence wᵀ Z = wᵀ
  have hwZ : ∀ c, ∑ r, w r * Z r c = w c := by
    intro c
    calc ∑ r, w r * Z r c = ∑ r, (∑ q, w q * A q r) * Z r c := by
            refine Finset.sum_congr rfl (fun r _ => ?_); rw [hwA r]
      _ = ∑ q, w q * ∑ r, A q r * Z r c := by
            simp only [Finset.sum_mul, Finset.mul_sum]
            rw [Finset.sum_comm]
            refine Finset.sum_congr rfl (fun q _ => Finset.sum_congr rfl (fun r _ => ?_)); ring
      _ = ∑ q, w q * (if q = c then 1 else 0) := by
            refine Finset.sum_congr rfl (fun q _ => ?_); rw [hZ' q c]
      _ = w c := by simp
  -- (P Z) i j = Z i j + w j − δ i j
  have hPZ : ∑ k, P i k * Z k j = Z i j + w j - (if i = j then 1 else 0) := by
    have := hZ' i j
    simp only [hA, add_mul, sub_mul, Finset.sum_add_distrib, Finset.sum_sub_distrib] at this
    rw [hwZ j] at this
    have e : ∑ x, (if i = x then (1:K) else 0) * Z x j = Z i j := by simp
    rw [e] at this
    linear_combination -this
  have hfull : ∑ k ∈ univ.erase j, P i k * ((Z j j - Z k j) / w j)
      = ∑ k, P i k * ((Z j j - Z k j) / w j) := by
    rw [← Finset.add_sum_erase univ _ (mem_univ j)]; simp
  rw [hfull]
  have : ∑ k, P i k * ((Z j j - Z k j) / w j)
      = (Z j j * ∑ k, P i k - ∑ k, P i k * Z k j) / w j := by
    rw [Finset.mul_sum, ← Finset.sum_sub_distrib, Finset.sum_div]
    refine Finset.sum_congr rfl (fun k _ => ?_); ring
  rw [this, hP i, hPZ]
  simp only [hij, if_false]
  field_simp
  ring
#print axioms mfpt_eq
