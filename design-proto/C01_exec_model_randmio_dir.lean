/-! scratch: executable model of (repaired) randmio_dir with exact loop budgets, Vector-backed, draws as input -/
abbrev AMat (n : Nat) := Vector (Vector Int n) n
@[inline] def AMat.get {n} (A : AMat n) (i j : Fin n) : Int := A[i][j]
@[inline] def AMat.set {n} (A : AMat n) (i j : Fin n) (v : Int) : AMat n := Vector.set A i (Vector.set A[i] j v)

structure St (n k : Nat) where
  R : AMat n
  i : Vector (Fin n) k
  j : Vector (Fin n) k
  eff : Nat

inductive Err | outOfDraws | badDraw | protocol
  deriving Repr

def swapDir {n} (R : AMat n) (a b c d : Fin n) : AMat n :=
  let R1 := R.set a d (R.get a b)
  let R2 := R1.set a b 0
  let R3 := R2.set c b (R2.get c d)
  R3.set c d 0

/-- np.round of the rational p/q (q>0): round half to even -/
def roundHalfEven (p q : Nat) : Nat :=
  let f := p / q
  let r2 := 2 * (p % q)
  if r2 < q then f else if r2 > q then f + 1 else if f % 2 == 0 then f else f + 1

def asFin (k x : Nat) : Except Err (Fin k) := if h : x < k then .ok ⟨x, h⟩ else .error .badDraw

/-- `while e1 == e2: e2 = rng.randint(k)` -/
def redraw {k} (e1 : Fin k) : Fin k → List Nat → Except Err (Fin k × List Nat)
  | e2, ds => if e1 ≠ e2 then .ok (e2, ds) else
      match ds with
      | [] => .error .outOfDraws
      | x :: ds' => do let e2' ← asFin k x; redraw e1 e2' ds'

theorem redraw_len {k} (e1 : Fin k) : ∀ (ds : List Nat) (e2 e2' : Fin k) (ds' : List Nat),
    redraw e1 e2 ds = .ok (e2', ds') → ds'.length ≤ ds.length := by
  intro ds
  induction ds with
  | nil => intro e2 e2' ds' h; unfold redraw at h; split at h <;> simp_all
  | cons x ds ih =>
    intro e2 e2' ds' h
    unfold redraw at h
    split at h
    · simp at h; rw [← h.2]; simp
    · simp only [bind, Except.bind] at h
      cases hx : asFin k x with
      | error e => simp [hx] at h
      | ok v => simp [hx] at h; have := ih v e2' ds' h; simp; omega

/-- draw two distinct edge indices whose four endpoints are admissible; consumes draws -/
def pickPair {n k} (s : St n k) : (fuel : Nat) → List Nat → Except Err ((Fin k × Fin k) × List Nat)
  | 0, _ => .error .outOfDraws
  | fuel + 1, x1 :: x2 :: rest => do
    let e1 ← asFin k x1
    let e2 ← asFin k x2
    let (e2, rest) ← redraw e1 e2 rest
    let a := s.i[e1]; let b := s.j[e1]; let c := s.i[e2]; let d := s.j[e2]
    if a ≠ c ∧ a ≠ d ∧ b ≠ c ∧ b ≠ d then .ok ((e1, e2), rest)
    else pickPair s fuel rest
  | _, _ => .error .outOfDraws

def attempts {n k} (maxAtt : Nat) : (budget : Nat) → St n k → List Nat → Except Err (St n k × List Nat)
  | 0, s, ds => .ok (s, ds)                       -- att > max_attempts
  | budget + 1, s, ds => do
    let ((e1, e2), rest) ← pickPair s ds.length ds
    let a := s.i[e1]; let b := s.j[e1]; let c := s.i[e2]; let d := s.j[e2]
    if s.R.get a d ≠ 0 ∨ s.R.get c b ≠ 0 then attempts maxAtt budget s rest
    else .ok ({ R := swapDir s.R a b c d, i := s.i, j := (s.j.set e1 d).set e2 b, eff := s.eff + 1 }, rest)

def run {n k} (maxAtt : Nat) : Nat → St n k → List Nat → Except Err (St n k × List Nat)
  | 0, s, ds => .ok (s, ds)
  | it + 1, s, ds => do
    let (s', ds') ← attempts maxAtt (maxAtt + 1) s ds
    run maxAtt it s' ds'

def parseMat (n : Nat) (s : String) : AMat n :=
  let xs : Array Int := ((s.splitOn ",").map String.toInt!).toArray
  Vector.ofFn fun i => Vector.ofFn fun j => xs[i.val * n + j.val]!

def showMat {n} (R : AMat n) : String :=
  ",".intercalate ((List.finRange n).flatMap fun i => (List.finRange n).map fun j => toString (R.get i j))

def edgeCells {n} (R : AMat n) : List (Fin n × Fin n) :=
  (List.finRange n).flatMap fun i => ((List.finRange n).filter fun j => R.get i j ≠ 0).map fun j => (i, j)

def step (line : String) : String :=
  match line.trimAscii.toString.splitOn " " with
  | [ns, itrs, rs, ds] =>
    match ns.toNat?, itrs.toNat? with
    | some n, some itr =>
      if n < 2 then "error=protocol" else
      let R := parseMat n rs
      let cells := (edgeCells R).toArray
      let iv : Vector (Fin n) cells.size := Vector.ofFn fun e => cells[e].1
      let jv : Vector (Fin n) cells.size := Vector.ofFn fun e => cells[e].2
      let k := cells.size
      let maxAtt := roundHalfEven (n * k) (n * (n - 1))
      let ds : List Nat := if ds == "-" then [] else (ds.splitOn ",").map String.toNat!
      match run maxAtt (itr * k) ({ R := R, i := iv, j := jv, eff := 0 } : St n cells.size) ds with
      | .error e => s!"error={repr e}"
      | .ok (s, rest) => s!"R={showMat s.R} eff={s.eff} left={rest.length}"
    | _, _ => "error=protocol"
  | _ => "error=protocol"
