/-! core-only executable model of distance_wei_floyd's main loop (SPL only) on Vector-backed matrices -/

inductive Ext | fin (q : Rat) | inf
  deriving DecidableEq, Repr

namespace Ext
def add : Ext → Ext → Ext
  | fin a, fin b => fin (a + b)
  | _, _ => inf
def lt : Ext → Ext → Bool
  | fin a, fin b => a < b
  | fin _, inf => true
  | inf, _ => false
instance : Add Ext := ⟨add⟩
end Ext

abbrev AMat (n : Nat) := Vector (Vector Ext n) n
@[inline] def AMat.get {n} (A : AMat n) (i j : Fin n) : Ext := A[i][j]

/-- one vectorised stage: every entry reads the *old* matrix -/
def floydStage {n} (D : AMat n) (k : Fin n) : AMat n :=
  Vector.ofFn fun i => Vector.ofFn fun j =>
    let via := D.get i k + D.get k j
    if Ext.lt via (D.get i j) then via else D.get i j        -- SPL > i2k_k2j  ⇒ take the detour

def floyd {n} (D : AMat n) : AMat n := (List.finRange n).foldl floydStage D

theorem AMat.get_floydStage {n} (D : AMat n) (k i j : Fin n) :
    (floydStage D k).get i j =
      (let via := D.get i k + D.get k j; if Ext.lt via (D.get i j) then via else D.get i j) := by
  simp [floydStage, AMat.get]
