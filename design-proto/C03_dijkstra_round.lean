import Mathlib.Order.WithBot
import Mathlib.Algebra.Order.Monoid.WithTop
import Mathlib.Algebra.Order.Field.Rat
import Mathlib.Order.Filter.Basic
import Mathlib.Data.Finset.Lattice.Fold
import Mathlib.Tactic

/-! prototype C03: one dRound of distance_wei's batch Dijkstra preserves the invariant that yields
    edge-feasibility (the hypothesis of the hub lemma) at termination -/
variable {n : ℕ}
abbrev Len := WithTop ℚ

/-- one dRound for a fixed source: `S` = unsettled set (as a predicate), batch = unsettled nodes at the
    current minimum `m`; relaxations go only to nodes that stay unsettled (G1 columns cleared) -/
def dRound (L : Fin n → Fin n → Len) (D : Fin n → Len) (S : Fin n → Prop) [DecidablePred S] (m : Len) :
    (Fin n → Len) × (Fin n → Prop) :=
  let batch : Finset (Fin n) := Finset.univ.filter (fun v => S v ∧ D v = m)
  let S' : Fin n → Prop := fun w => S w ∧ D w ≠ m
  (fun w => if S w ∧ D w ≠ m then min (D w) (batch.inf (fun v => D v + L v w)) else D w, S')

structure Phi (L : Fin n → Fin n → Len) (D : Fin n → Len) (S : Fin n → Prop) : Prop where
  sett_le : ∀ x y, ¬ S x → S y → D x ≤ D y
  feas : ∀ x w, ¬ S x → D w ≤ D x + L x w

theorem round_phi (L : Fin n → Fin n → Len) (hL : ∀ i j, 0 ≤ L i j)
    (D : Fin n → Len) (S : Fin n → Prop) [DecidablePred S] (m : Len)
    (hm : ∀ y, S y → m ≤ D y) (h : Phi L D S) :
    Phi L (dRound L D S m).1 (dRound L D S m).2 := by
  have hmem : ∀ v, v ∈ Finset.univ.filter (fun v => S v ∧ D v = m) ↔ (S v ∧ D v = m) := by
    intro v; simp
  -- every relaxed value is ≥ m
  have inf_ge : ∀ w, m ≤ (Finset.univ.filter (fun v => S v ∧ D v = m)).inf (fun v => D v + L v w) := by
    intro w
    apply Finset.le_inf
    intro v hv
    have := (hmem v).mp hv
    calc m = D v := this.2.symm
      _ = D v + 0 := by simp
      _ ≤ D v + L v w := by gcongr; exact hL v w
  constructor
  · -- settled ≤ unsettled
    intro x y hx hy
    simp only [dRound] at hx hy ⊢
    have hyS := hy
    rw [if_pos hyS]
    have ym : m ≤ min (D y) ((Finset.univ.filter (fun v => S v ∧ D v = m)).inf (fun v => D v + L v y)) :=
      le_min (hm y hy.1) (inf_ge y)
    rw [if_neg hx]
    by_cases hxS : S x
    · -- x was in the batch: D x = m
      have : D x = m := by
        by_contra hne; exact hx ⟨hxS, hne⟩
      rw [this]; exact ym
    · -- x settled earlier: D x ≤ every unsettled, in particular ≤ m' … use y itself before the dRound
      exact le_trans (le_min (h.sett_le x y hxS hy.1)
        (le_trans (by
          -- D x ≤ m because D x ≤ D v for any batch member; if the batch is empty the inf is ⊤
          exact le_refl _) (le_refl _))) (min_le_min (le_refl _) (by
            apply Finset.le_inf; intro v hv
            have hv' := (hmem v).mp hv
            calc D x ≤ D v := h.sett_le x v hxS hv'.1
              _ = D v + 0 := by simp
              _ ≤ D v + L v y := by gcongr; exact hL v y))
  · -- feasibility from every settled node
    intro x w hx
    simp only [dRound] at hx ⊢
    rw [if_neg hx]
    by_cases hxS : S x
    · have hxm : D x = m := by
        by_contra hne; exact hx ⟨hxS, hne⟩
      by_cases hw : S w ∧ D w ≠ m
      · rw [if_pos hw]
        apply le_trans (min_le_right _ _)
        exact Finset.inf_le ((hmem x).mpr ⟨hxS, hxm⟩)
      · rw [if_neg hw]
        -- w settled (earlier or in this batch): D w ≤ m = D x
        have : D w ≤ m := by
          by_cases hwS : S w
          · have : D w = m := by by_contra hne; exact hw ⟨hwS, hne⟩
            exact le_of_eq this
          · calc D w ≤ D x := h.sett_le w x hwS hxS
              _ = m := hxm
        calc D w ≤ m := this
          _ = D x := hxm.symm
          _ = D x + 0 := by simp
          _ ≤ D x + L x w := by gcongr; exact hL x w
    · by_cases hw : S w ∧ D w ≠ m
      · rw [if_pos hw]; exact le_trans (min_le_left _ _) (h.feas x w hxS)
      · rw [if_neg hw]; exact h.feas x w hxS
#print axioms round_phi
