-- depends on C03_hub_floyd.lean (imported as Lt.Dist in scratch)
import Lt.Dist
/-! prototype C03: the whole Floyd loop yields `IsDist` (function level), via the hub lemma -/
variable {n : ℕ}

theorem walkLen_append (L : LMat n) : ∀ (p q : List (Fin n)) (i : Fin n),
    walkLen L i (p ++ q) = walkLen L i p + walkLen L (walkEnd i p) q := by
  intro p
  induction p with
  | nil => intro q i; simp [walkLen, walkEnd]
  | cons a p ih => intro q i; simp [walkLen, walkEnd, ih, add_assoc]

theorem walkEnd_append : ∀ (p q : List (Fin n)) (i : Fin n),
    walkEnd i (p ++ q) = walkEnd (walkEnd i p) q := by
  intro p
  induction p with
  | nil => intro q i; simp [walkEnd]
  | cons a p ih => intro q i; simp [walkEnd, ih]

structure FwInv (L D : LMat n) (S : Fin n → Prop) : Prop where
  nonneg : ∀ i j, 0 ≤ D i j
  le_init : ∀ i j, D i j ≤ L i j
  tri : ∀ k, S k → ∀ i j, D i j ≤ D i k + D k j
  wit : ∀ i j, D i j < ⊤ → ∃ p, walkEnd i p = j ∧ walkLen L i p = D i j

theorem fwInv_init (L : LMat n) (hL : ∀ i j, 0 ≤ L i j) : FwInv L L (fun _ => False) where
  nonneg := hL
  le_init := fun _ _ => le_refl _
  tri := fun _ h => h.elim
  wit := fun i j _ => ⟨[j], by simp [walkEnd], by simp [walkLen]⟩

theorem fwInv_step (L D : LMat n) (S : Fin n → Prop) (m : Fin n) (h : FwInv L D S) :
    FwInv L (fwStage D m) (fun k => S k ∨ k = m) where
  nonneg := by
    intro i j; simp only [fwStage]
    exact le_min (h.nonneg i j) (add_nonneg (h.nonneg _ _) (h.nonneg _ _))
  le_init := by
    intro i j; simp only [fwStage]
    exact le_trans (min_le_left _ _) (h.le_init i j)
  tri := fwStage_triangle D S m h.nonneg h.tri
  wit := by
    intro i j hfin
    simp only [fwStage] at hfin ⊢
    by_cases hle : D i j ≤ D i m + D m j
    · rw [min_eq_left hle] at hfin ⊢; exact h.wit i j hfin
    · have hlt := not_le.mp hle
      rw [min_eq_right (le_of_lt hlt)] at hfin ⊢
      have f1 : D i m < ⊤ := by
        by_contra hh; simp only [not_lt, top_le_iff] at hh; rw [hh] at hfin; simp at hfin
      have f2 : D m j < ⊤ := by
        by_contra hh; simp only [not_lt, top_le_iff] at hh; rw [hh] at hfin; simp at hfin
      obtain ⟨p, hp, lp⟩ := h.wit i m f1
      obtain ⟨q, hq, lq⟩ := h.wit m j f2
      refine ⟨p ++ q, ?_, ?_⟩
      · rw [walkEnd_append, hp, hq]
      · rw [walkLen_append, hp, lp, lq]

def fw (L : LMat n) (ks : List (Fin n)) : LMat n := ks.foldl fwStage L

theorem fwInv_fold (L : LMat n) : ∀ (ks : List (Fin n)) (D : LMat n) (S : Fin n → Prop),
    FwInv L D S → FwInv L (ks.foldl fwStage D) (fun k => S k ∨ k ∈ ks) := by
  intro ks
  induction ks with
  | nil => intro D S h; simpa using h
  | cons m ks ih =>
    intro D S h
    have := ih (fwStage D m) (fun k => S k ∨ k = m) (fwInv_step L D S m h)
    simp only [List.foldl_cons]
    have e : (fun k => (S k ∨ k = m) ∨ k ∈ ks) = (fun k => S k ∨ k ∈ m :: ks) := by
      funext k; simp only [List.mem_cons, eq_iff_iff]; tauto
    rw [← e]; exact this

/-- final step of distance_wei_floyd: the diagonal is overwritten with 0 -/
def zeroDiag (D : LMat n) : LMat n := fun i j => if i = j then 0 else D i j

theorem floyd_isDist (L : LMat n) (hL : ∀ i j, 0 ≤ L i j) (ks : List (Fin n)) (hall : ∀ k, k ∈ ks) :
    IsDist L (zeroDiag (fw L ks)) := by
  have inv := fwInv_fold L ks L (fun _ => False) (fwInv_init L hL)
  set D := ks.foldl fwStage L with hD
  have tri : ∀ k i j, D i j ≤ D i k + D k j := fun k => inv.tri k (Or.inr (hall k))
  constructor
  · apply lower_of_feasible
    · intro i; simp [zeroDiag]
    · intro i k j
      simp only [zeroDiag, fw, ← hD]
      by_cases hij : i = j
      · simp only [hij, if_true]
        split_ifs
        · exact add_nonneg (le_refl _) (hL _ _)
        · exact add_nonneg (inv.nonneg _ _) (hL _ _)
      · simp only [hij, if_false]
        by_cases hik : i = k
        · subst hik; simp only [if_true]; simpa using inv.le_init i j
        · simp only [hik, if_false]
          calc D i j ≤ D i k + D k j := tri k i j
            _ ≤ D i k + L k j := by gcongr; exact inv.le_init k j
  · intro i j hfin
    simp only [zeroDiag, fw, ← hD] at hfin ⊢
    by_cases hij : i = j
    · subst hij; exact ⟨[], by simp [walkEnd], by simp [walkLen]⟩
    · simp only [hij, if_false] at hfin ⊢; exact inv.wit i j hfin
#print axioms floyd_isDist
