import Mathlib.Algebra.BigOperators.Group.Finset.Basic
import Mathlib.Data.Fintype.BigOperators
import Mathlib.Data.Fintype.Card
import Mathlib.Tactic

/-! prototype C15: k-core by simultaneous peeling rounds = the maximal set of min internal degree ≥ k -/
open Finset

variable {n : ℕ}

/-- degree of `v` inside the node set `S` (binary undirected adjacency `A`) -/
def degIn (A : Fin n → Fin n → Bool) (S : Finset (Fin n)) (v : Fin n) : ℕ :=
  (S.filter (fun w => A v w)).card

/-- one peeling round as in kcore_bu: drop every alive node whose degree inside the alive set is
    positive but below k (the matrix keeps zero rows for dropped nodes, so "alive" = not yet zeroed) -/
def peelRound (A : Fin n → Fin n → Bool) (k : ℕ) (S : Finset (Fin n)) : Finset (Fin n) :=
  S.filter (fun v => ¬ (0 < degIn A S v ∧ degIn A S v < k))

def peel (A : Fin n → Fin n → Bool) (k : ℕ) : ℕ → Finset (Fin n) → Finset (Fin n)
  | 0, S => S
  | fuel + 1, S => peel A k fuel (peelRound A k S)

theorem degIn_mono (A : Fin n → Fin n → Bool) {S T : Finset (Fin n)} (h : T ⊆ S) (v : Fin n) :
    degIn A T v ≤ degIn A S v := by
  unfold degIn
  exact Finset.card_le_card (Finset.filter_subset_filter _ h)

theorem peelRound_subset (A : Fin n → Fin n → Bool) (k : ℕ) (S : Finset (Fin n)) :
    peelRound A k S ⊆ S := Finset.filter_subset _ _

/-- maximality invariant: a set whose every node has ≥ k neighbours inside it is never touched -/
theorem peelRound_keeps (A : Fin n → Fin n → Bool) (k : ℕ) (hk : 1 ≤ k) (S T : Finset (Fin n))
    (hT : ∀ v ∈ T, k ≤ degIn A T v) (hTS : T ⊆ S) : T ⊆ peelRound A k S := by
  intro v hv
  unfold peelRound
  rw [Finset.mem_filter]
  refine ⟨hTS hv, ?_⟩
  intro ⟨_, hlt⟩
  have := hT v hv
  have := degIn_mono A hTS v
  omega

theorem peel_keeps (A : Fin n → Fin n → Bool) (k : ℕ) (hk : 1 ≤ k) (T : Finset (Fin n))
    (hT : ∀ v ∈ T, k ≤ degIn A T v) : ∀ fuel S, T ⊆ S → T ⊆ peel A k fuel S := by
  intro fuel
  induction fuel with
  | zero => intro S h; exact h
  | succ f ih => intro S h; exact ih _ (peelRound_keeps A k hk S T hT h)

theorem peel_subset (A : Fin n → Fin n → Bool) (k : ℕ) : ∀ fuel S, peel A k fuel S ⊆ S := by
  intro fuel
  induction fuel with
  | zero => intro S; exact Finset.Subset.refl _
  | succ f ih => intro S; exact (ih _).trans (peelRound_subset A k S)

/-- a round that removes nothing is a fixpoint; each non-fixpoint round removes ≥ 1 node, so |S| rounds suffice -/
theorem peel_fix (A : Fin n → Fin n → Bool) (k : ℕ) :
    ∀ fuel S, S.card ≤ fuel → peelRound A k (peel A k fuel S) = peel A k fuel S := by
  intro fuel
  induction fuel with
  | zero =>
    intro S h
    have : S = ∅ := Finset.card_eq_zero.mp (Nat.le_zero.mp h)
    subst this; simp [peel, peelRound]
  | succ f ih =>
    intro S h
    simp only [peel]
    by_cases hfix : peelRound A k S = S
    · -- already a fixpoint: stays so
      have : ∀ g, peel A k g S = S := by
        intro g; induction g with
        | zero => rfl
        | succ g ihg => simp only [peel, hfix, ihg]
      rw [hfix, this f, hfix]
    · have hlt : (peelRound A k S).card < S.card :=
        Finset.card_lt_card (Finset.ssubset_iff_subset_ne.mpr ⟨peelRound_subset A k S, hfix⟩)
      exact ih _ (by omega)

/-- the result: every surviving node with at least one surviving neighbour has ≥ k of them -/
theorem peel_core (A : Fin n → Fin n → Bool) (k : ℕ) (S : Finset (Fin n)) :
    let C := peel A k S.card S
    ∀ v ∈ C, 0 < degIn A C v → k ≤ degIn A C v := by
  intro C v hv hpos
  have hfix := peel_fix A k S.card S (le_refl _)
  have : v ∈ peelRound A k C := by rw [hfix]; exact hv
  unfold peelRound at this
  rw [Finset.mem_filter] at this
  by_contra hlt
  exact this.2 ⟨hpos, by omega⟩

#print axioms peel_keeps
#print axioms peel_core
