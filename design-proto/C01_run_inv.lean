import Mathlib.Algebra.BigOperators.Group.Finset.Basic
import Mathlib.Data.Fintype.BigOperators
import Mathlib.Logic.Equiv.Basic
import Mathlib.Tactic

open Finset

variable {n k : ℕ}

abbrev Mat (n : ℕ) := Fin n → Fin n → ℤ

def upd (R : Mat n) (i j : Fin n) (v : ℤ) : Mat n :=
  fun i' j' => if i' = i ∧ j' = j then v else R i' j'

def swapDir (R : Mat n) (a b c d : Fin n) : Mat n :=
  let R1 := upd R a d (R a b)
  let R2 := upd R1 a b 0
  let R3 := upd R2 c b (R2 c d)
  upd R3 c d 0

structure St (n k : ℕ) where
  R : Mat n
  i : Fin k → Fin n
  j : Fin k → Fin n
  eff : ℕ

/-- one attempt of randmio_dir after the two edge indices were drawn (fixed code: j[e1]=d; j[e2]=b) -/
def attempt (s : St n k) (e1 e2 : Fin k) : St n k :=
  let a := s.i e1; let b := s.j e1; let c := s.i e2; let d := s.j e2
  if e1 = e2 then s else
  if a ≠ c ∧ a ≠ d ∧ b ≠ c ∧ b ≠ d then
    if s.R a d ≠ 0 ∨ s.R c b ≠ 0 then s else
      { R := swapDir s.R a b c d
        i := s.i
        j := fun e => if e = e2 then b else if e = e1 then d else s.j e
        eff := s.eff + 1 }
  else s

def rowCnt (R : Mat n) (r : Fin n) : ℕ := ∑ j, if R r j ≠ 0 then 1 else 0
def colCnt (R : Mat n) (c : Fin n) : ℕ := ∑ i, if R i c ≠ 0 then 1 else 0
def rowSum (R : Mat n) (r : Fin n) : ℤ := ∑ j, R r j

structure EdgeInv (s : St n k) : Prop where
  present : ∀ e, s.R (s.i e) (s.j e) ≠ 0
  offdiag : ∀ e, s.i e ≠ s.j e
  distinct : ∀ e e', e ≠ e' → ¬ (s.i e = s.i e' ∧ s.j e = s.j e')

structure RwInv (R0 : Mat n) (s : St n k) : Prop where
  row : ∀ r, rowCnt s.R r = rowCnt R0 r
  col : ∀ c, colCnt s.R c = colCnt R0 c
  rsum : ∀ r, rowSum s.R r = rowSum R0 r
  diag : ∀ v, s.R v v = R0 v v
  edges : EdgeInv s
  eff0 : s.eff = 0 → s.R = R0

theorem swapDir_apply (R : Mat n) (a b c d : Fin n)
    (hac : a ≠ c) (hbd : b ≠ d) (had : R a d = 0) (hcb : R c b = 0) (i j : Fin n) :
    swapDir R a b c d i j = R i (if i = a ∨ i = c then Equiv.swap b d j else j) := by
  simp only [swapDir, upd]
  by_cases hia : i = a <;> by_cases hic : i = c <;> by_cases hjb : j = b <;> by_cases hjd : j = d <;>
    simp_all [Equiv.swap_apply_def]

theorem swapDir_row (R : Mat n) (a b c d r : Fin n)
    (hac : a ≠ c) (hbd : b ≠ d) (had : R a d = 0) (hcb : R c b = 0) :
    rowCnt (swapDir R a b c d) r = rowCnt R r := by
  unfold rowCnt
  simp only [swapDir_apply R a b c d hac hbd had hcb]
  by_cases h : r = a ∨ r = c
  · simp only [h, if_true]
    exact Equiv.sum_comp (Equiv.swap b d) (fun j => if R r j ≠ 0 then 1 else 0)
  · simp only [h, if_false]

theorem swapDir_rsum (R : Mat n) (a b c d r : Fin n)
    (hac : a ≠ c) (hbd : b ≠ d) (had : R a d = 0) (hcb : R c b = 0) :
    rowSum (swapDir R a b c d) r = rowSum R r := by
  unfold rowSum
  simp only [swapDir_apply R a b c d hac hbd had hcb]
  by_cases h : r = a ∨ r = c
  · simp only [h, if_true]
    exact Equiv.sum_comp (Equiv.swap b d) (fun j => R r j)
  · simp only [h, if_false]

/-- support of column `x` after the swap = support before, with rows a and c exchanged -/
theorem swapDir_col (R : Mat n) (a b c d x : Fin n)
    (hac : a ≠ c) (hbd : b ≠ d) (had : R a d = 0) (hcb : R c b = 0)
    (hab : R a b ≠ 0) (hcd : R c d ≠ 0) :
    colCnt (swapDir R a b c d) x = colCnt R x := by
  unfold colCnt
  have key : ∀ i, (if swapDir R a b c d i x ≠ 0 then 1 else 0 : ℕ)
      = (fun i => if R i x ≠ 0 then 1 else 0) (if x = b ∨ x = d then Equiv.swap a c i else i) := by
    intro i
    rw [swapDir_apply R a b c d hac hbd had hcb]
    by_cases hia : i = a <;> by_cases hic : i = c <;> by_cases hxb : x = b <;> by_cases hxd : x = d <;>
      simp_all [Equiv.swap_apply_def]
  simp only [key]
  by_cases h : x = b ∨ x = d
  · simp only [h, if_true]
    exact Equiv.sum_comp (Equiv.swap a c) (fun i => if R i x ≠ 0 then 1 else 0)
  · simp only [h, if_false]

theorem attempt_inv (R0 : Mat n) (s : St n k) (e1 e2 : Fin k) (h : RwInv R0 s) :
    RwInv R0 (attempt s e1 e2) := by
  unfold attempt
  simp only
  split_ifs with he hd hg
  · exact h
  · exact h
  · -- accepted swap
    obtain ⟨hac, had', hbc, hbd⟩ := hd
    push Not at hg
    obtain ⟨had, hcb⟩ := hg
    have hab := h.edges.present e1
    have hcd := h.edges.present e2
    have hoff1 := h.edges.offdiag e1
    have hoff2 := h.edges.offdiag e2
    refine ⟨?_, ?_, ?_, ?_, ?_, ?_⟩
    · intro r; simp only; rw [swapDir_row _ _ _ _ _ _ hac hbd had hcb]; exact h.row r
    · intro c; simp only; rw [swapDir_col _ _ _ _ _ _ hac hbd had hcb hab hcd]; exact h.col c
    · intro r; simp only; rw [swapDir_rsum _ _ _ _ _ _ hac hbd had hcb]; exact h.rsum r
    · intro v
      show swapDir s.R _ _ _ _ v v = R0 v v
      rw [swapDir_apply _ _ _ _ _ hac hbd had hcb, ← h.diag v]
      by_cases hva : v = s.i e1
      · subst hva; simp [Equiv.swap_apply_def, hoff1, had']
      · by_cases hvc : v = s.i e2
        · subst hvc; simp [Equiv.swap_apply_def, hoff2, hbc.symm]
        · simp [hva, hvc]
    · have pres_other : ∀ e, e ≠ e1 → e ≠ e2 →
          swapDir s.R (s.i e1) (s.j e1) (s.i e2) (s.j e2) (s.i e) (s.j e) = s.R (s.i e) (s.j e) := by
        intro e h1 h2
        rw [swapDir_apply _ _ _ _ _ hac hbd had hcb]
        by_cases hia : s.i e = s.i e1
        · have hjb : s.j e ≠ s.j e1 := fun hj => h.edges.distinct e e1 h1 ⟨hia, hj⟩
          have hjd : s.j e ≠ s.j e2 := by
            intro hj; have := h.edges.present e; rw [hia, hj] at this; exact this had
          simp [hia, Equiv.swap_apply_def, hjb, hjd]
        · by_cases hic : s.i e = s.i e2
          · have hjd : s.j e ≠ s.j e2 := fun hj => h.edges.distinct e e2 h2 ⟨hic, hj⟩
            have hjb : s.j e ≠ s.j e1 := by
              intro hj; have := h.edges.present e; rw [hic, hj] at this; exact this hcb
            simp [hic, Equiv.swap_apply_def, hjb, hjd]
          · simp [hia, hic]
      refine ⟨?_, ?_, ?_⟩
      · intro e
        show swapDir s.R _ _ _ _ (s.i e) (if e = e2 then _ else if e = e1 then _ else s.j e) ≠ 0
        by_cases h2 : e = e2
        · subst h2; simp only [if_true]
          rw [swapDir_apply _ _ _ _ _ hac hbd had hcb]; simpa [Equiv.swap_apply_def] using hcd
        · by_cases h1 : e = e1
          · subst h1; simp only [h2, if_false, if_true]
            rw [swapDir_apply _ _ _ _ _ hac hbd had hcb]; simpa [Equiv.swap_apply_def] using hab
          · simp only [h2, h1, if_false]; rw [pres_other e h1 h2]; exact h.edges.present e
      · intro e
        show s.i e ≠ (if e = e2 then _ else if e = e1 then _ else s.j e)
        by_cases h2 : e = e2
        · subst h2; simpa using hbc.symm
        · by_cases h1 : e = e1
          · subst h1; simpa [h2] using had'
          · simpa [h1, h2] using h.edges.offdiag e
      · intro e e' hne
        show ¬ (s.i e = s.i e' ∧ (if e = e2 then _ else if e = e1 then _ else s.j e) = (if e' = e2 then _ else if e' = e1 then _ else s.j e'))
        have P := h.edges.present
        have Dd := h.edges.distinct
        have noAD : ∀ x, ¬ (s.i x = s.i e1 ∧ s.j x = s.j e2) := by
          intro x ⟨h1, h2⟩; have := P x; rw [h1, h2] at this; exact this had
        have noCB : ∀ x, ¬ (s.i x = s.i e2 ∧ s.j x = s.j e1) := by
          intro x ⟨h1, h2⟩; have := P x; rw [h1, h2] at this; exact this hcb
        by_cases h2 : e = e2
        · subst h2
          by_cases h1' : e' = e1
          · subst h1'; intro ⟨hi, _⟩; exact hac hi.symm
          · have h2' : e' ≠ e := fun hh => hne hh.symm
            simp only [if_true, h2', h1', if_false]
            intro ⟨hi, hj⟩; exact noCB e' ⟨hi.symm, hj.symm⟩
        · by_cases h1 : e = e1
          · subst h1
            by_cases h2' : e' = e2
            · subst h2'; intro ⟨hi, _⟩; exact hac hi
            · have h1' : e' ≠ e := fun hh => hne hh.symm
              simp only [h2, if_false, if_true, h2', h1']
              intro ⟨hi, hj⟩; exact noAD e' ⟨hi.symm, hj.symm⟩
          · simp only [h2, h1, if_false]
            by_cases h2' : e' = e2
            · subst h2'; simp only [if_true]; intro ⟨hi, hj⟩; exact noCB e ⟨hi, hj⟩
            · by_cases h1' : e' = e1
              · subst h1'; simp only [h2', if_false, if_true]; intro ⟨hi, hj⟩; exact noAD e ⟨hi, hj⟩
              · simp only [h2', h1', if_false]; exact Dd e e' hne
    · intro h0; simp at h0
  · exact h

theorem run_inv (R0 : Mat n) (s : St n k) (draws : List (Fin k × Fin k)) (h : RwInv R0 s) :
    RwInv R0 (draws.foldl (fun s d => attempt s d.1 d.2) s) := by
  induction draws generalizing s with
  | nil => simpa
  | cons d ds ih => exact ih _ (attempt_inv R0 s d.1 d.2 h)
#print axioms run_inv
