import Mathlib.Algebra.BigOperators.Group.Finset.Basic
import Mathlib.Data.Fintype.BigOperators
import Mathlib.Logic.Equiv.Basic
import Mathlib.Tactic

/-! prototype C01 (undirected): the eight assignments of randmio_und / latmio_und / partial_und -/
open Finset
variable {n : ℕ}
abbrev Mat (n : ℕ) := Fin n → Fin n → ℤ
def upd (R : Mat n) (i j : Fin n) (v : ℤ) : Mat n :=
  fun i' j' => if i' = i ∧ j' = j then v else R i' j'

/-- reference.py:1541-1548, in program order -/
def swapUnd (R : Mat n) (a b c d : Fin n) : Mat n :=
  let R1 := upd R a d (R a b)
  let R2 := upd R1 a b 0
  let R3 := upd R2 d a (R2 b a)
  let R4 := upd R3 b a 0
  let R5 := upd R4 c b (R4 c d)
  let R6 := upd R5 c d 0
  let R7 := upd R6 b c (R6 d c)
  upd R7 d c 0

/-- source cell of each cell after the swap: an involution on cells -/
def tau (a b c d : Fin n) (p : Fin n × Fin n) : Fin n × Fin n :=
  if p = (a, d) then (a, b) else if p = (a, b) then (a, d)
  else if p = (d, a) then (b, a) else if p = (b, a) then (d, a)
  else if p = (c, b) then (c, d) else if p = (c, d) then (c, b)
  else if p = (b, c) then (d, c) else if p = (d, c) then (b, c) else p

theorem swapUnd_apply (R : Mat n) (a b c d : Fin n)
    (hab : a ≠ b) (hac : a ≠ c) (had : a ≠ d) (hbc : b ≠ c) (hbd : b ≠ d) (hcd : c ≠ d)
    (h1 : R a d = 0) (h2 : R d a = 0) (h3 : R c b = 0) (h4 : R b c = 0) (i j : Fin n) :
    swapUnd R a b c d i j = R (tau a b c d (i, j)).1 (tau a b c d (i, j)).2 := by
  simp only [swapUnd, upd, tau, Prod.mk.injEq]
  by_cases hia : i = a <;> by_cases hib : i = b <;> by_cases hic : i = c <;> by_cases hid : i = d <;>
  by_cases hja : j = a <;> by_cases hjb : j = b <;> by_cases hjc : j = c <;> by_cases hjd : j = d <;>
    simp_all

/-- support of row r after the swap = old support with two columns exchanged -/
def sigma (a b c d i : Fin n) : Equiv.Perm (Fin n) :=
  if i = a ∨ i = c then Equiv.swap b d else if i = b ∨ i = d then Equiv.swap a c else Equiv.refl _

def rowCnt (R : Mat n) (r : Fin n) : ℕ := ∑ j, if R r j ≠ 0 then 1 else 0

theorem swapUnd_row (R : Mat n) (a b c d r : Fin n)
    (hab : a ≠ b) (hac : a ≠ c) (had : a ≠ d) (hbc : b ≠ c) (hbd : b ≠ d) (hcd : c ≠ d)
    (h1 : R a d = 0) (h2 : R d a = 0) (h3 : R c b = 0) (h4 : R b c = 0)
    (e1 : R a b ≠ 0) (e2 : R b a ≠ 0) (e3 : R c d ≠ 0) (e4 : R d c ≠ 0) :
    rowCnt (swapUnd R a b c d) r = rowCnt R r := by
  unfold rowCnt
  have key : ∀ j, (if swapUnd R a b c d r j ≠ 0 then 1 else 0 : ℕ)
      = (fun j => if R r j ≠ 0 then 1 else 0) (sigma a b c d r j) := by
    intro j
    rw [swapUnd_apply R a b c d hab hac had hbc hbd hcd h1 h2 h3 h4]
    simp only [tau, sigma, Prod.mk.injEq]
    by_cases hia : r = a <;> by_cases hib : r = b <;> by_cases hic : r = c <;> by_cases hid : r = d <;>
    by_cases hja : j = a <;> by_cases hjb : j = b <;> by_cases hjc : j = c <;> by_cases hjd : j = d <;>
      simp_all [Equiv.swap_apply_def]
  simp only [key]
  exact Equiv.sum_comp (sigma a b c d r) (fun j => if R r j ≠ 0 then 1 else 0)
#print axioms swapUnd_row
