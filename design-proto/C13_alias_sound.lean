/-! prototype: alias/write IR, may-alias analysis, soundness w.r.t. a heap semantics (core Lean only) -/

abbrev Name := Nat
abbrev Loc := Nat

inductive Stmt
  | fresh (x : Name)                          -- x = W.copy(), np.zeros(..), A*B, A[np.ix_(..)], ...
  | alias (x : Name) (ys : List Name) (keep : Bool)  -- x = y / y.T / y[a:b] / f(ys)?; keep: x.append(y)
  | write (x : Name)                          -- x[..] = .., x += .., np.fill_diagonal(x, ..)
  | seq (ss : List Stmt)
  | branch (a b : Stmt)
  | loop (inv : List Name) (body : Stmt)

abbrev Env := Name → Loc → Prop    -- `env x l` : array l is reachable through name x

/-- big-step execution collecting the set of written locations (as a predicate) -/
inductive Exec (C : Loc → Prop) : Stmt → Env → Env → (Loc → Prop) → Prop
  | fresh (x env) (P : Loc → Prop) (hP : ∀ l, P l → ¬ C l) :
      Exec C (.fresh x) env (fun y l => if y = x then P l else env y l) (fun _ => False)
  | alias (x ys keep env) (P : Loc → Prop)
      (hP : ∀ l, P l → (∃ y, y ∈ ys ∧ env y l) ∨ (keep = true ∧ env x l) ∨ ¬ C l) :
      Exec C (.alias x ys keep) env (fun y l => if y = x then P l else env y l) (fun _ => False)
  | write (x env) (W : Loc → Prop) (hW : ∀ l, W l → env x l) :
      Exec C (.write x) env env W
  | seqNil (env) : Exec C (.seq []) env env (fun _ => False)
  | seqCons (s ss e1 e2 e3 w1 w2) : Exec C s e1 e2 w1 → Exec C (.seq ss) e2 e3 w2 →
      Exec C (.seq (s :: ss)) e1 e3 (fun l => w1 l ∨ w2 l)
  | brL (a b e1 e2 w) : Exec C a e1 e2 w → Exec C (.branch a b) e1 e2 w
  | brR (a b e1 e2 w) : Exec C b e1 e2 w → Exec C (.branch a b) e1 e2 w
  | loop0 (inv b env) : Exec C (.loop inv b) env env (fun _ => False)
  | loopS (inv b e1 e2 e3 w1 w2) : Exec C b e1 e2 w1 → Exec C (.loop inv b) e2 e3 w2 →
      Exec C (.loop inv b) e1 e3 (fun l => w1 l ∨ w2 l)

def subset (a b : List Name) : Bool := a.all (fun x => b.contains x)

mutual
/-- `analyze s T = some T'`: starting with taint set `T` (names that may reach a caller array),
    no write can hit a caller array and `T'` over-approximates the taint afterwards. -/
def analyze : Stmt → List Name → Option (List Name)
  | .fresh x, T => some (T.filter (· != x))
  | .alias x ys keep, T =>
      if ys.any (fun y => T.contains y) then some (x :: T)
      else if keep then some T else some (T.filter (· != x))
  | .write x, T => if T.contains x then none else some T
  | .seq ss, T => analyzeL ss T
  | .branch a b, T => match analyze a T, analyze b T with
      | some t1, some t2 => some (t1 ++ t2)
      | _, _ => none
  | .loop inv b, T =>
      if subset T inv then
        match analyze b inv with
        | some t' => if subset t' inv then some inv else none
        | none => none
      else none
def analyzeL : List Stmt → List Name → Option (List Name)
  | [], T => some T
  | s :: ss, T => match analyze s T with
      | some t => analyzeL ss t
      | none => none
end

def TInv (C : Loc → Prop) (env : Env) (T : List Name) : Prop :=
  ∀ x l, env x l → C l → x ∈ T

theorem subset_mem {a b : List Name} (h : subset a b = true) {x : Name} (hx : x ∈ a) : x ∈ b := by
  unfold subset at h
  rw [List.all_eq_true] at h
  have := h x hx
  simpa using this

theorem TInv_mono {C env} {T T' : List Name} (h : subset T T' = true) (hi : TInv C env T) :
    TInv C env T' := fun x l hx hc => subset_mem h (hi x l hx hc)

theorem sound (C : Loc → Prop) : ∀ (s : Stmt) (e e' : Env) (w : Loc → Prop), Exec C s e e' w →
    ∀ T T', analyze s T = some T' → TInv C e T → (∀ l, w l → ¬ C l) ∧ TInv C e' T' := by
  intro s e e' w h
  induction h with
  | fresh x env P hP =>
    intro T T' ha hi
    simp only [analyze, Option.some.injEq] at ha; subst ha
    refine ⟨fun _ h => h.elim, ?_⟩
    intro y l hy hc
    by_cases hyx : y = x
    · subst hyx; simp at hy; exact absurd hc (hP l hy)
    · simp [hyx] at hy; simp [List.mem_filter, hyx]; exact hi y l hy hc
  | alias x ys keep env P hP =>
    intro T T' ha hi
    refine ⟨fun _ h => h.elim, ?_⟩
    simp only [analyze] at ha
    intro y l hy hc
    by_cases hyx : y = x
    · subst hyx; simp at hy
      split at ha
      · simp at ha; subst ha; simp
      · rename_i hnone
        rcases hP l hy with ⟨z, hz, hzl⟩ | ⟨hk, hxl⟩ | hnc
        · have hzT := hi z l hzl hc
          exfalso; apply hnone
          rw [List.any_eq_true]; exact ⟨z, hz, by simpa using hzT⟩
        · subst hk; simp at ha; subst ha; exact hi y l hxl hc
        · exact absurd hc hnc
    · simp [hyx] at hy
      have hyT := hi y l hy hc
      split at ha
      · simp at ha; subst ha; simp [hyT]
      · split at ha
        · simp at ha; subst ha; exact hyT
        · simp at ha; subst ha; simp [List.mem_filter, hyx, hyT]
  | write x env W hW =>
    intro T T' ha hi
    simp only [analyze] at ha
    split at ha
    · simp at ha
    · rename_i hx
      simp at ha; subst ha
      refine ⟨?_, hi⟩
      intro l hl hc
      have := hi x l (hW l hl) hc
      simp at hx; exact hx this
  | seqNil env =>
    intro T T' ha hi
    simp [analyze, analyzeL] at ha; subst ha
    exact ⟨fun _ h => h.elim, hi⟩
  | seqCons s ss e1 e2 e3 w1 w2 _ _ ih1 ih2 =>
    intro T T' ha hi
    simp only [analyze, analyzeL] at ha
    split at ha
    · rename_i t ht
      obtain ⟨hw1, hi2⟩ := ih1 T t ht hi
      have ha2 : analyze (.seq ss) t = some T' := by simpa [analyze] using ha
      obtain ⟨hw2, hi3⟩ := ih2 t T' ha2 hi2
      exact ⟨fun l hl => hl.elim (hw1 l) (hw2 l), hi3⟩
    · simp at ha
  | brL a b e1 e2 w _ ih =>
    intro T T' ha hi
    simp only [analyze] at ha
    split at ha
    · rename_i t1 t2 h1 h2
      simp at ha; subst ha
      obtain ⟨hw, hi'⟩ := ih T t1 h1 hi
      exact ⟨hw, fun x l hx hc => List.mem_append_left _ (hi' x l hx hc)⟩
    · simp at ha
  | brR a b e1 e2 w _ ih =>
    intro T T' ha hi
    simp only [analyze] at ha
    split at ha
    · rename_i t1 t2 h1 h2
      simp at ha; subst ha
      obtain ⟨hw, hi'⟩ := ih T t2 h2 hi
      exact ⟨hw, fun x l hx hc => List.mem_append_right _ (hi' x l hx hc)⟩
    · simp at ha
  | loop0 inv b env =>
    intro T T' ha hi
    simp only [analyze] at ha
    split at ha
    · rename_i hsub
      split at ha
      · split at ha
        · simp at ha; subst ha; exact ⟨fun _ h => h.elim, TInv_mono hsub hi⟩
        · simp at ha
      · simp at ha
    · simp at ha
  | loopS inv b e1 e2 e3 w1 w2 _ _ ih1 ih2 =>
    intro T T' ha hi
    have ha' := ha
    simp only [analyze] at ha
    split at ha
    · rename_i hsub
      split at ha
      · rename_i t' ht'
        split at ha
        · rename_i hsub'
          simp at ha; subst ha
          have hiInv := TInv_mono hsub hi
          obtain ⟨hw1, hi2⟩ := ih1 inv t' ht' hiInv
          have hi2' := TInv_mono hsub' hi2
          -- analysing the loop again from `inv` gives `inv`
          have hloop : analyze (.loop inv b) inv = some inv := by
            have hrefl : subset inv inv = true := by
              unfold subset; rw [List.all_eq_true]; intro x hx; simpa using hx
            simp [analyze, hrefl, ht', hsub']
          obtain ⟨hw2, hi3⟩ := ih2 inv inv hloop hi2'
          exact ⟨fun l hl => hl.elim (hw1 l) (hw2 l), hi3⟩
        · simp at ha
      · simp at ha
    · simp at ha

#print axioms sound
