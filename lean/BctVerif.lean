-- This module serves as the root of the `BctVerif` library.
-- Import modules here that should be built as part of the library.
import BctVerif.Basic
