import BctVerif.Model.Between
def main : IO Unit := Bct.driverMain Bct.Between.step
