import BctVerif.Model.Synth
def main : IO Unit := Bct.driverMain Bct.Synth.step
