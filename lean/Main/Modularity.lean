import BctVerif.Model.Modularity
def main : IO Unit := Bct.driverMain Bct.Modularity.step
