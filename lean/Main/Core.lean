import BctVerif.Model.Core
def main : IO Unit := Bct.driverMain Bct.Core.step
