import BctVerif.Model.Walks
def main : IO Unit := Bct.driverMain Bct.Walks.step
