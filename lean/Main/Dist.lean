import BctVerif.Model.Dist
def main : IO Unit := Bct.driverMain Bct.Dist.step
