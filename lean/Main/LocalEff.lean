import BctVerif.Model.LocalEff
def main : IO Unit := Bct.driverMain Bct.LocalEff.step
