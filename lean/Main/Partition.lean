import BctVerif.Model.Partition
def main : IO Unit := Bct.driverMain Bct.Partition.step
