import BctVerif.Model.Comp
def main : IO Unit := Bct.driverMain Bct.Comp.step
