import BctVerif.Model.RewirePre
def main : IO Unit := Bct.driverMain Bct.RewirePre.step
