import BctVerif.Model.Cluster
def main : IO Unit := Bct.driverMain Bct.Cluster.step
