import BctVerif.Model.Signed
def main : IO Unit := Bct.driverMain Bct.Signed.step
