import BctVerif.Model.Measures
def main : IO Unit := Bct.driverMain Bct.Measures.step
