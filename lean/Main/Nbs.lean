import BctVerif.Model.Nbs
def main : IO Unit := Bct.driverMain Bct.Nbs.step
