import BctVerif.Model.Thresh
def main : IO Unit := Bct.driverMain Bct.Thresh.step
