import BctVerif.Model.Rewire
def main : IO Unit := Bct.driverMain Bct.Rewire.step
