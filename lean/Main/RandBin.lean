import BctVerif.Model.RandBin
def main : IO Unit := Bct.driverMain Bct.RandBin.step
