import BctVerif.Lemmas.CoreInst

/-!
# C15 — k-core and s-core outputs are the maximal subnetworks meeting the degree bound

All theorems are about the executable model `BctVerif/Model/Core.lean`
(`kcoreBu`, `kcoreBd`, `scoreWu`, `kcorenessBu`, `kcorenessBd`), for every size `n`, every matrix,
every `k ≥ 1` (every `s > 0`).

Vocabulary
* `degInBu A S v`, `degInBd A S v`, `strIn A S v` — degree (in+out degree, strength) of `v` inside `S`;
* `IsCore d k C` — `C` is the largest node set in which every node keeps degree ≥ k inside the set:
  `C` itself qualifies and every qualifying set is contained in `C` (so `C` is unique: `isCore_unique`);
* `RestrictedTo M A C` — `M` is `A` with every row and column outside `C` zeroed;
* `coreOfBu A k` (…`Bd`, `Wu`) — the nodes with positive degree in the returned matrix.
-/
namespace Bct.C15
open Bct Bct.Core Finset

variable {n : ℕ}

/-! ## vocabulary -/

/-- number of neighbours of `v` inside `S` (column count, as `degrees_und`; for symmetric `A` this is
the undirected degree inside `S`) -/
def degInBu (A : AMat Int n) (S : Finset (Fin n)) (v : Fin n) : ℕ := (S.filter fun w => A.get w v ≠ 0).card

/-- in-degree plus out-degree of `v` inside `S` -/
def degInBd (A : AMat Int n) (S : Finset (Fin n)) (v : Fin n) : ℕ :=
  (S.filter fun w => A.get w v ≠ 0).card + (S.filter fun w => A.get v w ≠ 0).card

/-- strength of `v` inside `S` -/
def strIn (A : AMat Rat n) (S : Finset (Fin n)) (v : Fin n) : ℚ := ∑ w ∈ S, A.get w v

/-- `C` is the largest node set in which every node keeps degree at least `k` inside the set -/
def IsCore {β : Type} [LE β] (d : Finset (Fin n) → Fin n → β) (k : β) (C : Finset (Fin n)) : Prop :=
  (∀ v ∈ C, k ≤ d C v) ∧ ∀ T : Finset (Fin n), (∀ v ∈ T, k ≤ d T v) → T ⊆ C

/-- `M` is `A` restricted to `C`, all other rows and columns zero -/
def RestrictedTo {α : Type} [Zero α] (M A : AMat α n) (C : Finset (Fin n)) : Prop :=
  ∀ i j, M.get i j = if i ∈ C ∧ j ∈ C then A.get i j else 0

def coreOfBu (A : AMat Int n) (k : ℕ) : Finset (Fin n) := univ.filter fun v => 0 < degBu (kcoreBu A k).M v
def coreOfBd (A : AMat Int n) (k : ℕ) : Finset (Fin n) := univ.filter fun v => 0 < degBd (kcoreBd A k).M v
def coreOfWu (A : AMat Rat n) (s : ℚ) : Finset (Fin n) := univ.filter fun v => 0 < strWu (scoreWu A s).M v

theorem isCore_unique {β : Type} [LE β] {d : Finset (Fin n) → Fin n → β} {k : β} {C C' : Finset (Fin n)}
    (h : IsCore d k C) (h' : IsCore d k C') : C = C' :=
  Finset.Subset.antisymm (h'.2 C h.1) (h.2 C' h'.1)

/-! ## the set-level peeling lemmas (ported prototype) -/

/-- a set of minimum internal degree ≥ k survives every number of peeling rounds -/
theorem peel_keeps (A : AMat Int n) (k : ℕ) (T : Finset (Fin n)) (hT : ∀ v ∈ T, k ≤ degInBd A T v)
    (fuel : ℕ) : T ⊆ peel (dIn (wtBd A)) k fuel univ := by
  have e : degInBd A = dIn (wtBd A) := by
    funext S v; simp [degInBd, dIn, wtBd, Finset.card_filter, Finset.sum_add_distrib]
  rw [e] at hT
  exact Core.peel_keeps _ k (fun h v => dIn_mono (bridgeBd A k).wt_nonneg h v) T hT fuel univ (subset_univ _)

/-- `n` rounds reach a fixpoint of the peeling round -/
theorem peel_fix (A : AMat Int n) (k : ℕ) :
    peelRound (dIn (wtBd A)) k (peel (dIn (wtBd A)) k n univ) = peel (dIn (wtBd A)) k n univ :=
  Core.peel_fix _ k n univ (by simp)

/-- after `n` rounds every surviving node of positive degree has degree ≥ k among the survivors -/
theorem peel_core (A : AMat Int n) (k : ℕ) (v : Fin n) (hv : v ∈ peel (dIn (wtBd A)) k n univ)
    (hpos : 0 < dIn (wtBd A) (peel (dIn (wtBd A)) k n univ) v) :
    k ≤ dIn (wtBd A) (peel (dIn (wtBd A)) k n univ) v :=
  fix_core _ k (peel_fix A k) v hv hpos

/-! ## the three routines -/

section generic
variable {α β : Type} [Zero α] [AddCommMonoid β] [LinearOrder β] [IsOrderedAddMonoid β]
  {deg : AMat α n → Fin n → β} {small pos : β → Bool} {A : AMat α n} {wt : Fin n → Fin n → β} {k : β}

theorem correct_of_bridge (hb : Bridge 0 deg small pos A wt k) (hk : 0 < k)
    (C : Finset (Fin n))
    (hC : C = univ.filter fun v => 0 < deg (peelLoop 0 deg small pos n A 0 [] []).M v) :
    C = coreSet wt k ∧ IsCore (dIn wt) k C ∧ RestrictedTo (peelLoop 0 deg small pos n A 0 [] []).M A C ∧
      (peelLoop 0 deg small pos n A 0 [] []).kn = C.card := by
  obtain ⟨hM, hkn, _⟩ := core_spec hb
  have e : C = coreSet wt k := by
    rw [hC]; ext v
    simp only [mem_filter, mem_univ, true_and]
    rw [hM]; exact deg_core_pos_iff hb v
  refine ⟨e, ?_, ?_, ?_⟩
  · rw [e]; exact ⟨coreSet_qualifies hb, coreSet_maximal hb hk⟩
  · intro i j; rw [e, hM]; simp
  · rw [e]; exact hkn

theorem coreEq_of_bridge (hb : Bridge 0 deg small pos A wt k) :
    (univ.filter fun v => 0 < deg (peelLoop 0 deg small pos n A 0 [] []).M v) = coreSet wt k := by
  obtain ⟨hM, _, _⟩ := core_spec hb
  ext v
  simp only [mem_filter, mem_univ, true_and]
  rw [hM]; exact deg_core_pos_iff hb v

end generic

theorem degInBu_eq (A : AMat Int n) : degInBu A = dIn (wtBu A) := by
  funext S v; simp [degInBu, dIn, wtBu, Finset.card_filter]
theorem degInBd_eq (A : AMat Int n) : degInBd A = dIn (wtBd A) := by
  funext S v; simp [degInBd, dIn, wtBd, Finset.card_filter, Finset.sum_add_distrib]
theorem strIn_eq (A : AMat Rat n) : strIn A = dIn (wtWu A) := by
  funext S v; simp [strIn, dIn, wtWu]

theorem coreOfBu_eq (A : AMat Int n) (hsym : ∀ i j, A.get i j = A.get j i) (k : ℕ) :
    coreOfBu A k = coreSet (wtBu A) k := coreEq_of_bridge (bridgeBu A hsym k)
theorem coreOfBd_eq (A : AMat Int n) (k : ℕ) : coreOfBd A k = coreSet (wtBd A) k :=
  coreEq_of_bridge (bridgeBd A k)
theorem coreOfWu_eq (A : AMat Rat n) (hsym : ∀ i j, A.get i j = A.get j i) (h0 : ∀ i j, 0 ≤ A.get i j)
    (s : ℚ) : coreOfWu A s = coreSet (wtWu A) s := coreEq_of_bridge (bridgeWu A hsym h0 s)

/-- **kcore_bu**: for a symmetric matrix and `k ≥ 1` the returned matrix is the input restricted to the
largest node set of minimum internal degree ≥ k, everything else zero, and `kn` is the size of that set. -/
theorem kcore_bu_correct (A : AMat Int n) (hsym : ∀ i j, A.get i j = A.get j i) (k : ℕ) (hk : 1 ≤ k) :
    IsCore (degInBu A) k (coreOfBu A k) ∧ RestrictedTo (kcoreBu A k).M A (coreOfBu A k) ∧
      (kcoreBu A k).kn = (coreOfBu A k).card := by
  rw [degInBu_eq]
  exact (correct_of_bridge (bridgeBu A hsym k) hk (coreOfBu A k) rfl).2

/-- **kcore_bd**: the same for any (directed) matrix with in-degree + out-degree. -/
theorem kcore_bd_correct (A : AMat Int n) (k : ℕ) (hk : 1 ≤ k) :
    IsCore (degInBd A) k (coreOfBd A k) ∧ RestrictedTo (kcoreBd A k).M A (coreOfBd A k) ∧
      (kcoreBd A k).kn = (coreOfBd A k).card := by
  rw [degInBd_eq]
  exact (correct_of_bridge (bridgeBd A k) hk (coreOfBd A k) rfl).2

/-- **score_wu**: the same for a symmetric non-negative rational matrix, strengths and any `s > 0`. -/
theorem score_wu_correct (A : AMat Rat n) (hsym : ∀ i j, A.get i j = A.get j i) (h0 : ∀ i j, 0 ≤ A.get i j)
    (s : ℚ) (hs : 0 < s) :
    IsCore (strIn A) s (coreOfWu A s) ∧ RestrictedTo (scoreWu A s).M A (coreOfWu A s) ∧
      (scoreWu A s).kn = (coreOfWu A s).card := by
  rw [strIn_eq]
  exact (correct_of_bridge (bridgeWu A hsym h0 s) hs (coreOfWu A s) rfl).2

/-! ## nestedness -/

theorem restricted_sub {α : Type} [Zero α] {M M' A : AMat α n} {C C' : Finset (Fin n)}
    (h : RestrictedTo M A C) (h' : RestrictedTo M' A C') (hsub : C' ⊆ C) (i j : Fin n)
    (hne : M'.get i j ≠ 0) : M.get i j = M'.get i j := by
  rw [h' i j] at hne ⊢
  rw [h i j]
  by_cases hc : i ∈ C' ∧ j ∈ C'
  · rw [if_pos hc, if_pos ⟨hsub hc.1, hsub hc.2⟩]
  · rw [if_neg hc] at hne; exact absurd rfl hne

/-- cores are nested as `k` grows: node sets, sizes, and the returned matrices -/
theorem core_nested_bu (A : AMat Int n) (hsym : ∀ i j, A.get i j = A.get j i) {k k' : ℕ} (hk : 1 ≤ k)
    (hkk : k ≤ k') :
    coreOfBu A k' ⊆ coreOfBu A k ∧ (kcoreBu A k').kn ≤ (kcoreBu A k).kn ∧
      ∀ i j, (kcoreBu A k').M.get i j ≠ 0 → (kcoreBu A k).M.get i j = (kcoreBu A k').M.get i j := by
  have h := kcore_bu_correct A hsym k hk
  have h' := kcore_bu_correct A hsym k' (hk.trans hkk)
  have hsub : coreOfBu A k' ⊆ coreOfBu A k := h.1.2 _ (fun v hv => hkk.trans (h'.1.1 v hv))
  exact ⟨hsub, by rw [h.2.2, h'.2.2]; exact Finset.card_le_card hsub, restricted_sub h.2.1 h'.2.1 hsub⟩

theorem core_nested_bd (A : AMat Int n) {k k' : ℕ} (hk : 1 ≤ k) (hkk : k ≤ k') :
    coreOfBd A k' ⊆ coreOfBd A k ∧ (kcoreBd A k').kn ≤ (kcoreBd A k).kn ∧
      ∀ i j, (kcoreBd A k').M.get i j ≠ 0 → (kcoreBd A k).M.get i j = (kcoreBd A k').M.get i j := by
  have h := kcore_bd_correct A k hk
  have h' := kcore_bd_correct A k' (hk.trans hkk)
  have hsub : coreOfBd A k' ⊆ coreOfBd A k := h.1.2 _ (fun v hv => hkk.trans (h'.1.1 v hv))
  exact ⟨hsub, by rw [h.2.2, h'.2.2]; exact Finset.card_le_card hsub, restricted_sub h.2.1 h'.2.1 hsub⟩

theorem core_nested_wu (A : AMat Rat n) (hsym : ∀ i j, A.get i j = A.get j i) (h0 : ∀ i j, 0 ≤ A.get i j)
    {s s' : ℚ} (hs : 0 < s) (hss : s ≤ s') :
    coreOfWu A s' ⊆ coreOfWu A s ∧ (scoreWu A s').kn ≤ (scoreWu A s).kn ∧
      ∀ i j, (scoreWu A s').M.get i j ≠ 0 → (scoreWu A s).M.get i j = (scoreWu A s').M.get i j := by
  have h := score_wu_correct A hsym h0 s hs
  have h' := score_wu_correct A hsym h0 s' (lt_of_lt_of_le hs hss)
  have hsub : coreOfWu A s' ⊆ coreOfWu A s := h.1.2 _ (fun v hv => hss.trans (h'.1.1 v hv))
  exact ⟨hsub, by rw [h.2.2, h'.2.2]; exact Finset.card_le_card hsub, restricted_sub h.2.1 h'.2.1 hsub⟩

/-! ## peel order and peel level -/

section peelonce
variable {α β : Type} [Zero α] [AddCommMonoid β] [LinearOrder β] [IsOrderedAddMonoid β]
  {deg : AMat α n → Fin n → β} {small pos : β → Bool} {A : AMat α n} {wt : Fin n → Fin n → β} {k : β}

/-- what "lists each removed node exactly once" means for one run `o` on input `A`, core `C`:
* no node occurs twice in the flattened peel order; every group is non-empty and ascending;
* `peellevel` is the round number 1, 2, 3, … repeated once per member of the corresponding group;
* a listed node is outside the core, had a neighbour in the input, and its row and column are zero;
* a node outside the core that is *not* listed has no neighbour among the unlisted nodes (it became
  isolated by the removal of others, or was isolated from the start — the code never "peels" such a node). -/
def PeelOnce (o : Out α n) (A : AMat α n) (C : Finset (Fin n)) : Prop :=
  o.order.flatten.Nodup ∧
  (∀ g ∈ o.order, g ≠ [] ∧ g.Pairwise (· < ·)) ∧
  o.level = (o.order.zipIdx 0).map (fun p => p.1.map fun _ => p.2 + 1) ∧
  (∀ v ∈ o.order.flatten, v ∉ C ∧ (∃ w, A.get w v ≠ 0 ∨ A.get v w ≠ 0) ∧
      ∀ j, o.M.get v j = 0 ∧ o.M.get j v = 0) ∧
  (∀ v, v ∉ o.order.flatten → v ∉ C → ∀ w, w ∉ o.order.flatten → A.get w v = 0 ∧ A.get v w = 0)

theorem peelOnce_of_bridge (hb : Bridge 0 deg small pos A wt k)
    (hwt : ∀ w v, wt w v ≠ 0 → A.get w v ≠ 0 ∨ A.get v w ≠ 0) :
    PeelOnce (peelLoop 0 deg small pos n A 0 [] []) A (coreSet wt k) := by
  obtain ⟨hM, _, hinv⟩ := core_spec hb
  refine ⟨hinv.nodup, fun g hg => ⟨hinv.nonempty g hg, hinv.sorted g hg⟩, ?_, ?_, ?_⟩
  · rw [hinv.lev_eq, levelsFrom_eq_zipIdx]
  · intro v hv
    have hva : v ∉ alive wt k := fun h => (hinv.mem v).mp h hv
    have hvc : v ∉ coreSet wt k := fun h => hva (Finset.mem_filter.mp h).1
    refine ⟨hvc, ?_, ?_⟩
    · have hp := hinv.pos_listed v hv
      by_contra hno
      push Not at hno
      have : dIn wt univ v = 0 := by
        unfold dIn
        apply Finset.sum_eq_zero
        intro w _
        by_contra hne
        rcases hwt w v hne with h | h
        · exact h (hno w).1
        · exact h (hno w).2
      rw [this] at hp
      exact lt_irrefl _ hp
    · intro j
      rw [hM]
      simp [hvc]
  · intro v hv hvc w hw
    have hva : v ∈ alive wt k := (hinv.mem v).mpr hv
    have hwa : w ∈ alive wt k := (hinv.mem w).mpr hw
    have h := wt_zero_of_not_core hb hva hvc hwa
    exact ⟨hb.wt_zero _ _ h.2, hb.wt_zero _ _ h.1⟩

end peelonce

/-- **peel order of kcore_bu** lists each removed node exactly once (see `PeelOnce`) -/
theorem peel_once_bu (A : AMat Int n) (hsym : ∀ i j, A.get i j = A.get j i) (k : ℕ) :
    PeelOnce (kcoreBu A k) A (coreOfBu A k) := by
  rw [coreOfBu_eq A hsym k]
  apply peelOnce_of_bridge (bridgeBu A hsym k)
  intro w v h
  left
  unfold wtBu at h
  by_contra h0
  simp [h0] at h

/-- **peel order of kcore_bd** lists each removed node exactly once (see `PeelOnce`) -/
theorem peel_once_bd (A : AMat Int n) (k : ℕ) : PeelOnce (kcoreBd A k) A (coreOfBd A k) := by
  rw [coreOfBd_eq A k]
  apply peelOnce_of_bridge (bridgeBd A k)
  intro w v h
  unfold wtBd at h
  by_contra h0
  push Not at h0
  simp [h0.1, h0.2] at h

/-! ## k-coreness centrality -/

theorem prepBu_eq (A : AMat Int n) (hsym : ∀ i j, A.get i j = A.get j i)
    (h01 : ∀ i j, A.get i j = 0 ∨ A.get i j = 1) : prepBu A = A := by
  unfold prepBu
  split
  · apply AMat.ext_get
    intro i j
    rw [AMat.get_ofFn, ← hsym i j]
    rcases h01 i j with h | h <;> simp [h]
  · rfl

theorem degBd_eq_degIn (A : AMat Int n) (v : Fin n) : degBd A v = degInBd A univ v := by
  unfold degBd degInBd
  rw [sum_map_finRange, Finset.sum_add_distrib, Finset.card_filter, Finset.card_filter]

theorem strWu_eq_strIn (A : AMat Rat n) (v : Fin n) : strWu A v = strIn A univ v := by
  unfold strWu strIn
  rw [sum_map_finRange]

theorem degBu_eq_card (M : AMat Int n) (v : Fin n) :
    degBu M v = (univ.filter fun w => M.get w v ≠ 0).card := by
  unfold degBu
  rw [sum_map_finRange, Finset.card_filter]

theorem restricted_01 {M A : AMat Int n} {C : Finset (Fin n)} (h : RestrictedTo M A C)
    (h01 : ∀ i j, A.get i j = 0 ∨ A.get i j = 1) : ∀ i j, M.get i j = 0 ∨ M.get i j = 1 := by
  intro i j
  rw [h i j]
  split
  · exact h01 i j
  · left; rfl

/-- with an empty diagonal the `k`-core of an `n`-node undirected graph is empty for `k ≥ n` -/
theorem coreOfBu_empty (A : AMat Int n) (hsym : ∀ i j, A.get i j = A.get j i) (hdiag : ∀ i, A.get i i = 0)
    (k : ℕ) (hk : n ≤ k) : coreOfBu A k = ∅ := by
  by_contra hne
  obtain ⟨v, hv⟩ := Finset.nonempty_iff_ne_empty.mpr hne
  have hn : 0 < n := Fin.pos v
  have h := (kcore_bu_correct A hsym k (by omega)).1.1 v hv
  have hle : degInBu A (coreOfBu A k) v ≤ (univ.erase v).card := by
    unfold degInBu
    apply Finset.card_le_card
    intro w hw
    rw [Finset.mem_filter] at hw
    rw [Finset.mem_erase]
    refine ⟨?_, mem_univ _⟩
    rintro rfl
    exact hw.2 (hdiag w)
  rw [Finset.card_erase_of_mem (mem_univ _), Finset.card_univ, Fintype.card_fin] at hle
  omega

/-- **kcoreness_centrality_bu** (symmetric 0/1 matrix, empty diagonal): `coreness[v]` is the largest `k`
whose core contains `v` — for every `k ≥ 1`, `v` is in the `k`-core iff `k ≤ coreness[v]` — and `kn[k]` is
the size of the `k`-core for `k = 0 … n-1`. -/
theorem coreness_max (A : AMat Int n) (hsym : ∀ i j, A.get i j = A.get j i)
    (h01 : ∀ i j, A.get i j = 0 ∨ A.get i j = 1) (hdiag : ∀ i, A.get i i = 0) :
    (∀ v k, 1 ≤ k → (v ∈ coreOfBu A k ↔ k ≤ (kcorenessBu A).1 v)) ∧
      (kcorenessBu A).2 = (List.finRange n).map fun k => (coreOfBu A k.val).card := by
  have hP : ∀ (v : Fin n) (k : ℕ), 1 ≤ k →
      ((decide (k < n) && decide (0 < colSum (kcoreBu A k).M v)) = true ↔ (k < n ∧ v ∈ coreOfBu A k)) := by
    intro v k hk
    have hr := (kcore_bu_correct A hsym k hk).2.1
    rw [colSum_eq_count _ (restricted_01 hr h01)]
    simp only [Bool.and_eq_true, decide_eq_true_eq, coreOfBu, mem_filter, mem_univ, true_and, degBu_eq_card]
    norm_cast
  unfold kcorenessBu
  rw [prepBu_eq A hsym h01]
  constructor
  · intro v k hk
    rw [corenessOf_fst]
    set P := fun k => decide (k < n) && decide (0 < colSum (kcoreBu A k).M v) with hPdef
    constructor
    · intro hv
      have hkn : k < n := by
        by_contra hnot
        rw [coreOfBu_empty A hsym hdiag k (by omega)] at hv
        exact absurd hv (Finset.notMem_empty _)
      exact lastHit_range_ge P n k hkn ((hP v k hk).mpr ⟨hkn, hv⟩)
    · intro hle
      rcases lastHit_range_mem P n with h0 | ⟨_, hc⟩
      · omega
      · have hc1 : 1 ≤ lastHit P (List.range n) := by omega
        have := ((hP v _ hc1).mp hc).2
        exact (core_nested_bu A hsym hk hle).1 this
  · rw [corenessOf_snd]
    apply List.map_congr_left
    intro k _
    obtain ⟨_, hkn, _⟩ := core_spec (bridgeBu A hsym k.val)
    rw [coreOfBu_eq A hsym]
    exact hkn

/-- with an empty diagonal, in+out degrees are at most `2(n-1)`: the `k`-core of a directed graph on `n` nodes is
empty for `k ≥ 2n-1` — the scan `k = 0 … 2n-2` of `kcoreness_centrality_bd` is complete -/
theorem coreOfBd_empty (A : AMat Int n) (hdiag : ∀ i, A.get i i = 0) (k : ℕ) (hk : 2 * n - 1 ≤ k) :
    coreOfBd A k = ∅ := by
  by_contra hne
  obtain ⟨v, hv⟩ := Finset.nonempty_iff_ne_empty.mpr hne
  have hn : 0 < n := Fin.pos v
  have h := (kcore_bd_correct A k (by omega)).1.1 v hv
  have hle : ∀ (p : Fin n → Prop) [DecidablePred p], ¬ p v →
      ((coreOfBd A k).filter p).card ≤ n - 1 := by
    intro p _ hp
    have : (coreOfBd A k).filter p ⊆ univ.erase v := by
      intro w hw
      rw [Finset.mem_filter] at hw
      rw [Finset.mem_erase]
      refine ⟨?_, mem_univ _⟩
      rintro rfl
      exact hp hw.2
    have hc := Finset.card_le_card this
    rwa [Finset.card_erase_of_mem (mem_univ _), Finset.card_univ, Fintype.card_fin] at hc
  have h1 := hle (fun w => A.get w v ≠ 0) (by simp [hdiag v])
  have h2 := hle (fun w => A.get v w ≠ 0) (by simp [hdiag v])
  unfold degInBd at h
  omega

/-- **kcoreness_centrality_bd** (0/1 matrix with empty diagonal, symmetric or not): `coreness[v]` is the largest
`k` whose core contains `v` — for every `k ≥ 1`, `v` is in the `k`-core (in+out degree) iff `k ≤ coreness[v]` —,
`kn[k]` is the size of the `k`-core for every `k = 0 … 2n-2`, and the `(2n-1)`-core is empty, so no core is missed. -/
theorem coreness_max_bd (A : AMat Int n) (h01 : ∀ i j, A.get i j = 0 ∨ A.get i j = 1)
    (hdiag : ∀ i, A.get i i = 0) :
    (∀ v k, 1 ≤ k → (v ∈ coreOfBd A k ↔ k ≤ (kcorenessBd A).1 v)) ∧
      (kcorenessBd A).2 = ((List.finRange (2 * n - 1)).map fun k => (coreOfBd A k.val).card) ∧
      coreOfBd A (2 * n - 1) = ∅ := by
  have hP : ∀ (v : Fin n) (k : ℕ), 1 ≤ k →
      ((decide (k < 2 * n - 1) && decide (0 < colSum (kcoreBd A k).M v + rowSum (kcoreBd A k).M v)) = true ↔
        (k < 2 * n - 1 ∧ v ∈ coreOfBd A k)) := by
    intro v k hk
    have hr := (kcore_bd_correct A k hk).2.1
    have hM := restricted_01 hr h01
    rw [colSum_eq_count _ hM, rowSum_eq_count _ hM]
    simp only [Bool.and_eq_true, decide_eq_true_eq, coreOfBd, mem_filter, mem_univ, true_and, degBd_eq_degIn, degInBd]
    norm_cast
  refine ⟨?_, ?_, coreOfBd_empty A hdiag _ (le_refl _)⟩
  · intro v k hk
    unfold kcorenessBd
    rw [corenessOfBd_fst]
    set P := fun k => decide (k < 2 * n - 1) && decide (0 < colSum (kcoreBd A k).M v + rowSum (kcoreBd A k).M v)
      with hPdef
    constructor
    · intro hv
      have hkn : k < 2 * n - 1 := by
        by_contra hnot
        rw [coreOfBd_empty A hdiag k (by omega)] at hv
        exact absurd hv (Finset.notMem_empty _)
      exact lastHit_range_ge P _ k hkn ((hP v k hk).mpr ⟨hkn, hv⟩)
    · intro hle
      rcases lastHit_range_mem P (2 * n - 1) with h0 | ⟨_, hc⟩
      · omega
      · have hc1 : 1 ≤ lastHit P (List.range (2 * n - 1)) := by omega
        have := ((hP v _ hc1).mp hc).2
        exact (core_nested_bd A hk hle).1 this
  · unfold kcorenessBd
    rw [corenessOfBd_snd]
    apply List.map_congr_left
    intro k _
    obtain ⟨_, hkn, _⟩ := core_spec (bridgeBd A k.val)
    rw [coreOfBd_eq A]
    exact hkn

/-! ## k = 0 and s ≤ 0

Every node set has minimum internal degree ≥ 0, so the "largest set" is the whole node set and the
restricted matrix is the input itself: that is what the routines return (nothing is peeled).  The
reported size, however, is by the code's convention `np.sum(deg > 0)` — the number of non-isolated nodes,
not `n`; this is why the size clause of the property is stated (and judged) for `k ≥ 1` / `s > 0` only. -/

theorem kcore_bu_zero (A : AMat Int n) :
    (kcoreBu A 0).M = A ∧ (kcoreBu A 0).order = [] ∧ (kcoreBu A 0).level = [] ∧
      (kcoreBu A 0).kn = (univ.filter fun v => 0 < degInBu A univ v).card := by
  unfold kcoreBu
  rw [peelLoop_no_small 0 degBu (smallNat 0) posNat (by intro x; simp [smallNat])]
  refine ⟨rfl, rfl, rfl, ?_⟩
  simp only [countPos]
  rw [length_filter_finRange]
  congr 1; ext v
  simp [posNat_iff, degBu_eq_card, degInBu]

theorem kcore_bd_zero (A : AMat Int n) :
    (kcoreBd A 0).M = A ∧ (kcoreBd A 0).order = [] ∧ (kcoreBd A 0).level = [] ∧
      (kcoreBd A 0).kn = (univ.filter fun v => 0 < degInBd A univ v).card := by
  unfold kcoreBd
  rw [peelLoop_no_small 0 degBd (smallNat 0) posNat (by intro x; simp [smallNat])]
  refine ⟨rfl, rfl, rfl, ?_⟩
  simp only [countPos]
  rw [length_filter_finRange]
  congr 1; ext v
  simp [posNat_iff, degBd_eq_degIn]

theorem score_wu_nonpos (A : AMat Rat n) (s : ℚ) (hs : s ≤ 0) :
    (scoreWu A s).M = A ∧ (scoreWu A s).kn = (univ.filter fun v => 0 < strIn A univ v).card := by
  unfold scoreWu
  rw [peelLoop_no_small 0 strWu (smallRat s) posRat (by
    intro x
    rw [Bool.eq_false_iff, Ne, smallRat_iff]
    rintro ⟨h1, h2⟩
    exact absurd (lt_trans h1 h2) (not_lt.mpr hs))]
  refine ⟨rfl, ?_⟩
  simp only [countPos]
  rw [length_filter_finRange]
  congr 1; ext v
  simp [posRat_iff, strWu_eq_strIn]

/-! ## non-vacuity -/

/-- path 0–1 plus triangle 1-2-3: the 2-core is the triangle, node 0 is peeled in round 1 -/
def exA : AMat Int 4 := AMat.ofFn fun i j =>
  if (i.val, j.val) ∈ [(0, 1), (1, 0), (1, 2), (2, 1), (1, 3), (3, 1), (2, 3), (3, 2)] then 1 else 0

/-- 0 → 1, 0 → 2, 1 ↔ 2 -/
def exD : AMat Int 3 := AMat.ofFn fun i j =>
  if (i.val, j.val) ∈ [(0, 1), (0, 2), (1, 2), (2, 1)] then 1 else 0

/-- weighted triangle with a pendant node: strengths 1/2, 9/4, 7/4, 2 -/
def exW : AMat Rat 4 := AMat.ofFn fun i j =>
  if (i.val, j.val) ∈ [(0, 1), (1, 0)] then mkRat 1 2
  else if (i.val, j.val) ∈ [(1, 2), (2, 1)] then mkRat 3 4
  else if (i.val, j.val) ∈ [(1, 3), (3, 1), (2, 3), (3, 2)] then 1 else 0

example : (∀ i j, exA.get i j = exA.get j i) ∧ (∀ i j, exA.get i j = 0 ∨ exA.get i j = 1) ∧
    (∀ i, exA.get i i = 0) := by decide
example : (kcoreBu exA 2).kn = 3 ∧ (kcoreBu exA 2).order = [[0]] ∧ (kcoreBu exA 2).level = [[1]] := by decide
example : (kcoreBu exA 3).kn = 0 ∧ (kcoreBu exA 3).order = [[0, 2, 3]] ∧
    (kcoreBu exA 3).level = [[1, 1, 1]] := by decide
example : (List.finRange 4).map (kcorenessBu exA).1 = [1, 2, 2, 2] ∧ (kcorenessBu exA).2 = [4, 4, 3, 0] := by
  decide
example : (kcoreBd exD 2).kn = 3 ∧ (kcoreBd exD 3).kn = 0 ∧ (kcoreBd exD 3).order = [[0], [1, 2]] ∧
    (kcoreBd exD 3).level = [[1], [2, 2]] := by decide
/-- node 0 of `exD` has out-connections only and belongs to the 2-core: coreness 2; `kn` has `2n-1 = 5` entries -/
example : (List.finRange 3).map (kcorenessBd exD).1 = [2, 2, 2] ∧ (kcorenessBd exD).2 = [3, 3, 3, 0, 0] := by decide
example : (∀ i j, exD.get i j = 0 ∨ exD.get i j = 1) ∧ (∀ i, exD.get i i = 0) := by decide
example : (∀ i j, exW.get i j = exW.get j i) ∧ (∀ i j, 0 ≤ exW.get i j) := by decide +kernel
example : (scoreWu exW (mkRat 7 4)).kn = 3 ∧ (scoreWu exW 2).kn = 0 ∧ (0 : ℚ) < mkRat 7 4 := by decide +kernel

end Bct.C15
