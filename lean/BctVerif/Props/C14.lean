import BctVerif.Lemmas.Partition
import BctVerif.Lemmas.PartitionEntropy
import BctVerif.Lemmas.PartitionLists

/-!
# C14 — partition consumers depend on the partition, not on the label values

All statements are about the executable model `BctVerif/Model/Partition.lean`.
`c.map g` is the community vector `g ∘ c`; every invariance theorem is for an arbitrary injective
`g : ℤ → ℤ` (contiguous or not, zero-based, negative, large), every matrix, every size `n`.
-/
namespace Bct.C14
open Bct Bct.Partition Finset Function

variable {n : Nat}

/-! ## the canonical relabelling -/

/-- two nodes get the same canonical label iff they carry the same label -/
theorem relabel_eq_iff (c : Vector Int n) (u v : Fin n) : (relabel c)[u] = (relabel c)[v] ↔ c[u] = c[v] :=
  relabel_eq_iff' c u v

/-- canonical labels lie in `1..k` -/
theorem relabel_range (c : Vector Int n) (v : Fin n) : 1 ≤ (relabel c)[v] ∧ (relabel c)[v] ≤ numMods c := by
  rw [relabel_get]
  exact ⟨Nat.le_add_left 1 _, rank_lt_numMods c (mem_labelSet c v)⟩

/-- every canonical label `1..k` is used -/
theorem relabel_surj (c : Vector Int n) (m : Nat) (h1 : 1 ≤ m) (hk : m ≤ numMods c) : ∃ v : Fin n, (relabel c)[v] = m := by
  have : m - 1 ∈ (labelSet c).image (rank c.toList) := by rw [image_rank]; exact mem_range.mpr (by omega)
  obtain ⟨x, hx, hr⟩ := mem_image.mp this
  obtain ⟨v, _, rfl⟩ := mem_image.mp hx
  exact ⟨v, by rw [relabel_get]; simp only [Fin.getElem_fin] at hr ⊢; omega⟩

/-- an order-preserving renaming does not change the canonical labels at all -/
theorem relabel_strictMono (c : Vector Int n) {g : Int → Int} (hg : StrictMono g) : relabel (c.map g) = relabel c := by
  apply Vector.ext
  intro i hi
  have h := relabel_get (c.map g) ⟨i, hi⟩
  have h' := relabel_get c ⟨i, hi⟩
  simp only [Fin.getElem_fin] at h h'
  rw [h, h', rank_eq, rank_eq, labelSet_map]
  congr 1
  have : ((labelSet c).image g).filter (· < (c.map g)[i]) = ((labelSet c).filter (· < c[i])).image g := by
    ext y
    simp only [mem_filter, mem_image, Vector.getElem_map]
    constructor
    · rintro ⟨⟨x, hx, rfl⟩, hlt⟩; exact ⟨x, ⟨hx, hg.lt_iff_lt.mp hlt⟩, rfl⟩
    · rintro ⟨x, ⟨hx, hlt⟩, rfl⟩; exact ⟨⟨x, hx, rfl⟩, hg.lt_iff_lt.mpr hlt⟩
  rw [this, Finset.card_image_of_injective _ hg.injective]

/-- **relabel_inj**: under an injective renaming the canonical labels change by a permutation of `{1..k}` -/
theorem relabel_inj (c : Vector Int n) {g : Int → Int} (hg : Injective g) :
    numMods (c.map g) = numMods c ∧
    ∃ π : Nat → Nat, Set.BijOn π (Set.Icc 1 (numMods c)) (Set.Icc 1 (numMods c)) ∧
      ∀ v : Fin n, (relabel (c.map g))[v] = π (relabel c)[v] := by
  classical
  refine ⟨numMods_map c hg, ?_⟩
  have key : ∀ u v : Fin n, (relabel (c.map g))[u] = (relabel (c.map g))[v] ↔ (relabel c)[u] = (relabel c)[v] := by
    intro u v
    rw [relabel_eq_iff, relabel_eq_iff, map_get, map_get, hg.eq_iff]
  let π : Nat → Nat := fun m => if h : ∃ v : Fin n, (relabel c)[v] = m then (relabel (c.map g))[h.choose] else m
  have hπ : ∀ v : Fin n, π (relabel c)[v] = (relabel (c.map g))[v] := by
    intro v
    have h : ∃ w : Fin n, (relabel c)[w] = (relabel c)[v] := ⟨v, rfl⟩
    simp only [π, dif_pos h]
    exact (key _ _).mpr h.choose_spec
  refine ⟨π, ⟨?_, ?_, ?_⟩, fun v => (hπ v).symm⟩
  · intro m hm
    obtain ⟨v, hv⟩ := relabel_surj c m hm.1 hm.2
    rw [← hv, hπ]
    have := relabel_range (c.map g) v
    rw [numMods_map c hg] at this
    exact this
  · intro m hm m' hm' h
    obtain ⟨v, hv⟩ := relabel_surj c m hm.1 hm.2
    obtain ⟨w, hw⟩ := relabel_surj c m' hm'.1 hm'.2
    rw [← hv, ← hw, hπ, hπ] at h
    rw [← hv, ← hw]
    exact (key v w).mp h
  · intro m hm
    rw [← numMods_map c hg] at hm
    obtain ⟨v, hv⟩ := relabel_surj (c.map g) m hm.1 hm.2
    exact ⟨(relabel c)[v], relabel_range c v, (hπ v).trans hv⟩

/-- every loop over the modules is a function of the partition only -/
theorem modSum_inv {α : Type} [AddCommMonoid α] (c : Vector Int n) {g : Int → Int} (hg : Injective g)
    (F : (Fin n → Bool) → α) : modSum (c.map g) F = modSum c F := modSum_map c hg F

/-! ## the consumers -/

/-- participation coefficient (`participation_coef`, all three `degree` modes: the driver transposes for 'in') -/
theorem partCoef_inv (W : AMat Rat n) (c : Vector Int n) {g : Int → Int} (hg : Injective g) :
    partCoef W (c.map g) = partCoef W c := by
  unfold partCoef kc2
  simp only [modSum_map c hg]

/-- `participation_coef_sign` -/
theorem partCoefSign_inv (W : AMat Rat n) (c : Vector Int n) {g : Int → Int} (hg : Injective g) :
    partCoefSign W (c.map g) = partCoefSign W c := by
  unfold partCoefSign
  rw [partCoef_inv _ c hg, partCoef_inv _ c hg]

/-- `module_degree_zscore`: deviation from the module mean and module variance of every node (`Z = dev / sqrt var`) -/
theorem zIngr_inv (W : AMat Rat n) (c : Vector Int n) (flag : Nat) {g : Int → Int} (hg : Injective g) :
    zIngr W (c.map g) flag = zIngr W c flag := by
  unfold zIngr
  simp only [inMod_self, map_get, hg.eq_iff]

/-- `diversity_coef_sign`: `Σ_m φ(pnm[u,m])` for every summand `φ` (in particular `-p log p`), and the number of modules
in the normalisation `log m` -/
theorem divSum_inv {α : Type} [AddCommMonoid α] (φ : Rat → α) (W : AMat Rat n) (c : Vector Int n) (u : Fin n)
    {g : Int → Int} (hg : Injective g) :
    divSum φ W (c.map g) u = divSum φ W c u ∧ numMods (c.map g) = numMods c :=
  ⟨modSum_map c hg _, numMods_map c hg⟩

/-- the table printed by the driver for `diversity_coef_sign` is what `divSum` sums: row `u` of `pnmTable W c` lists
`pnm[u, 1..k]`, and `divSum φ W c u` is the sum of `φ` over that row (so the harness's entropy of the printed row is `divSum` with
`φ p = -p log p`) -/
theorem divSum_eq_table {α : Type} [AddCommMonoid α] (φ : Rat → α) (W : AMat Rat n) (c : Vector Int n) (u : Fin n) :
    (pnmTable W c)[u.val]? = some ((List.range (numMods c)).map fun m => pnmOf W (inMod (relabel c) (m + 1)) u) ∧
    divSum φ W c u = (((List.range (numMods c)).map fun m => pnmOf W (inMod (relabel c) (m + 1)) u).map φ).sum := by
  constructor
  · unfold pnmTable
    simp
  · unfold divSum modSum sumRange
    simp only [List.map_map, Function.comp_def]

/-- `modularity_und(A, gamma, kci)` -/
theorem qUnd_inv (A : AMat Rat n) (γ : Rat) (c : Vector Int n) {g : Int → Int} (hg : Injective g) :
    qUnd A γ (c.map g) = qUnd A γ c := by
  unfold qUnd
  simp only [map_get, sub_eq_zero, hg.eq_iff]

/-- `modularity_dir(A, gamma, kci)` -/
theorem qDir_inv (A : AMat Rat n) (γ : Rat) (c : Vector Int n) {g : Int → Int} (hg : Injective g) :
    qDir A γ (c.map g) = qDir A γ c := by
  unfold qDir
  simp only [map_get, sub_eq_zero, hg.eq_iff]

/-- `modularity_und_sign(W, ci, qtype)` for all five `qtype`s -/
theorem qSign_inv (W : AMat Rat n) (c : Vector Int n) (qt : QType) {g : Int → Int} (hg : Injective g) :
    qSign W (c.map g) qt = qSign W c qt := by
  unfold qSign
  simp only [modSum_map c hg, relabel_eq_iff', map_get, hg.eq_iff]

/-- `agreement`: each partition (column) may be renamed by its own injective map -/
theorem agreement_inv (cs cs' : List (Vector Int n))
    (h : List.Forall₂ (fun c' c => ∃ g : Int → Int, Injective g ∧ c' = c.map g) cs' cs) :
    agreement cs' = agreement cs := by
  unfold agreement
  have : (cs'.map fun c => fun (F : (Fin n → Bool) → Nat) => modSum c F) = cs.map fun c => fun F => modSum c F := by
    induction h with
    | nil => rfl
    | cons hd _ ih =>
      obtain ⟨g, hg, rfl⟩ := hd
      simp only [List.map_cons, ih]
      congr 1
      funext F
      exact modSum_map _ hg F
  apply AMat.ext_get
  intro i j
  simp only [AMat.get_ofFn]
  split
  · rfl
  · have h2 := congrArg (fun l => (l.map fun G => G fun p => if p i && p j then 1 else 0).sum) this
    simpa [List.map_map, Function.comp_def] using h2

/-- co-classification of one partition does not depend on the labels -/
theorem coClass_inv (c : Vector Int n) {g : Int → Int} (hg : Injective g) : coClass (c.map g) = coClass c := by
  funext i j
  unfold coClass
  exact modSum_map c hg _

/-- `agreement_weighted`: the weighted co-classification matrix is invariant under a separate injective renaming of every partition -/
theorem agreementW_inv (cs cs' : List (Vector Int n)) (wts : List Rat)
    (h : List.Forall₂ (fun c' c => ∃ g : Int → Int, Injective g ∧ c' = c.map g) cs' cs) :
    agreementW cs' wts = agreementW cs wts := by
  have hmap : cs'.map coClass = cs.map coClass := by
    induction h with
    | nil => rfl
    | cons hd _ ih =>
      obtain ⟨g, hg, rfl⟩ := hd
      simp only [List.map_cons, ih, coClass_inv _ hg]
  have hlen : cs'.length = cs.length := by
    have := congrArg List.length hmap
    simpa using this
  unfold agreementW
  simp only [hmap, hlen]

/-! ## gateway coefficient — known finding D16

Full statement (what C14 asks): `∀ g, Injective g → gateway W (c.map g) = gateway W c`.
It is **false** for the code as it is (`kj[i] /= 2` uses the module number as a member index):
`gateway_not_invariant` refutes it on a concrete 4-node witness (replayed on the real code by the check),
`gateway_index_error` shows a labelling of a partition that raises while another labelling of the same
partition does not.  What does hold is invariance under order-preserving renamings (`gateway_mono_partial`),
which covers "+100", "zero-based" and any other shift/scale of the labels. -/

def witnessW : AMat Rat 4 :=
  AMat.ofFn fun i j => ((([[0, 1, 2, 0], [1, 0, 0, 3], [2, 0, 0, 1], [0, 3, 1, 0]] : List (List Rat)).getD i.val []).getD j.val 0)

theorem gateway_not_invariant :
    ∃ (W : AMat Rat 4) (c : Vector Int 4) (g : Int → Int), Injective g ∧ gateway W (c.map g) ≠ gateway W c := by
  refine ⟨witnessW, #v[1, 2, 2, 2], fun x => 3 - x, fun a b h => by simpa using h, ?_⟩
  intro h
  have h2 := congrArg (fun r => r.toOption.map fun r => r.1[1]) h
  exact absurd h2 (by decide +kernel)

theorem gateway_index_error :
    gateway witnessW #v[3, 3, 2, 1] = .error .index ∧ (gateway witnessW #v[1, 1, 2, 3]).toOption.isSome = true := by
  constructor
  · have : (gateway witnessW #v[3, 3, 2, 1]).toOption = none ∧
        ∀ e, gateway witnessW #v[3, 3, 2, 1] = .error e → e = .index := by
      constructor
      · decide +kernel
      · intro e he
        have : (match gateway witnessW #v[3, 3, 2, 1] with | .error e => e == .index | .ok _ => false) = true := by
          decide +kernel
        rw [he] at this
        simpa using this
    cases hgw : gateway witnessW #v[3, 3, 2, 1] with
    | error e => rw [this.2 e hgw]
    | ok r => rw [hgw] at this; simp [Except.toOption] at this
  · decide +kernel

/-- `gateway_coef_sign` depends on the labels only through their canonical ranks: two labellings with the same `relabel` (hence the same
module *order*) give the same result or the same error — the precise sense in which the as-written routine is "label-free" -/
theorem gateway_factor (W : AMat Rat n) (c c' : Vector Int n) (h : relabel c' = relabel c) (hk : numMods c' = numMods c) :
    gateway W c' = gateway W c := by
  unfold gateway gcoef gatewayIndexErr
  simp only [h, hk]

/-- **when the as-written routine raises**: exactly when some module with more than one node has at most as many nodes as its 0-based
rank among the sorted labels; no other error is possible, and the matrix plays no role -/
theorem gateway_error_iff (W : AMat Rat n) (c : Vector Int n) :
    (gateway W c = .error .index ↔ gatewayIndexErr c = true) ∧ (∀ e, gateway W c = .error e → e = .index) ∧
    (gatewayIndexErr c = true ↔ ∃ i, i < numMods c ∧ 1 < (members (relabel c) (i + 1)).length ∧ (members (relabel c) (i + 1)).length ≤ i) := by
  have hcond : ∀ M : AMat Rat n, (∃ e, gcoef M c = .error e) ↔ gatewayIndexErr c = true := by
    intro M
    unfold gcoef
    by_cases hc : gatewayIndexErr c = true
    · simp [hc]
    · simp [hc]
  have herr : ∀ (M : AMat Rat n) e, gcoef M c = .error e → e = .index := by
    intro M e he
    unfold gcoef at he
    by_cases hc : gatewayIndexErr c = true
    · simp [hc] at he; exact he.symm
    · simp [hc] at he
  refine ⟨?_, ?_, ?_⟩
  · unfold gateway
    constructor
    · intro h
      cases h1 : gcoef (posPart (zeroDiag W)) c with
      | error e => exact (hcond _).mp ⟨e, h1⟩
      | ok v1 =>
        cases h2 : gcoef (negPart (zeroDiag W)) c with
        | error e => exact (hcond _).mp ⟨e, h2⟩
        | ok v2 => simp [h1, h2, bind, Except.bind, pure, Except.pure] at h
    · intro hc
      obtain ⟨e, he⟩ := (hcond (posPart (zeroDiag W))).mpr hc
      have := herr _ e he
      subst this
      simp [he, bind, Except.bind]
  · intro e h
    unfold gateway at h
    cases h1 : gcoef (posPart (zeroDiag W)) c with
    | error e1 =>
      simp [h1, bind, Except.bind] at h
      rw [← h]; exact herr _ e1 h1
    | ok v1 =>
      cases h2 : gcoef (negPart (zeroDiag W)) c with
      | error e2 =>
        simp [h1, h2, bind, Except.bind] at h
        rw [← h]; exact herr _ e2 h2
      | ok v2 => simp [h1, h2, bind, Except.bind, pure, Except.pure] at h
  · unfold gatewayIndexErr
    simp only [List.any_eq_true, List.mem_range, Bool.and_eq_true, decide_eq_true_eq]

/-- `gateway_coef_sign` is invariant under every order-preserving renaming of the labels -/
theorem gateway_mono_partial (W : AMat Rat n) (c : Vector Int n) {g : Int → Int} (hg : StrictMono g) :
    gateway W (c.map g) = gateway W c := by
  unfold gateway gcoef gatewayIndexErr
  simp only [relabel_strictMono c hg, numMods_map c hg.injective]

/-! ## partition_distance: the contingency table -/

/-- the two vectors describe the same partition -/
def samePart (cx cy : Vector Int n) : Prop := ∀ u v : Fin n, cx[u] = cx[v] ↔ cy[u] = cy[v]

theorem samePart_map (c : Vector Int n) {g : Int → Int} (hg : Injective g) : samePart c (c.map g) := by
  intro u v; rw [map_get, map_get, hg.eq_iff]

theorem cellOf_symm (p q : Fin n → Bool) : cellOf q p = cellOf p q := by
  unfold cellOf; simp only [Bool.and_comm]

/-- swapping the arguments transposes the table -/
theorem table_symm (cx cy : Vector Int n) :
    table cy cx = (List.range (numMods cy)).map fun b => (List.range (numMods cx)).map fun a =>
      cellOf (inMod (relabel cx) (a + 1)) (inMod (relabel cy) (b + 1)) := by
  unfold table; simp only [cellOf_symm]

/-- every symmetric function `Σ φ(cell)` of the table (the joint entropy) is symmetric in the arguments -/
theorem tableSum_symm {α : Type} [AddCommMonoid α] (φ : Nat → α) (cx cy : Vector Int n) :
    tableSum φ cy cx = tableSum φ cx cy := by
  unfold tableSum
  simp only [modSum_eq]
  rw [Finset.sum_comm]
  simp only [cellOf_symm]

/-- … and invariant under independent injective renamings of both partitions -/
theorem tableSum_inv {α : Type} [AddCommMonoid α] (φ : Nat → α) (cx cy : Vector Int n) {g h : Int → Int}
    (hg : Injective g) (hh : Injective h) : tableSum φ (cx.map g) (cy.map h) = tableSum φ cx cy := by
  unfold tableSum
  rw [modSum_map cx hg]
  simp only [modSum_map cy hh]

/-- the marginal sums `Σ φ(module size)` (the entropies `H(X)`, `H(Y)`) are invariant -/
theorem sizeSum_inv {α : Type} [AddCommMonoid α] (φ : Nat → α) (c : Vector Int n) {g : Int → Int}
    (hg : Injective g) : sizeSum φ (c.map g) = sizeSum φ c := modSum_map c hg _

/-- `tableSum` really is the sum over the cells of the printed table -/
theorem tableSum_eq_table {α : Type} [AddCommMonoid α] (φ : Nat → α) (cx cy : Vector Int n) :
    tableSum φ cx cy = (((table cx cy).flatten).map φ).sum := by
  unfold tableSum modSum sumRange table
  rw [List.map_flatten, List.sum_flatten]
  simp only [List.map_map, Function.comp_def]

theorem cardIn_eq (p : Fin n → Bool) : cardIn p = (univ.filter fun v => p v = true).card := by
  unfold cardIn; rw [sumFin_eq, Finset.card_filter]

theorem cellOf_eq (p q : Fin n → Bool) :
    cellOf p q = ((univ.filter fun v => p v = true) ∩ (univ.filter fun v => q v = true)).card := by
  unfold cellOf; rw [cardIn_eq]; congr 1; ext v; simp

/-- label-level form of `table_same_iff` -/
theorem same_iff_labels (cx cy : Vector Int n) :
    samePart cx cy ↔ ∀ ℓ ∈ labelSet cx, ∀ ℓ' ∈ labelSet cy,
      cellOf (fun v => decide (cx[v] = ℓ)) (fun v => decide (cy[v] = ℓ')) = 0 ∨
      (cellOf (fun v => decide (cx[v] = ℓ)) (fun v => decide (cy[v] = ℓ')) = cardIn (fun v => decide (cx[v] = ℓ)) ∧
       cellOf (fun v => decide (cx[v] = ℓ)) (fun v => decide (cy[v] = ℓ')) = cardIn (fun v => decide (cy[v] = ℓ'))) := by
  constructor
  · intro hs ℓ _ ℓ' _
    rw [cellOf_eq, cardIn_eq, cardIn_eq]
    by_cases hne : ((univ.filter fun v : Fin n => decide (cx[v] = ℓ) = true) ∩ (univ.filter fun v : Fin n => decide (cy[v] = ℓ') = true)).Nonempty
    · right
      obtain ⟨w, hw⟩ := hne
      simp only [mem_inter, mem_filter, mem_univ, true_and, decide_eq_true_eq] at hw
      have hPQ : (univ.filter fun v : Fin n => decide (cx[v] = ℓ) = true) = (univ.filter fun v : Fin n => decide (cy[v] = ℓ') = true) := by
        ext v
        simp only [mem_filter, mem_univ, true_and, decide_eq_true_eq]
        rw [← hw.1, ← hw.2]
        exact hs v w
      rw [hPQ, Finset.inter_self]
      exact ⟨rfl, rfl⟩
    · left
      rw [Finset.not_nonempty_iff_eq_empty] at hne
      rw [hne, Finset.card_empty]
  · intro h u v
    have hu := h cx[u] (mem_labelSet cx u) cy[u] (mem_labelSet cy u)
    rw [cellOf_eq, cardIn_eq, cardIn_eq] at hu
    have hmem : u ∈ (univ.filter fun w : Fin n => decide (cx[w] = cx[u]) = true) ∩ (univ.filter fun w : Fin n => decide (cy[w] = cy[u]) = true) := by
      simp
    rcases hu with h0 | ⟨h1, h2⟩
    · exact absurd h0 (Finset.card_ne_zero_of_mem hmem)
    · have e1 := Finset.eq_of_subset_of_card_le Finset.inter_subset_left (le_of_eq h1.symm)
      have e2 := Finset.eq_of_subset_of_card_le Finset.inter_subset_right (le_of_eq h2.symm)
      have e : (univ.filter fun w : Fin n => decide (cx[w] = cx[u]) = true) = (univ.filter fun w : Fin n => decide (cy[w] = cy[u]) = true) :=
        e1.symm.trans e2
      have := Finset.ext_iff.mp e v
      simp only [mem_filter, mem_univ, true_and, decide_eq_true_eq] at this
      constructor
      · intro hx; exact (this.mp hx.symm).symm
      · intro hy; exact (this.mpr hy.symm).symm

/-- **VI = 0 ⇔ same partition, on the table level**: the partitions coincide up to renaming iff every cell of the
contingency table is empty or fills both its row and its column (so `H(X|Y) = H(Y|X) = 0`, see `VI_eq_zero_iff`) -/
theorem table_same_iff (cx cy : Vector Int n) :
    samePart cx cy ↔ ∀ a < numMods cx, ∀ b < numMods cy,
      cellOf (inMod (relabel cx) (a + 1)) (inMod (relabel cy) (b + 1)) = 0 ∨
      (cellOf (inMod (relabel cx) (a + 1)) (inMod (relabel cy) (b + 1)) = cardIn (inMod (relabel cx) (a + 1)) ∧
       cellOf (inMod (relabel cx) (a + 1)) (inMod (relabel cy) (b + 1)) = cardIn (inMod (relabel cy) (b + 1))) := by
  rw [same_iff_labels]
  constructor
  · intro h a ha b hb
    have ha' : a ∈ (labelSet cx).image (rank cx.toList) := by rw [image_rank]; exact mem_range.mpr ha
    have hb' : b ∈ (labelSet cy).image (rank cy.toList) := by rw [image_rank]; exact mem_range.mpr hb
    obtain ⟨ℓ, hℓ, rfl⟩ := mem_image.mp ha'
    obtain ⟨ℓ', hℓ', rfl⟩ := mem_image.mp hb'
    rw [inMod_rank cx hℓ, inMod_rank cy hℓ']
    exact h ℓ hℓ ℓ' hℓ'
  · intro h ℓ hℓ ℓ' hℓ'
    have := h (rank cx.toList ℓ) (rank_lt_numMods cx hℓ) (rank cy.toList ℓ') (rank_lt_numMods cy hℓ')
    rw [inMod_rank cx hℓ, inMod_rank cy hℓ'] at this
    exact this

/-! ## ci2ls / ls2ci -/

/-- the blocks of `ci2ls c` are exactly the modules: node `u` lies in block number `(relabel c)[u] - 1` and in no other -/
theorem ci2ls_blocks (c : Vector Int n) (u : Fin n) (m : Nat) (hm : m < numMods c) :
    (∃ b, (ci2ls c)[m]? = some b ∧ u ∈ b) ↔ (relabel c)[u] = m + 1 := by
  unfold ci2ls
  simp only [List.getElem?_map, List.getElem?_range hm, Option.map_some, Option.some.injEq, exists_eq_left', mem_members]

theorem ci2ls_length (c : Vector Int n) : (ci2ls c).length = numMods c := by
  unfold ci2ls; simp

theorem mem_lsWrites (ls : List (List Nat)) (w : Nat × Nat) :
    w ∈ lsWrites ls ↔ ∃ b, ls[w.1]? = some b ∧ w.2 ∈ b := by
  unfold lsWrites
  simp only [List.mem_flatten, List.mem_map, Prod.exists, List.mem_zipIdx_iff_getElem?]
  constructor
  · rintro ⟨l, ⟨b, i, hbi, rfl⟩, hw⟩
    obtain ⟨v, hv, rfl⟩ := List.mem_map.mp hw
    exact ⟨b, hbi, hv⟩
  · rintro ⟨b, hb, hv⟩
    exact ⟨b.map fun v => (w.1, v), ⟨b, w.1, hb, rfl⟩, List.mem_map.mpr ⟨w.2, hv, rfl⟩⟩

/-- **`ls2ci ∘ ci2ls` is the canonical relabelling** (`z = 1`: one-based, `z = 0`: `zeroindexed=True`), hence the same
partition as `c` by `relabel_eq_iff` -/
theorem ls2ci_ci2ls (c : Vector Int n) (z : Nat) :
    ls2ci ((ci2ls c).map (·.map Fin.val)) z = .ok ((relabel c).toList.map (· - 1 + z)) := by
  have hget : ∀ i, ((ci2ls c).map (·.map Fin.val))[i]? =
      if i < numMods c then some ((members (relabel c) (i + 1)).map Fin.val) else none := by
    intro i
    unfold ci2ls
    by_cases hi : i < numMods c
    · simp [hi]
    · simp [hi]
  have hN : (((ci2ls c).map (·.map Fin.val)).map List.length).sum = n := by
    unfold ci2ls
    simp only [List.map_map, Function.comp_def, List.length_map, members_length]
    exact sum_sizes c
  let f : Nat → Nat := fun v => if h : v < n then (relabel c)[v] - 1 + z else 0
  have hmemW : ∀ w ∈ lsWrites ((ci2ls c).map (·.map Fin.val)), w.2 < (Array.replicate n 0).size ∧ f w.2 = w.1 + z := by
    intro w hw
    obtain ⟨b, hb, hv⟩ := (mem_lsWrites _ w).mp hw
    rw [hget] at hb
    split at hb
    · obtain rfl := Option.some.inj hb
      obtain ⟨u, hu, huv⟩ := List.mem_map.mp hv
      rw [mem_members] at hu
      have hlt : w.2 < n := huv ▸ u.isLt
      refine ⟨by simpa using hlt, ?_⟩
      simp only [f, dif_pos hlt]
      have : (relabel c)[w.2] = (relabel c)[u] := by simp [← huv]
      rw [this, hu]; omega
    · exact absurd hb (by simp)
  have hall : ∀ v, v < n → ∃ w ∈ lsWrites ((ci2ls c).map (·.map Fin.val)), w.2 = v := by
    intro v hv
    have hr := relabel_range c ⟨v, hv⟩
    refine ⟨((relabel c)[v] - 1, v), (mem_lsWrites _ _).mpr
      ⟨(members (relabel c) ((relabel c)[v] - 1 + 1)).map Fin.val, ?_, ?_⟩, rfl⟩
    · rw [hget, if_pos (by simp only [Fin.getElem_fin] at hr; omega)]
    · apply List.mem_map.mpr
      refine ⟨⟨v, hv⟩, ?_, rfl⟩
      rw [mem_members]
      simp only [Fin.getElem_fin] at hr ⊢
      omega
  obtain ⟨a', h1, h2, h3⟩ := fold_writes z f _ (Array.replicate n 0) hmemW
  unfold ls2ci
  simp only [hN, h1, Except.map]
  congr 1
  have hsz : a'.size = n := by simpa using h2
  apply List.ext_getElem
  · simp [hsz]
  · intro v hv1 hv2
    have hv : v < n := by simpa [hsz] using hv1
    have := h3 v (by simpa using hv) (by rw [hsz]; exact hv)
    rw [if_pos (hall v hv)] at this
    simp only [Array.getElem_toList, this, f, dif_pos hv, List.getElem_map, Vector.getElem_toList]

/-- **`ls2ci` on a well-formed block list** (indices in range, blocks pairwise disjoint): it succeeds and node `v` of block `i`
gets label `i + z`; so two covered nodes get the same label iff they lie in the same block, and by `ci2ls_blocks` /
`relabel_eq_iff` the blocks of `ci2ls (ls2ci ls)` are again the blocks of `ls` (the composite itself is checked in Python) -/
theorem ls2ci_spec (ls : List (List Nat)) (z : Nat)
    (hlt : ∀ b ∈ ls, ∀ v ∈ b, v < (ls.map List.length).sum)
    (hdisj : ∀ (i j : Nat) (b b' : List Nat), ls[i]? = some b → ls[j]? = some b' → ∀ v, v ∈ b → v ∈ b' → i = j) :
    ∃ ci, ls2ci ls z = .ok ci ∧ ci.length = (ls.map List.length).sum ∧
      ∀ (i : Nat) (b : List Nat), ls[i]? = some b → ∀ v ∈ b, ci[v]? = some (i + z) := by
  classical
  let f : Nat → Nat := fun v => if h : ∃ i, ∃ b, ls[i]? = some b ∧ v ∈ b then h.choose + z else 0
  have hf : ∀ (i : Nat) (b : List Nat), ls[i]? = some b → ∀ v ∈ b, f v = i + z := by
    intro i b hb v hv
    have h : ∃ i, ∃ b, ls[i]? = some b ∧ v ∈ b := ⟨i, b, hb, hv⟩
    simp only [f, dif_pos h]
    obtain ⟨b', hb', hv'⟩ := h.choose_spec
    rw [hdisj _ _ _ _ hb' hb v hv' hv]
  have hW : ∀ w ∈ lsWrites ls, w.2 < (Array.replicate (ls.map List.length).sum 0).size ∧ f w.2 = w.1 + z := by
    intro w hw
    obtain ⟨b, hb, hv⟩ := (mem_lsWrites _ w).mp hw
    exact ⟨by simpa using hlt b (List.mem_of_getElem? hb) w.2 hv, hf _ _ hb _ hv⟩
  obtain ⟨a', h1, h2, h3⟩ := fold_writes z f _ _ hW
  have hsz : a'.size = (ls.map List.length).sum := by simpa using h2
  refine ⟨a'.toList, ?_, by simpa using hsz, ?_⟩
  · unfold ls2ci; simp only [h1, Except.map]
  · intro i b hb v hv
    have hvN := hlt b (List.mem_of_getElem? hb) v hv
    have := h3 v (by simpa using hvN) (by rw [hsz]; exact hvN)
    rw [if_pos ⟨(i, v), (mem_lsWrites _ _).mpr ⟨b, hb, hv⟩, rfl⟩, hf i b hb v hv] at this
    rw [List.getElem?_eq_getElem (by simpa [hsz] using hvN)]
    simp only [Array.getElem_toList, this]

/-- a list of natural labels of length `n` as a community vector -/
def vecOf (ci : List Nat) (h : ci.length = n) : Vector Int n := ⟨(ci.map Int.ofNat).toArray, by simp [h]⟩

theorem vecOf_get (ci : List Nat) (h : ci.length = n) (u : Fin n) (x : Nat) (hx : ci[u.val]? = some x) :
    (vecOf ci h)[u] = (x : Int) := by
  have hu : u.val < ci.length := by rw [h]; exact u.isLt
  rw [List.getElem?_eq_getElem hu] at hx
  have : (vecOf ci h)[u] = ((ci.map Int.ofNat).toArray)[u.val]'(by simp [h]) := rfl
  rw [this]
  simp only [List.getElem_toArray, List.getElem_map]
  rw [Option.some.inj hx]; rfl

/-- **`ci2ls ∘ ls2ci` gives the blocks back** (up to the order inside a block): for a list `ls` of non-empty, pairwise
disjoint blocks that cover `0..n-1`, `ls2ci ls z` succeeds and block `i` of `ci2ls` of the result has exactly the members
of `ls[i]`, for both `zeroindexed` flags -/
theorem ci2ls_ls2ci (ls : List (List Nat)) (z : Nat) (hn : (ls.map List.length).sum = n)
    (hlt : ∀ b ∈ ls, ∀ v ∈ b, v < n)
    (hdisj : ∀ (i j : Nat) (b b' : List Nat), ls[i]? = some b → ls[j]? = some b' → ∀ v, v ∈ b → v ∈ b' → i = j)
    (hcov : ∀ v, v < n → ∃ b ∈ ls, v ∈ b)
    (hne : ∀ b ∈ ls, b ≠ []) :
    ∃ (ci : List Nat) (h : ci.length = n), ls2ci ls z = .ok ci ∧
      (ci2ls (vecOf ci h)).length = ls.length ∧
      ∀ (i : Nat) (b : List Nat), ls[i]? = some b →
        ∃ b', (ci2ls (vecOf ci h))[i]? = some b' ∧ ∀ u : Fin n, u ∈ b' ↔ u.val ∈ b := by
  obtain ⟨ci, hok, hlen, hspec⟩ := ls2ci_spec ls z (by rw [hn]; exact hlt) hdisj
  have h : ci.length = n := hlen.trans hn
  refine ⟨ci, h, hok, ?_⟩
  set c := vecOf ci h with hc
  -- A: members of block i carry the label i + z
  have hA : ∀ (i : Nat) (b : List Nat), ls[i]? = some b → ∀ u : Fin n, u.val ∈ b → c[u] = ((i + z : Nat) : Int) :=
    fun i b hb u hu => vecOf_get ci h u _ (hspec i b hb u.val hu)
  -- every node lies in some block
  have hcov' : ∀ u : Fin n, ∃ (i : Nat) (b : List Nat), ls[i]? = some b ∧ u.val ∈ b := by
    intro u
    obtain ⟨b, hb, hu⟩ := hcov u.val u.isLt
    obtain ⟨i, hi⟩ := List.mem_iff_getElem?.mp hb
    exact ⟨i, b, hi, hu⟩
  have hidx : ∀ (i : Nat) (b : List Nat), ls[i]? = some b → i < ls.length := by
    intro i b hb
    by_contra hge
    rw [List.getElem?_eq_none (by omega)] at hb
    exact absurd hb (by simp)
  -- B: the labels are z, …, z + len - 1
  have hB : labelSet c = (range ls.length).image fun i => ((i + z : Nat) : Int) := by
    ext x
    simp only [labelSet, mem_image, mem_univ, true_and, mem_range]
    constructor
    · rintro ⟨u, rfl⟩
      obtain ⟨i, b, hb, hu⟩ := hcov' u
      exact ⟨i, hidx i b hb, (hA i b hb u hu).symm⟩
    · rintro ⟨i, hi, rfl⟩
      have hb : ls[i]? = some ls[i] := List.getElem?_eq_getElem hi
      obtain ⟨v, hv⟩ := List.exists_mem_of_ne_nil _ (hne _ (List.getElem_mem hi))
      have hvn := hlt _ (List.getElem_mem hi) v hv
      exact ⟨⟨v, hvn⟩, hA i _ hb ⟨v, hvn⟩ hv⟩
  have hinj : Function.Injective fun i : Nat => ((i + z : Nat) : Int) := fun a b hab => by
    simp only at hab; omega
  -- C: the rank of label i + z is i
  have hC : ∀ i, i < ls.length → rank c.toList ((i + z : Nat) : Int) = i := by
    intro i hi
    rw [rank_eq, hB]
    have : ((range ls.length).image fun j => ((j + z : Nat) : Int)).filter (· < ((i + z : Nat) : Int))
        = (range i).image fun j => ((j + z : Nat) : Int) := by
      ext x
      simp only [mem_filter, mem_image, mem_range]
      constructor
      · rintro ⟨⟨j, hj, rfl⟩, hlt'⟩; exact ⟨j, by omega, rfl⟩
      · rintro ⟨j, hj, rfl⟩; exact ⟨⟨j, by omega, rfl⟩, by omega⟩
    rw [this, Finset.card_image_of_injective _ hinj, card_range]
  have hD : numMods c = ls.length := by
    rw [numMods_eq, hB, Finset.card_image_of_injective _ hinj, card_range]
  refine ⟨by rw [ci2ls_length, hD], ?_⟩
  intro i b hb
  have hi := hidx i b hb
  have hi' : i < (ci2ls c).length := by rw [ci2ls_length, hD]; exact hi
  refine ⟨(ci2ls c)[i], List.getElem?_eq_getElem hi', ?_⟩
  intro u
  have hblk := ci2ls_blocks c u i (by rw [hD]; exact hi)
  have hmem : u ∈ (ci2ls c)[i] ↔ (relabel c)[u] = i + 1 := by
    rw [← hblk]
    constructor
    · intro hu; exact ⟨_, List.getElem?_eq_getElem hi', hu⟩
    · rintro ⟨b', hb', hu⟩
      rw [List.getElem?_eq_getElem hi'] at hb'
      rw [Option.some.inj hb']; exact hu
  rw [hmem, relabel_get]
  constructor
  · intro hr
    obtain ⟨j, b2, hb2, hu2⟩ := hcov' u
    have hj := hidx j b2 hb2
    have hcu := hA j b2 hb2 u hu2
    rw [hcu, hC j hj] at hr
    have : j = i := by omega
    subst this
    rw [hb] at hb2
    rw [Option.some.inj hb2]; exact hu2
  · intro hu
    rw [hA i b hb u hu, hC i hi]


/-! ## partition_distance over ℝ: `VIn`, `MIn` as the code computes them from the table

`Hof c = -Σ_a (n_a/n) log (n_a/n)`, `Hjoint = -Σ_ab (n_ab/n) log (n_ab/n)`,
`Vin = (2*Hxy - Hx - Hy) / np.log(n) if n > 1 else 0.0`,
`Min = 2*(Hx + Hy - Hxy) / (Hx + Hy) if Hx + Hy > 0 else 1.0` (modularity.py, `partition_distance`, after commit 0c07c81). -/

noncomputable section

def Hof (c : Vector Int n) : ℝ := sizeSum (PartEntropy.f n) c
def Hjoint (cx cy : Vector Int n) : ℝ := tableSum (PartEntropy.f n) cx cy
def VIn (cx cy : Vector Int n) : ℝ :=
  if 1 < n then (2 * Hjoint cx cy - Hof cx - Hof cy) / Real.log n else 0
def MIn (cx cy : Vector Int n) : ℝ :=
  if 0 < Hof cx + Hof cy then 2 * (Hof cx + Hof cy - Hjoint cx cy) / (Hof cx + Hof cy) else 1

/-- `partition_distance` is symmetric in its arguments -/
theorem pd_symm (cx cy : Vector Int n) : VIn cy cx = VIn cx cy ∧ MIn cy cx = MIn cx cy := by
  unfold VIn MIn Hjoint
  rw [tableSum_symm]
  constructor
  · split_ifs <;> ring
  · rw [add_comm (Hof cy) (Hof cx)]

/-- `partition_distance` does not depend on the label values of either argument -/
theorem pd_inv (cx cy : Vector Int n) {g h : Int → Int} (hg : Injective g) (hh : Injective h) :
    VIn (cx.map g) (cy.map h) = VIn cx cy ∧ MIn (cx.map g) (cy.map h) = MIn cx cy := by
  unfold VIn MIn Hjoint Hof
  rw [tableSum_inv _ cx cy hg hh, sizeSum_inv _ cx hg, sizeSum_inv _ cy hh]
  exact ⟨rfl, rfl⟩

/-- the table of counts indexed by labels -/
def tcell (cx cy : Vector Int n) (ℓ ℓ' : Int) : Nat :=
  cellOf (fun v => decide (cx[v] = ℓ)) (fun v => decide (cy[v] = ℓ'))

theorem Hjoint_eq (cx cy : Vector Int n) :
    Hjoint cx cy = PartEntropy.HXY (labelSet cx) (labelSet cy) (tcell cx cy) n := by
  unfold Hjoint tableSum PartEntropy.HXY tcell
  simp only [modSum_eq]

theorem card_row (cy : Vector Int n) (p : Fin n → Bool) :
    cardIn p = ∑ ℓ' ∈ labelSet cy, cellOf p (fun v => decide (cy[v] = ℓ')) := by
  rw [cardIn_eq, Finset.card_eq_sum_card_fiberwise (f := fun v : Fin n => cy[v]) (t := labelSet cy)
    (fun v _ => mem_labelSet cy v)]
  apply Finset.sum_congr rfl
  intro ℓ' _
  rw [cellOf_eq]
  congr 1
  ext v
  simp

theorem card_col (cx : Vector Int n) (q : Fin n → Bool) :
    cardIn q = ∑ ℓ ∈ labelSet cx, cellOf (fun v => decide (cx[v] = ℓ)) q := by
  rw [card_row cx q]
  simp only [cellOf_symm]

theorem Hof_eq_HX (cx cy : Vector Int n) :
    Hof cx = PartEntropy.HX (labelSet cx) (labelSet cy) (tcell cx cy) n := by
  unfold Hof sizeSum PartEntropy.HX tcell
  rw [modSum_eq]
  apply Finset.sum_congr rfl
  intro ℓ _
  rw [card_row cy]

theorem Hof_eq_HY (cx cy : Vector Int n) :
    Hof cy = PartEntropy.HY (labelSet cx) (labelSet cy) (tcell cx cy) n := by
  unfold Hof sizeSum PartEntropy.HY tcell
  rw [modSum_eq]
  apply Finset.sum_congr rfl
  intro ℓ' _
  rw [card_col cx]

theorem total_eq (cx cy : Vector Int n) :
    ∑ ℓ ∈ labelSet cx, ∑ ℓ' ∈ labelSet cy, tcell cx cy ℓ ℓ' = n := by
  unfold tcell
  simp only [← card_row cy]
  have := Finset.card_eq_sum_card_fiberwise (s := (univ : Finset (Fin n))) (f := fun v : Fin n => cx[v])
    (t := labelSet cx) (fun v _ => mem_labelSet cx v)
  rw [Finset.card_univ, Fintype.card_fin] at this
  refine (Finset.sum_congr rfl ?_).trans this.symm
  intro ℓ _
  rw [cardIn_eq]
  congr 1
  ext v
  simp

theorem VI_eq (cx cy : Vector Int n) :
    2 * Hjoint cx cy - Hof cx - Hof cy = PartEntropy.VI (labelSet cx) (labelSet cy) (tcell cx cy) n := by
  unfold PartEntropy.VI
  rw [Hjoint_eq, Hof_eq_HX cx cy, Hof_eq_HY cx cy]

/-- un-normalised variation of information is zero exactly when the partitions coincide up to renaming -/
theorem VI_eq_zero_iff_same (cx cy : Vector Int n) (hpos : 0 < n) :
    2 * Hjoint cx cy - Hof cx - Hof cy = 0 ↔ samePart cx cy := by
  rw [VI_eq, PartEntropy.VI_eq_zero_iff _ _ _ hpos, same_iff_labels]
  constructor
  · intro h ℓ hℓ ℓ' hℓ'
    rcases h ℓ hℓ ℓ' hℓ' with h0 | ⟨h1, h2⟩
    · exact Or.inl h0
    · right
      rw [card_row cy, card_col cx (fun v => decide (cy[v] = ℓ'))]
      exact ⟨h1, h2⟩
  · intro h ℓ hℓ ℓ' hℓ'
    rcases h ℓ hℓ ℓ' hℓ' with h0 | ⟨h1, h2⟩
    · exact Or.inl h0
    · right
      rw [card_row cy] at h1
      rw [card_col cx (fun v => decide (cy[v] = ℓ'))] at h2
      exact ⟨h1, h2⟩

/-- on at most one node there is only one partition -/
theorem samePart_of_le_one (cx cy : Vector Int n) (hn : ¬ 1 < n) : samePart cx cy := by
  intro u v
  have : u = v := Fin.ext (by have := u.isLt; have := v.isLt; omega)
  subst this
  exact ⟨fun _ => rfl, fun _ => rfl⟩

/-- the normalised variation of information lies in `[0, 1]` — for every `n ≥ 1` (the code returns 0 for `n = 1`; on zero nodes
it raises ValueError, which the driver mirrors, so `n = 0` is outside the theorem) -/
theorem VIn_range (cx cy : Vector Int n) (_hn : 0 < n) : 0 ≤ VIn cx cy ∧ VIn cx cy ≤ 1 := by
  unfold VIn
  by_cases hn : 1 < n
  · have hpos : 0 < n := by omega
    have hlog : 0 < Real.log n := Real.log_pos (by exact_mod_cast hn)
    rw [if_pos hn, VI_eq]
    constructor
    · exact div_nonneg (PartEntropy.VI_nonneg _ _ _ hpos) hlog.le
    · rw [div_le_one hlog]
      exact PartEntropy.VI_le_log _ _ _ hpos (total_eq cx cy)
  · rw [if_neg hn]; exact ⟨le_refl 0, zero_le_one⟩

/-- zero variation of information exactly when the partitions coincide up to renaming — for every `n ≥ 1` -/
theorem VIn_eq_zero_iff (cx cy : Vector Int n) (_hn : 0 < n) : VIn cx cy = 0 ↔ samePart cx cy := by
  unfold VIn
  by_cases hn : 1 < n
  · have hpos : 0 < n := by omega
    have hlog : 0 < Real.log n := Real.log_pos (by exact_mod_cast hn)
    rw [if_pos hn, div_eq_zero_iff, ← VI_eq_zero_iff_same cx cy hpos]
    constructor
    · rintro (h | h)
      · exact h
      · exact absurd h hlog.ne'
    · intro h; exact Or.inl h
  · rw [if_neg hn]
    exact ⟨fun _ => samePart_of_le_one cx cy hn, fun _ => rfl⟩

/-- the entropy of a partition with at least two modules is positive -/
theorem Hof_pos (c : Vector Int n) (hk : 2 ≤ numMods c) : 0 < Hof c := by
  unfold Hof sizeSum
  rw [modSum_eq]
  have hn : ∑ ℓ ∈ labelSet c, cardIn (fun v => decide (c[v] = ℓ)) = n := by
    have := total_eq c c
    unfold tcell at this
    simpa only [← card_row c] using this
  have hne : ∀ ℓ ∈ labelSet c, 0 < cardIn (fun v => decide (c[v] = ℓ)) := by
    intro ℓ hℓ
    obtain ⟨v, _, rfl⟩ := mem_image.mp hℓ
    rw [cardIn_eq]
    exact Finset.card_pos.mpr ⟨v, by simp⟩
  rw [numMods_eq] at hk
  obtain ⟨ℓ₁, h₁, ℓ₂, h₂, hne12⟩ := Finset.one_lt_card.mp hk
  have hlt : ∀ ℓ ∈ labelSet c, cardIn (fun v => decide (c[v] = ℓ)) < n := by
    intro ℓ hℓ
    obtain ⟨ℓo, ho, hneo⟩ : ∃ ℓo ∈ labelSet c, ℓo ≠ ℓ := by
      by_cases h : ℓ₁ = ℓ
      · exact ⟨ℓ₂, h₂, fun e => hne12 (h.trans e.symm)⟩
      · exact ⟨ℓ₁, h₁, h⟩
    have := Finset.add_sum_erase (labelSet c) (fun ℓ => cardIn (fun v => decide (c[v] = ℓ))) hℓ
    have h2 : 0 < ∑ x ∈ (labelSet c).erase ℓ, cardIn (fun v => decide (c[v] = x)) :=
      lt_of_lt_of_le (hne ℓo ho) (Finset.single_le_sum (f := fun x => cardIn (fun v => decide (c[v] = x)))
        (fun _ _ => Nat.zero_le _) (Finset.mem_erase.mpr ⟨hneo, ho⟩))
    omega
  apply Finset.sum_pos
  · intro ℓ hℓ
    unfold PartEntropy.f
    have hnpos : (0 : ℝ) < n := by
      have := hlt ℓ hℓ
      exact_mod_cast (by omega : 0 < n)
    have hx0 : (0 : ℝ) < (cardIn (fun v => decide (c[v] = ℓ)) : ℝ) / n :=
      div_pos (by exact_mod_cast hne ℓ hℓ) hnpos
    have hx1 : (cardIn (fun v => decide (c[v] = ℓ)) : ℝ) / n < 1 := by
      rw [div_lt_one hnpos]; exact_mod_cast hlt ℓ hℓ
    have := Real.mul_log_neg hx0 hx1
    rw [Real.negMulLog_eq_neg]
    simp only
    linarith
  · exact ⟨ℓ₁, h₁⟩

theorem Hof_nonneg (c : Vector Int n) : 0 ≤ Hof c := by
  rcases Nat.eq_zero_or_pos n with h0 | hpos
  · subst h0
    unfold Hof sizeSum PartEntropy.f
    rw [modSum_eq]
    simp
  · have := PartEntropy.HX_le_HXY (labelSet c) (labelSet c) (tcell c c) hpos
    rw [← Hof_eq_HX c c] at this
    unfold Hof sizeSum PartEntropy.f
    rw [modSum_eq]
    apply Finset.sum_nonneg
    intro ℓ _
    apply Real.negMulLog_nonneg (by positivity)
    rw [div_le_one (by exact_mod_cast hpos)]
    rw [cardIn_eq]
    have := Finset.card_le_univ (univ.filter fun v : Fin n => decide (c[v] = ℓ) = true)
    rw [Fintype.card_fin] at this
    exact_mod_cast this

theorem f_small {N k : Nat} (hN : ¬ 1 < N) (hk : k ≤ N) : PartEntropy.f N k = 0 := by
  unfold PartEntropy.f
  have hN' : N = 0 ∨ N = 1 := by omega
  rcases hN' with rfl | rfl
  · simp
  · have hk' : k = 0 ∨ k = 1 := by omega
    rcases hk' with rfl | rfl <;> simp

/-- on at most one node every entropy is zero -/
theorem Hof_eq_zero_of_le_one (c : Vector Int n) (hn : ¬ 1 < n) : Hof c = 0 := by
  unfold Hof sizeSum
  rw [modSum_eq]
  apply Finset.sum_eq_zero
  intro ℓ _
  apply f_small hn
  rw [cardIn_eq]
  have := Finset.card_le_univ (univ.filter fun v : Fin n => decide (c[v] = ℓ) = true)
  rwa [Fintype.card_fin] at this

/-- **`(VIn, MIn) = (0, 1)` exactly when the two partitions coincide up to renaming** — for every `n ≥ 1` and every pair of
partitions (the guards `n > 1`, `Hx + Hy > 0` of the code make the single-module and single-node cases return `(0, 1)`) -/
theorem pd_zero_one_iff (cx cy : Vector Int n) (hn0 : 0 < n) : (VIn cx cy = 0 ∧ MIn cx cy = 1) ↔ samePart cx cy := by
  constructor
  · intro h; exact (VIn_eq_zero_iff cx cy hn0).mp h.1
  · intro h
    refine ⟨(VIn_eq_zero_iff cx cy hn0).mpr h, ?_⟩
    unfold MIn
    by_cases hn : 1 < n
    · have h0 := (VI_eq_zero_iff_same cx cy (by omega)).mpr h
      split_ifs with hH
      · rw [div_eq_one_iff_eq hH.ne']; linarith
      · rfl
    · rw [Hof_eq_zero_of_le_one cx hn, Hof_eq_zero_of_le_one cy hn]
      simp

/-! ### `VIn`, `MIn` are functions of the printed table alone

The driver prints `sizes cx`, `sizes cy`, `jointSizes cx cy` and evaluates `pdWith` on them over `Rat` with the double
logarithms; the check compares both with bct.  `pd_of_table` says that the *same* definition `pdWith`, read over `ℝ` with
`Real.log`, is `(VIn, MIn)`: table correspondence + this lemma tie `pd_symm … pd_zero_one_iff` to the code's formula. -/

theorem entW_real (N k : Nat) : entW (fun k => Real.log (k : ℝ)) N k = PartEntropy.f N k := by
  rcases Nat.eq_zero_or_pos N with rfl | hN
  · simp [entW, PartEntropy.f]
  · rw [PartEntropy.f_eq hN]; rfl

theorem sum_map_filter_ne_zero {α : Type} [AddCommMonoid α] (φ : Nat → α) (h0 : φ 0 = 0) (l : List Nat) :
    ((l.filter (· ≠ 0)).map φ).sum = (l.map φ).sum := by
  induction l with
  | nil => rfl
  | cons x l ih =>
    simp only [ne_eq, decide_not] at ih ⊢
    by_cases hx : x = 0
    · subst hx; simp [h0, ih]
    · simp [hx, ih]

theorem sum_sizes_f (c : Vector Int n) : ((sizes c).map (PartEntropy.f n)).sum = Hof c := by
  unfold sizes Hof sizeSum modSum sumRange
  simp only [List.map_map, Function.comp_def]

theorem sum_joint_f (cx cy : Vector Int n) : ((jointSizes cx cy).map (PartEntropy.f n)).sum = Hjoint cx cy := by
  unfold jointSizes Hjoint
  rw [sum_map_filter_ne_zero _ (by simp [PartEntropy.f]), tableSum_eq_table]

/-- **pd_of_table** -/
theorem pd_of_table (cx cy : Vector Int n) :
    (VIn cx cy, MIn cx cy) =
      pdWith (fun k => Real.log (k : ℝ)) n (sizes cx) (sizes cy) (jointSizes cx cy) := by
  have e : entW (fun k => Real.log (k : ℝ)) n = PartEntropy.f n := funext fun k => entW_real n k
  unfold pdWith VIn MIn
  simp only [e, sum_sizes_f, sum_joint_f]
  refine Prod.ext ?_ ?_
  · simp only
    split_ifs
    · congr 1; ring
    · rfl
  · simp only
    split_ifs
    · congr 1; ring
    · rfl

end

/-! ## non-vacuity: every theorem above instantiated on concrete inputs with non-trivial values -/
section Examples

def c0 : Vector Int 4 := #v[5, 5, 9, 2]
def c1 : Vector Int 4 := #v[1, 1, 2, 2]
def c2 : Vector Int 4 := #v[1, 2, 2, 2]
/-- an order-reversing, non-contiguous, sign-changing injective renaming -/
def g7 : Int → Int := fun x => 100 - 7 * x
theorem g7_inj : Injective g7 := fun a b h => by simp only [g7] at h; omega
theorem shift_mono : StrictMono (fun x : Int => x + 100) := fun a b h => by simp only; omega

instance (cx cy : Vector Int n) : Decidable (samePart cx cy) := by unfold samePart; infer_instance

example : relabel c0 = #v[2, 2, 3, 1] ∧ numMods c0 = 3 := by decide +kernel
example : relabel (c0.map g7) = #v[2, 2, 1, 3] := by decide +kernel          -- π = (1 3) ≠ id
example : (relabel c0)[(0 : Fin 4)] = (relabel c0)[(1 : Fin 4)] ↔ c0[(0 : Fin 4)] = c0[(1 : Fin 4)] := relabel_eq_iff c0 0 1
example : 1 ≤ (relabel c0)[(2 : Fin 4)] ∧ (relabel c0)[(2 : Fin 4)] ≤ numMods c0 := relabel_range c0 2
example : ∃ v : Fin 4, (relabel c0)[v] = 3 := relabel_surj c0 3 (by decide) (by decide +kernel)
example : relabel (c0.map fun x => x + 100) = relabel c0 := relabel_strictMono c0 shift_mono
example : ∃ π : Nat → Nat, Set.BijOn π (Set.Icc 1 (numMods c0)) (Set.Icc 1 (numMods c0)) ∧
    ∀ v : Fin 4, (relabel (c0.map g7))[v] = π (relabel c0)[v] := (relabel_inj c0 g7_inj).2

example : partCoef witnessW c1 = #v[4/9, 3/8, 4/9, 3/8] := by decide +kernel
example : partCoef witnessW (c1.map g7) = partCoef witnessW c1 := partCoef_inv _ _ g7_inj
def signedW : AMat Rat 4 :=
  AMat.ofFn fun i j => ((([[0, 1, -2, 0], [1, 0, 3, -1], [-2, 3, 0, 2], [0, -1, 2, 0]] : List (List Rat)).getD i.val []).getD j.val 0)
example : (partCoefSign signedW c2).1 = #v[0, 3/8, 0, 0] ∧ (partCoefSign signedW c2).2 = #v[0, 0, 0, 0] := by decide +kernel
example : partCoefSign signedW (c2.map g7) = partCoefSign signedW c2 := partCoefSign_inv _ _ g7_inj
example : (zIngr witnessW c2 0)[(1 : Fin 4)] = (1/3, 14/9) := by decide +kernel
example : zIngr witnessW (c2.map g7) 0 = zIngr witnessW c2 0 := zIngr_inv _ _ 0 g7_inj
example : divSum (fun p => p * p) (posPart signedW) c2 1 = 5/8 := by decide +kernel
example : divSum (fun p => p * p) (posPart signedW) (c2.map g7) 1 = divSum (fun p => p * p) (posPart signedW) c2 1 :=
  (divSum_inv _ _ c2 1 g7_inj).1
example : qUnd witnessW 1 c1 = some (-3/14) := by decide +kernel
example : qUnd witnessW 1 (c1.map g7) = qUnd witnessW 1 c1 := qUnd_inv _ _ _ g7_inj
example : qDir witnessW (1/2) c2 = some (47/196) := by decide +kernel
example : qDir witnessW (1/2) (c2.map g7) = qDir witnessW (1/2) c2 := qDir_inv _ _ _ g7_inj
example : qSign signedW c1 .sta = 11/72 := by decide +kernel
example : qSign signedW (c1.map g7) .sta = qSign signedW c1 .sta := qSign_inv _ _ _ g7_inj
example : (agreement [c1, c2]).get 2 3 = 2 ∧ (agreement [c1, c2]).get 0 1 = 1 := by decide +kernel
example : agreement [c1.map g7, c2.map (· + 100)] = agreement [c1, c2] :=
  agreement_inv _ _ (.cons ⟨g7, g7_inj, rfl⟩ (.cons ⟨(· + 100), shift_mono.injective, rfl⟩ .nil))
example : gateway witnessW (c2.map fun x => x + 100) = gateway witnessW c2 := gateway_mono_partial _ _ shift_mono
example : (gateway witnessW c2).toOption.map (fun r => r.1[1]) = some (26859/58564 : Rat) := by decide +kernel

example : table c1 c2 = [[1, 1], [0, 2]] ∧ sizes c1 = [2, 2] ∧ sizes c2 = [1, 3] ∧ jointSizes c1 c2 = [1, 1, 2] := by
  decide +kernel
example : table c2 c1 = [[1, 0], [1, 2]] := by decide +kernel
example : tableSum (fun k => k * k) c1 c2 = 6 := by decide +kernel
example : tableSum (fun k => k * k) (c1.map g7) (c2.map (· + 100)) = tableSum (fun k => k * k) c1 c2 :=
  tableSum_inv _ _ _ g7_inj shift_mono.injective
example : samePart c1 (c1.map g7) := samePart_map c1 g7_inj
example : ¬ samePart c1 c2 := by decide
example : 0 ≤ VIn c1 c2 ∧ VIn c1 c2 ≤ 1 := VIn_range c1 c2 (by decide)
example : VIn c1 c2 ≠ 0 := fun h => absurd ((VIn_eq_zero_iff c1 c2 (by decide)).mp h) (by decide)
example : VIn c1 (c1.map g7) = 0 ∧ MIn c1 (c1.map g7) = 1 :=
  (pd_zero_one_iff c1 (c1.map g7) (by decide)).mpr (samePart_map c1 g7_inj)
/-- both single-module (formerly `(0, nan)`) and a single node (formerly `(nan, nan)`) -/
example : VIn (#v[7, 7, 7] : Vector Int 3) #v[2, 2, 2] = 0 ∧ MIn (#v[7, 7, 7] : Vector Int 3) #v[2, 2, 2] = 1 :=
  (pd_zero_one_iff _ _ (by decide)).mpr (by decide)
example : VIn (#v[7] : Vector Int 1) #v[2] = 0 ∧ MIn (#v[7] : Vector Int 1) #v[2] = 1 :=
  (pd_zero_one_iff _ _ (by decide)).mpr (by decide)
example : ci2ls c0 = [[3], [0, 1], [2]] := by decide +kernel
example : ls2ci ((ci2ls c0).map (·.map Fin.val)) 1 = .ok [2, 2, 3, 1] := by
  rw [ls2ci_ci2ls]; decide +kernel

example : ∃ ci, ls2ci [[2, 0], [1]] 1 = .ok ci ∧ ci.length = 3 ∧ ci[2]? = some 1 ∧ ci[1]? = some 2 := by
  obtain ⟨ci, h1, h2, h3⟩ := ls2ci_spec [[2, 0], [1]] 1 (by decide) (by
    intro i j b b' hi hj v hv hv'
    match i, j with
    | 0, 0 => rfl
    | 1, 1 => rfl
    | 0, 1 => simp at hi hj; subst hi hj; simp at hv hv'; omega
    | 1, 0 => simp at hi hj; subst hi hj; simp at hv hv'; omega
    | 0, (j + 2) => simp at hj
    | 1, (j + 2) => simp at hj
    | (i + 2), _ => simp at hi)
  exact ⟨ci, h1, h2, h3 0 [2, 0] rfl 2 (by simp), h3 1 [1] rfl 1 (by simp)⟩

example : pdWith (fun k => (k : Rat)) 4 (sizes c1) (sizes c2) (jointSizes c1 c2) = (3/8, 4/7) := by decide +kernel
example : (VIn c1 c2, MIn c1 c2) = pdWith (fun k => Real.log (k : ℝ)) 4 [2, 2] [1, 3] [1, 1, 2] := by
  rw [pd_of_table]; congr 1 <;> decide +kernel

example : ∃ (ci : List Nat) (h : ci.length = 3), ls2ci [[2, 0], [1]] 0 = .ok ci ∧ (ci2ls (vecOf ci h)).length = 2 := by
  obtain ⟨ci, h, h1, h2, _⟩ := ci2ls_ls2ci (n := 3) [[2, 0], [1]] 0 rfl (by decide) (by
    intro i j b b' hi hj v hv hv'
    match i, j with
    | 0, 0 => rfl
    | 1, 1 => rfl
    | 0, 1 => simp at hi hj; subst hi hj; simp at hv hv'; omega
    | 1, 0 => simp at hi hj; subst hi hj; simp at hv hv'; omega
    | 0, (j + 2) => simp at hj
    | 1, (j + 2) => simp at hj
    | (i + 2), _ => simp at hi) (by decide) (by decide)
  exact ⟨ci, h, h1, h2⟩

example : (pnmTable (posPart signedW) c2)[1]? = some [1/4, 3/4] := by decide +kernel

example : gatewayIndexErr (#v[3, 3, 2, 1] : Vector Int 4) = true ∧ gatewayIndexErr c2 = false := by decide +kernel
example : gateway witnessW #v[3, 3, 2, 1] = .error .index := ((gateway_error_iff witnessW #v[3, 3, 2, 1]).1).mpr (by decide +kernel)
example : gateway witnessW (c2.map (· + 100)) = gateway witnessW c2 :=
  gateway_factor _ _ _ (relabel_strictMono c2 shift_mono) (by decide +kernel)
example : agreementW [c1, c2] [1, 3] = some (AMat.ofFn fun i j =>
    if i = j then 1 else if (i.val = 0 ∧ j.val = 1) ∨ (i.val = 1 ∧ j.val = 0) then 1/4 else
    if i.val = 0 ∨ j.val = 0 then 0 else if (i.val = 2 ∧ j.val = 3) ∨ (i.val = 3 ∧ j.val = 2) then 1 else 3/4) := by decide +kernel
example : agreementW [c1.map g7, c2.map (· + 100)] [1, 3] = agreementW [c1, c2] [1, 3] :=
  agreementW_inv _ _ _ (.cons ⟨g7, g7_inj, rfl⟩ (.cons ⟨(· + 100), shift_mono.injective, rfl⟩ .nil))

end Examples

end Bct.C14
