import BctVerif.Model.CoreIRPath
import Mathlib.Tactic.Ring
import Mathlib.Data.List.Basic

/-!
# C12 (second tie) — link theorem for the source-extracted `retrieve_shortest_path`

If the generated obligation `pathOk ir` holds, the program extracted from the current source, run by the interpreter of
`Model/CoreIRPath.lean` on any hop-count matrix, any predecessor matrix and any pair of nodes, returns exactly
`Dist.retrieve hops P s t` (as node numbers) — the function the C12 theorems (`retrieve_valid`, …) are about.
-/

namespace Bct.Cores.Path
open Bct Bct.Dist Bct.CoreIR.Path

variable {n : ℕ}

theorem loop_spec (P : AMat (Fin n) n) (t : Fin n) :
    ∀ (k i : ℕ) (done : List ℕ) (s : Fin n) (E : Env n),
      E.sc "s" = some s.val → E.sc "t" = some t.val → E.mat "Pmat" = some (P.map Fin.val) →
      E.arr "path" = some (done ++ List.replicate k 0) → done.length = i →
      ∃ E', forIdx "ind" refIR.loopBody (List.range' i k) E = some E' ∧
        E'.arr "path" = some (done ++ (retrieveGo P t k s).map Fin.val) := by
  intro k
  induction k with
  | zero =>
    intro i done s E _ _ _ hp _
    exact ⟨E, rfl, by simpa [retrieveGo] using hp⟩
  | succ k ih =>
    intro i done s E hs ht hP hp hl
    have hcell : (if h : s.val < n ∧ t.val < n then some ((P.map Fin.val).get ⟨s.val, h.1⟩ ⟨t.val, h.2⟩) else none)
        = some (P.get s t).val := by
      rw [dif_pos ⟨s.isLt, t.isLt⟩]; simp [AMat.map]
    have hlen : i < (done ++ List.replicate (k + 1) 0).length := by simp [hl]
    have hset : (done ++ List.replicate (k + 1) 0).set i (P.get s t).val = (done ++ [(P.get s t).val]) ++ List.replicate k 0 := by
      subst hl
      simp [List.replicate_succ]
    obtain ⟨E', e, g⟩ := ih (i + 1) (done ++ [(P.get s t).val]) (P.get s t)
      { sc := fun y => if y = "s" then some (P.get s t).val else if y = "ind" then some i else E.sc y,
        mat := E.mat,
        arr := fun y => if y = "path" then some ((done ++ [(P.get s t).val]) ++ List.replicate k 0) else E.arr y }
      (by simp) (by simp [ht]) hP (by simp) (by simp [hl])
    refine ⟨E', ?_, ?_⟩
    · simp only [List.range'_succ, forIdx, refIR, execs, exec, eval, show ("s" = "ind") = False by decide,
        show ("t" = "ind") = False by decide, show ("ind" = "s") = False by decide, if_false, hs, ht, hP, hcell, Option.map_some,
        if_true, hp]
      rw [if_pos hlen, hset]
      exact e
    · rw [g]; simp [retrieveGo]

theorem thenPre_spec (E1 : Env n) (k sv : ℕ) (h1 : E1.sc "path_length" = some k) (h2 : E1.sc "s" = some sv) :
    ∃ E2, execs refIR.thenPre E1 = some E2 ∧ E2.sc = E1.sc ∧ E2.mat = E1.mat ∧
      E2.arr "path" = some ([sv] ++ List.replicate k 0) := by
  refine ⟨{ E1 with arr := fun y => if y = "path" then some ([sv] ++ List.replicate k 0) else
      if y = "path" then some (List.replicate (k + 1) 0) else E1.arr y }, ?_, rfl, rfl, by simp⟩
  simp [refIR, execs, exec, eval, h1, h2, List.replicate_succ]

/-- **Link, `retrieve_shortest_path`.**  If the generated obligation holds, the extracted routine returns, for every hop-count
matrix, predecessor matrix and pair of nodes, exactly `Dist.retrieve hops P s t`: `[]` when `hops[s,t] = 0`, otherwise `s` followed
by `hops[s,t]` successive reads `s = Pmat[s, t]`. -/
theorem link_retrieve (ir : PathIR) (hok : pathOk ir = true) (hops : AMat ℕ n) (P : AMat (Fin n) n) (s t : Fin n) :
    run ir hops P s t = some ((retrieve hops P s t).map Fin.val) := by
  have hir : ir = refIR := by simpa [pathOk] using hok
  subst hir
  have hcell : (if h : s.val < n ∧ t.val < n then some (hops.get ⟨s.val, h.1⟩ ⟨t.val, h.2⟩) else none) = some (hops.get s t) := by
    rw [dif_pos ⟨s.isLt, t.isLt⟩]
  by_cases h0 : hops.get s t = 0
  · simp [run, refIR, execs, exec, eval, hcell, h0, retrieve]
  · -- the state after `path_length = hops[s, t]`
    let E1 : Env n :=
      { sc := fun y => if y = "path_length" then some (hops.get s t) else if y = "t" then some t.val else if y = "s" then some s.val else none,
        mat := fun y => if y = "Pmat" then some (P.map Fin.val) else if y = "hops" then some hops else none,
        arr := fun _ => none }
    have hpre : execs refIR.pre
        ({ sc := fun y => if y = "t" then some t.val else if y = "s" then some s.val else none,
           mat := fun y => if y = "Pmat" then some (P.map Fin.val) else if y = "hops" then some hops else none,
           arr := fun _ => none } : Env n) = some E1 := by
      simp [refIR, execs, exec, eval, hcell, E1]
    obtain ⟨E2, e2, hsc, hmat, harr⟩ := thenPre_spec E1 (hops.get s t) s.val (by simp [E1]) (by simp [E1])
    obtain ⟨E3, e3, g3⟩ := loop_spec P t (hops.get s t) 1 [s.val] s E2
      (by rw [hsc]; simp [E1]) (by rw [hsc]; simp [E1]) (by rw [hmat]; simp [E1]) harr rfl
    have hlen : eval E2 refIR.hi = some (hops.get s t + 1) := by
      simp [refIR, eval, harr, Nat.add_comm]
    have hlo : eval E2 refIR.lo = some 1 := rfl
    have htest : E1.sc refIR.testVar = some (hops.get s t) := by simp [E1, refIR]
    simp only [run, show refIR.params = ["s", "t", "hops", "Pmat"] from rfl, hpre, htest, show refIR.testLit = 0 from rfl, ne_eq, h0,
      not_false_eq_true, if_true, e2, hlo, hlen, Nat.add_sub_cancel, show refIR.loopVar = "ind" from rfl, e3,
      show refIR.ret = "path" from rfl, g3, retrieve, if_false]
    simp

example : pathOk refIR = true := by decide
/-- reading the predecessor of the wrong pair (`Pmat[t, s]`) is rejected -/
example : pathOk { refIR with loopBody := [.bind "s" (.cell "Pmat" "t" "s"), .setAt "path" (.var "ind") (.var "s")] } = false := by
  decide
/-- a loop that starts at index 0 (overwriting `path[0]`) is rejected -/
example : pathOk { refIR with lo := .lit 0 } = false := by decide

end Bct.Cores.Path
