import BctVerif.Lemmas.ModularityLouvainDir

/-!
# C07 — modularity optimisers never return a partition worse than their start

Statements about the executable model `BctVerif/Model/Modularity.lean`: for every size `n`, every rational
matrix in the routine's domain, every rational `γ`, every start partition and **every list of draws**
(= every sequence of node visiting orders).
-/
namespace Bct.C07
open Bct Bct.Modularity Finset

variable {n : ℕ}
variable {g0 : GState}

/-- **move_gain_obj** — for a symmetric objective matrix `B` and `c u ≠ mb`, moving `u` into `mb` changes
`Qobj` by exactly twice the gain `Hnm[u,mb] − Hnm[u,ma] + B[u,u]` that all optimisers compute. -/
theorem move_gain_obj {α : Type} [DecidableEq α] (B : RMat n) (hB : ∀ i j, B.get i j = B.get j i)
    (c : Fin n → α) (u : Fin n) (mb : α) (hne : c u ≠ mb) :
    Qobj B (Function.update c u mb) - Qobj B c = 2 * dqF B c u mb :=
  Bct.Modularity.move_gain_obj B hB c u mb hne

/-- **bookkeeping_inv / gain_und** — under the invariant `Knm[:,m] = Σ_{j∈m} W[:,j]`, `Km[m] = Σ_{j∈m} k_j`
the coded gain of the undirected optimisers equals the exact gain for `B = W − γ k kᵀ/s`, and the coded
update of `Knm`, `Km` re-establishes the invariant after the move. -/
theorem bookkeeping_inv_und (W : RMat n) (γ : ℚ) (hW : Symm W) :
    KernSpec (undKern n) (Bund W γ) 1 (UndInv W γ) := undKern_spec W γ hW

/-- **bookkeeping_inv / gain_hnm** — the same for `community_louvain`'s `Hnm` and any symmetric objective matrix. -/
theorem bookkeeping_inv_obj (B : RMat n) (hB : Symm B) :
    KernSpec (objKern n) B 1 (ObjInv B) := objKern_spec B hB

/-- **pass_monotone** — for any kernel meeting the specification, a sweep over *any* list of nodes keeps
the bookkeeping invariant and never lowers the objective; a sweep that reports a move raised it strictly. -/
theorem pass_monotone {σ : Type} {K : Kern σ n} {B : RMat n} {κ : ℚ} {Inv : σ → (Fin n → Fin n) → Prop}
    (hK : KernSpec K B κ Inv) (lim : ℕ) (us : List (Fin n)) (x : PSt σ n) (hx : Inv x.st (labOf x.m)) :
    Inv (pass K lim x us).1.st (labOf (pass K lim x us).1.m) ∧
    Qobj B (labOf x.m) ≤ Qobj B (labOf (pass K lim x us).1.m) ∧
    ((pass K lim x us).2 = true → Qobj B (labOf x.m) < Qobj B (labOf (pass K lim x us).1.m)) :=
  pass_spec hK lim us x hx

/-- **run_monotone (sweeps until no move)** — for every draw list. -/
theorem passes_monotone {σ : Type} {K : Kern σ n} {B : RMat n} {κ : ℚ} {Inv : σ → (Fin n → Fin n) → Prop}
    (hK : KernSpec K B κ Inv) (lim nh fuel : ℕ) (x x' : PSt σ n) (ds rest : List ℕ)
    (hx : Inv x.st (labOf x.m)) (h : passes K lim nh fuel x ds = .ok (x', rest)) :
    Inv x'.st (labOf x'.m) ∧ Qobj B (labOf x.m) ≤ Qobj B (labOf x'.m) :=
  passes_spec hK lim nh fuel x x' ds rest hx h

/-- **modularity_finetune_und never returns a partition worse than its start** (symmetric `W`, positive
total weight, every start partition, every sequence of visiting orders). `feedback_monotone` is the
instance `c0 :=` the routine's own output. -/
theorem finetune_und_monotone (W : RMat n) (γ : ℚ) (c0 : Fin n → ℤ) (ds : List ℕ) (out : Out n)
    (hW : Symm W) (hs : 0 < total W) (h : finetuneUnd W γ c0 ds g0 = .ok out) :
    ∀ p ∈ out.levels, Qund W γ c0 ≤ Qund W γ (labOf p.1) ∧ p.2 = Qund W γ (labOf p.1) := by
  obtain ⟨c', q, _, h1, _, h3, h4⟩ := finetuneUnd_spec W γ c0 ds out hW hs h
  intro p hp
  rw [h1, List.mem_singleton] at hp
  subst hp
  exact ⟨h4, h3⟩

/-- **modularity_louvain_und: hierarchy strictly increasing, never below the singletons start.**
Every level in `out.levels` reports the true modularity of its partition, which is at least the modularity of the
all-singletons partition the routine starts from; consecutive levels gain at least `thr = 1e-10` (`q[h-1] + 1e-10 ≤ q[h]`:
the routine stops at the first level with `q[h] − q[h-1] < 1e-10`). -/
theorem louvain_und_monotone (W : RMat n) (γ : ℚ) (ds : List ℕ) (out : Out n)
    (hW : Symm W) (hs : 0 < total W) (h : louvainUnd W γ ds g0 = .ok out) :
    (∀ p ∈ out.levels,
        p.2 = Qund W γ (labOf p.1) ∧ Qund W γ (id : Fin n → Fin n) ≤ Qund W γ (labOf p.1)) ∧
    List.IsChain (fun a b : Lab n × ℚ => a.2 + thr ≤ b.2) out.levels := by
  obtain ⟨h2, h3, _⟩ := louvainUnd_spec W γ ds out hW hs h
  refine ⟨fun p hp => ?_, h3⟩
  obtain ⟨h', h''⟩ := h2 p hp
  exact ⟨h', h' ▸ h''⟩

/-- **community_louvain never returns a partition worse than its start** — every objective (built-in or
custom), every (also directed) `W`; the objective is `Σ_{ci=cj}` of the objective matrix of that type. -/
theorem community_louvain_monotone (W : RMat n) (γ : ℚ) (obj : Objective n) (c0 : Fin n → ℤ) (ds : List ℕ) (out : Out n)
    (h : communityLouvain W γ obj c0 ds g0 = .ok out) :
    ∀ p ∈ out.levels, Qobj (objMatrixRaw W γ obj) c0 ≤ Qobj (objMatrixRaw W γ obj) (labOf p.1) := by
  intro p hp
  have := (communityLouvain_spec W γ obj c0 ds out (objMatrix_symm' W γ obj) h p hp).2
  rw [Qobj_objMatrix, Qobj_objMatrix] at this
  exact this

/-- for `B='modularity'` on any (also directed) network of positive weight: in terms of `Qdir` -/
theorem community_louvain_modularity_monotone (W : RMat n) (γ : ℚ) (c0 : Fin n → ℤ) (ds : List ℕ) (out : Out n)
    (hs : 0 < total W) (h : communityLouvain W γ .modularity c0 ds g0 = .ok out) :
    ∀ p ∈ out.levels, Qdir W γ c0 ≤ Qdir W γ (labOf p.1) ∧ p.2 = Qdir W γ (labOf p.1) := by
  intro p hp
  obtain ⟨h1, h2⟩ := communityLouvain_spec W γ .modularity c0 ds out (objMatrix_symm' W γ _) h p hp
  rw [Qobj_objMatrix] at h1
  rw [Qobj_objMatrix, Qobj_objMatrix] at h2
  simp only [objMatrixRaw] at h1 h2
  refine ⟨?_, ?_⟩
  · unfold Qdir; exact div_le_div_of_nonneg_right h2 (le_of_lt hs)
  · simpa [Objective.renorm, Qdir] using h1

/-- **bookkeeping_inv / gain_sign** — the signed kernel (`Knm0/1`, `Km0/1`, `d0`, `d1`). -/
theorem bookkeeping_inv_sign (W0 W1 : RMat n) (s0 s1 d0 d1 γ : ℚ) (h0 : Symm W0) (h1 : Symm W1) :
    KernSpec (signKern n) (Bpair W0 W1 s0 s1 d0 d1 γ) 1 (SignInv W0 W1 s0 s1 d0 d1 γ) :=
  signKern_spec W0 W1 s0 s1 d0 d1 γ h0 h1

/-- **modularity_finetune_und_sign never returns a partition worse than its start** (every `qtype`). -/
theorem finetune_sign_monotone (t : QType) (W : RMat n) (γ : ℚ) (c0 : Fin n → ℤ) (ds : List ℕ) (out : Out n)
    (hW : Symm W) (h : finetuneSign t W γ c0 ds g0 = .ok out) :
    ∀ p ∈ out.levels, Qsign t W γ c0 ≤ Qsign t W γ (labOf p.1) ∧ p.2 = Qsign t W γ (labOf p.1) :=
  fun p hp => ⟨(finetuneSign_spec t W γ c0 ds out hW h p hp).2, (finetuneSign_spec t W γ c0 ds out hW h p hp).1⟩

/-- **modularity_louvain_und_sign never returns a partition worse than the singletons start.** Every level (the routine returns
the last) is genuine, and there is at least one unless the draw list ran out. -/
theorem louvain_sign_monotone (t : QType) (W : RMat n) (γ : ℚ) (ds : List ℕ) (out : Out n)
    (hW : Symm W) (h : louvainSign t W γ ds g0 = .ok out) :
    (∀ p ∈ out.levels,
      p.2 = Qsign t W γ (labOf p.1) ∧ Qsign t W γ (id : Fin n → Fin n) ≤ Qsign t W γ (labOf p.1)) ∧
    (out.starved = none → 1 ≤ out.levels.length) :=
  louvainSign_spec t W γ ds out hW h

/-- **community_louvain, the other built-in objectives, in terms of the named quality functions** —
`'potts'`: `Qpotts` (needs `0 < total W`, it divides by it); `'negative_sym'`: signed type `gja`; `'negative_asym'`: signed
type `sta` — any (also directed) `W` with positive weights present, whatever the sign of its total. -/
theorem community_louvain_named_monotone (W : RMat n) (γ : ℚ) (c0 : Fin n → ℤ) (ds : List ℕ) (out : Out n)
    (hs0 : total (posPart W) ≠ 0) :
    (0 < total W → communityLouvain W γ .potts c0 ds g0 = .ok out → ∀ p ∈ out.levels, Qpotts W γ c0 ≤ Qpotts W γ (labOf p.1)) ∧
    (communityLouvain W γ .negSym c0 ds g0 = .ok out → ∀ p ∈ out.levels, Qsign .gja W γ c0 ≤ Qsign .gja W γ (labOf p.1)) ∧
    (communityLouvain W γ .negAsym c0 ds g0 = .ok out → ∀ p ∈ out.levels, Qsign .sta W γ c0 ≤ Qsign .sta W γ (labOf p.1)) := by
  refine ⟨fun hs h p hp => ?_, fun h p hp => ?_, fun h p hp => ?_⟩
  · have := community_louvain_monotone W γ .potts c0 ds out h p hp
    unfold Qpotts
    exact div_le_div_of_nonneg_right this (le_of_lt hs)
  · have := community_louvain_monotone W γ .negSym c0 ds out h p hp
    rw [(objMatrixRaw_neg_eq W γ hs0).1] at this
    rw [Qsign_eq, Qsign_eq]; exact this
  · have := community_louvain_monotone W γ .negAsym c0 ds out h p hp
    rw [(objMatrixRaw_neg_eq W γ hs0).2] at this
    rw [Qsign_eq, Qsign_eq]; exact this

/-- **bookkeeping_inv / gain_dir** — `modularity_finetune_dir`: `knm_o + knm_i`, `km_o`, `km_i` are kept exactly and
the coded `(dq_o + dq_i)/2` is the exact gain for the symmetrised directed modularity matrix, any `W`. -/
theorem bookkeeping_inv_dir (W : RMat n) (γ : ℚ) :
    KernSpec (dirKern n) (symmetrise (Bmod W γ)) 1 (DirInv W γ) := dirKern_spec W γ

/-- **modularity_finetune_dir never returns a partition worse than its start** — arbitrary (directed) `W` of
positive total weight, every start, every sequence of visiting orders. -/
theorem finetune_dir_monotone (W : RMat n) (γ : ℚ) (c0 : Fin n → ℤ) (ds : List ℕ) (out : Out n)
    (hs : 0 < total W) (h : finetuneDir W γ c0 ds g0 = .ok out) :
    ∀ p ∈ out.levels, Qdir W γ c0 ≤ Qdir W γ (labOf p.1) ∧ p.2 = Qdir W γ (labOf p.1) :=
  fun p hp => ⟨finetuneDir_spec W γ c0 ds out hs h p hp, finetuneDir_q W γ c0 ds out h p hp⟩

/-! ### feeding a routine's own output back never lowers Q

The returned labels `c₁ : Lab n` are handed back as the start (`fun i => c₁[i] + 1`, as the Python caller does). -/

/-- the start partition fed back -/
def fedBack {n : ℕ} (c : Lab n) : Fin n → ℤ := fun i => ((labOf c i).val : ℤ) + 1

theorem fedBack_congr (c : Lab n) (i j : Fin n) : fedBack c i = fedBack c j ↔ labOf c i = labOf c j := by
  unfold fedBack
  constructor
  · intro e; exact Fin.ext (by exact_mod_cast (add_right_cancel e))
  · intro e; rw [e]

/-- **feedback_monotone** — `modularity_finetune_und`, `_dir`, `_und_sign` and `community_louvain` started from their
own output `c₁` (any earlier run, any draws) return a partition at least as good as `c₁`. -/
theorem feedback_monotone (W : RMat n) (γ : ℚ) (c1 : Lab n) (ds : List ℕ) (out : Out n) :
    (Symm W → 0 < total W → finetuneUnd W γ (fedBack c1) ds g0 = .ok out →
      ∀ p ∈ out.levels, Qund W γ (labOf c1) ≤ Qund W γ (labOf p.1)) ∧
    (0 < total W → finetuneDir W γ (fedBack c1) ds g0 = .ok out →
      ∀ p ∈ out.levels, Qdir W γ (labOf c1) ≤ Qdir W γ (labOf p.1)) ∧
    (∀ t : QType, Symm W → finetuneSign t W γ (fedBack c1) ds g0 = .ok out →
      ∀ p ∈ out.levels, Qsign t W γ (labOf c1) ≤ Qsign t W γ (labOf p.1)) ∧
    (∀ obj : Objective n, communityLouvain W γ obj (fedBack c1) ds g0 = .ok out →
      ∀ p ∈ out.levels, Qobj (objMatrixRaw W γ obj) (labOf c1) ≤ Qobj (objMatrixRaw W γ obj) (labOf p.1)) := by
  have hc : ∀ B : RMat n, Qobj B (fedBack c1) = Qobj B (labOf c1) :=
    fun B => Qobj_congr B _ _ (fedBack_congr c1)
  refine ⟨fun hW hs h p hp => ?_, fun hs h p hp => ?_, fun t hW h p hp => ?_, fun obj h p hp => ?_⟩
  · have := (finetune_und_monotone W γ (fedBack c1) ds out hW hs h p hp).1
    unfold Qund at this ⊢; rwa [hc] at this
  · have := (finetune_dir_monotone W γ (fedBack c1) ds out hs h p hp).1
    unfold Qdir at this ⊢; rwa [hc] at this
  · have := (finetune_sign_monotone t W γ (fedBack c1) ds out hW h p hp).1
    rw [Qsign_eq, Qsign_eq] at this ⊢; rwa [hc] at this
  · have := community_louvain_monotone W γ obj (fedBack c1) ds out h p hp
    rwa [hc] at this

/-! ### `modularity_louvain_dir`: the property is FALSE for the code as it is (open known finding D6)

`modularity_louvain_dir` keeps `knm_i = W.copy()` and never assigns `W = W1`; the model mirrors these
statements (the correspondence run reproduces bct's output on directed input), so no monotonicity theorem
exists for `louvainDir`.  **Partial**: full statement that fails —
  `∀ W γ ds out, 0 < total W → louvainDir W γ ds g0 = .ok out →
     (∀ p ∈ out.levels.drop 1, p.2 = Qdir W γ (labOf p.1) ∧ Qdir W γ id ≤ Qdir W γ (labOf p.1)) ∧ levels increasing`.
Its negation is proved on concrete witnesses (inputs and draws recorded from real bct runs). -/

/-- **modularity_louvain_dir, first level on symmetric input** — what is true of the as-written routine: on symmetric `W` the
first level's gains are exact (`knm_i = W.copy() = W.T`), so the first level is at least as good as the all-singletons start.
Together with `Bct.C02.louvain_dir_single_level`: the defect D6 cannot manifest on symmetric input in runs that keep at most one
level; it can on asymmetric input (wrong gains, `louvain_dir_defect_witness`) and from the second kept level on
(`louvain_dir_inconsistent_witness`). -/
theorem louvain_dir_level1_monotone_symm (W : RMat n) (γ : ℚ) (ds : List ℕ) (out : Out n)
    (hW : Symm W) (hs : 0 < total W) (h : louvainDir W γ ds g0 = .ok out) :
    ∀ p, out.levels[0]? = some p → Qdir W γ (id : Fin n → Fin n) ≤ Qdir W γ (labOf p.1) :=
  louvainDir_level1_monotone_symm W γ ds out hW hs h

/-- some returned level is strictly worse than the start -/
def worseThan {n : ℕ} (W : RMat n) (γ Q0 : ℚ) : Except Err (Out n) → Bool
  | .ok o => o.levels.any fun p => decide (Qdir W γ (labOf p.1) < Q0)
  | .error _ => false

/-- some level after level 0 reports a `q` that is not the modularity of its partition -/
def inconsistentLevel {n : ℕ} (W : RMat n) (γ : ℚ) : Except Err (Out n) → Bool
  | .ok o => (o.levels.drop 1).any fun p => decide (p.2 ≠ Qdir W γ (labOf p.1))
  | .error _ => false

theorem worseThan_spec {n : ℕ} (W : RMat n) (γ Q0 : ℚ) (r : Except Err (Out n)) (h : worseThan W γ Q0 r = true) :
    ∃ out, r = .ok out ∧ ∃ p ∈ out.levels, Qdir W γ (labOf p.1) < Q0 := by
  cases r with
  | error e => simp [worseThan] at h
  | ok o =>
    simp only [worseThan, List.any_eq_true, decide_eq_true_eq] at h
    exact ⟨o, rfl, h⟩

/-- witness matrices from their rows -/
def matOf {n : ℕ} (rows : List (List ℚ)) : RMat n := AMat.ofFn fun i j => (rows.getD i.val []).getD j.val 0
def Wm1 : RMat 4 := matOf [[0, 0, 3, 3], [0, 0, 0, 1], [1, 0, 0, 0], [0, 0, 0, 0]]
def cm1 : Fin 4 → ℤ := fun i => ([3, 3, 3, 1] : List ℤ).getD i.val 0
-- the input on which the un-repaired `modularity_finetune_dir` went from Q = 0 down to −7/32: now it is not worse
example : worseThan Wm1 1 (Qdir Wm1 1 cm1) (finetuneDir Wm1 1 cm1 [2, 3, 1, 0, 0, 2, 1, 3]) = false := by decide +kernel
example : (0 : ℚ) < total Wm1 := by decide +kernel
def Wd6 : RMat 3 := matOf [[0, 1, 0], [0, 0, 0], [1, 1, 0]]
def Wd6b : RMat 3 := matOf [[0, 0, 1], [3, 0, 3], [0, 3, 0]]

/-- **known finding D6 (witness, C07)** — `modularity_louvain_dir` as coded, on `W=[[0,1,0],[0,0,0],[1,1,0]]`,
`γ=5/4` (bct seed 628871178): a level is worse than the all-singletons start. -/
theorem louvain_dir_defect_witness :
    ∃ out, louvainDir Wd6 (5/4) [2, 0, 1, 1, 2, 0, 1, 0, 0, 1, 0, 0] = .ok out ∧
      ∃ p ∈ out.levels, Qdir Wd6 (5/4) (labOf p.1) < Qdir Wd6 (5/4) (id : Fin 3 → Fin 3) :=
  worseThan_spec _ _ _ _ (by decide +kernel)

/-- **known finding D6 (witness, C02)** — on `W=[[0,0,1],[3,0,3],[0,3,0]]`, `γ=3/4` (bct seed 1607589865) the
second hierarchy level reports `q = 93/400` while the modularity of its partition is `1/4`. -/
theorem louvain_dir_inconsistent_witness :
    inconsistentLevel Wd6b (3/4) (louvainDir Wd6b (3/4) [0, 2, 1, 1, 2, 0, 0, 1, 0, 1, 0, 0]) = true := by
  decide +kernel

/-! ### non-vacuity -/

def Wex : RMat 4 := AMat.ofFn fun i j => if (i.val + 1 = j.val) ∨ (j.val + 1 = i.val) then 1 else 0
def Dex : RMat 3 := AMat.ofFn fun i j => if i.val + 1 = j.val then 2 else if i.val = 2 ∧ j.val = 0 then 1 else 0
def moves {n : ℕ} : Except Err (Out n) → ℕ | .ok o => o.moves | .error _ => 0
def nlev {n : ℕ} : Except Err (Out n) → ℕ | .ok o => o.levels.length | .error _ => 0

example : Symm Wex := by unfold Symm; decide +kernel
example : (0 : ℚ) < total Wex := by decide +kernel
-- the runs below really move nodes / really produce a second level
example : moves (finetuneUnd Wex 1 (fun i => (i.val : ℤ)) [0, 1, 2, 3, 3, 2, 1, 0]) = 2 := by decide +kernel
def Ring10 : RMat 10 := AMat.ofFn fun i j => if (i.val + 1) % 10 = j.val ∨ (j.val + 1) % 10 = i.val then 1 else 0
example : Symm Ring10 := by unfold Symm; decide +kernel
-- a run with two genuine hierarchy levels (q = 3/10, then 17/50)
example : nlev (louvainUnd Ring10 1 [0, 1, 2, 3, 4, 5, 6, 7, 8, 9, 0, 1, 2, 3, 4, 5, 6, 7, 8, 9, 0, 1, 2, 3, 4, 0, 1, 2, 3, 4, 0, 1, 2, 0, 1, 2]) = 2 := by
  decide +kernel
example : moves (communityLouvain Dex 1 .modularity (fun i => (i.val : ℤ)) [0, 1, 2, 2, 1, 0, 0, 1, 0]) = 2 := by decide +kernel

/-- a directed 0/1 network and a directed signed network for the other built-in objectives -/
def Pex : RMat 4 := matOf [[0, 1, 1, 0], [0, 0, 1, 0], [1, 0, 0, 1], [0, 0, 1, 0]]
def Nex : RMat 4 := matOf [[0, 2, -1, 0], [1, 0, 0, -2], [-1, 3, 0, 1], [0, -1, 2, 0]]
example : (0 : ℚ) < total Pex ∧ total (posPart Pex) ≠ 0 := by decide +kernel
example : (0 : ℚ) < total Nex ∧ total (posPart Nex) ≠ 0 := by decide +kernel
-- `community_louvain_named_monotone`: runs with 'potts', 'negative_sym', 'negative_asym' on directed input that really move nodes
example : moves (communityLouvain Pex 1 .potts (fun _ => (0 : ℤ)) [0, 1, 2, 3, 3, 2, 1, 0, 0, 1, 2, 3, 0, 1, 0, 1, 0]) ≥ 1 := by decide +kernel
example : moves (communityLouvain Nex (3/4) .negSym (fun i => (i.val : ℤ)) [0, 1, 2, 3, 3, 2, 1, 0, 0, 1, 2, 3, 0, 1, 0, 1, 0]) ≥ 1 := by decide +kernel
example : moves (communityLouvain Nex (5/4) .negAsym (fun i => (i.val : ℤ)) [3, 1, 2, 0, 3, 2, 1, 0, 0, 1, 2, 3, 0, 1, 0, 1, 0]) ≥ 1 := by decide +kernel

def Sex : RMat 3 := AMat.ofFn fun i j => if i = j then 0 else if i.val + j.val = 1 then 2 else if i.val + j.val = 2 then -1 else 1
example : Symm Sex := by unfold Symm; decide +kernel
example : moves (finetuneSign .sta Sex (5/4) (fun _ => (0 : ℤ)) [0, 1, 2, 2, 1, 0, 1, 0, 2]) ≥ 1 := by decide +kernel
example : moves (louvainSign .gja Sex 1 [0, 1, 2, 2, 1, 0, 0, 1, 1, 0, 0]) ≥ 1 := by decide +kernel

end Bct.C07
