import BctVerif.Model.CoreIRLoc
import BctVerif.Props.CoresEff
/-!
# T-gen for the `if local:` branch of `efficiency_bin`: what the passed obligation implies

`link_efficiency_bin_local`: the entry `E[u]` that the interpreter computes is `LocalEff.effBinNode A u`, for every matrix and node.
-/
namespace Bct.Cores.Loc
open Bct Bct.Dist Bct.LocalEff Bct.CoreIR.Bin Bct.CoreIR.Eff Bct.CoreIR.Loc Bct.Cores.Bin Bct.Cores.Eff

variable {n : ℕ}

theorem allNum_numM {k : ℕ} (B : AMat ℕ k) : allNum (numM B) = true := by
  simp [allNum, isNum]

theorem allNum_invMat {k : ℕ} (Dr : AMat ℕ k) : allNum (invMat Dr) = true := by
  simp only [allNum, List.all_eq_true]
  intro p _
  simp only [invMat, AMat.get_ofFn]
  split
  · rfl
  · split <;> rfl

theorem qOf_invMat {k : ℕ} (Dr : AMat ℕ k) (a b : Fin k) : qOf ((invMat Dr).get a b) = invQ Dr (a, b) := by
  simp only [invMat, AMat.get_ofFn, invQ]
  split
  · simp [qOf]
  · split <;> simp [qOf]

/-- the sub-matrix of the binarised matrix, as naturals -/
def subN (B : AMat ℕ n) (Vs : List (Fin n)) : AMat ℕ Vs.length := AMat.ofFn fun a b => B.get (Vs.get a) (Vs.get b)

theorem subV_numM (B : AMat ℕ n) (Vs : List (Fin n)) : subV (numM B) Vs = numM (subN B Vs) := by
  apply AMat.ext_get; intro a b
  simp [subV, subN]

theorem binarize_sub (A : AMat ℚ n) (Vs : List (Fin n)) : binarize (subMat (Cluster.adj A) Vs) = subN (binarize A) Vs := by
  apply AMat.ext_get; intro a b
  simp only [binarize, subMat, subN, AMat.get_ofFn, Cluster.adj, map_get, Cluster.ind]
  by_cases h : A.get (Vs.get a) (Vs.get b) = 0 <;> simp [h]

theorem finiteInv_distOf {k : ℕ} (Dr : AMat ℕ k) : finiteInv (distOf Dr) = true := by
  simp only [finiteInv, List.all_eq_true, Bool.or_eq_true, decide_eq_true_eq]
  intro a _ b _
  by_cases hab : a = b
  · exact Or.inl hab
  · right
    simp only [distOf, AMat.get_ofFn, hab, if_false]
    split
    · simp
    · rename_i h0
      intro hc
      injection hc with hc
      exact h0 (by exact_mod_cast hc)

theorem invCell_distOf {k : ℕ} (Dr : AMat ℕ k) (a b : Fin k) : invCell (distOf Dr) a b = invQ Dr (a, b) := by
  simp only [invCell, distOf, AMat.get_ofFn, invQ]
  by_cases hab : a = b
  · simp [hab]
  · simp only [hab, if_false]
    by_cases h0 : Dr.get a b = 0 <;> simp [h0]

theorem node_spec (A : AMat ℚ n) (u : Fin n) (Gq : AMat ℚ n) (hGq : Gq = Cluster.adj A) :
    nodeLoc refLoc (fun k => k * k + 2) (numM (binarize A)) Gq u = effBinOn (Cluster.adj A) u := by
  subst hGq
  simp only [nodeLoc, effBinOn, subV_numM, show refLoc.inner = refInner from rfl, inner_spec, distBin, binarize_sub]
  cases hb : binRaw (subN (binarize A) (nbrs (Cluster.adj A) u)) with
  | none => rfl
  | some Dr =>
    simp only [Option.map_some, allNum_invMat, Bool.not_true, Bool.false_eq_true, if_false, qOf_invMat]
    have hd : (AMat.ofFn fun i j => if i = j then Ext.fin 0 else if Dr.get i j = 0 then Ext.inf else Ext.fin (Dr.get i j : ℕ) :
        AMat Ext (nbrs (Cluster.adj A) u).length) = distOf Dr := rfl
    rw [hd]
    simp only [core, finiteInv_distOf, Bool.not_true, Bool.false_eq_true, if_false, invCell_distOf,
      show (refLoc.nd : ℚ) = 2 from by norm_num [refLoc], show (refLoc.tz : ℚ) = 0 from by norm_num [refLoc], show refLoc.dp = 2 from rfl, pow_two]

theorem Gq_adj (A : AMat ℚ n) : (AMat.ofFn fun i j => qOf ((numM (binarize A)).get i j) : AMat ℚ n) = Cluster.adj A := by
  apply AMat.ext_get; intro i j
  simp only [AMat.get_ofFn, numM_get, qOf, binarize, Cluster.adj, map_get, Cluster.ind]
  by_cases h : A.get i j = 0 <;> simp [h]

/-- **The `if local:` branch of `efficiency_bin`.** -/
theorem link_efficiency_bin_local (ir : LocIR) (hok : locOk ir = true) (A : AMat ℚ n) (u : Fin n) :
    runLoc ir (fun k => k * k + 2) (embA A) u = effBinNode A u := by
  have hir : ir = refLoc := by simpa [locOk] using hok
  subst hir
  have hpre : ∃ E1, execs refLoc.pre ({ mat := fun y => if y = "G" then some (embA A) else none, sc := fun _ => none } : Env n) = some E1 ∧
      E1.mat "G" = some (numM (binarize A)) := by
    refine ⟨?E1, ?h1, ?h2⟩
    case h1 =>
      simp [refLoc, execs, exec]
      rfl
    case h2 =>
      simp only [if_true, Option.some.injEq]
      apply AMat.ext_get; intro i j
      simp [eval, embA, V.bin, binarize]
  obtain ⟨E1, e1, hG⟩ := hpre
  have hc : refLoc.coherent "G" "local" = true := by decide
  simp only [runLoc, show refLoc.params = ["G", "local"] from rfl, hc, if_true, e1, hG, allNum_numM, Bool.not_true, Bool.false_eq_true, if_false,
    effBinNode]
  exact node_spec A u _ (Gq_adj A)

example : locOk refLoc = true := by decide
/-- `np.sum(sa)**2 + np.sum(sa * sa)` cannot be expressed; `/ 4` in the numerator is rejected -/
example : locOk { refLoc with nd := 4 } = false := by decide
/-- `sa = G[u, V] + G[u, V]` (the in-neighbours forgotten) is rejected -/
example : locOk { refLoc with sav2 := "u", sau2 := "V" } = false := by decide
end Bct.Cores.Loc
