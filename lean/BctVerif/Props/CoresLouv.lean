import Mathlib.Tactic.Ring
import Mathlib.Tactic.Linarith
import Mathlib.Data.List.Basic
import BctVerif.Model.CoreIRLouv
/-!
# T-gen for the node-moving pass of the Louvain routines: what the passed obligations imply

`link_init_und`, `link_pass_und` (and the `_dir` versions): for the extracted statements, the interpreter of `Model/CoreIRLouv.lean`
computes `Modularity.undInitLevel` / one `Modularity.pass (undKern n) n` in plain replay mode (`guide = none`): the same bookkeeping
arrays, the same labels and the same "some node moved" flag, for every matrix, resolution, total weight `s ≠ 0` and visiting order.
-/
namespace Bct.Cores.Louv
open Bct Bct.Modularity Bct.CoreIR.Louv

variable {n : ℕ}

/-- the interpreter's environment holds the undirected bookkeeping -/
def embU (st : UndSt n) (m : Lab n) : Env n :=
  { mats := [("W", st.W), ("Knm", st.Knm)], vecs := [("k", st.k), ("Km", st.Km)], lab := m, s := st.s, γ := st.γ }

theorem link_init_und (ir : SweepIR) (hok : sweepOk refUnd ir = true) (W : RMat n) (s γ : ℚ) :
    runInit ir W s γ = some (embU (undInitLevel W s γ) (idLab n)) := by
  have e : ir = refUnd := by simpa [sweepOk] using hok
  subst e
  have hco : refUnd.coherent = true := by decide
  unfold runInit
  rw [hco]
  simp [refUnd, SweepIR.wName, embU, undInitLevel, List.lookup]

theorem argmax_ofFn (g : Fin n → ℚ) (lim : ℕ) : argmaxFirst (fun t : Fin n => (Vector.ofFn g)[t]) lim = argmaxFirst g lim := by
  congr 1
  funext t
  simp

theorem colAdd_seq (M : RMat n) (col : Fin n → ℚ) (ma mb : Fin n) :
    (AMat.ofFn fun r t => if t = ma then (if t = mb then M.get r t + col r else M.get r t) - col r
        else if t = mb then M.get r t + col r else M.get r t) = colAdd M col ma mb := by
  apply AMat.ext_get; intro r t
  simp only [AMat.get_ofFn, colAdd]
  split_ifs <;> ring

theorem vecAdd_seq (V : RVec n) (x : ℚ) (ma mb : Fin n) :
    (Vector.ofFn fun t : Fin n => if t = ma then (if t = mb then V[t.val] + x else V[t.val]) - x
        else if t = mb then V[t.val] + x else V[t.val]) = vecAdd V x ma mb := by
  apply Vector.ext; intro t ht
  simp only [Vector.getElem_ofFn, vecAdd, Fin.getElem_fin]
  split_ifs <;> ring

theorem cols_und (st : UndSt n) (m : Lab n) (u ma mb : Fin n) :
    foldOpt (applyCol refUnd u ma mb) refUnd.cols (embU st m) =
      some (embU { st with Knm := colAdd st.Knm (fun i => st.W.get i u) ma mb } m) := by
  simp [refUnd, foldOpt, applyCol, Env.mat, embU, List.lookup, setKey]
  exact colAdd_seq st.Knm (fun i => st.W.get i u) ma mb

theorem vecs_und (st : UndSt n) (m : Lab n) (u ma mb : Fin n) :
    foldOpt (applyVec refUnd u ma mb) refUnd.vecs (embU st m) =
      some (embU { st with Km := vecAdd st.Km st.k[u] ma mb } m) := by
  simp [refUnd, foldOpt, applyVec, Env.vec, embU, List.lookup, setKey]
  exact vecAdd_seq st.Km st.k[u] ma mb

theorem thr_eq : ((1 : ℕ) : ℚ) / ((10000000000 : ℕ) : ℚ) = thr := by simp [thr]

theorem visit_und (x : PSt (UndSt n) n) (hg : x.g.guide = none) (hs : x.st.s ≠ 0) (u : Fin n) :
    runVisit refUnd (embU x.st x.m) u =
      some (embU (visit (undKern n) n x u).1.st (visit (undKern n) n x u).1.m, (visit (undKern n) n x u).2) := by
  have hco : refUnd.coherent = true := by decide
  unfold runVisit
  rw [hco]
  have hs' : ¬ (embU x.st x.m).s = 0 := hs
  simp only [Bool.not_true, Bool.false_or, hs', decide_false, Bool.false_eq_true, if_false]
  have hgain : evalGain refUnd (embU x.st x.m) u (embU x.st x.m).lab[u] = some (fun c => (undKern n).dq x.st u x.m[u] c) := by
    simp [evalGain, refUnd, evalTerm, refTermU, Env.mat, Env.vec, embU, List.lookup, undKern]
  simp only [hgain]
  have hdq : (fun c => if c = (embU x.st x.m).lab[u] then (((refUnd.zv : ℕ) : ℚ)) else (undKern n).dq x.st u x.m[u] c) =
      gainVec (undKern n) x.st u x.m[u] := by
    funext c; simp [gainVec, refUnd, embU]
  rw [hdq]
  simp only [visit, choose, chooseWith, hg, argmax_ofFn]
  cases ha : argmaxFirst (gainVec (undKern n) x.st u x.m[u]) n with
  | none => simp
  | some r =>
    obtain ⟨mb, mx⟩ := r
    simp only [show (refUnd.thrNum : ℚ) / (refUnd.thrDen : ℚ) = thr from thr_eq]
    by_cases ht : thr < mx
    · simp only [ht, if_true]
      have hlab : (embU x.st x.m).lab[u] = x.m[u] := rfl
      rw [hlab, cols_und]
      simp only []
      rw [vecs_und]
      rfl
    · simp only [ht, if_false]

/-- `Modularity.pass` started with a given flag -/
def passFrom {σ : Type} (K : Kern σ n) (x : PSt σ n) (fl : Bool) (us : List (Fin n)) : PSt σ n × Bool :=
  us.foldl (fun acc u => let r := visit K n acc.1 u; (r.1, acc.2 || r.2)) (x, fl)

theorem choose_guide {σ : Type} (K : Kern σ n) (x : PSt σ n) (hg : x.g.guide = none) (u : Fin n) :
    (choose K n x u).2.guide = none := by
  simp only [choose, chooseWith, hg]
  cases argmaxFirst (fun t : Fin n => (Vector.ofFn (gainVec K x.st u x.m[u]))[t]) n with
  | none => exact hg
  | some r =>
    obtain ⟨a, b⟩ := r
    simp only []
    split <;> exact hg

theorem visit_guide {σ : Type} (K : Kern σ n) (x : PSt σ n) (hg : x.g.guide = none) (u : Fin n) :
    (visit K n x u).1.g.guide = none := by
  have h := choose_guide K x hg u
  unfold visit
  cases hc : choose K n x u with
  | mk o g =>
    rw [hc] at h
    cases o <;> exact h

/-- a sweep is the fold of the visits -/
theorem pass_of_visit {σ : Type} (K : Kern σ n) (ir : SweepIR) (emb : σ → Lab n → Env n) (good : σ → Prop)
    (hv : ∀ (x : PSt σ n), x.g.guide = none → good x.st → ∀ u,
      runVisit ir (emb x.st x.m) u = some (emb (visit K n x u).1.st (visit K n x u).1.m, (visit K n x u).2) ∧ good (visit K n x u).1.st)
    (us : List (Fin n)) (x : PSt σ n) (fl : Bool) (hg : x.g.guide = none) (hs : good x.st) :
    runPass ir us (emb x.st x.m, fl) = some (emb (passFrom K x fl us).1.st (passFrom K x fl us).1.m, (passFrom K x fl us).2) := by
  induction us generalizing x fl with
  | nil => simp only [runPass, foldOpt, passFrom, List.foldl_nil]
  | cons u us ih =>
    obtain ⟨h1, h2⟩ := hv x hg hs u
    have := ih (visit K n x u).1 (fl || (visit K n x u).2) (visit_guide K x hg u) h2
    simp only [runPass, foldOpt, h1, Option.map_some] at this ⊢
    rw [this]
    simp only [passFrom, List.foldl_cons]

theorem und_good (x : PSt (UndSt n) n) (hs : x.st.s ≠ 0) (u : Fin n) : (visit (undKern n) n x u).1.st.s ≠ 0 := by
  simp only [visit]
  split <;> simpa [undKern] using hs

/-- **The node-moving sweep of `modularity_louvain_und`** in the visiting order `us` is `Modularity.pass (undKern n) n` (plain replay). -/
theorem link_pass_und (ir : SweepIR) (hok : sweepOk refUnd ir = true) (x : PSt (UndSt n) n) (hg : x.g.guide = none) (hs : x.st.s ≠ 0)
    (us : List (Fin n)) :
    runPass ir us (embU x.st x.m, false) =
      some (embU (pass (undKern n) n x us).1.st (pass (undKern n) n x us).1.m, (pass (undKern n) n x us).2) := by
  have e : ir = refUnd := by simpa [sweepOk] using hok
  subst e
  exact pass_of_visit (undKern n) refUnd embU (fun st => st.s ≠ 0)
    (fun x hg hs u => ⟨visit_und x hg hs u, und_good x hs u⟩) us x false hg hs

/-! ## the directed routine -/

def embD (st : DirSt n) (m : Lab n) : Env n :=
  { mats := [("W", st.W), ("knm_o", st.knmo), ("knm_i", st.knmi)],
    vecs := [("k_o", st.ko), ("k_i", st.ki), ("km_o", st.kmo), ("km_i", st.kmi)], lab := m, s := st.s, γ := st.γ }

theorem link_init_dir (ir : SweepIR) (hok : sweepOk refDir ir = true) (W : RMat n) (s γ : ℚ) :
    runInit ir W s γ = some (embD (dirInitLevel W s γ) (idLab n)) := by
  have e : ir = refDir := by simpa [sweepOk] using hok
  subst e
  have hco : refDir.coherent = true := by decide
  unfold runInit
  rw [hco]
  simp [refDir, refUnd, SweepIR.wName, embD, dirInitLevel, List.lookup]

theorem cols_dir (st : DirSt n) (m : Lab n) (u ma mb : Fin n) :
    foldOpt (applyCol refDir u ma mb) refDir.cols (embD st m) =
      some (embD { st with knmo := colAdd st.knmo (fun i => st.W.get u i) ma mb, knmi := colAdd st.knmi (fun i => st.W.get i u) ma mb } m) := by
  simp [refDir, refUnd, foldOpt, applyCol, Env.mat, embD, List.lookup, setKey]
  exact ⟨colAdd_seq st.knmo (fun i => st.W.get u i) ma mb, colAdd_seq st.knmi (fun i => st.W.get i u) ma mb⟩

theorem vecs_dir (st : DirSt n) (m : Lab n) (u ma mb : Fin n) :
    foldOpt (applyVec refDir u ma mb) refDir.vecs (embD st m) =
      some (embD { st with kmo := vecAdd st.kmo st.ko[u] ma mb, kmi := vecAdd st.kmi st.ki[u] ma mb } m) := by
  simp [refDir, refUnd, foldOpt, applyVec, Env.vec, embD, List.lookup, setKey]
  exact ⟨vecAdd_seq st.kmo st.ko[u] ma mb, vecAdd_seq st.kmi st.ki[u] ma mb⟩

theorem visit_dir (x : PSt (DirSt n) n) (hg : x.g.guide = none) (hs : x.st.s ≠ 0) (u : Fin n) :
    runVisit refDir (embD x.st x.m) u =
      some (embD (visit (dirKern n) n x u).1.st (visit (dirKern n) n x u).1.m, (visit (dirKern n) n x u).2) := by
  have hco : refDir.coherent = true := by decide
  unfold runVisit
  rw [hco]
  have hs' : ¬ (embD x.st x.m).s = 0 := hs
  simp only [Bool.not_true, Bool.false_or, hs', decide_false, Bool.false_eq_true, if_false]
  have hgain : evalGain refDir (embD x.st x.m) u (embD x.st x.m).lab[u] = some (fun c => (dirKern n).dq x.st u x.m[u] c) := by
    simp [evalGain, refDir, refUnd, evalTerm, refTermO, refTermI, Env.mat, Env.vec, embD, List.lookup, dirKern]
  simp only [hgain]
  have hdq : (fun c => if c = (embD x.st x.m).lab[u] then (((refDir.zv : ℕ) : ℚ)) else (dirKern n).dq x.st u x.m[u] c) =
      gainVec (dirKern n) x.st u x.m[u] := by
    funext c; simp [gainVec, refDir, refUnd, embD]
  rw [hdq]
  simp only [visit, choose, chooseWith, hg, argmax_ofFn]
  cases ha : argmaxFirst (gainVec (dirKern n) x.st u x.m[u]) n with
  | none => simp
  | some r =>
    obtain ⟨mb, mx⟩ := r
    simp only [show (refDir.thrNum : ℚ) / (refDir.thrDen : ℚ) = thr from thr_eq]
    by_cases ht : thr < mx
    · simp only [ht, if_true]
      have hlab : (embD x.st x.m).lab[u] = x.m[u] := rfl
      rw [hlab, cols_dir]
      simp only []
      rw [vecs_dir]
      rfl
    · simp only [ht, if_false]

theorem dir_good (x : PSt (DirSt n) n) (hs : x.st.s ≠ 0) (u : Fin n) : (visit (dirKern n) n x u).1.st.s ≠ 0 := by
  simp only [visit]
  split <;> simpa [dirKern] using hs

/-- **The node-moving sweep of `modularity_louvain_dir`** in the visiting order `us` is `Modularity.pass (dirKern n) n` (plain replay). -/
theorem link_pass_dir (ir : SweepIR) (hok : sweepOk refDir ir = true) (x : PSt (DirSt n) n) (hg : x.g.guide = none) (hs : x.st.s ≠ 0)
    (us : List (Fin n)) :
    runPass ir us (embD x.st x.m, false) =
      some (embD (pass (dirKern n) n x us).1.st (pass (dirKern n) n x us).1.m, (pass (dirKern n) n x us).2) := by
  have e : ir = refDir := by simpa [sweepOk] using hok
  subst e
  exact pass_of_visit (dirKern n) refDir embD (fun st => st.s ≠ 0)
    (fun x hg hs u => ⟨visit_dir x hg hs u, dir_good x hs u⟩) us x false hg hs

example : sweepOk refUnd refUnd = true := by decide
example : sweepOk refDir refDir = true := by decide
/-- `np.argmin` cannot be expressed; the threshold `1e-9` is rejected -/
example : sweepOk refUnd { refUnd with thrDen := 1000000000 } = false := by decide
/-- `Km[j] -= k[i]` (sign exchanged) is rejected -/
example : sweepOk refUnd { refUnd with vecs := [{ vec := "Km", c := "j", plus := false, src := "k", si := "i" }, { vec := "Km", c := "ma", plus := true, src := "k", si := "i" }] } = false := by decide
end Bct.Cores.Louv
